(* Lex/Model.v — executable definitions of group Lex: the Go literal grammar (GoLit) and Ego's
   treatment of literal token texts (EgoLit). No proofs. *)
From Lex Require Export GoLit EgoLit.
