"""C40 No request can crash a handler (router last-resort recovery never fires)."""
import json
import os
import re
import time
from concurrent.futures import ThreadPoolExecutor

import vf

GROUP = "NoPanicReq"
META = {
    "group": "NoPanicReq",
    "technique": "Coq proofs that the parsers of request pieces (paging, URL parts, Accept, Authorization, permission lists, table "
                 "name parts) never reach Go's explicit Panic outcome + vm_compute correspondence with the real functions + a go/ast "
                 "shape obligation on the modelled functions + every route of the real route table driven with generated malformed "
                 "requests through the real ServeHTTP with the router's panic recovery made observable",
    "text": "Theorems C40_paging_no_panic (validatePaging followed by the list handlers' items[start:][:limit] for every query and "
            "collection), C40_parts_map_no_panic, C40_accept_first_no_panic, C40_bearer_token_no_panic, C40_cluster_token_no_panic, "
            "C40_grant_flags_no_panic (validPermissions + the GrantPermissions loop for every list of strings), "
            "C40_user_perms_no_panic (UpdateUserHandler's permission validation loop) and C40_name_parts_no_panic are proved for all inputs over models in which every Go index and slice can answer Panic; "
            "C40_grant_flags_old_refuted keeps the repaired defect (body [\"\"]), C40_page_slice_unvalidated_refuted documents that "
            "the slicing relies on the validation; the Range header parser is C39_no_panic (coq/Assets). The kernels are compared "
            "with the real functions every run and the guarded index expressions of the modelled functions are re-read from the "
            "source (go/ast) and must be among those the model assumes. partial: all other handler code is only observed: each of "
            "the routes of the real table x generated requests (odd methods, malformed/encoded paths, duplicate and malformed query "
            "parameters, Range/Accept/Authorization/Content-Type variants, invalid/truncated/wrongly typed JSON bodies, as admin, "
            "user and unauthenticated; Range headers on real asset files; structured row payloads with case-varied reserved keys, nulls "
            "and nested values on a real SQLite table) through ServeHTTP on httptest with reportRequestPanic instrumented; service routes loaded "
            "from lib/services, OAuth/WebAuthn flows beyond their first request and real network I/O are not covered",
    "note": "Trusted: Coq kernel; hand-written kernel models (tied by the correspondence run and the site obligation); harness/C40 "
            "(overlays, instrumented serve.go), harness/C32 route dumper, harness/C07/sitedump; net/url, strings.Split/SplitN, "
            "strconv.Atoi as transliterated (ASCII fragment).",
}
THEOREMS = ["C40_paging_no_panic", "C40_page_slice_unvalidated_refuted", "C40_parts_map_no_panic", "C40_accept_first_no_panic",
            "C40_bearer_token_no_panic", "C40_cluster_token_no_panic", "C40_grant_flags_no_panic", "C40_grant_flags_old_refuted",
            "C40_name_parts_no_panic", "C40_user_perms_no_panic", "C40_user_perms_early_trim_refuted"]
SITE_ARGS = ["internal/router/serve.go:validatePaging,partsMap,requestWantsBrowserHTML,parmMap", "internal/router/auth.go:Authenticate",
             "internal/server/cluster/auth.go:ValidateClusterToken", "internal/server/admin/users/list.go:ListUsersHandler",
             "internal/server/admin/tokens.go:TokenListHandler", "internal/server/dsns/handler.go:ListDSNHandler",
             "internal/server/tables/security.go:validPermissions,GrantPermissions",
             "internal/server/tables/describe.go:getPostgresColumnMetadata,getSqliteColumnMetadata",
             "internal/server/tables/parsing/parsing.go:TableNameParts", "internal/server/admin/users/update.go:UpdateUserHandler"]
ANCHOR = "func reportRequestPanic(w http.ResponseWriter, r *http.Request, sessionID int, panicValue any) {\n"
PERMS = ["ego.table.read", "ego.table.write", "ego.table.admin", "ego.table.update", "ego.table.delete"]
MEDIA = ["application/json", "*/*", "text/html", "application/text", "application/vnd.ego.rows+json", "application/vnd.ego.sql+json",
         "application/vnd.ego.user+json", "application/vnd.ego.dsn+json", "application/vnd.ego.config+json", "application/vnd.ego.tables+json",
         "application/vnd.ego.columns+json", "application/vnd.ego.rows.abstract+json", "application/vnd.ego.transaction+json",
         "application/vnd.ego.users+json", "application/vnd.ego.dsns+json", "application/vnd.ego.logon+json", "application/vnd.ego.cache+json",
         "application/vnd.ego.config.values+json", "application/vnd.ego.error+json", "text/html;q=0.9,*/*;q=0.1", ";", ",,;=", "a/b;c;d", ""]
QNAMES = ["start", "limit", "user", "order-by", "grace", "tail", "session", "keep", "columns", "filter", "sort", "rowids", "abstract", "count",
          "transaction", "expires", "id", "permissions", "name", "refresh", "tables", "since", "until", "archive", "server", "message", "upsert",
          "file", "status", "class", "x"]
QVALS = ["", "-1", "0", "1", "2", "abc", "99999999999999999999", "-9223372036854775809", "1e3", "0x10", " 5", "5 ", "true", "false", "a,b,,c",
         "%zz", "%00", "%2F", "'", "\"", ";drop table x", "EQ(a,1)", "EQ(", ")))", "a" * 300, "é", "..", "*", "1h", "-1h", "1d", "2006-01-02"]
VARS = ["x", "1", "d1", "t1", "admin", "bob", "..", "%25zz", "%2F", "%00", "a.b", "a.b.c", "\"q\"", ".", "a%20b", "é", "A" * 200, "@sql", "-",
        "00000000-0000-0000-0000-000000000000", "x;y", "{{x}}"]
BODIES = [b"", b"{", b"}", b"[]", b"[\"\"]", b"[\"\", \"ego.table.read\"]", b"[\"+\", \"-\"]", b"[\" \"]", b"[1,2]", b"{}", b"null", b"\"s\"", b"123",
          b"[" * 200, b"{\"a\":" * 100, b"1e999", b"[{}]", b"[[]]", b"[null]", b"{\"name\":5}", b"{\"name\":\"\",\"permissions\":[\"\",\"+\",\" \"]}",
          b"{\"name\":\"u1\",\"password\":\"p\",\"permissions\":[\"ego.logon\",\"\"]}", b"{\"username\":\"admin\",\"password\":5}",
          b"{\"username\":\"\",\"password\":\"\"}", b"{\"code\":\"fmt.Println(1)\"}", b"{\"code\":5}", b"{\"code\":\"@test \\\"\\\"\"}",
          b"{\"code\":\"x := [1]; x[5]\",\"session\":\"zz\"}", b"{\"code\":\"}\",\"debug\":true}", b"{\"text\":\"x := 1\"}", b"{\"text\":5}",
          b"[{\"name\":\"a\",\"type\":\"int\"}]", b"[{\"name\":\"\",\"type\":\"\"}]", b"[{\"name\":5}]", b"[{\"a\":1},{\"a\":\"x\"},{}]", b"[{\"a\":null}]",
          b"{\"rows\":[{\"a\":1}],\"count\":1}", b"{\"rows\":null}", b"{\"rows\":5}", b"{\"rows\":[5]}", b"[\"select 1\"]", b"[\"\"]", b"\"select\"",
          b"[{\"operation\":\"insert\"}]", b"[{\"operation\":\"\",\"table\":\"\"}]", b"[{\"operation\":\"select\",\"table\":\"t1\",\"filters\":[\"EQ(\"]}]",
          b"[{\"operation\":\"update\",\"table\":\"t1\",\"data\":5}]", b"[{\"operation\":\"symbols\",\"data\":{\"a\":[1,{}]}}]", b"[{\"operation\":\"sql\",\"sql\":\"\"}]",
          b"{\"ego.x\":\"1\"}", b"{\"\":\"\"}", b"[\"ego.x\", \"\"]", b"{\"loggers\":{\"\":true}}", b"{\"loggers\":5}", b"{\"file\":5}",
          b"{\"name\":\"d9\",\"provider\":\"sqlite\",\"database\":\"\"}", b"{\"name\":\"\",\"provider\":\"zz\"}", b"{\"dsn\":\"d1\",\"user\":\"\",\"actions\":[\"\",\"+\",\"-\"]}",
          b"{\"dsn\":5}", b"{\"items\":[{\"dsn\":\"d1\",\"user\":\"bob\",\"actions\":[\"+read\",\"\"]}]}", b"\xff\xfe\x00", b"{\"a\":\"\\ud800\"}", b"{\"a\":1}{\"b\":2}",
          b"{\"id\":\"\"}", b"{\"tokens\":[\"\"]}", b"[\"\", null]", b"{\"prompt\":\"\"}", b"{\"name\":\"x\",\"columns\":null}"]
METHODS = ["GET", "POST", "PUT", "PATCH", "DELETE", "HEAD", "OPTIONS", "TRACE", "CONNECT", "get", "FOO", "G\u00c9T", "PROPFIND", "P" * 50]
CREDS = ["admin", "admin", "admin", "bearer-admin", "user", "bearer-user", "none", "badbasic", "bearer-junk"]
RANGES = ["bytes=0-", "bytes=5", "bytes=-", "bytes=1-0", "bytes=a-b", "bytes=9999999999999999999-", "bytes=0-0,1-1", "", "=", "bytes", "bytes=--1",
          "bytes=0-3", "bytes=5-100000", "bytes=100000-", "bytes=20-25", "bytes=19-19", "bytes=20-", "bytes=21-22", "bytes=100-200", "bytes=1-1",
          "bytes=4096-9223372036854775806", "bytes=9223372036854775807-9223372036854775807", "bytes=-5", "bytes=0-0", "bytes=7-3", "bytes=0-19,100-200",
          "bytes=100-200,0-1", "bytes= 1 - 2", "bytes=1-2-3", "bytes=0x1-0x2", "items=0-1"]
ASSET_FILES = ["style.css", "assets/style.css", "a.txt", "assets/a.txt", "assets/sub/one.txt", "sub/one.txt", "nofile.txt", "", "../users.db", "style.css/"]
ROWKEYS = ["a", "b", "a", "b", "_row_id_", "_ROW_ID_", "_Row_Id_", "_row_id_ ", "A", "B", "c", "", "a b", "rows", "count", "\u00e9"]
ROWVALS = [1, 2, "x", None, None, 1.5, True, [], {}, {"n": 1}, [1, 2], "", -1, 1e99, "y" * 300, "abc", 0, "1", 9223372036854775807]


def hx(b):
    return (b.encode("utf8", "surrogatepass") if isinstance(b, str) else b).hex()


def esc(v):
    return "".join(c if (c.isalnum() or c in "-._~%") and ord(c) < 128 else "".join("%%%02X" % b for b in c.encode("utf8")) for c in v)


def gen_requests(rng, routes, n_per_route, tmp, n_rows=0, assets=True, n_users=0):
    """routes: list of (endpoint, method). Returns list of request dicts; the first ones set up a DSN and a table."""
    J = {"Content-Type": ["application/json"], "Accept": ["application/json"]}
    UJ = {"Content-Type": ["application/vnd.ego.user+json"], "Accept": ["application/vnd.ego.user+json"]}
    reqs = [
        dict(method="POST", target="/dsns/", headers={"Content-Type": ["application/vnd.ego.dsn+json"], "Accept": ["application/vnd.ego.dsn+json"]},
             body=hx(json.dumps({"name": "d1", "provider": "sqlite", "database": os.path.join(tmp, "d1.db"), "rowid": True})), cred="admin", setup=1),
        dict(method="PUT", target="/dsns/d1/tables/t1", headers={"Content-Type": ["application/vnd.ego.columns+json"], "Accept": ["application/vnd.ego.sql+json", "application/json", "*/*"]},
             body=hx(json.dumps([{"name": "a", "type": "int"}, {"name": "b", "type": "string"}])), cred="admin", setup=1),
        dict(method="PUT", target="/dsns/d1/tables/t1/rows", headers={"Content-Type": ["application/vnd.ego.rows+json"], "Accept": ["application/vnd.ego.rowcount+json", "*/*"]},
             body=hx(json.dumps({"rows": [{"a": 1, "b": "x"}, {"a": 2, "b": "y"}], "count": 2})), cred="admin", setup=1),
        # regression: the repaired GrantPermissions defect and its neighbours
        dict(method="PUT", target="/dsns/d1/tables/t1/permissions", headers={}, body=hx('[""]'), cred="admin"),
        dict(method="PUT", target="/dsns/d1/tables/t1/permissions?user=bob", headers=J, body=hx('["", "ego.table.read", " ", "+"]'), cred="bearer-admin"),
        dict(method="PUT", target="/dsns/nodsn/tables/%25zz/rows", headers=J, body=hx('[{"a":1}]'), cred="admin"),
        dict(method="GET", target="/admin/users/?start=-1&limit=abc", headers={}, body="", cred="admin"),
        dict(method="GET", target="/admin/users/?start=1&start=2&limit=99999999999999999999", headers={}, body="", cred="admin"),
        dict(method="GET", target="/admin/users/?start=-1", headers={"Accept": ["application/vnd.ego.users+json"]}, body="", cred="admin"),
        dict(method="GET", target="/dsns/?start=-1", headers={"Accept": ["application/vnd.ego.dsns+json"]}, body="", cred="admin"),
        dict(method="GET", target="/admin/tokens/?start=-1", headers={"Accept": ["application/json"]}, body="", cred="admin"),
        dict(method="GET", target="/admin/users/?start=7&limit=1", headers={"Accept": ["application/vnd.ego.users+json"]}, body="", cred="admin"),
        dict(method="PATCH", target="/dsns/d1/tables/t1/rows", headers=J, body=hx('{"_ROW_ID_":null}'), cred="admin"),
        dict(method="PATCH", target="/dsns/d1/tables/t1/rows", headers={"Content-Type": ["application/vnd.ego.rows+json"], "Accept": ["application/vnd.ego.rowcount+json"]},
             body=hx('{"rows":[{"_Row_Id_":null,"b":"x"}],"count":1}'), cred="admin"),
        dict(method="PATCH", target="/dsns/d1/tables/t1/rows?filter=EQ(a,1)", headers=J, body=hx('{"_row_id_":null,"_ROW_ID_":null,"A":null}'), cred="bearer-admin"),
        dict(method="PUT", target="/dsns/d1/tables/t1/rows?upsert", headers=J, body=hx('{"_ROW_ID_":null,"a":1}'), cred="admin"),
        dict(method="PUT", target="/dsns/d1/tables/t1/rows", headers={"Content-Type": ["application/json"], "Accept": ["application/vnd.ego.rows.abstract+json"]},
             body=hx('{"columns":[{"name":"a","type":"int"}],"rows":[[1],[],[1,2,3]]}'), cred="admin"),
        dict(method="GET", target="/assets/style.css", headers={"Range": ["bytes=100-200"]}, body="", cred="none"),
        dict(method="HEAD", target="/assets/assets/a.txt", headers={"Range": ["bytes=21-22"]}, body="", cred="none"),
        dict(method="PATCH", target="/admin/users/bob", headers=UJ, body=hx('{"name":"bob","permissions":[" "]}'), cred="admin"),
        dict(method="PATCH", target="/admin/users/bob", headers=UJ, body=hx('{"name":"bob","permissions":["ego.logon","\\t"," +"," -x",""]}'), cred="bearer-admin"),
        dict(method="PATCH", target="/admin/users/bob", headers=UJ, body=hx('{"name":"bob","permissions":["+","-","+ ","\\n"]}'), cred="admin"),
        dict(method="GET", target="/dsns/nodsn/begin", headers={}, body="", cred="admin"),
        dict(method="GET", target="/dsns/d1/begin?expires=zz", headers={}, body="", cred="admin"),
        dict(method="GET", target="/assets/x.txt", headers={"Range": ["bytes=5"]}, body="", cred="none"),
        dict(method="GET", target="", headers={}, body="", cred="none"),
        dict(method="GET", target="/admin/users//", headers={"Authorization": ["Bearer"]}, body="", cred="none"),
        dict(method="GET", target="/ui", headers={"Accept": [";,;;q"]}, body="", cred="none"),
    ]
    nfixed = len(reqs)
    # ---- user routes: existing users, the body naming the same user, permission lists with blank / whitespace-only / sign-only entries
    upool = ["", " ", "\t", "  ", "\n", "+", "-", "+ ", " -", "ego.logon", " ego.logon", "ego.logon ", "+ego.logon", "-ego.root", "ego.nosuch", "logon", "+x", "-x", "x y",
             "ego.", "EGO.LOGON", "\u00a0", "+\t", "ego.server.admin", "ego.table.read,ego.table.write"]
    for _ in range(n_users):
        nm = rng.choice(["bob", "bob", "bob", "admin", "nosuch", "BOB", ""])
        body = {"name": nm if rng.random() < 0.85 else rng.choice(["bob", "x", ""]), "permissions": [rng.choice(upool) for _ in range(rng.choice([0, 1, 1, 2, 3, 5]))]}
        if rng.random() < 0.2:
            body["password"] = rng.choice(["", "p", " ", "x" * 300])
        if rng.random() < 0.1:
            body["permissions"] = rng.choice([None, "ego.logon", 5, [None], [5], {}])
        m = rng.choice(["PATCH"] * 7 + ["POST", "GET"])               # no DELETE: the users must stay for the rest of the sweep
        tgt = "/admin/users/" + ("" if m == "POST" else esc(nm))
        reqs.append(dict(method=m, target=tgt, headers={"Content-Type": [rng.choice(["application/vnd.ego.user+json"] * 3 + ["application/json"])],
                                                        "Accept": [rng.choice(["application/vnd.ego.user+json"] * 3 + ["application/json", "*/*"])]},
                         body=hx(json.dumps(body)), cred=rng.choice(["admin", "admin", "admin", "bearer-admin", "user"])))
    # ---- asset routes: real files x Range headers (both bounds explicit, start past EOF, reversed, huge, several ranges)
    for fn in (ASSET_FILES if assets else []):
        for rg in (RANGES if fn in ASSET_FILES[:5] else RANGES[11:17]):
            reqs.append(dict(method=rng.choice(["GET", "GET", "HEAD"]), target="/assets/" + fn, headers={"Range": [rg]}, body="", cred="none"))
    # ---- row routes on the real table d1.t1: structured payloads with case-varied reserved keys, nulls, nested values
    def row(rng):
        o = []
        for _ in range(rng.choice([0, 1, 1, 2, 2, 3, 4])):
            k2 = rng.choice(ROWKEYS)
            # reserved keys in odd spellings get the odd values (null, nested) half of the time
            o.append((k2, rng.choice([None, None, {}, [], ""]) if k2.strip().lower() == "_row_id_" and rng.random() < 0.5 else rng.choice(ROWVALS)))
        return "{" + ", ".join("%s: %s" % (json.dumps(k2), json.dumps(v)) for k2, v in o) + "}"       # duplicate keys are kept
    rowmedia = ["application/vnd.ego.rows+json", "application/json", "*/*", "application/vnd.ego.rowcount+json", "application/vnd.ego.rows.abstract+json"]
    for _ in range(n_rows):
        m = rng.choice(["PATCH", "PATCH", "PATCH", "PUT", "PUT", "DELETE", "GET"])
        form = rng.random()
        if form < 0.45:
            body = row(rng)
        elif form < 0.65:
            body = "[" + ", ".join(row(rng) for _ in range(rng.randint(0, 3))) + "]"
        elif form < 0.9:
            body = "{\"rows\": [" + ", ".join(row(rng) for _ in range(rng.randint(0, 3))) + "], \"count\": %d}" % rng.randint(-1, 3)
        else:
            body = json.dumps({"columns": [{"name": rng.choice(ROWKEYS), "type": rng.choice(["int", "string", "", "zz"])} for _ in range(rng.randint(0, 3))],
                               "rows": [[rng.choice(ROWVALS) for _ in range(rng.randint(0, 3))] for _ in range(rng.randint(0, 2))]})
        q = []
        for _ in range(rng.choice([0, 0, 0, 1, 1, 2])):
            q.append(rng.choice(["filter=EQ(a,1)", "filter=EQ(_row_id_,\"x\")", "filter=EQ(", "upsert", "upsert=a", "upsert=_ROW_ID_", "columns=a,b", "columns=_Row_Id_",
                                 "columns=", "sort=a", "sort=~b", "limit=1", "start=1", "abstract=true", "abstract", "count=true", "user=bob", "transaction=zz"]))
        tgt = rng.choice(["/dsns/d1/tables/t1/rows"] * 8 + ["/dsns/d1/tables/T1/rows", "/dsns/d1/tables/t1/rows/", "/dsns/d1/tables/nosuch/rows", "/dsns/D1/tables/t1/rows"])
        reqs.append(dict(method=m, target=tgt + ("?" + "&".join(q) if q else ""),
                         headers={"Content-Type": [rng.choice(rowmedia[:2] * 3 + rowmedia)], "Accept": [rng.choice(rowmedia)]}, body=hx(body),
                         cred=rng.choice(["admin", "admin", "admin", "bearer-admin", "user"])))
    for ep, method in routes:
        if "down" in ep or "shutdown" in ep:
            creds = ["none", "user", "badbasic", "bearer-junk", "bearer-user"]     # never stop the harness process
        else:
            creds = CREDS
        for _ in range(n_per_route):
            path = ep
            for var in re.findall(r"\{\{[^}]*\}\}", ep):
                real = {"{{dsn}}": "d1", "{{table}}": "t1", "{{name}}": "bob", "{{item...}}": "style.css"}.get(var)
                v = real if real and rng.random() < 0.6 else rng.choice(VARS[:6] * 3 + VARS)
                path = path.replace(var, v if v.startswith("%") else esc(v), 1)
            r = rng.random()
            if r < 0.1:
                path = path.rstrip("/") + rng.choice(["/", "//", "/extra/seg", "/%2e%2e/", "?", "/.", ";x=1"])
            elif r < 0.14:
                path = path.upper()
            elif r < 0.17:
                path = path[:max(1, len(path) // 2)]
            q = []
            for _ in range(rng.choice([0, 0, 1, 1, 2, 3, 5])):
                nm = rng.choice(QNAMES[:2] * 4 + QNAMES)
                v = rng.choice(QVALS)
                q.append(nm + ("" if rng.random() < 0.08 else "=" + (v if v.startswith("%") else esc(v))))
            if q:
                path += ("&" if "?" in path else "?") + "&".join(q) + rng.choice(["", "", "&", "&&=", "&="])
            m = method if rng.random() < 0.85 else rng.choice(METHODS)
            if m == "ANY" or m == "":
                m = rng.choice(METHODS[:5])
            hd = {}
            if rng.random() < 0.8:
                hd["Accept"] = [rng.choice(MEDIA[:3] * 3 + MEDIA)]
            if rng.random() < 0.7:
                hd["Content-Type"] = [rng.choice(MEDIA[:1] * 4 + MEDIA)]
            if "assets" in ep or rng.random() < 0.05:
                hd["Range"] = [rng.choice(RANGES)]
            if rng.random() < 0.05:
                hd["Accept-Language"] = [rng.choice(["", "xx", "fr;q=", "en-US,en;q=0.5", "," * 50])]
            if rng.random() < 0.05:
                hd["Authorization"] = [rng.choice(["", "Bearer", "Bearer ", "bearer  ", "BEARER x", "Basic", "Basic ", "Basic Og==", "Basic YWRtaW4=", "Token x", "\u212aearer x"])]
            body = rng.choice(BODIES) if m not in ("GET", "HEAD") or rng.random() < 0.2 else b""
            if body and rng.random() < 0.15:
                body = body[:rng.randint(0, len(body))]
            if m == "DELETE" and "/admin/users/" in path and re.search(r"/admin/users/(bob|admin)\b", path, re.I):
                path = re.sub(r"/admin/users/(bob|admin)", "/admin/users/ghost", path, flags=re.I)   # keep the two accounts alive
            reqs.append(dict(method=m, target=path, headers=hd, body=hx(body), cred=rng.choice(creds)))
    # the time budget may cut the tail off on a slow machine: spread the routes over the whole list
    head = reqs[:nfixed]
    tail = reqs[nfixed:]
    rng.shuffle(tail)
    reqs = head + tail
    for i, r in enumerate(reqs):
        r["id"] = i
    return reqs


def coq_str(s):
    return "[" + ";".join(str(b) for b in (s.encode("utf8") if isinstance(s, str) else s)) + "]%N"


def go_atoi(s):
    if re.fullmatch(r"[+-]?[0-9]+", s) and -(1 << 63) <= int(s) < (1 << 63):
        return int(s)
    return None


def zc(v):
    return "(%d)" % v if v < 0 else str(v)


PRELUDE = """From Common Require Import Base.
From NoPanicReq Require Import Model.
From Coq Require Import ZArith List Bool.
Import ListNotations.
Open Scope Z_scope.
Definition pagok (r : pv) (bad : bool) (s l : Z) : bool := match r with PBad => bad | POk s' l' => negb bad && (s' =? s) && (l' =? l) end.
Fixpoint ls_eqb (a b : list str) : bool := match a, b with [], [] => true | x :: a', y :: b' => str_eqb x y && ls_eqb a' b' | _, _ => false end.
Fixpoint join (l : list str) : str := match l with [] => [] | [x] => x | x :: r => x ++ [47%N] ++ join r end.
(* the real map as an association list (key, inl string | inr bool); the model's list must agree on every key (last write wins) *)
Fixpoint lookup (k : str) (m : list (str * part_val)) (acc : option part_val) : option part_val :=
  match m with [] => acc | (k', v) :: r => lookup k r (if str_eqb k k' then Some v else acc) end.
Definition pv_ok (v : option part_val) (w : str + bool) : bool :=
  match v, w with Some (PStr l), inl s => str_eqb (join l) s | Some (PBool b), inr b' => Bool.eqb b b' | _, _ => false end.
Definition partsok (r : res (list (str * part_val))) (panic : bool) (want : list (str * (str + bool))) : bool :=
  match r with Panic => panic | Ok m => negb panic && forallb (fun kw => pv_ok (lookup (fst kw) m None) (snd kw)) want
                                          && forallb (fun kv => existsb (fun kw => str_eqb (fst kw) (fst kv)) want) m end.
Definition known (names : list str) (s : str) : bool := existsb (str_eqb (map lower_byte s)) names.
Definition vpok (r : res bool) (cls : Z) : bool := match r with Panic => cls =? 0 | Ok false => cls =? 1 | Ok true => cls =? 2 end.
Definition nopanic {A} (r : res A) : bool := match r with Panic => false | Ok _ => true end.
Fixpoint falses (i : nat) (l : list bool) : list nat := match l with [] => [] | b :: r => (if b then [] else [i]) ++ falses (S i) r end.
"""


def build_all(ck):
    def sd():
        out = os.path.join(ck.work, "sitedump")
        env = vf.goenv({"GO111MODULE": "off"})
        env.pop("GOFLAGS", None)
        rc, log = vf.sh(["go", "build", "-o", out, "main.go"], cwd=os.path.join(vf.HARNESS, "C07", "sitedump"), env=env, timeout=600)
        return (rc == 0 and os.path.exists(out)), (out if rc == 0 else log)

    def routes_bin():
        src = open(os.path.join(vf.REPO, "internal/router/serve.go")).read()
        if src.count(ANCHOR) != 1:
            return False, "instrumenter: anchor 'func reportRequestPanic(...)' not found exactly once in internal/router/serve.go"
        w = os.path.join(ck.work, "routes.d")
        os.makedirs(w, exist_ok=True)
        instr = os.path.join(w, "serve_instr.go")
        with open(instr, "w") as f:
            f.write(src.replace(ANCHOR, ANCHOR + "\tverifC40Record(r, panicValue)\n"))
        return vf.go_test_build(w, "internal/commands", {
            "internal/commands/zz_verif_c40_test.go": os.path.join(vf.HARNESS, "C40", "c40_test.go"),
            "internal/commands/zz_verif_c32_table_test.go": os.path.join(vf.HARNESS, "C32", "table_test.go"),
            "internal/router/zz_verif_c32_dump.go": os.path.join(vf.HARNESS, "C32", "router_dump.go"),
            "internal/router/zz_verif_c40_hook.go": os.path.join(vf.HARNESS, "C40", "router_hook.go")}, "c40.test",
            replace={"internal/router/serve.go": instr})

    def kb(pkg, src, name):
        w = os.path.join(ck.work, name + ".d")
        return vf.go_test_build(w, pkg, {pkg + "/zz_verif_c40_kern_test.go": os.path.join(vf.HARNESS, "C40", src)}, name)

    vf.ensure_generated()
    with ThreadPoolExecutor(max_workers=4) as ex:
        fut = {"sitedump": ex.submit(sd), "routes": ex.submit(routes_bin),
               "kr": ex.submit(kb, "internal/router", "kern_router_test.go", "c40kr.test"),
               "kt": ex.submit(kb, "internal/server/tables", "kern_tables_test.go", "c40kt.test")}
        return {k: f.result() for k, f in fut.items()}


def site_obligation(ck, sitedump):
    rc, out = vf.sh([sitedump] + [os.path.join(vf.REPO, a) for a in SITE_ARGS], timeout=120)
    if rc != 0:
        return False, ["sitedump failed: " + out[-600:]]
    found = [l for l in out.split("\n") if l.strip()]
    ck.cov["sites_found"] = len(found)
    q = ";\n".join('  "%s"' % l.replace('"', '""') for l in found)
    text = ("From Coq Require Import String List Bool.\nFrom NoPanicReq Require Import Sites.\nImport ListNotations.\n"
            "Open Scope string_scope.\nDefinition found : list string := [\n%s\n].\n"
            "Example C40_sites_included : sites_included found modelled_sites = true.\nProof. vm_compute. reflexivity. Qed.\n" % q)
    rc, log = vf.coq_run(GROUP, ck.work, "sites_obl", text, timeout=300)
    ck.add_obligations(1, 1 if rc == 0 else 0)
    if rc == 0:
        return True, []
    known = set(re.findall(r'^\s*"(.*)";?\s*$', open(os.path.join(vf.COQ, GROUP, "Sites.v")).read().replace('""', '"'), re.M))
    return False, [l for l in found if l not in known] or ["obligation failed: " + log[-600:]]


def run_routes(ck, binp, reqs, budget_s):
    inp, outp = os.path.join(ck.work, "req_in.txt"), os.path.join(ck.work, "req_out.txt")
    with open(inp, "w") as f:
        for r in reqs:
            f.write(json.dumps(r) + "\n")
    tmp = os.path.join(ck.work, "srvroot")
    os.makedirs(tmp, exist_ok=True)
    env = vf.ego_env(ck.work)
    env.update({"VERIF_IN": inp, "VERIF_OUT": outp, "VERIF_TMP": tmp})
    results, deaths, tokens = {}, [], None
    skip, t0 = 0, time.time()
    while skip < len(reqs) and time.time() - t0 < budget_s:
        env["VERIF_SKIP_TO"] = str(skip)
        env["VERIF_BUDGET_S"] = str(int(max(5, budget_s - (time.time() - t0))))
        if os.path.exists(outp):
            os.remove(outp)
        rc, log = vf.run_bin(binp, "^TestVerifC40$", env, cwd=tmp, timeout=int(budget_s + 240))
        started = -1
        for line in open(outp) if os.path.exists(outp) else []:
            f = line.split()
            if f and f[0] == "T":
                tokens = (int(f[1]), int(f[2]))
            elif len(f) >= 2 and f[0] == "S":
                started = int(f[1])
            elif len(f) >= 4 and f[0] == "R":
                results[int(f[1])] = (int(f[2]), int(f[3]), bytes.fromhex(f[4]).decode("utf8", "replace") if f[4] != "-" else "",
                                      bytes.fromhex(f[5].rstrip("-")).decode("utf8", "replace") if len(f) > 5 else "")
        if started >= 0 and started not in results:
            if "test timed out" in log:            # the harness's own time limit: not an observation about the request
                break
            deaths.append((started, log[-3000:]))
            results[started] = (-9, 0, "", "")
        nxt = (max(results) + 1) if results else len(reqs)
        if nxt <= skip:
            if rc != 0:
                deaths.append((skip, log[-3000:]))
            break
        skip = nxt
    return results, deaths, tokens


def panic_site(detail):
    fr = detail.split(" @ ", 1)[1].split(" < ")[0].strip() if " @ " in detail else ""
    return fr or "unknown"


def run(ck):
    quick = ck.tier == "quick"
    rng = ck.rng
    ck.cov["rule"] = ("kernel correspondence: generated query values / endpoints and paths / permission lists compared with the model "
                      "(value, error, Go panic); observed search: every (endpoint, method) of the dumped real route table x generated "
                      "requests. distinct_nontrivial = distinct kernel cases with a non-error real outcome + distinct (route, status class) "
                      "pairs reached with a status other than 404/401/403")
    ck.assume("net/url never gives a present query key an empty value list; strings.Split/SplitN never return an empty slice (modelled split_on)",
              "strings.ToLower preserves the length of the 7 byte ASCII prefix it is compared on (bearer_token is modelled on bytes)",
              "Session.Start is only written by validatePaging (page_slice alone panics for a negative start: refuted witness)",
              "the Range header parser is covered by C39_no_panic in coq/Assets",
              "handlers outside the listed kernels are observed, not proved")
    ck.trusted("harness/C40/*.go (overlays; serve.go instrumented by text insertion at reportRequestPanic, loud failure when the anchor is missing)",
               "harness/C32/{table_test,router_dump}.go (route table dumper), harness/C07/sitedump (go/ast), props/C40.py generators and comparison")
    coq_ok = ck.coq_stage(GROUP, theorems=THEOREMS)
    built = build_all(ck)
    for k in ("routes", "kr", "kt", "sitedump"):
        if not built[k][0]:
            ck.violation("harness-build", "C40 harness %s does not build:\n%s" % (k, str(built[k][1])[-1500:]),
                         replay={"log": str(built[k][1])[-3000:]}, found_input=False)
            return
    replay = json.load(open(ck.replay_file))["replay"] if ck.replay_file else None
    shape_ok, missing = (True, [])
    if coq_ok:
        shape_ok, missing = site_obligation(ck, built["sitedump"][1])

    # ------------------------------------------------------------------ kernel correspondence
    nk = 150 if quick else 1500
    pag, parts, perms = [], [], []
    vals = ["", "0", "1", "5", "-1", "-0", "+3", "abc", "1000", "1001", "99999999999999999999", "9223372036854775807", "1.5", " 1", "0x1", "１"]
    for _ in range(nk):
        decl = rng.choice([[], ["start"], ["limit"], ["start", "limit"], ["start", "limit"], ["other"]])
        st = rng.choice([None, None, [rng.choice(vals)], [rng.choice(vals), rng.choice(vals)], []])
        li = rng.choice([None, None, [rng.choice(vals)], [rng.choice(vals), rng.choice(vals)], []])
        pag.append((decl, st, li))
    segs = ["t", "x", "{{n}}", "{{m}}", "{{g...}}", "", "a.b", "{{", "}}", "{{}}", "{{...}}", "é"]
    psegs = ["t", "x", "y", "", "a.b", "q?r", "?", "{{n}}", "é", "x y"]
    for _ in range(nk):
        ep = "/".join(rng.choice(segs) for _ in range(rng.randint(0, 4)))
        pa = "/".join(rng.choice(psegs) for _ in range(rng.randint(0, 5)))
        parts.append((rng.choice(["/", ""]) + ep + rng.choice(["", "/"]), rng.choice(["/", ""]) + pa + rng.choice(["", "/", "?a=b"])))
    pool = ["", " ", "+", "-", "+ ", "  +ego.table.read", "x", "ego.x"] + PERMS + ["+" + p for p in PERMS] + ["-" + p.upper() for p in PERMS] + [" " + PERMS[0] + "\t"]
    for _ in range(nk):
        perms.append([rng.choice(pool) for _ in range(rng.randint(0, 4))])
    kin, kout = os.path.join(ck.work, "kr_in.txt"), os.path.join(ck.work, "kr_out.txt")
    with open(kin, "w") as f:
        for d, s, l in pag:
            f.write(json.dumps({"op": "paging", "decl": d, "start": s, "limit": l}) + "\n")
        for e, p in parts:
            f.write(json.dumps({"op": "parts", "endpoint": e, "path": p}) + "\n")
        for _ in range(40):
            f.write(json.dumps({"op": "html", "accept": [rng.choice(MEDIA) + rng.choice(["", ",", ";q=1,", ","]) + rng.choice(MEDIA)]}) + "\n")
    tin, tout = os.path.join(ck.work, "kt_in.txt"), os.path.join(ck.work, "kt_out.txt")
    with open(tin, "w") as f:
        for p in perms:
            f.write(json.dumps({"perms": p}) + "\n")
    rc1, log1 = vf.run_bin(built["kr"][1], "^TestVerifC40Kern$", {"VERIF_IN": kin, "VERIF_OUT": kout})
    rc2, log2 = vf.run_bin(built["kt"][1], "^TestVerifC40Perms$", {"VERIF_IN": tin, "VERIF_OUT": tout})
    if rc1 != 0 or rc2 != 0:
        ck.violation("harness-run", "kernel harness failed:\n" + (log1 if rc1 else log2)[-1500:], replay={"log": (log1 + log2)[-3000:]}, found_input=False)
        return
    kres = [json.loads(l) for l in open(kout)]
    tres = [l.strip() for l in open(tout)]
    exprs, labels, nontriv = [], [], set()

    def optopt(v):
        if v is None or len(v) == 0:
            return "None"
        n = go_atoi(v[0])
        return "(Some None)" if n is None else "(Some (Some %s))" % zc(n)
    k = 0
    for d, s, l in pag:
        r = kres[k]
        k += 1
        lab = ("validatePaging", {"kernel": "paging", "decl": d, "start": s, "limit": l})
        if r["panic"]:
            ck.violation("kernel-gopanic:validatePaging", "validatePaging panicked", replay=lab[1])
            continue
        bad = r["status"] != 200
        if not bad and (r["start"] or r["limit"]):
            nontriv.add("p%s%s%s" % (d, s, l))
        exprs.append("pagok (validate_paging %s %s %s %s 0) %s %s %s && nopanic (paging [1;2;3] %s %s %s %s 0 0)" % (
            "true" if "start" in d else "false", "true" if "limit" in d else "false", optopt(s), optopt(l), "true" if bad else "false",
            zc(r.get("start", 0)), zc(r.get("limit", 0)),
            "true" if "start" in d else "false", "true" if "limit" in d else "false", optopt(s), optopt(l)))
        labels.append(lab)
    for e, p in parts:
        r = kres[k]
        k += 1
        lab = ("partsMap", {"kernel": "parts", "endpoint": e, "path": p})
        if r["panic"]:
            ck.violation("kernel-gopanic:partsMap", "partsMap panicked on endpoint %r path %r" % (e, p), replay=lab[1])
            continue
        want = "; ".join("(%s, %s)" % (coq_str(key), ("inr %s" % ("true" if v else "false")) if isinstance(v, bool) else "inl %s" % coq_str(v))
                         for key, v in sorted((r["m"] or {}).items()))
        if any(v for v in (r["m"] or {}).values()):
            nontriv.add("m%s|%s" % (e, p))
        exprs.append("partsok (parts_map %s %s) false [%s]" % (coq_str(e), coq_str(p), want))
        labels.append(lab)
    for _ in range(40):
        if kres[k]["panic"]:
            ck.violation("kernel-gopanic:requestWantsBrowserHTML", "requestWantsBrowserHTML panicked", replay={"kernel": "html", "index": k})
        k += 1
    for p, r in zip(perms, tres):
        lab = ("validPermissions", {"kernel": "perms", "perms": p})
        if r == "panic":
            ck.violation("kernel-gopanic:validPermissions", "validPermissions panicked on %r" % p, replay=lab[1])
        if r == "true" and any(x.strip() for x in p):
            nontriv.add("v%s" % p)
        cls = {"panic": 0, "false": 1, "true": 2}[r]
        lst = "[" + "; ".join(coq_str(x) for x in p) + "]"
        exprs.append("vpok (valid_permissions (known NAMES) %s) %d && nopanic (grant_flags true (known NAMES) %s)" % (lst, cls, lst))
        labels.append(lab)
    ck.cov["evaluations"] = len(exprs)
    ck.cov["input_distribution"] = {"validatePaging": len(pag), "partsMap": len(parts), "validPermissions": len(perms), "requestWantsBrowserHTML": 40}
    for lb in (labels[0], labels[len(pag)], labels[-1]):
        ck.sample(lb[1])
    if coq_ok:
        text = PRELUDE + "Definition NAMES : list str := [%s].\n" % "; ".join(coq_str(p) for p in PERMS)
        chunks = [exprs[i:i + 300] for i in range(0, len(exprs), 300)]
        ex = {"c%d" % ci: "falses 0 [\n" + ";\n".join(ch) + "]" for ci, ch in enumerate(chunks)}
        ok, res = vf.coq_eval(GROUP, ck.work, "cases", text, ex, timeout=900)
        if not ok:
            ck.violation("correspondence-eval", "model evaluation failed:\n" + str(res)[-1500:], replay={"log": str(res)[-3000:]}, found_input=False)
        else:
            bad = []
            for ci in range(len(chunks)):
                bad += [ci * 300 + i for i in res["c%d" % ci]]
            ck.cov["traces_validated_against_impl"] = len(exprs) - len(bad)
            seen = set()
            for i in bad:
                name, rp = labels[i]
                if name not in seen:
                    seen.add(name)
                    ck.violation("corr:" + name, "model and implementation disagree on %s: %s" % (name, json.dumps(rp)[:300]), replay=rp, found_input=False)

    # ------------------------------------------------------------------ every route x malformed requests
    rt_out = os.path.join(ck.work, "routes.txt")
    env = vf.ego_env(ck.work)
    env["VERIF_OUT"] = rt_out
    rc, log = vf.run_bin(built["routes"][1], "^TestVerifRouteTable$", env)
    routes = []
    if rc == 0 and os.path.exists(rt_out):
        for line in open(rt_out):
            f = line.split()
            if f and f[0] == "ROUTE":
                routes.append((bytes.fromhex(f[1]).decode(), f[2]))
    if len(routes) < 10:
        ck.violation("route-table", "the real route table could not be dumped (%d routes):\n%s" % (len(routes), log[-800:]), replay={"log": log[-3000:]}, found_input=False)
        return
    ck.cov["input_distribution"]["routes_in_real_table"] = len(routes)
    tmp = os.path.join(ck.work, "srvroot")
    if replay and "request" in replay:
        reqs = gen_requests(rng, [], 0, tmp, assets=False)[:3] + [dict(replay["request"], id=3)]
    else:
        reqs = gen_requests(rng, routes, 5 if quick else 100, tmp, n_rows=(150 if quick else 3000), n_users=(70 if quick else 1500))
    results, deaths, tokens = run_routes(ck, built["routes"][1], reqs, budget_s=(50 if quick else 800))
    if tokens is None or tokens[0] == 0:
        ck.notes.append("admin logon through /services/admin/logon gave no token (bearer-admin requests run unauthenticated)")
    status_hist, reached = {}, set()
    setup_ok = [results.get(i, (0,))[0] for i in range(3)]
    for i, (st, npan, detail, body) in results.items():
        status_hist[str(st)] = status_hist.get(str(st), 0) + 1
        rq = reqs[i]
        if st not in (404, 401, 403, -1) and st > 0:
            reached.add((rq["target"].split("?")[0][:40], st // 100))
        if npan > 0 or st == -3:
            site = panic_site(detail.split("\n")[0])
            ck.violation("handler-panic:" + site, "%s %s (cred %s) made a handler panic; the router's recovery answered %d: %s" % (
                rq["method"], rq["target"][:200], rq["cred"], st, detail[:300]),
                replay={"request": {k2: rq[k2] for k2 in ("method", "target", "headers", "body", "cred")}, "panic": detail[:600]})
    for i, log in deaths:
        if re.search(r"^(panic: |fatal error: |goroutine \d+ \[running\])", log, re.M):
            rq = reqs[i]
            ck.violation("process-died", "the server process died while serving %s %s:\n%s" % (rq["method"], rq["target"][:200], log[-500:]),
                         replay={"request": {k2: rq[k2] for k2 in ("method", "target", "headers", "body", "cred")}})
    for i, log in deaths:
        ck.notes.append("process ended without a Go panic while serving %s %s (cred %s); resumed after it" % (
            reqs[i]["method"], reqs[i]["target"][:120], reqs[i]["cred"]))
    ck.cov["evaluations"] += len(results)
    ck.cov["input_distribution"].update({"requests_planned": len(reqs), "asset_range_requests": 5 * len(RANGES) + 5 * 6, "row_payload_requests": 150 if quick else 3000, "user_update_requests": 70 if quick else 1500, "requests_done": len(results), "status_histogram": status_hist,
                                         "setup_statuses (dsn, table, rows)": setup_ok, "tokens (admin,user) lengths": tokens,
                                         "process_deaths": len(deaths)})
    ck.cov["distinct_nontrivial"] = len(nontriv) + len(reached)
    if len(reqs) > 4:
        ck.sample({"request": {k2: reqs[4][k2] for k2 in ("method", "target", "cred")}, "status": results.get(4, (None,))[0]})

    found = any(v["found_input"] for v in ck.viol)
    if not shape_ok and not found:
        ck.violation("shape-obligation", "the panic-capable sites of the modelled request parsers changed (generated obligation C40_sites_included "
                     "fails); new or re-guarded sites: %s. The kernel correspondence and the route sweep found no failing request" % "; ".join(missing)[:900],
                     replay={"obligation": "C40_sites_included", "sites": missing}, found_input=False)
    if getattr(ck, "coq_broken", None) and not found:
        grp, log = ck.coq_broken
        ck.violation("proof-broken", "Coq development %s no longer checks:\n%s" % (grp, log[-1200:]),
                     replay={"broken": "coq/%s" % grp, "log": log[-3000:]}, found_input=False)
