From SvcIso Require Import Model.
From Coq Require Import ZifyBool.
Open Scope N_scope.

Lemma name_eqb_refl n : name_eqb n n = true.
Proof. unfold name_eqb. rewrite Bool.eqb_reflx, N.eqb_refl. reflexivity. Qed.

Lemma name_eqb_eq a b : name_eqb a b = true -> a = b.
Proof.
  destruct a as [ra ia], b as [rb ib]. unfold name_eqb. cbn. intros H.
  apply andb_true_iff in H as [H1 H2]. apply Bool.eqb_prop in H1. apply N.eqb_eq in H2. subst. reflexivity.
Qed.

Lemma name_eqb_sym a b : name_eqb a b = name_eqb b a.
Proof. unfold name_eqb. rewrite N.eqb_sym. f_equal. destruct (ro a), (ro b); reflexivity. Qed.

Lemma get_set_same t n v : get (set_always t n v) n = Some v.
Proof.
  induction t as [|[k w] r IH]; cbn.
  - rewrite name_eqb_refl. reflexivity.
  - destruct (name_eqb k n) eqn:E; cbn; rewrite E; [reflexivity|exact IH].
Qed.

Lemma get_set_other t n m v : name_eqb n m = false -> get (set_always t n v) m = get t m.
Proof.
  intros H. induction t as [|[k w] r IH]; cbn.
  - rewrite H. reflexivity.
  - destruct (name_eqb k n) eqn:E; cbn.
    + apply name_eqb_eq in E. subst k. rewrite H. reflexivity.
    + destruct (name_eqb k m); [reflexivity|exact IH].
Qed.

(* storing a list of pairs with distinct keys: the last word for each listed key is its own value *)
Lemma get_set_all_in : forall l t n v, NoDup (map fst l) -> In (n, v) l -> get (set_all t l) n = Some v.
Proof.
  induction l as [|[k w] r IH]; intros t n v Hnd Hin; [contradiction|].
  cbn [map fst] in Hnd. inversion Hnd as [|? ? Hnot Hnd']; subst.
  unfold set_all. cbn [fold_left fst snd]. fold (set_all (set_always t k w) r).
  destruct Hin as [E|Hin].
  - inversion E; subst.
    assert (Hkeep : forall l t, ~ In n (map fst l) -> get (set_all t l) n = get t n).
    { clear. induction l as [|[k w] r IH]; intros t Hn; [reflexivity|].
      unfold set_all. cbn [fold_left fst snd]. fold (set_all (set_always t k w) r).
      rewrite IH by (intros H; apply Hn; right; exact H).
      apply get_set_other. destruct (name_eqb k n) eqn:E; [|reflexivity].
      apply name_eqb_eq in E. subst. exfalso. apply Hn. left. reflexivity. }
    rewrite Hkeep by exact Hnot. apply get_set_same.
  - apply IH; assumption.
Qed.

Lemma get_set_all_notin : forall l t n, ~ In n (map fst l) -> get (set_all t l) n = get t n.
Proof.
  induction l as [|[k w] r IH]; intros t n Hn; [reflexivity|].
  unfold set_all. cbn [fold_left fst snd]. fold (set_all (set_always t k w) r).
  rewrite IH by (intros H; apply Hn; right; exact H).
  apply get_set_other. destruct (name_eqb k n) eqn:E; [|reflexivity].
  apply name_eqb_eq in E. subst. exfalso. apply Hn. left. reflexivity.
Qed.

Lemma nodup_keys_spec l : nodup_keys l = true -> NoDup (map fst l).
Proof.
  induction l as [|[k v] r IH]; cbn; intros H; [constructor|].
  apply andb_true_iff in H as [H1 H2]. constructor; [|apply IH, H2].
  intros Hin. apply in_map_iff in Hin as ([k' v'] & E & Hin). cbn in E. subst k'.
  apply negb_true_iff in H1. assert (existsb (fun kv : N * value => fst kv =? k) r = true); [|congruence].
  apply existsb_exists. exists (k, v'). split; [exact Hin|cbn; apply N.eqb_refl].
Qed.

Lemma nodup_syms (b : bool) l : NoDup (map fst l) ->
  NoDup (map fst (map (fun kv : N * value => ({| ro := b; nid := fst kv |}, snd kv)) l)).
Proof.
  rewrite map_map. cbn [fst]. intros H. induction l as [|[k v] r IH]; cbn; [constructor|].
  cbn in H. inversion H as [|? ? Hnot Hnd]; subst. constructor; [|apply IH, Hnd].
  intros Hin. apply in_map_iff in Hin as ([k' v'] & E & Hin). cbn in E. inversion E; subst.
  apply Hnot. apply in_map_iff. exists (k, v'). split; [reflexivity|exact Hin].
Qed.

Lemma merge_keeps_ro t cache n : ro n = true -> get (merge t cache) n = get t n.
Proof.
  intros Hro. destruct cache as [s|]; [|reflexivity]. cbn [merge].
  apply get_set_all_notin. intros Hin. apply in_map_iff in Hin as ([k v] & E & Hin). cbn in E. subst k.
  apply filter_In in Hin as [_ Hf]. cbn in Hf. rewrite Hro in Hf. discriminate.
Qed.

Lemma part_not_ro r n v : In (n, v) (part_syms r) -> ro n = false.
Proof. unfold part_syms. intros H. apply in_map_iff in H as (kv & E & _). inversion E. reflexivity. Qed.
Lemma const_ro r n v : In (n, v) (const_syms r) -> ro n = true.
Proof. unfold const_syms. intros H. apply in_map_iff in H as (kv & E & _). inversion E. reflexivity. Qed.

Theorem own_values_seen : forall cache r n v, wf_request r = true -> In (n, v) (own r) -> get (seen cache r) n = Some v.
Proof.
  intros cache r n v Hwf Hin. unfold wf_request in Hwf. apply andb_true_iff in Hwf as [Hc Hp].
  apply nodup_keys_spec in Hc, Hp.
  pose proof (nodup_syms true _ Hc) as Hcn. pose proof (nodup_syms false _ Hp) as Hpn.
  fold (const_syms r) in Hcn. fold (part_syms r) in Hpn.
  unfold own in Hin. apply in_app_or in Hin as [Hin|Hin]; unfold seen.
  - (* read-only symbol: untouched by the URL values and by the merge *)
    pose proof (const_ro r n v Hin) as Hro.
    assert (Hnp : ~ In n (map fst (part_syms r))).
    { intros H. apply in_map_iff in H as ([k w] & E & H). cbn in E. subst k.
      rewrite (part_not_ro r n w H) in Hro. discriminate. }
    rewrite get_set_all_notin by exact Hnp. rewrite merge_keeps_ro by exact Hro.
    rewrite get_set_all_notin by exact Hnp. apply get_set_all_in; assumption.
  - apply get_set_all_in; assumption.
Qed.

Theorem ro_never_from_cache : forall cache r n, ro n = true -> get (seen cache r) n = get (seen None r) n.
Proof.
  intros cache r n Hro.
  assert (Hnp : ~ In n (map fst (part_syms r))).
  { intros H. apply in_map_iff in H as ([k w] & E & H). cbn in E. subst k.
    rewrite (part_not_ro r n w H) in Hro. discriminate. }
  unfold seen. rewrite !get_set_all_notin by exact Hnp. rewrite !merge_keeps_ro by exact Hro. reflexivity.
Qed.

Theorem old_refuted : exists cache r n v, wf_request r = true /\ In (n, v) (own r) /\ get (seen_old cache r) n <> Some v.
Proof.
  exists (Some [({| ro := false; nid := 1 |}, 7)]), {| consts := [(9, 3)]; parts := [(1, 8)] |},
         {| ro := false; nid := 1 |}, 8.
  split; [reflexivity|]. split; [right; left; reflexivity|]. vm_compute. discriminate.
Qed.
