"""C28 Server caches behave like bounded expiring maps (internal/caches)."""
import json
import os
import re
import vf

GROUP = "Cache"
PKG = "internal/caches"
THEOREMS = ["C28_find_latest", "C28_never_after_delete", "C28_never_after_purge", "C28_find_latest_complete",
            "C28_bounded", "C28_size_bounded", "C28_evict_once", "C28_lifetime_persists", "C28_holds",
            "C28_old_refuted"]
META = {
    "group": "Cache",
    "technique": "Coq proofs over an executable state-machine model of internal/caches (all histories of "
                 "add/find/delete/purge/purge-local/set-expiration/sweep/advance) + step-by-step vm_compute "
                 "correspondence with the real package in a synctest bubble + property oracle on the real outputs + "
                 "lock-discipline scan (go/ast) and linearizability check of concurrent batches against the model",
    "text": "For every history of cache operations over the model that the correspondence run compares with the real "
            "package after every step: C28_find_latest / C28_never_after_delete / C28_never_after_purge (a lookup returns "
            "only the value most recently stored under the key and nothing once it was deleted or purged), "
            "C28_find_latest_complete (it does return it while the entry was accepted and has not been idle longer than "
            "its lifetime at any sweep), C28_bounded (item count <= limit in every reachable state), C28_evict_once (an "
            "operation notifies the eviction listener exactly once, with the stored value, for exactly the entries it "
            "removes by deletion or expiry, and the entry is gone afterwards), C28_lifetime_persists (after "
            "SetExpiration(id,d) every later Add to id expires at now+d, across purges; refuted for the code before fix "
            "feca1387 by C28_old_refuted). Concurrency: operations are atomic because every access to the shared maps "
            "is inside a cacheLock critical section (checked syntactically on every run; the unlocked iteration in "
            "PurgeAll was repaired by 6a290021) and concurrent batches of the real operations are checked to be "
            "linearizable w.r.t. the model; the theorems quantify over all sequential histories, i.e. all linearizations. "
            "partial: atomicity of the operations is checked (lock scan + linearizability runs + crash stress), not "
            "proved; Active(), PurgeAll's own semantics and the background sweeper's schedule are outside the model "
            "(the sweeper only calls the modelled sweep)",
    "note": "Trusted: Coq kernel; hand-written model tied to the code by the per-step correspondence (results, listener "
            "calls, full cache state incl. expiry times); Go testing/synctest virtual clock; harness/C28/c28_test.go; "
            "props/C28.py encodings and oracle.",
}

KINDS = {"A": 3, "F": 2, "D": 2, "P": 1, "L": 1, "E": 2, "X": 1, "S": 1, "T": 1}


# ----------------------------------------------------------------------------- generation

def fmt_line(kind, base, dttl, dmax, nids, nkeys, ops, batch=None):
    def f(o):
        return " ".join([o[0]] + [str(x) for x in o[1:]])
    s = "%s %d %d %d %d %d ; %s" % (kind, base, dttl, dmax, nids, nkeys, " ; ".join(f(o) for o in ops))
    if batch is not None:
        s += " | " + " ; ".join(f(o) for o in batch)
    return s


class Gen:
    def __init__(self, rng):
        self.rng = rng
        self.val = 0

    def op(self, ids, nkeys, weights):
        r = self.rng
        kind = r.choices(list(weights), list(weights.values()))[0]
        i = r.choice(ids) if r.random() < 0.85 else ids[0]
        k = r.randrange(nkeys)
        if kind == "A":
            self.val += 1
            self.recent = (getattr(self, "recent", []) + [(i, k)])[-4:]
            return ("A", i, k, self.val)
        if kind in ("F", "D"):
            # mostly look up / delete what was stored recently, sometimes anything
            rec = [x for x in getattr(self, "recent", []) if x[0] in ids and x[1] < nkeys]
            if rec and r.random() < 0.7:
                i, k = r.choice(rec)
            return (kind, i, k)
        if kind == "E":
            return ("E", i, r.choice([5, 5, 10, 30, 120, 1, 0, -2, 61]))
        if kind == "T":
            return ("T", r.choice([1, 2, 3, 5, 6, 10, 11, 30, 31, 59, 60, 61, 62, 121, 0, -1]))
        return (kind, i)

    def history(self, base, length, weights):
        r = self.rng
        nids, nkeys = 2, r.choice([2, 3, 4])
        dmax = r.choice([1, 2, 2, 3, 3, 4, 0] if r.random() < 0.2 else [2, 3])
        dttl = r.choice([60, 60, 10, 7])
        ids = list(range(base, base + nids))
        self.recent = []
        return dict(base=base, dttl=dttl, dmax=dmax, nids=nids, nkeys=nkeys,
                    ops=[self.op(ids, nkeys, weights) for _ in range(length)])


W_SEQ = {"A": 30, "F": 20, "D": 9, "P": 5, "L": 4, "E": 6, "X": 2, "S": 11, "T": 13}
W_BATCH = {"A": 30, "F": 25, "D": 15, "P": 6, "L": 4, "E": 6, "S": 10, "X": 1}


def corpus():
    """regression histories first: the C28_old_refuted witness and shapes of old defects"""
    c = []
    c.append(dict(kind="SEQ", dttl=60, dmax=3, nids=2, nkeys=3, ops=[
        ("E", 0, 5), ("A", 0, 0, 1), ("P", 0), ("A", 0, 0, 2), ("T", 6), ("S", 0), ("F", 0, 0)]))
    c.append(dict(kind="SEQ", dttl=60, dmax=2, nids=2, nkeys=3, ops=[
        ("A", 0, 0, 1), ("A", 0, 1, 2), ("A", 0, 2, 3), ("A", 0, 0, 4), ("T", 61), ("F", 0, 0), ("S", 0),
        ("D", 0, 0), ("D", 0, 0), ("X", 0), ("S", 1), ("F", 0, 1)]))
    c.append(dict(kind="SEQ", dttl=10, dmax=3, nids=2, nkeys=3, ops=[
        ("E", 1, 30), ("A", 1, 0, 1), ("L", 1), ("A", 1, 1, 2), ("F", 1, 1), ("E", 1, 5), ("F", 1, 1), ("T", 6),
        ("S", 1), ("F", 1, 1), ("A", 1, 1, 3), ("D", 1, 1), ("F", 1, 1), ("A", 1, 2, 4), ("P", 1), ("F", 1, 2)]))
    c.append(dict(kind="SEQ", dttl=60, dmax=1, nids=2, nkeys=2, ops=[
        ("E", 0, -2), ("A", 0, 0, 1), ("S", 0), ("F", 0, 0), ("E", 0, 0), ("A", 0, 1, 2), ("T", 1), ("S", 0)]))
    c.append(dict(kind="CON", dttl=60, dmax=2, nids=2, nkeys=3, ops=[("A", 0, 0, 1)],
                  batch=[("A", 0, 0, 2), ("F", 0, 0), ("D", 0, 0), ("P", 0)]))
    c.append(dict(kind="CON", dttl=60, dmax=2, nids=2, nkeys=3, ops=[("E", 0, 5), ("A", 0, 0, 1), ("A", 0, 1, 2), ("T", 6)],
                  batch=[("S", 0), ("F", 0, 0), ("A", 0, 2, 3), ("D", 0, 1)]))
    c.append(dict(kind="CON", dttl=60, dmax=3, nids=2, nkeys=3, ops=[("A", 0, 0, 1), ("A", 0, 1, 2)],
                  batch=[("D", 0, 0), ("D", 0, 0), ("D", 0, 0), ("A", 0, 0, 3)]))
    c.append(dict(kind="BG", dttl=60, dmax=2, nids=1, nkeys=3, ops=[
        ("A", 0, 0, 1), ("T", 59), ("F", 0, 0), ("T", 70), ("F", 0, 0), ("T", 130), ("F", 0, 0)]))
    c.append(dict(kind="BG", dttl=60, dmax=3, nids=1, nkeys=3, ops=[
        ("E", 0, 5), ("A", 0, 0, 1), ("A", 0, 1, 2), ("T", 30), ("F", 0, 1), ("T", 31), ("F", 0, 0), ("F", 0, 1),
        ("P", 0), ("A", 0, 0, 3), ("T", 200), ("F", 0, 0)]))
    return c


def rebase(h, base):
    """corpus histories are written with ids 0,1: move them to base, base+1"""
    def mv(o):
        return o if o[0] == "T" else (o[0], o[1] + base) + tuple(o[2:])
    h = dict(h)
    h["base"] = base
    h["ops"] = [mv(o) for o in h["ops"]]
    if h.get("batch") is not None:
        h["batch"] = [mv(o) for o in h["batch"]]
    return h


def generate(rng, nseq, ncon, nbg):
    g = Gen(rng)
    hs = []
    for h in corpus():
        hs.append(h)
    for _ in range(nseq):
        h = g.history(0, rng.randint(6, 28), W_SEQ)
        h["kind"] = "SEQ"
        hs.append(h)
    for _ in range(ncon):
        h = g.history(0, rng.randint(1, 8), W_SEQ)
        h["kind"] = "CON"
        ids = [0, 1]
        # batches concentrate on one class and few keys so that the operations really conflict
        nk = min(h["nkeys"], 2)
        h["batch"] = [g.op(ids if rng.random() < 0.3 else ids[:1], nk, W_BATCH) for _ in range(rng.randint(2, 4))]
        hs.append(h)
    for _ in range(nbg):
        h = g.history(0, rng.randint(5, 14), {"A": 30, "F": 25, "D": 5, "P": 4, "E": 6, "T": 30})
        h["kind"] = "BG"
        h["nids"] = 2
        # the "expired for more than one scan interval" bound of the oracle assumes non-negative lifetimes
        h["ops"] = [("E", o[1], 1) if o[0] == "E" and o[2] < 0 else o for o in h["ops"]]
        hs.append(h)
    return [rebase(h, 100 * (i + 1)) for i, h in enumerate(hs)]


def line_of(h):
    return fmt_line(h["kind"], h["base"], h["dttl"], h["dmax"], h["nids"], h["nkeys"], h["ops"], h.get("batch"))


def parse_line(line):
    head, _, rest = line.partition(";")
    f = head.split()
    pre, _, bat = rest.partition("|")

    def ops(t):
        out = []
        for part in t.split(";"):
            w = part.split()
            if w:
                out.append(tuple([w[0]] + [int(x) for x in w[1:]]))
        return out
    h = dict(kind=f[0], base=int(f[1]), dttl=int(f[2]), dmax=int(f[3]), nids=int(f[4]), nkeys=int(f[5]), ops=ops(pre))
    if f[0] == "CON":
        h["batch"] = ops(bat)
    return h


# ----------------------------------------------------------------------------- oracle on the real outputs

def items_of(st):
    return {(c["ID"], it["K"]): (it["V"], it["Exp"]) for c in st["caches"] for it in c["Items"]}


def oracle_history(h, res, report):
    """The property's clauses evaluated directly on what the real package did (no model involved)."""
    dttl, dmax = h["dttl"], h["dmax"]
    bg = h["kind"] == "BG"
    last, conf = {}, {}
    prev = {"now": 0, "caches": []}
    stats = {"found": 0, "removed": 0, "rejected": 0}
    steps = res.get("steps") or []
    for i, (op, step) in enumerate(zip(h["ops"], steps)):
        kind = op[0]
        st = step["st"]
        before, after = items_of(prev), items_of(st)
        now = st["now"]
        found, flag, _hook = step["r"]
        ev = sorted(tuple(e) for e in step["ev"])

        def bad(sig, what):
            report(sig, "%s at step %d (%s) of: %s" % (what, i, " ".join(map(str, op)), line_of(h)))
        if kind == "A":
            last[(op[1], op[2])] = op[3]
        elif kind == "D":
            last[(op[1], op[2])] = None
        elif kind in ("P", "L"):
            for key in list(last):
                if key[0] == op[1]:
                    last[key] = None
        elif kind == "E" and flag == 1:
            conf[op[1]] = op[2]
        # lookups
        if kind == "F":
            key = (op[1], op[2])
            got = found if flag == 1 else None
            if got is not None:
                stats["found"] += 1
            if got is not None and last.get(key) != got:
                bad("find-not-latest", "Find returned %r but the value most recently stored and not deleted/purged is %r"
                    % (got, last.get(key)))
            elif key in before and got != before[key][0]:
                bad("find-lost", "Find returned %r although the cache holds %r under the key" % (got, before[key][0]))
        for key, (v, _e) in after.items():
            if last.get(key) != v:
                bad("stale-entry", "cache holds %r under %r but the latest stored, not deleted/purged value is %r"
                    % (v, key, last.get(key)))
                break
        # bounded
        for c in st["caches"]:
            if len(c["Items"]) > c["Max"] or c["Max"] != dmax:
                bad("over-limit", "cache %d holds %d items, limit %d (configured %d)" % (c["ID"], len(c["Items"]), c["Max"], dmax))
        # removal and the eviction listener
        removed = {key: val for key, val in before.items() if key not in after}
        if kind in ("P", "L"):
            if any(c["ID"] == op[1] for c in st["caches"]):
                bad("purge-incomplete", "cache %d still exists after purge" % op[1])
            removed = {key: val for key, val in removed.items() if key[0] != op[1]}
        if kind == "A" and flag == 0:
            stats["rejected"] += 1
        expect = sorted((key[0], key[1], val[0]) for key, val in removed.items())
        stats["removed"] += len(expect)
        if ev != expect:
            bad("evict-once", "eviction listener saw %r, entries removed by this operation: %r" % (ev, expect))
        if removed:
            if kind == "D":
                if set(removed) != {(op[1], op[2])} or flag != 1:
                    bad("delete-wrong-entry", "Delete removed %r" % (sorted(removed),))
            elif kind == "S" or (bg and kind == "T"):
                if any(val[1] >= now for val in removed.values()) or (kind == "S" and any(key[0] != op[1] for key in removed)):
                    bad("sweep-unexpired", "sweep removed entries that had not expired: %r at t=%d" % (removed, now))
            else:
                bad("silent-removal", "entries %r disappeared during %s" % (sorted(removed), kind))
        if kind == "D" and flag != (1 if (op[1], op[2]) in before else 0):
            bad("delete-result", "Delete returned %d, entry present before: %s" % (flag, (op[1], op[2]) in before))
        if kind == "S":
            left = [key for key, val in after.items() if key[0] == op[1] and val[1] < now]
            if left:
                bad("sweep-left-expired", "sweep left expired entries %r at t=%d" % (left, now))
        if bg:
            late = [key for key, val in after.items() if val[1] + 60 < now]
            if late:
                bad("sweeper-missed", "background sweeper left %r expired for more than one scan interval at t=%d" % (late, now))
        # lifetime
        for c in st["caches"]:
            want = conf.get(c["ID"], dttl)
            if c["TTL"] != want:
                bad("lifetime-after-purge" if c["ID"] in conf else "lifetime-default",
                    "cache %d has lifetime %ds but %s" % (c["ID"], c["TTL"],
                                                         ("SetExpiration configured %ds" % want) if c["ID"] in conf else ("the default is %ds" % want)))
                break
        if (kind == "A" and flag == 1) or (kind == "F" and flag == 1):
            key = (op[1], op[2])
            want = now + conf.get(op[1], dttl)
            if key in after and after[key][1] != want:
                bad("lifetime-after-purge" if op[1] in conf else "lifetime-default",
                    "entry %r expires at %d, expected now+lifetime = %d" % (key, after[key][1], want))
        if kind == "A":
            room = len([1 for key in before if key[0] == op[1] and key[1] != op[2]]) < dmax
            if room and flag != 1:
                bad("add-dropped", "Add was not stored although the cache had room")
        prev = st
    if h["kind"] == "CON" and res.get("final") is not None:
        fin = res["final"]
        start = items_of(res["start"])
        added = {(o[1], o[2], o[3]) for o in h["batch"] if o[0] == "A"}
        known = {(k[0], k[1], v[0]) for k, v in start.items()} | added
        evs = [tuple(e) for e in res.get("batch_ev") or []]

        def badc(sig, what):
            report(sig, "%s in concurrent batch of: %s" % (what, line_of(h)))
        if len(set(evs)) != len(evs):
            badc("evict-once", "an entry was reported twice to the eviction listener: %r" % (evs,))
        if any(e not in known for e in evs):
            badc("evict-once", "eviction listener saw entries never stored: %r" % (evs,))
        for c in fin["caches"]:
            if len(c["Items"]) > c["Max"]:
                badc("over-limit", "cache %d holds %d items, limit %d" % (c["ID"], len(c["Items"]), c["Max"]))
        for key, val in items_of(fin).items():
            if (key[0], key[1], val[0]) not in known:
                badc("stale-entry", "cache holds %r under %r, never stored" % (val[0], key))
        for o, r in zip(h["batch"], res["batch"]):
            if o[0] == "F" and r[1] == 1 and (o[1], o[2], r[0]) not in known:
                badc("find-not-latest", "Find returned %r which was never stored under the key" % (r[0],))
    return stats


# ----------------------------------------------------------------------------- encodings for the model comparison

def zlit(x):
    return "(%d)" % x if x < 0 else str(x)


def zlist(xs):
    return "[" + ";".join(zlit(x) for x in xs) + "]"


def coq_op(o):
    name = {"A": "Add", "F": "Find", "D": "Delete", "P": "Purge", "L": "PurgeLocal", "E": "SetExp", "X": "SetExpBad",
            "S": "Sweep", "T": "Advance"}[o[0]]
    return "%s %s" % (name, " ".join(zlit(x) for x in o[1:]))


def enc_evs(ids, keys, ev):
    out = [len(ev)]
    for i in ids:
        for k in keys:
            l = [e for e in ev if e[0] == i and e[1] == k]
            out += [len(l), sum(e[2] for e in l)]
    return out


def enc_state(ids, keys, st):
    out = [st["now"]]
    cs = {c["ID"]: c for c in st["caches"]}
    for i in ids:
        if i not in cs:
            out.append(-1)
            continue
        c = cs[i]
        out += [c["TTL"], c["Max"], len(c["Items"])]
        its = {it["K"]: it for it in c["Items"]}
        for k in keys:
            out += [its[k]["V"], its[k]["Exp"]] if k in its else [-1]
    return out


def coq_cases(hs, results):
    seq, con = [], []
    for h, res in zip(hs, results):
        if h["kind"] == "BG" or res.get("error"):
            continue
        ids = list(range(h["base"], h["base"] + h["nids"]))
        keys = list(range(h["nkeys"]))
        steps = []
        for op, step in zip(h["ops"], res.get("steps") or []):
            want = step["r"] + enc_evs(ids, keys, step["ev"]) + enc_state(ids, keys, step["st"])
            steps.append("(%s, %s)" % (coq_op(op), zlist(want)))
        head = "%s, %s, %s, %s" % (zlit(h["dttl"]), zlit(h["dmax"]), zlist(ids), zlist(keys))
        seq.append("(%d%%nat, (%s, [%s]))" % (res["index"], head, ";\n   ".join(steps)))
        if h["kind"] == "CON" and res.get("final") is not None:
            batch = ";".join("(%s, %s)" % (coq_op(o), zlist(r)) for o, r in zip(h["batch"], res["batch"]))
            evs = [-1, 0, -1] + enc_evs(ids, keys, res.get("batch_ev") or [])
            con.append("(%d%%nat, (%s, [%s], %s, %s, [%s]))" % (
                res["index"], head, ";".join(coq_op(o) for o in h["ops"]),
                zlist(enc_state(ids, keys, res["final"])), zlist(evs), batch))
    txt = ["From Cache Require Import Model.", "Open Scope Z_scope.",
           "Definition seqs : list (nat * (Z * Z * list Z * list Z * list (op * list Z))) := [",
           ";\n".join(seq), "].",
           "Definition cons : list (nat * (Z * Z * list Z * list Z * list op * list Z * list Z * list (op * list Z))) := [",
           ";\n".join(con), "].",
           """Definition seq_bad (keep : bool) (c : nat * (Z * Z * list Z * list Z * list (op * list Z))) : list nat :=
  match c with (i, (a, b, ids, keys, h)) =>
    match first_bad keep ids keys (init a b) h 0 with Some j => [i; j] | None => [] end end.
Definition con_bad (keep : bool) (c : nat * (Z * Z * list Z * list Z * list op * list Z * list Z * list (op * list Z))) : list nat :=
  match c with (i, (a, b, ids, keys, pre, final, evs, batch)) =>
    if linearizable keep ids keys (exec keep (init a b) pre) final evs batch then [] else [i] end."""]
    exprs = {"SEQNEW": "flat_map (seq_bad true) seqs", "CONNEW": "flat_map (con_bad true) cons",
             "SEQOLD": "flat_map (seq_bad false) seqs"}
    return "\n".join(txt), exprs


# ----------------------------------------------------------------------------- the check

def run_histories(ck, binp, hs, tag):
    inp = os.path.join(ck.work, "in_%s.txt" % tag)
    outp = os.path.join(ck.work, "out_%s.txt" % tag)
    with open(inp, "w") as f:
        for h in hs:
            f.write(line_of(h) + "\n")
    rc, log = vf.run_bin(binp, "^TestVerifC28$", {"VERIF_IN": inp, "VERIF_OUT": outp, "HOME": ck.work})
    if rc != 0 or not os.path.exists(outp):
        return None, log
    res = [json.loads(l) for l in open(outp) if l.strip()]
    if len(res) != len(hs):
        return None, "harness produced %d results for %d histories\n%s" % (len(res), len(hs), log[-1500:])
    return res, log


def run(ck):
    quick = ck.tier == "quick"
    ck.cov["rule"] = ("histories of 6..28 operations (add/find/delete/purge/purge-local/set-expiration valid+invalid/sweep/"
                      "advance) over 2 cache classes x 2..4 keys, limits 0..4, default lifetimes 7/10/60 s, lifetimes incl. "
                      "0 and negative; concurrent batches of 2..4 operations after a sequential prefix; histories with the "
                      "real background sweeper. distinct_nontrivial = distinct histories in which a Find returned a value "
                      "AND an entry was removed by delete/expiry (listener involved)")
    ck.assume("operations are atomic (each runs inside one cacheLock critical section): checked by the lock-discipline "
              "scan and the linearizability run, not proved",
              "an eviction listener is registered for the whole history; keys and values are comparable Go values "
              "(ints in the runs)",
              "time in whole seconds; Go's time.Time monotonic/wall details are not modelled",
              "caching stays active (caches.Active is never called) and ego.server.cache.maxsize is unset")
    ck.trusted("harness/C28/c28_test.go (in-package overlay; synctest virtual clock; go/ast lock scan)",
               "props/C28.py generators, encodings and oracle", "model evaluated by vm_compute in a generated cases file")
    coq_ok = ck.coq_stage(GROUP, theorems=THEOREMS)

    ok, binp = vf.go_test_build(ck.work, PKG, {PKG + "/zz_verif_c28_test.go": os.path.join(vf.HARNESS, "C28", "c28_test.go")},
                                "c28.test")
    if not ok:
        ck.violation("harness-build", "harness for internal/caches does not build:\n" + binp[-1500:],
                     replay={"log": binp[-3000:]}, found_input=False)
        return

    # ---- lock discipline (translator step) + crash stress
    lk = os.path.join(ck.work, "locks.json")
    rc, log = vf.run_bin(binp, "^TestVerifC28Locks$", {"VERIF_SRC": os.path.join(vf.REPO, PKG), "VERIF_OUT": lk})
    unlocked = []
    if rc != 0 or not os.path.exists(lk):
        ck.violation("lock-scan", "lock-discipline scan failed (anchors not found?):\n" + log[-1200:],
                     replay={"log": log[-3000:]}, found_input=False)
    else:
        acc = json.load(open(lk))
        unlocked = [a for a in acc if not a["locked"]]
        ck.add_obligations(len(acc), len(acc) - len(unlocked))
        ck.cov["lock_scan"] = {"accesses_to_shared_maps": len(acc), "outside_cacheLock": len(unlocked)}
    rc, slog = vf.run_bin(binp, "^TestVerifC28Stress$", {"VERIF_MS": "700" if quick else "6000"}, timeout=120)
    crashed = rc != 0
    if crashed:
        m = re.search(r"fatal error: [^\n]*", slog)
        fn = re.search(r"internal/caches\.(\w+)\(", slog)
        ck.violation("concurrent-crash:" + (fn.group(1) if fn else "?"),
                     "concurrent cache operations crash the process: %s in %s\n%s" % (
                         m.group(0) if m else "test failed", fn.group(1) if fn else "?", slog[:600]),
                     replay={"stress": "TestVerifC28Stress", "log": slog[:3000]})
    # ---- same-key races: Delete vs Delete vs Add, Delete vs sweep, listener counting per stored entry
    rj = os.path.join(ck.work, "race.json")
    rc, rlog = vf.run_bin(binp, "^TestVerifC28Race$", {"VERIF_ROUNDS": "2500" if quick else "30000", "VERIF_OUT": rj}, timeout=300)
    raced = False
    if rc != 0 or not os.path.exists(rj):
        m = re.search(r"fatal error: [^\n]*", rlog)
        ck.violation("concurrent-crash:race", "same-key race run did not complete: %s\n%s" % (m.group(0) if m else "test failed", rlog[:800]),
                     replay={"race": "TestVerifC28Race", "log": rlog[:3000]}, found_input=bool(m))
        raced = bool(m)
    else:
        race = json.load(open(rj))
        ck.cov["same_key_race"] = {k: race[k] for k in ("rounds", "notifications", "deletes_true", "entries_notified_twice")}
        kinds = {}
        for f in race["findings"]:
            kinds.setdefault(f["kind"], []).append(f)
        for kind, fs in kinds.items():
            raced = True
            what = {"evicted-twice": "an entry removed once was reported to the eviction listener more than once",
                    "delete-true-twice": "more concurrent Delete calls returned true than entries were stored under the key"}[kind]
            ck.violation("concurrent-" + kind, "%s (%d cases in %d rounds of racing Delete/Delete/Add resp. Delete/sweep on one key), "
                         "e.g. %s" % (what, len(fs), race["rounds"], fs[0]["detail"]),
                         replay={"race": "TestVerifC28Race", "rounds": race["rounds"], "findings": fs[:5]})
    for a in unlocked:
        if crashed or raced:
            break
        if a["ident"].startswith("second critical section"):
            ck.violation("split-critical-section:%s" % a["func"],
                         "%s acquires cacheLock more than once (%s:%d): what it decides in one critical section is applied in "
                         "another, so the operation is not atomic and the model (one atomic step per operation) no longer "
                         "corresponds to the code; no failing interleaving was found by the race run"
                         % (a["func"], a["file"], a["line"]), replay={"access": a}, found_input=False)
            continue
        ck.violation("unlocked-access:%s" % a["func"],
                     "%s accesses %s outside a cacheLock critical section (%s:%d); the atomicity that the theorems rely on "
                     "is not established" % (a["func"], a["ident"], a["file"], a["line"]),
                     replay={"access": a}, found_input=False)

    # ---- histories
    if ck.replay_file:
        rp = json.load(open(ck.replay_file))["replay"] or {}
        hs = [parse_line(l) for l in rp.get("lines", [])]
        if not hs:
            hs = generate(ck.rng, 5, 2, 1)
    else:
        hs = generate(ck.rng, 140 if quick else 1500, 60 if quick else 600, 6 if quick else 40)
    # histories with the real background sweeper run in their own process: if the sweeper misbehaves (never ends)
    # the sequential and concurrent histories still produce a concrete failing input
    main_hs = [h for h in hs if h["kind"] != "BG"]
    bg_hs = [h for h in hs if h["kind"] == "BG"]
    results, log = run_histories(ck, binp, main_hs, "main")
    if results is None:
        ck.violation("harness-run", "harness failed:\n" + log[-1500:], replay={"log": log[-3000:]}, found_input=False)
        return
    if bg_hs:
        bg_res, blog = run_histories(ck, binp, bg_hs, "bg")
        if bg_res is None:
            ck.violation("harness-run-bg", "histories with the background sweeper did not complete (sweeper still running "
                         "after its cache was purged?):\n" + blog[-1200:], replay={"lines": [line_of(h) for h in bg_hs],
                                                                                   "log": blog[-3000:]}, found_input=False)
            bg_hs, bg_res = [], []
        for r in bg_res:
            r["index"] += len(main_hs)
        hs, results = main_hs + bg_hs, results + bg_res
    else:
        hs = main_hs

    found = {}

    def report_for(h):
        def report(sig, what):
            if sig not in found:
                found[sig] = True
                ck.violation(sig, what, replay={"lines": [line_of(h)]})
        return report

    nontriv, steps_total = set(), 0
    dist = {"SEQ": 0, "CON": 0, "BG": 0, "ops": {k: 0 for k in KINDS}, "finds_hit": 0, "entries_removed_notified": 0,
            "adds_rejected_full": 0}
    for h, res in zip(hs, results):
        if res.get("error"):
            ck.violation("harness-run", "harness error %s on %s" % (res["error"], line_of(h)), replay={"lines": [line_of(h)]},
                         found_input=False)
            continue
        stats = oracle_history(h, res, report_for(h))
        dist[h["kind"]] += 1
        for o in h["ops"] + (h.get("batch") or []):
            dist["ops"][o[0]] += 1
        steps_total += len(h["ops"]) + len(h.get("batch") or [])
        dist["finds_hit"] += stats["found"]
        dist["entries_removed_notified"] += stats["removed"]
        dist["adds_rejected_full"] += stats["rejected"]
        if stats["found"] and stats["removed"]:
            nontriv.add(line_of(rebase(h, -h["base"])))
    ck.cov["evaluations"] = steps_total
    ck.cov["distinct_nontrivial"] = len(nontriv)
    ck.cov["input_distribution"] = dist
    for h, res in list(zip(hs, results))[:4]:
        ck.sample({"history": line_of(h), "last_step": (res.get("steps") or [None])[-1], "batch": res.get("batch")})

    # ---- correspondence with the model
    corr_bad = []
    if not getattr(ck, "coq_broken", None):
        prelude, exprs = coq_cases(hs, results)
        ok, out = vf.coq_eval(GROUP, ck.work, "cases", prelude, exprs)
        if not ok:
            ck.violation("correspondence-eval", "model evaluation failed:\n" + out[-1500:], replay={"log": out[-3000:]},
                         found_input=False)
        else:
            byidx = {r["index"]: h for h, r in zip(hs, results)}
            sn, cn, so = out["SEQNEW"], out["CONNEW"], out["SEQOLD"]
            ck.cov["traces_validated_against_impl"] = dist["SEQ"] + dist["CON"] - len(sn) // 2
            ck.cov["concurrent_batches_linearizable"] = dist["CON"] - len(cn)
            ck.cov["histories_where_old_model_differs"] = len(so) // 2
            for j in range(0, len(sn), 2):
                corr_bad.append(("corr-seq", byidx[sn[j]], "step %d" % sn[j + 1]))
            for i in cn:
                if i not in sn[0::2]:
                    corr_bad.append(("not-linearizable", byidx[i], "concurrent batch"))
    if (corr_bad or getattr(ck, "coq_broken", None)) and not found and not ck.replay_file:
        # search for a concrete failing input with the oracle alone on a bigger run
        extra = generate(ck.rng, 600 if quick else 3000, 100, 10)
        res2, _ = run_histories(ck, binp, extra, "search")
        if res2 is not None:
            for h, res in zip(extra, res2):
                if not res.get("error"):
                    oracle_history(h, res, report_for(h))
    if not found:
        seen = set()
        for sig, h, where in corr_bad:
            if sig in seen:
                continue
            seen.add(sig)
            if sig == "not-linearizable":
                ck.violation(sig, "no sequential order of the concurrent batch explains the results, listener calls and final "
                                  "state observed on the real package: " + line_of(h), replay={"lines": [line_of(h)]})
            else:
                ck.violation(sig, "model and internal/caches disagree at %s of: %s (theorems C28_* are about the model; "
                                  "the tie no longer holds)" % (where, line_of(h)),
                             replay={"lines": [line_of(h)]}, found_input=False)
        if getattr(ck, "coq_broken", None) and not corr_bad:
            grp, clog = ck.coq_broken
            ck.violation("proof-broken", "Coq development %s no longer checks (theorems %s):\n%s" % (
                grp, ", ".join(THEOREMS), clog[-1200:]), replay={"broken": "coq/" + grp, "log": clog[-3000:]},
                found_input=False)
