#!/usr/bin/env python3
"""usage: tools_seedauto.py <staging dir> [ids…] — store processed seeds (logs in /tmp/seedlogs/<id>.log) into /verif/seeded/<id>/"""
import json, os, re, shutil, sys
stage = sys.argv[1]
ids = sys.argv[2:] or sorted(os.listdir(stage))
for sid in ids:
    lp = "/tmp/seedlogs/%s.log" % sid
    if not os.path.exists(lp):
        print(sid, "no log"); continue
    log = open(lp).read()
    if "PATCH DOES NOT APPLY" in log:
        print(sid, "patch does not apply to current /repo — not stored"); continue
    sec = re.split(r"^--- ", log, flags=re.M)
    def part(name):
        for s in sec:
            if s.startswith(name):
                return s
        return ""
    without = part("without patch")
    withp = part("with patch: build")
    demo = part("with patch: demo")
    ok_without = "ok " in without and "FAIL" not in without
    ok_with_tests = "FAIL" not in withp and "ok " in withp
    demo_fails = "FAIL" in demo
    if not (ok_without and ok_with_tests and demo_fails):
        print(sid, "NOT CONFIRMED (without_ok=%s tests_ok=%s demo_fails=%s) — not stored" % (ok_without, ok_with_tests, demo_fails)); continue
    chk = part("check")
    viol = re.findall(r"^VIOLATION.*$", chk, flags=re.M)
    failed = "FAILED tier" in chk
    okl = "OK tier" in chk
    if not failed and not okl:
        print(sid, "check did not finish — not stored"); continue
    d = os.path.join("/verif/seeded", sid)
    os.makedirs(d, exist_ok=True)
    for f in os.listdir(os.path.join(stage, sid)):
        if os.path.isfile(os.path.join(stage, sid, f)):
            shutil.copy(os.path.join(stage, sid, f), os.path.join(d, f))
    m = json.load(open(os.path.join(d, "meta.json")))
    m["wave"] = 2
    m["confirmed_by_coordinator"] = "tools_seedconfirm.sh: demo passes without the patch; with it go build ./... and the pinned tests (+ the demo's package) pass and the demo fails"
    prop = sid.split("-")[0]
    if failed:
        nof = all("no-failing-input-found" in v for v in viol) and viol
        m["detected"] = "yes"
        m["detected_by"] = "./check %s quick (seed 1) on a worktree with the patch: %d VIOLATION line(s)%s" % (
            prop, len(viol), " (all no-failing-input-found: proof/correspondence broken, no concrete input)" if nof else " with replay")
    else:
        m["detected"] = "no"
        m["detected_by"] = "./check %s quick (seed 1) stayed green" % prop
    json.dump(m, open(os.path.join(d, "meta.json"), "w"), indent=1)
    print(sid, m["detected"], len(viol))
