(* SqlFmt/WfText.v — every tree the SQL expression parser returns whose numbers are digit strings satisfies eokb,
   so the text-level theorem applies to all parser results. *)
From Common Require Import Base.
From Coq Require Import Ascii String.
From SqlFmt Require Import PrecClimb PrecClimbProofs Model Proofs LexProofs.
Open Scope N_scope.

Fixpoint suffixes {A} (l : list A) : list (list A) :=
  l :: match l with [] => [] | _ :: r => suffixes r end.

Lemma suffixes_self {A} (t : list A) : In t (suffixes t).
Proof. destruct t; left; reflexivity. Qed.

Lemma suffixes_tail {A} (t : list A) : forall a l, In (a :: l) (suffixes t) -> In l (suffixes t).
Proof.
  induction t as [|b t IH]; intros a l H.
  - cbn in H. destruct H as [H|[]]. discriminate.
  - cbn [suffixes] in H. destruct H as [H|H].
    + inversion H; subst. cbn [suffixes]. right. apply suffixes_self.
    + cbn [suffixes]. right. eapply IH. exact H.
Qed.

Lemma suffix_pre (t : list (level sym)) : forall l, In l (suffixes t) -> incl (preops_of l) (preops_of t).
Proof.
  induction t as [|b t IH]; intros l H.
  - cbn in H. destruct H as [<-|[]]. apply incl_refl.
  - cbn [suffixes] in H. destruct H as [<-|H]; [apply incl_refl|].
    unfold preops_of at 2. cbn [flat_map]. apply incl_appr. apply IH. exact H.
Qed.
Lemma suffix_bin (t : list (level sym)) : forall l, In l (suffixes t) -> incl (binops_of l) (binops_of t).
Proof.
  induction t as [|b t IH]; intros l H.
  - cbn in H. destruct H as [<-|[]]. apply incl_refl.
  - cbn [suffixes] in H. destruct H as [<-|H]; [apply incl_refl|].
    unfold binops_of at 2. cbn [flat_map]. apply incl_appr. apply IH. exact H.
Qed.

Definition num_atoms_ok (e : sexpr) : Prop := atoms_all (fun a => atom_text_ok a = true) e.
Definition last_tier : list (level sym) := [LPre [L "-"; L "+"; L "~"]].

Lemma mem_of_In s l : In s l -> mem str_eqb s l = true.
Proof. intros H. apply PrecClimbProofs.mem_In with (sym_eqb := str_eqb); [exact str_eqb_eq|exact H]. Qed.

Lemma minus_tier ops lvs : In (LPre ops :: lvs) (suffixes sql_tbl) -> In (L "-") ops -> LPre ops :: lvs = last_tier.
Proof.
  intros H Hm. vm_compute in H.
  repeat (destruct H as [H|H]; [try discriminate H; inversion H; subst; clear H|]); try contradiction.
  - vm_compute in Hm. destruct Hm as [Hm|[]]. discriminate Hm.
  - reflexivity.
Qed.

Lemma wf_eok lvs (e : sexpr) :
  WF sql_tbl (fun _ => True) lvs e -> In lvs (suffixes sql_tbl) -> num_atoms_ok e ->
  eokb e = true /\ ((lvs = [] \/ lvs = last_tier) -> starts_minus e = true -> is_minus_un e = true).
Proof.
  induction 1 as [a Ha|x Hx IH|lv lvs e He IH|ops lvs s x Hs Hx IH|ops lvs s x y Hs Hx IHx Hy IHy];
    intros Hin Hn.
  - split; [exact Hn|]. intros _ H. discriminate H.
  - destruct (IH (suffixes_self _) Hn) as [H1 _]. split; [exact H1|]. intros _ H. discriminate H.
  - pose proof (suffixes_tail _ _ _ Hin) as Hin'. destruct (IH Hin' Hn) as [H1 H2]. split; [exact H1|].
    intros [Hl|Hl] Hsm; [discriminate Hl|]. unfold last_tier in Hl. inversion Hl; subst. apply H2; [left; reflexivity|exact Hsm].
  - cbn [num_atoms_ok atoms_all] in Hn. destruct (IH Hin Hn) as [H1 H2]. split.
    + cbn [eokb]. rewrite H1.
      assert (Hmem : mem str_eqb s all_pre = true).
      { apply mem_of_In. apply (suffix_pre sql_tbl _ Hin). unfold preops_of. cbn [flat_map]. apply in_or_app. left. exact Hs. }
      rewrite Hmem. cbn [andb]. destruct (str_eqb s (L "-")) eqn:E; [|reflexivity]. cbn [negb orb].
      apply str_eqb_eq in E. subst s. pose proof (minus_tier ops lvs Hin Hs) as Hl.
      destruct (starts_minus x) eqn:S; [|reflexivity]. cbn [negb orb]. apply H2; [right; exact Hl|reflexivity].
    + intros _ Hsm. cbn [starts_minus is_minus_un] in *. exact Hsm.
  - cbn [num_atoms_ok atoms_all] in Hn. destruct Hn as [Hnx Hny].
    pose proof (suffixes_tail _ _ _ Hin) as Hin'.
    destruct (IHx Hin Hnx) as [H1 _]. destruct (IHy Hin' Hny) as [H3 _]. split.
    + cbn [eokb]. rewrite H1, H3.
      assert (Hmem : mem str_eqb s all_bin = true).
      { apply mem_of_In. apply (suffix_bin sql_tbl _ Hin). unfold binops_of. cbn [flat_map]. apply in_or_app. left. exact Hs. }
      rewrite Hmem. reflexivity.
    + intros [Hl|Hl]; [discriminate Hl|unfold last_tier in Hl; discriminate Hl].
Qed.

Theorem parse_eok ts (a : sexpr) : sparse sql_tbl ts = Some a -> num_atoms_ok a -> eokb a = true.
Proof.
  intros Hp Hn. apply sql_parse_wf in Hp. destruct (wf_eok _ _ Hp (suffixes_self _) Hn) as [H _]. exact H.
Qed.

Theorem sql_statement_text kws ts (a : sexpr) :
  covers kws = true -> sparse sql_tbl ts = Some a -> num_atoms_ok a ->
  exists ts', lex (render true kws a) = LOk ts' /\ sparse sql_tbl ts' = Some a.
Proof. intros Hc Hp Hn. eapply sql_reparse_text; eauto using parse_eok. Qed.
