//go:build verif

package symbols

// Overlaid into /repo/internal/language/symbols by /verif/check C08; built with -race.
//
// VERIF_IN : JSON [{"id","tables":[{"path":[..],"boundary":bool}],"ops":[{"op":"mark|get|set","t":idx}],
//                   "captured":idx,"goroutines":n,"iters":k}]
//            tables are listed parents first; path [] is the root; the parent of path p is p[1:].
// VERIF_OUT: JSON [{"id","init":[bool..],"obs":[{"flags":[bool..],"dirty":[bool..]}]}]
//
// Sequential part (one goroutine; correspondence with coq/Shared/Model.v seq_obs): before every
// operation the next-scope cache fields of all tables are cleared (white box); after it the shared flags
// and, per table, whether the operation left a value in its cache fields are recorded.
//   mark t -> t.Shared(true);  get t -> t.Get("G") with G defined in the root only;  set t -> t.SetAlways(local)
//
// Concurrent part (race detector): a fresh copy of the forest; table `captured` is marked the way the
// go opcode does; n goroutines, each with a private frame below the captured table, and the launcher
// with a private block below it, start together and resolve the global G / write their own locals /
// write a variable of the captured table. A marker line is written to stderr before each case.

import (
	"encoding/json"
	"fmt"
	"os"
	"sync"
	"testing"
)

type verifSymTable struct {
	Path     []int `json:"path"`
	Boundary bool  `json:"boundary"`
}

type verifSymOp struct {
	Op string `json:"op"`
	T  int    `json:"t"`
}

type verifSymCase struct {
	ID         int             `json:"id"`
	Tables     []verifSymTable `json:"tables"`
	Ops        []verifSymOp    `json:"ops"`
	Captured   int             `json:"captured"`
	Goroutines int             `json:"goroutines"`
	Iters      int             `json:"iters"`
}

type verifSymObs struct {
	Flags []bool `json:"flags"`
	Dirty []bool `json:"dirty"`
}

type verifSymResult struct {
	ID   int           `json:"id"`
	Init []bool        `json:"init"`
	Obs  []verifSymObs `json:"obs"`
	Err  string        `json:"err"`
}

func verifSymBuild(spec []verifSymTable) ([]*SymbolTable, error) {
	byPath := map[string]*SymbolTable{}
	tables := make([]*SymbolTable, 0, len(spec))

	for i, ts := range spec {
		key := fmt.Sprint(ts.Path)

		var tb *SymbolTable

		if len(ts.Path) == 0 {
			tb = NewRootSymbolTable("verif root")
			tb.SetAlways("G", 42)
		} else {
			parent, ok := byPath[fmt.Sprint(ts.Path[1:])]
			if !ok {
				return nil, fmt.Errorf("table %d: parent of %v not defined yet", i, ts.Path)
			}

			tb = NewChildSymbolTable("verif "+key, parent).Shared(false).Boundary(ts.Boundary)
		}

		byPath[key] = tb
		tables = append(tables, tb)
	}

	return tables, nil
}

func verifSymFlags(tables []*SymbolTable) []bool {
	r := make([]bool, len(tables))
	for i, tb := range tables {
		r[i] = tb.IsShared()
	}

	return r
}

func TestVerifC08Symbols(t *testing.T) {
	raw, err := os.ReadFile(os.Getenv("VERIF_IN"))
	if err != nil {
		t.Fatal(err)
	}

	var cases []verifSymCase
	if err := json.Unmarshal(raw, &cases); err != nil {
		t.Fatal(err)
	}

	results := make([]verifSymResult, 0, len(cases))

	for _, cs := range cases {
		fmt.Fprintf(os.Stderr, "=== VERIF PROG %d\n", cs.ID)

		r := verifSymResult{ID: cs.ID}

		// ---- sequential part
		tables, err := verifSymBuild(cs.Tables)
		if err != nil {
			r.Err = err.Error()
			results = append(results, r)

			continue
		}

		r.Init = verifSymFlags(tables)

		for _, op := range cs.Ops {
			for _, tb := range tables {
				tb.nextScope = nil
				tb.nextScopeCached = false
			}

			tb := tables[op.T]

			switch op.Op {
			case "mark":
				tb.Shared(true)
			case "get":
				if v, found := tb.Get("G"); !found || v != 42 {
					r.Err = fmt.Sprintf("Get(G) through table %d = %v, %v", op.T, v, found)
				}
			case "set":
				tb.SetAlways(fmt.Sprintf("v%d", op.T), 1)
			}

			o := verifSymObs{Flags: verifSymFlags(tables), Dirty: make([]bool, len(tables))}
			for i, x := range tables {
				o.Dirty[i] = x.nextScopeCached || x.nextScope != nil
			}

			r.Obs = append(r.Obs, o)
		}

		// ---- concurrent part
		if cs.Goroutines > 0 {
			tables, _ = verifSymBuild(cs.Tables)
			captured := tables[cs.Captured]
			captured.Shared(true) // goByteCode, before the fork

			var (
				start, done sync.WaitGroup
				errMu       sync.Mutex
			)

			fail := func(msg string) {
				errMu.Lock()
				r.Err = msg
				errMu.Unlock()
			}

			start.Add(1)

			body := func(frame *SymbolTable, me int) {
				defer done.Done()

				start.Wait()

				for i := 0; i < cs.Iters; i++ {
					if v, found := frame.Get("G"); !found || v != 42 {
						fail("concurrent Get(G) failed")

						return
					}

					frame.SetAlways("mine", i)

					if i%3 == me%3 {
						captured.SetAlways(fmt.Sprintf("c%d", me), i)
					}

					_, _ = frame.Get(fmt.Sprintf("c%d", me))
				}
			}

			for g := 0; g < cs.Goroutines; g++ {
				done.Add(1)

				frame := NewChildSymbolTable("verif closure frame", captured).Shared(false).Boundary(false)

				go body(frame, g)
			}

			// the launcher keeps working in a block scope of its own below the captured scope
			done.Add(1)

			block := NewChildSymbolTable("verif launcher block", captured).Shared(false)

			go body(block, cs.Goroutines)

			start.Done()
			done.Wait()
		}

		results = append(results, r)
	}

	fmt.Fprintf(os.Stderr, "=== VERIF END\n")

	out, _ := json.Marshal(results)
	if err := os.WriteFile(os.Getenv("VERIF_OUT"), out, 0o644); err != nil {
		t.Fatal(err)
	}
}
