(* Password/Proofs.v — lemmas for C25. *)
From Password Require Import Model.
From Coq Require Import ZifyBool ZifyN ZifyNat.
Open Scope N_scope.

(* ------------------------------------------------------------------ strings, lookup, write *)
Lemma str_eqb_refl a : str_eqb a a = true.
Proof. apply str_eqb_eq; reflexivity. Qed.

Lemma str_eqb_false a b : a <> b -> str_eqb a b = false.
Proof. intros Hne. destruct (str_eqb a b) eqn:E; [|reflexivity]. apply str_eqb_eq in E. contradiction. Qed.

Lemma lower_c_idem c : lower_c (lower_c c) = lower_c c.
Proof. unfold lower_c. destruct ((65 <=? c) && (c <=? 90)) eqn:E; [|rewrite E; reflexivity].
  destruct ((65 <=? c + 32) && (c + 32 <=? 90)) eqn:E2; [lia|reflexivity]. Qed.

Lemma lower_idem s : lower (lower s) = lower s.
Proof. unfold lower. rewrite map_map. apply map_ext. apply lower_c_idem. Qed.

Lemma is_empty_nil s : is_empty s = true <-> s = [].
Proof. destruct s; cbn; split; congruence. Qed.

Lemma lookup_some n st x : lookup n st = Some x -> In x st /\ uname x = n.
Proof. induction st as [|u st IH]; cbn; [discriminate|].
  destruct (str_eqb (uname u) n) eqn:E.
  - intros Hx; injection Hx as <-. apply str_eqb_eq in E. split; [left; reflexivity|exact E].
  - intros Hx. destruct (IH Hx). split; [right; assumption|assumption]. Qed.

Lemma lookup_unique st x : NoDup (map uname st) -> In x st -> lookup (uname x) st = Some x.
Proof. induction st as [|u st IH]; cbn; [contradiction|]. intros Hnd [->|Hin].
  - rewrite str_eqb_refl. reflexivity.
  - inversion Hnd as [|? ? Hni Hnd']; subst.
    destruct (str_eqb (uname u) (uname x)) eqn:E.
    + apply str_eqb_eq in E. exfalso. apply Hni. rewrite E. apply in_map. exact Hin.
    + apply IH; assumption. Qed.

Lemma lookup_write x st n :
  lookup n (write x st) = if str_eqb (uname x) n then Some x else lookup n st.
Proof. induction st as [|u st IH]; cbn.
  - destruct (str_eqb (uname x) n); reflexivity.
  - destruct (str_eqb (uname u) (uname x)) eqn:E; cbn.
    + apply str_eqb_eq in E. rewrite E. destruct (str_eqb (uname x) n); reflexivity.
    + destruct (str_eqb (uname u) n) eqn:E2.
      * apply str_eqb_eq in E2. subst n.
        rewrite (str_eqb_false (uname x) (uname u)); [reflexivity|].
        intros Heq. rewrite Heq, str_eqb_refl in E. discriminate.
      * exact IH. Qed.

(* ------------------------------------------------------------------ credential change *)
Lemma write_names x st y : lookup (uname x) st = Some y -> map uname (write x st) = map uname st.
Proof. induction st as [|u st IH]; cbn; [discriminate|].
  destruct (str_eqb (uname u) (uname x)) eqn:E; cbn.
  - intros _. apply str_eqb_eq in E. rewrite E. reflexivity.
  - intros Hl. rewrite (IH Hl). reflexivity. Qed.

Lemma write_in x st z : In z (write x st) -> z = x \/ In z st.
Proof. induction st as [|u st IH]; cbn.
  - intros [<-|[]]. left; reflexivity.
  - destruct (str_eqb (uname u) (uname x)); cbn.
    + intros [<-|Hin]; [left; reflexivity|right; right; exact Hin].
    + intros [<-|Hin]; [right; left; reflexivity|]. destruct (IH Hin) as [->|H']; [left; reflexivity|right; right; exact H']. Qed.

Lemma change_keeps_wf st n c : store_wf st -> store_wf (change_password st n c).
Proof.
  intros [Hlow Hnd]. unfold change_password. destruct (lookup n st) as [usr|] eqn:El; [|split; assumption].
  destruct (lookup_some _ _ _ El) as [Hin Hn]. split.
  - intros z Hz. apply write_in in Hz. destruct Hz as [->|Hz]; [cbn [uname]; apply Hlow; exact Hin|apply Hlow; exact Hz].
  - rewrite (write_names _ st usr); [exact Hnd|]. cbn [uname]. rewrite Hn. exact El.
Qed.

Lemma change_lookup st n c m :
  lookup m (change_password st n c) =
  match lookup n st with
  | Some usr => if str_eqb n m then Some {| uname := uname usr; upass := c; uperms := uperms usr |} else lookup m st
  | None => lookup m st
  end.
Proof. unfold change_password. destruct (lookup n st) as [usr|] eqn:El; [|reflexivity].
  rewrite lookup_write. cbn [uname]. destruct (lookup_some _ _ _ El) as [_ ->]. reflexivity. Qed.

(* ------------------------------------------------------------------ the verdict depends on the looked-up record only *)
Definition verdict (H : hashes) (plaintext : bool) (o : option user) (u p : str) : bool :=
  if is_empty u || is_empty p then false else
  match o with
  | None => false
  | Some usr =>
      let real := upass usr in
      if is_bcrypt real then bcrypt_match H real p && permitted usr
      else if braces real && negb plaintext then false
      else str_eqb (if braces real then sha H (inner real) else real) (sha H p) && permitted usr
  end.

Lemma fst_validate_with lim H pt st u p : fst (validate_with lim H pt st u p) = verdict H pt (lookup (lower u) st) u p.
Proof. unfold validate_with, verdict. destruct (is_empty u || is_empty p); [reflexivity|].
  destruct (lookup (lower u) st) as [usr|]; [|reflexivity].
  destruct (is_bcrypt (upass usr)); [reflexivity|].
  destruct (braces (upass usr) && negb pt); reflexivity. Qed.

Lemma fst_validate H pt st u p : fst (validate H pt st u p) = verdict H pt (lookup (lower u) st) u p.
Proof. apply fst_validate_with. Qed.

(* when does the store change, and how *)
Definition migrates_with (lim : N) (H : hashes) (pt : bool) (st : store) (u p : str) : option user :=
  if is_empty u || is_empty p then None else
  match lookup (lower u) st with
  | None => None
  | Some usr =>
      let real := upass usr in
      if is_bcrypt real then None
      else if braces real && negb pt then None
      else if str_eqb (if braces real then sha H (inner real) else real) (sha H p) && (N.of_nat (length p) <? lim)
           then Some usr else None
  end.
Definition migrates := migrates_with 72.

Lemma snd_validate_with lim H pt st u p :
  snd (validate_with lim H pt st u p) =
  match migrates_with lim H pt st u p with
  | Some usr => write {| uname := uname usr; upass := bcrypt_gen H p; uperms := uperms usr |} st
  | None => st
  end.
Proof. unfold validate_with, migrates_with. destruct (is_empty u || is_empty p); [reflexivity|].
  destruct (lookup (lower u) st) as [usr|]; [|reflexivity].
  destruct (is_bcrypt (upass usr)); [reflexivity|].
  destruct (braces (upass usr) && negb pt); [reflexivity|]. cbn [snd].
  destruct (str_eqb _ (sha H p) && (N.of_nat (length p) <? lim)); reflexivity. Qed.

Lemma snd_validate H pt st u p :
  snd (validate H pt st u p) =
  match migrates H pt st u p with
  | Some usr => write {| uname := uname usr; upass := bcrypt_gen H p; uperms := uperms usr |} st
  | None => st
  end.
Proof. apply snd_validate_with. Qed.

(* ------------------------------------------------------------------ stores produced by the server's write paths are well formed *)
Lemma write_names_none x st : lookup (uname x) st = None -> map uname (write x st) = map uname st ++ [uname x].
Proof. induction st as [|u st IH]; cbn; [reflexivity|].
  destruct (str_eqb (uname u) (uname x)) eqn:E; [discriminate|]. cbn. intros Hl. rewrite (IH Hl). reflexivity. Qed.

Lemma lookup_none_notin n st : lookup n st = None -> ~ In n (map uname st).
Proof. induction st as [|u st IH]; cbn; [intros _ []|].
  destruct (str_eqb (uname u) n) eqn:E; [discriminate|]. intros Hl [Heq|Hin].
  - rewrite Heq, str_eqb_refl in E. discriminate.
  - exact (IH Hl Hin). Qed.

Lemma write_keeps_wf x st : lower (uname x) = uname x -> store_wf st -> store_wf (write x st).
Proof.
  intros Hx [Hlow Hnd]. split.
  - intros z Hz. apply write_in in Hz. destruct Hz as [->|Hz]; [exact Hx|apply Hlow; exact Hz].
  - destruct (lookup (uname x) st) as [y|] eqn:El.
    + rewrite (write_names x st y El). exact Hnd.
    + rewrite (write_names_none x st El). apply lookup_none_notin in El.
      apply NoDup_rev in Hnd. rewrite <- (rev_involutive (map uname st ++ [uname x])).
      apply NoDup_rev. rewrite rev_app_distr. cbn. constructor; [rewrite <- in_rev; exact El|exact Hnd].
Qed.

Lemma filter_keeps_wf (f : user -> bool) st : store_wf st -> store_wf (filter f st).
Proof.
  intros [Hlow Hnd]. split.
  - intros z Hz. apply filter_In in Hz. apply Hlow. apply Hz.
  - induction st as [|u st IH]; cbn; [constructor|].
    inversion Hnd as [|? ? Hni Hnd']; subst.
    assert (Hlow' : names_lower st) by (intros z Hz; apply Hlow; right; exact Hz).
    destruct (f u); cbn; [constructor|]; try (apply IH; assumption).
    intros Hin. apply Hni. apply in_map_iff in Hin. destruct Hin as [z [Hz Hin]].
    apply filter_In in Hin. rewrite <- Hz. apply in_map. apply Hin.
Qed.

Lemma migrates_with_lookup lim H pt st u p usr : migrates_with lim H pt st u p = Some usr -> lookup (lower u) st = Some usr.
Proof. unfold migrates_with. destruct (is_empty u || is_empty p); [discriminate|].
  destruct (lookup (lower u) st) as [x|]; [|discriminate].
  destruct (is_bcrypt (upass x)); [discriminate|].
  destruct (braces (upass x) && negb pt); [discriminate|].
  destruct (str_eqb _ (sha H p) && (N.of_nat (length p) <? lim)); [|discriminate].
  intros Hx; injection Hx as <-. reflexivity. Qed.

Lemma validate_keeps_wf H pt st u p : store_wf st -> store_wf (snd (validate H pt st u p)).
Proof.
  intros Hwf. rewrite snd_validate. unfold migrates.
  destruct (migrates_with 72 H pt st u p) as [usr|] eqn:Em; [|exact Hwf].
  apply migrates_with_lookup in Em. destruct (lookup_some _ _ _ Em) as [Hin Hn].
  apply write_keeps_wf; [|exact Hwf]. cbn [uname]. apply (proj1 Hwf). exact Hin.
Qed.

Lemma sstep_keeps_wf H st o : store_wf st -> store_wf (sstep H st o).
Proof.
  intros Hwf. destruct o as [n c ps|n|n c|pt u p]; cbn [sstep].
  - unfold set_user. apply write_keeps_wf; [cbn [uname]; apply lower_idem|exact Hwf].
  - unfold delete_user. apply filter_keeps_wf. exact Hwf.
  - apply change_keeps_wf. exact Hwf.
  - apply validate_keeps_wf. exact Hwf.
Qed.

Lemma build_wf H ops : store_wf (build H ops).
Proof.
  unfold build. assert (Hgen : forall st, store_wf st -> store_wf (fold_left (sstep H) ops st)).
  { induction ops as [|o ops IH]; intros st Hwf; cbn [fold_left]; [exact Hwf|]. apply IH. apply sstep_keeps_wf. exact Hwf. }
  apply Hgen. split; [intros x []|constructor].
Qed.

Section Laws.
  Variable H : hashes.
  (* SHA-256 idealised: no collisions *)
  Hypothesis sha_inj : forall a b, sha H a = sha H b -> a = b.
  (* bcrypt idealised on what it reads (at most 72 bytes): a hash matches exactly the password it was made from *)
  Hypothesis bcrypt_ok : forall p q, (length p <= 72)%nat -> (length q <= 72)%nat ->
      (bcrypt_match H (bcrypt_gen H p) q = true <-> p = q).
  (* bcrypt reads only the first 72 bytes of the candidate (golang.org/x/crypto CompareHashAndPassword does not reject longer ones) *)
  Hypothesis bcrypt_trunc : forall h q, (72 <= length q)%nat -> bcrypt_match H h q = bcrypt_match H h (firstn 72 q).
  Hypothesis gen_is_bcrypt : forall p, is_bcrypt (bcrypt_gen H p) = true.

  Lemma sha_eqb a b : str_eqb (sha H a) (sha H b) = true <-> a = b.
  Proof. rewrite str_eqb_eq. split; [apply sha_inj|congruence]. Qed.

  (* ---------------- C25_iff *)
  Lemma verdict_some_iff pt usr u p :
    verdict H pt (Some usr) u p = true <->
    u <> [] /\ p <> [] /\ cred_matches H pt (classify (upass usr)) p /\ permitted usr = true.
  Proof.
    unfold verdict, classify.
    destruct u as [|c u]; [cbn; split; [discriminate|intros [Hn _]; congruence]|].
    destruct p as [|d p]; [cbn; split; [discriminate|intros [_ [Hn _]]; congruence]|].
    cbn [is_empty orb].
    destruct (is_bcrypt (upass usr)); cbn [cred_matches].
    - rewrite andb_true_iff. split; [intros [A B]; repeat split; try discriminate; assumption|intros (_ & _ & A & B); split; assumption].
    - destruct (braces (upass usr)) eqn:Eb; cbn [andb cred_matches].
      + destruct pt; cbn [negb].
        * rewrite andb_true_iff, sha_eqb.
          split; [intros [A B]; repeat split; try discriminate; assumption|intros (_ & _ & [_ A] & B); split; assumption].
        * split; [discriminate|intros (_ & _ & [A _] & _); discriminate].
      + rewrite andb_true_iff, str_eqb_eq.
        split; [intros [A B]; repeat split; try discriminate; assumption|intros (_ & _ & A & B); split; assumption].
  Qed.

  Lemma validate_iff pt st u p : store_wf st ->
    (fst (validate H pt st u p) = true <->
     u <> [] /\ p <> [] /\
     exists usr, In usr st /\ lower (uname usr) = lower u /\
                 cred_matches H pt (classify (upass usr)) p /\ permitted usr = true).
  Proof.
    intros [Hlow Hnd]. rewrite fst_validate. split.
    - destruct (lookup (lower u) st) as [usr|] eqn:El.
      + intros Hv. apply verdict_some_iff in Hv. destruct Hv as (Hu & Hp & Hc & Hperm).
        apply lookup_some in El. destruct El as [Hin Hn].
        repeat split; try assumption. exists usr. repeat split; try assumption.
        rewrite Hn. apply lower_idem.
      + unfold verdict. destruct (is_empty u || is_empty p); discriminate.
    - intros (Hu & Hp & usr & Hin & Hn & Hc & Hperm).
      assert (El : lookup (lower u) st = Some usr).
      { rewrite <- Hn, (Hlow usr Hin). apply lookup_unique; assumption. }
      rewrite El. apply verdict_some_iff. repeat split; assumption.
  Qed.

  (* ---------------- stored names that are not lower case can never log in *)
  Definition Carol : str := [67;97;114;111;108].
  Definition pw : str := [112;119].
  Definition carol_store : store := [{| uname := Carol; upass := bcrypt_gen H pw; uperms := [ego_logon] |}].

  Lemma mixed_case_refuted :
    exists st u p usr, In usr st /\ lower (uname usr) = lower u /\ u <> [] /\ p <> [] /\
      cred_matches H true (classify (upass usr)) p /\ permitted usr = true /\
      NoDup (map uname st) /\ fst (validate H true st u p) = false.
  Proof.
    exists carol_store, Carol, pw, {| uname := Carol; upass := bcrypt_gen H pw; uperms := [ego_logon] |}.
    repeat split; try discriminate.
    - left; reflexivity.
    - unfold classify. cbn [upass]. rewrite gen_is_bcrypt. cbn [cred_matches]. apply bcrypt_ok; [cbn; lia|cbn; lia|reflexivity].
    - repeat constructor. intros [].
  Qed.

  (* ---------------- migration *)
  Lemma migrates_facts lim pt st u p usr : migrates_with lim H pt st u p = Some usr ->
    lookup (lower u) st = Some usr /\ is_bcrypt (upass usr) = false /\
    (braces (upass usr) && negb pt = false) /\
    (if braces (upass usr) then sha H (inner (upass usr)) else upass usr) = sha H p /\
    N.of_nat (length p) < lim.
  Proof. unfold migrates_with. destruct (is_empty u || is_empty p); [discriminate|].
    destruct (lookup (lower u) st) as [x|]; [|discriminate].
    destruct (is_bcrypt (upass x)) eqn:E1; [discriminate|].
    destruct (braces (upass x) && negb pt) eqn:E2; [discriminate|].
    destruct (str_eqb _ (sha H p) && (N.of_nat (length p) <? lim)) eqn:E3; [|discriminate].
    intros Hx; injection Hx as <-. apply andb_true_iff in E3 as [E3 E4]. apply str_eqb_eq in E3.
    repeat split; try assumption. lia. Qed.

  Lemma firstn_72_length (q : str) : (72 <= length q)%nat -> length (firstn 72 q) = 72%nat.
  Proof. intros Hq. rewrite firstn_length. lia. Qed.

  (* the bcrypt hash of a password shorter than 72 bytes accepts exactly what the legacy credential accepted,
     for candidates of every length *)
  Lemma migrated_match (p q : str) : (length p < 72)%nat ->
    bcrypt_match H (bcrypt_gen H p) q = str_eqb (sha H p) (sha H q).
  Proof.
    intros Hp.
    destruct (Nat.le_gt_cases (length q) 72) as [Hq|Hq].
    - destruct (str_eqb (sha H p) (sha H q)) eqn:E.
      + apply sha_eqb in E. apply bcrypt_ok; [lia|assumption|assumption].
      + destruct (bcrypt_match H (bcrypt_gen H p) q) eqn:E2; [|reflexivity].
        apply bcrypt_ok in E2; [|lia|assumption]. apply sha_eqb in E2. congruence.
    - rewrite bcrypt_trunc by lia.
      assert (Hl := firstn_72_length q ltac:(lia)).
      destruct (bcrypt_match H (bcrypt_gen H p) (firstn 72 q)) eqn:E2.
      + apply bcrypt_ok in E2; try lia. subst p. lia.
      + symmetry. apply str_eqb_false. intros E. apply sha_inj in E. subst q. lia.
  Qed.

  Lemma migration_invariant pt st u (p : str) v (q : str) :
    fst (validate H pt (snd (validate H pt st u p)) v q) = fst (validate H pt st v q).
  Proof.
    rewrite snd_validate. unfold migrates. destruct (migrates_with 72 H pt st u p) as [usr|] eqn:Em; [|reflexivity].
    apply migrates_facts in Em. destruct Em as (El & Enb & Ebr & Ereal & Hp).
    rewrite !fst_validate, lookup_write. cbn [uname].
    destruct (lookup_some _ _ _ El) as [_ Hn].
    destruct (str_eqb (uname usr) (lower v)) eqn:En; [|reflexivity].
    apply str_eqb_eq in En. rewrite <- En, Hn, El.
    unfold verdict. destruct (is_empty v || is_empty q); [reflexivity|].
    cbn [upass]. rewrite gen_is_bcrypt, Enb, Ebr, Ereal.
    unfold permitted, has_perm. cbn [uperms].
    rewrite (migrated_match p q) by lia. reflexivity.
  Qed.

  (* the code before the repair upgraded 72-byte passwords too: a legacy (here: brace-quoted) 72-byte password;
     after the upgrade every longer password with that prefix is accepted, before it was not *)
  Definition p72 : str := repeat 97 72.
  Definition dave : str := [100;97;118;101].
  Definition dave_store : store := [{| uname := dave; upass := (123 :: p72) ++ [125]; uperms := [ego_logon] |}].

  Lemma migration_old_refuted :
    exists st u p q, store_wf st /\ fst (validate_old H true st u p) = true /\
      fst (validate_old H true st u q) = false /\
      fst (validate_old H true (snd (validate_old H true st u p)) u q) = true.
  Proof.
    exists dave_store, dave, p72, (p72 ++ [120]). unfold validate_old.
    assert (Hin : inner ((123 :: p72) ++ [125]) = p72) by reflexivity.
    assert (Hbr : braces ((123 :: p72) ++ [125]) = true) by reflexivity.
    assert (Hnb : is_bcrypt ((123 :: p72) ++ [125]) = false) by reflexivity.
    assert (Hlook : lookup (lower dave) dave_store = Some {| uname := dave; upass := (123 :: p72) ++ [125]; uperms := [ego_logon] |}) by reflexivity.
    assert (Hperm : permitted {| uname := dave; upass := (123 :: p72) ++ [125]; uperms := [ego_logon] |} = true) by reflexivity.
    assert (Hne : str_eqb (sha H p72) (sha H (p72 ++ [120])) = false).
    { apply str_eqb_false. intros E. apply sha_inj in E. apply (f_equal (@length N)) in E.
      rewrite app_length in E. cbn in E. lia. }
    assert (Hmig : migrates_with 73 H true dave_store dave p72 =
                   Some {| uname := dave; upass := (123 :: p72) ++ [125]; uperms := [ego_logon] |}).
    { unfold migrates_with. rewrite Hlook. cbn [upass]. rewrite Hnb, Hbr, Hin, str_eqb_refl. reflexivity. }
    split; [|split; [|split]].
    - split; [intros x [<-|[]]; reflexivity|repeat constructor; intros []].
    - rewrite fst_validate_with, Hlook. unfold verdict. cbn [upass]. rewrite Hnb, Hbr, Hin, str_eqb_refl, Hperm. reflexivity.
    - rewrite fst_validate_with, Hlook. unfold verdict. cbn [upass]. rewrite Hnb, Hbr, Hin, Hne. reflexivity.
    - rewrite snd_validate_with, Hmig, fst_validate_with. cbn [uname uperms].
      change (lookup (lower dave) (write {| uname := dave; upass := bcrypt_gen H p72; uperms := [ego_logon] |} dave_store))
        with (Some {| uname := dave; upass := bcrypt_gen H p72; uperms := [ego_logon] |}).
      unfold verdict. cbn [upass]. rewrite gen_is_bcrypt.
      rewrite bcrypt_trunc by (rewrite app_length; cbn; lia).
      replace (firstn 72 (p72 ++ [120])) with p72 by reflexivity.
      replace (bcrypt_match H (bcrypt_gen H p72) p72) with true
        by (symmetry; apply bcrypt_ok; [cbn; lia|cbn; lia|reflexivity]).
      reflexivity.
  Qed.

  (* the repaired code leaves that credential alone *)
  Lemma no_upgrade_at_72 pt st u (p : str) : (72 <= length p)%nat -> snd (validate H pt st u p) = st.
  Proof. intros Hp. rewrite snd_validate. unfold migrates.
    destruct (migrates_with 72 H pt st u p) as [usr|] eqn:Em; [|reflexivity].
    apply migrates_facts in Em. destruct Em as (_ & _ & _ & _ & Hl). lia. Qed.
End Laws.

(* ------------------------------------------------------------------ packaging the laws *)
Definition hash_laws (H : hashes) : Prop :=
  (forall a b, sha H a = sha H b -> a = b) /\
  (forall p q, (length p <= 72)%nat -> (length q <= 72)%nat -> (bcrypt_match H (bcrypt_gen H p) q = true <-> p = q)) /\
  (forall h q, (72 <= length q)%nat -> bcrypt_match H h q = bcrypt_match H h (firstn 72 q)) /\
  (forall p, is_bcrypt (bcrypt_gen H p) = true).

Lemma validate_iff' H pt st u p : hash_laws H -> store_wf st ->
  (fst (validate H pt st u p) = true <->
   u <> [] /\ p <> [] /\
   exists usr, In usr st /\ lower (uname usr) = lower u /\
               cred_matches H pt (classify (upass usr)) p /\ permitted usr = true).
Proof. intros (A & B & C & D). apply validate_iff; assumption. Qed.

Lemma migration_invariant' H pt st u (p : str) v (q : str) : hash_laws H ->
  fst (validate H pt (snd (validate H pt st u p)) v q) = fst (validate H pt st v q).
Proof. intros (A & B & C & D). apply migration_invariant; assumption. Qed.

Lemma migration_old_refuted' H : hash_laws H ->
  exists st u p q, store_wf st /\ fst (validate_old H true st u p) = true /\
    fst (validate_old H true st u q) = false /\
    fst (validate_old H true (snd (validate_old H true st u p)) u q) = true.
Proof. intros (A & B & C & D). apply migration_old_refuted; assumption. Qed.

Lemma no_upgrade_at_72' H pt st u (p : str) : hash_laws H -> (72 <= length p)%nat -> snd (validate H pt st u p) = st.
Proof. intros (A & B & C & D) Hp. eapply no_upgrade_at_72; eassumption. Qed.

Lemma mixed_case_refuted' H : hash_laws H ->
  exists st u p usr, In usr st /\ lower (uname usr) = lower u /\ u <> [] /\ p <> [] /\
    cred_matches H true (classify (upass usr)) p /\ permitted usr = true /\
    NoDup (map uname st) /\ fst (validate H true st u p) = false.
Proof. intros (A & B & C & D). apply mixed_case_refuted; assumption. Qed.

(* after a credential change the verdict for that user is decided by the NEW stored credential (and the
   user's unchanged permissions); everybody else is unaffected *)
Lemma change_decides H pt st n c usr u p : hash_laws H -> store_wf st -> lookup n st = Some usr ->
  (fst (validate H pt (change_password st n c) u p) = true <->
   if str_eqb n (lower u)
   then u <> [] /\ p <> [] /\ cred_matches H pt (classify c) p /\ permitted usr = true
   else fst (validate H pt st u p) = true).
Proof.
  intros (A & B & C & D) Hwf El. rewrite !fst_validate, change_lookup, El.
  destruct (str_eqb n (lower u)); [|reflexivity].
  rewrite (verdict_some_iff H A). cbn [upass]. unfold permitted, has_perm. cbn [uperms]. reflexivity.
Qed.

(* the first half of the property for every store the server's write paths can produce: no side condition *)
Lemma validate_iff_reachable H pt ops u p : hash_laws H ->
  (fst (validate H pt (build H ops) u p) = true <->
   u <> [] /\ p <> [] /\
   exists usr, In usr (build H ops) /\ lower (uname usr) = lower u /\
               cred_matches H pt (classify (upass usr)) p /\ permitted usr = true).
Proof. intros HL. apply validate_iff'; [exact HL|apply build_wf]. Qed.

(* the laws are satisfiable: the stand-in used by the correspondence run satisfies them *)
Lemma toy_laws : hash_laws toy.
Proof.
  unfold hash_laws, toy; cbn [bcrypt_gen bcrypt_match sha].
  split; [|split; [|split]].
  - intros a b E. injection E as E. exact E.
  - intros p q Hp Hq. rewrite str_eqb_eq, (firstn_all2 q) by lia. split.
    + intros E. apply app_inv_head in E. exact E.
    + intros ->. reflexivity.
  - intros h q Hq. rewrite firstn_firstn. reflexivity.
  - intros p. reflexivity.
Qed.
