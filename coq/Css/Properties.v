(* Css/Properties.v — property theorems of C34 only; proofs live in Proofs.v. *)
From Common Require Import Base.
From Css Require Import Model Proofs Tokens.
Open Scope N_scope.

(* The property at full strength: minifying never changes the normalised token sequence. *)
Definition C34_statement : Prop := forall s, norm (css_lex (minify_css s)) = norm (css_lex s).

(* It does not hold for MinifyCSS:  a/**/b{}  becomes  ab{}  *)
Theorem C34_refuted : ~ C34_statement.
Proof. exact statement_refuted. Qed.

(* For every input that does not end inside an unclosed string: apart from the spaces and semicolons
   MinifyCSS writes outside strings, its output is byte for byte the stylesheet without its comments,
   its whitespace outside strings and its semicolons outside strings.  So no string byte and no other
   non-space, non-semicolon byte is ever lost, altered, reordered or invented, and comments are removed
   completely.  (What this does NOT say: that a space or semicolon that mattered was kept.) *)
Theorem C34_essential_bytes_partial :
  forall s, ends_in_string s = false -> ess (minify_tagged s) = essential s.
Proof. exact essential_bytes. Qed.

(* For every input that does not end inside an unclosed string: the byte-level normal form of the output
   equals the byte-level normal form of the stylesheet with its comments removed.  [decomment] only strips
   comments and writes outside-string whitespace as a space; [snorm] keeps every byte and keeps a separator
   exactly between two bytes of which the first is not one of { } ; , > : and the second not one of
   { } ; , >, merges semicolons and drops them before '}'.  So MinifyCSS never drops a separator that
   stands between two such bytes, never invents one, and never drops a semicolon that is not redundant. *)
Theorem C34_separators_partial :
  forall s, ends_in_string s = false -> snorm (minify_tagged s) = snorm (decomment s).
Proof. exact separators_kept. Qed.

Example C34_separators_nonvacuous :
  (* a; ;b /**/ c /**/{ ;};  *)
  let s := [97;59;32;59;98;32;47;42;42;47;32;99;32;47;42;42;47;123;32;59;125;59;32] in
  ends_in_string s = false /\ minify_css s = [97;59;59;98;32;32;99;32;123;125;59] /\
  map snd (decomment s) = [97;59;32;59;98;32;32;99;32;123;32;59;125;59;32] /\
  map snd (snorm (decomment s)) = [97;59;98;32;99;123;125;59] /\
  snorm (minify_tagged s) = snorm (decomment s).
Proof. vm_compute. repeat split; congruence. Qed.

(* Tokens of the sub-grammar (whitespace, comments, strings, the one-byte tokens { } ; , > : and runs of all
   other bytes): [ntoks0 l] = [tlex (snorm l)] is the normalised token sequence read off the byte-level normal
   form; css_lex0 s = tlex (decomment s).  For every input not ending inside an unclosed string the output
   (with the minifier's own string tags) and the comment-stripped input have the same normalised tokens.
   NOT proved here (evaluated per case, Model.bridge_b, under css_guard): norm (tlex l) = ntoks0 l for the
   two streams, css_lex0 = css_lex modulo norm, and that re-scanning the output finds the same strings. *)
Theorem C34_tokens_preserved_partial0 :
  forall s, ends_in_string s = false -> ntoks0 (minify_tagged s) = ntoks0 (decomment s).
Proof. exact ntoks0_kept. Qed.

Example C34_tokens0_nonvacuous :
  (* a; ;b /**/ c /**/{ ;d:"x;"; };  *)
  let s := [97;59;32;59;98;32;47;42;42;47;32;99;32;47;42;42;47;123;32;59;100;58;34;120;59;34;59;32;125;59;32] in
  ends_in_string s = false /\ css_guard s = true /\ bridge_b s = true /\
  ntoks0 (decomment s) = [CRun [97]; CD 59; CRun [98]; CWs; CRun [99]; CD 123; CD 59; CRun [100]; CD 58;
                          CStr 0 [34;120;59;34] true; CD 125; CD 59] /\
  norm (css_lex0 (minify_css s)) = norm (css_lex0 s).
Proof. vm_compute. repeat split; congruence. Qed.

Example C34_witness_comment :
  let s := [97;47;42;42;47;98;123;125] in        (* a/**/b{} *)
  minify_css s = [97;98;123;125] /\ css_guard s = false /\
  norm (css_lex s) = [CRun [97]; CRun [98]; CD 123; CD 125] /\
  norm (css_lex (minify_css s)) = [CRun [97;98]; CD 123; CD 125].
Proof. vm_compute. repeat split; congruence. Qed.

Example C34_witness_escape :
  let s := [97;92;32;32;98;123;125] in           (* a\  b{} : escaped space, then a descendant combinator *)
  minify_css s = [97;92;32;98;123;125] /\ css_guard s = false /\ preserved_b s = false.
Proof. vm_compute. repeat split; congruence. Qed.

Example C34_witness_badstring :
  let s := [97;58;34;10;98;34;32;99;32;32;100;32;34;120;34] in   (* a:"<newline>b" c  d "x" : for CSS the first string
                                                 ends at the newline and " c  d " is a string *)
  css_guard s = false /\ preserved_b s = false.
Proof. vm_compute. repeat split; congruence. Qed.

Example C34_nonvacuous :
  (* a { color : red ;; } /* x */ b > c , d :h{ c: " a ; " ; ; }  *)
  let s := [97;32;123;32;99;32;58;32;114;32;59;59;32;125;32;47;42;120;42;47;32;98;32;62;32;99;32;44;32;100;32;58;104;123;
            32;99;58;32;34;32;97;32;59;32;34;32;59;32;59;32;125;32] in
  ends_in_string s = false /\ css_guard s = true /\ preserved_b s = true /\ minify_css s <> s /\
  ess (minify_tagged s) = essential s /\ length (essential s) = 24%nat.
Proof. vm_compute. repeat split; congruence. Qed.
