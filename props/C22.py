"""C22 JWT bearer tokens are verified and revocable (internal/server/oauth/oauth.go ValidateJWT, jwt.go, jwks.go)."""
import json
import os
import vf

GROUP = "Jwt"
PKG = "internal/server/oauth"
META = {
    "group": "Jwt",
    "technique": "Coq proof by invariant over all histories (validate / revoke / clock advance / cache eviction / purge) of a Gallina model of ValidateJWT with the signature check as an oracle + vm_compute correspondence with the real ValidateJWT (real RSA/ECDSA keys, JWKS, SQLite revocation store, synctest clock)",
    "text": "Theorems C22_accept_sound (after every history an accepted JWT uses an allowed algorithm, resolves to a published key, verifies, matches issuer and audience, has exp in the future and nbf passed, and its token ID is not revoked), C22_revocation_effective (from any cache content, after a revocation no later request with that token ID is accepted, seen before or not) and C22_accept_complete (a token satisfying every clause is accepted as its user) are proved over the model of the repaired code; C22_refuted_current keeps the defect of the code before the repair (revocation consulted only on a cache hit: revoke, then present a never-seen token -> accepted) as a witness. The model is compared with the real ValidateJWT on generated histories and the property is evaluated on the real outputs. full",
    "note": "Trusted: Coq kernel; signature verification and kid lookup are oracle fields of a token (fixed per token string: static JWKS; key rotation and the JWKS refresh rate limit are not modelled); the revocation store answers without error (on a database error the code fails open) and revocations are never undone; user claim = sub; golang-jwt's claim validation as modelled (exp required, now < exp, nbf <= now, iss equality, aud membership) - tied by the correspondence; issuer configuration is never empty in resource-server mode (with Provider empty the code reloads the configuration from settings); the overlay harness and the Python comparison.",
}
ISS = "https://idp.example"
AUD = "ego-api"
ALGS = {"RS256": "RS256", "RS384": "RS384", "RS512": "RS512", "ES256": "ES256", "HS256": "HS256", "PS256": "PS256",
        "EdDSA": "EdDSA", "none": "NoneAlg"}
PUBLISHED = {"k-rsa": "rsa", "k-ec": "ec"}     # signing keys in the JWKS, in document order (k-enc has use=enc, k-oct is not RSA/EC)
KEYTYPE = {"k-rsa": "rsa", "x-rsa": "rsa", "k-enc": "rsa", "k-ec": "ec", "x-ec": "ec"}


def base_token(n):
    return {"alg": "RS256", "signer": "k-rsa", "kid": "k-rsa", "tamper": False, "iss": ISS, "aud": [AUD], "exp": 3600,
            "nbf": None, "jti": "jti-%d" % n, "sub": "user%d" % n, "client": ""}


MUTS = ["none", "none", "none", "rs384", "rs512", "es256", "hs256", "algnone", "ps256", "eddsa", "forged-rsa", "forged-ec", "kid-mismatch",
        "nokid-rsa", "nokid-ec", "kid-unknown", "kid-enc", "kid-oct", "tamper", "iss-wrong", "iss-missing", "aud-wrong", "aud-missing",
        "aud-multi-good", "aud-multi-bad", "exp-missing", "exp-past", "exp-now", "exp-1", "exp-30", "exp-90", "nbf-future", "nbf-past",
        "nojti", "client-only", "nouser", "iss-case", "aud-prefix"]


def mutate(t, m, rng):
    if m == "rs384":
        t["alg"] = "RS384"
    elif m == "rs512":
        t["alg"] = "RS512"
    elif m == "es256":
        t.update(alg="ES256", signer="k-ec", kid="k-ec")
    elif m == "hs256":
        t.update(alg="HS256", kid=rng.choice(["k-rsa", "", "k-oct"]))
    elif m == "algnone":
        t.update(alg="none")
    elif m == "ps256":
        t.update(alg="PS256")
    elif m == "eddsa":
        t.update(alg="EdDSA", kid=rng.choice(["k-rsa", "k-ec", ""]))
    elif m == "forged-rsa":
        t.update(signer="x-rsa")
    elif m == "forged-ec":
        t.update(alg="ES256", signer="x-ec", kid="k-ec")
    elif m == "kid-mismatch":
        if rng.random() < 0.5:
            t.update(alg="RS256", signer="k-rsa", kid="k-ec")
        else:
            t.update(alg="ES256", signer="k-ec", kid="k-rsa")
    elif m == "nokid-rsa":
        t.update(kid="")
    elif m == "nokid-ec":
        t.update(alg="ES256", signer="k-ec", kid="")
    elif m == "kid-unknown":
        t.update(kid="nope")
    elif m == "kid-enc":
        t.update(signer="k-enc", kid="k-enc")
    elif m == "kid-oct":
        t.update(kid="k-oct")
    elif m == "tamper":
        t.update(tamper=True)
    elif m == "iss-wrong":
        t.update(iss="https://evil.example")
    elif m == "iss-case":
        t.update(iss=ISS.upper())
    elif m == "iss-missing":
        t.update(iss="")
    elif m == "aud-wrong":
        t.update(aud=["other-api"])
    elif m == "aud-prefix":
        t.update(aud=[AUD + "x"])
    elif m == "aud-missing":
        t.update(aud=[])
    elif m == "aud-multi-good":
        t.update(aud=["other-api", AUD])
    elif m == "aud-multi-bad":
        t.update(aud=["other-api", "third"])
    elif m == "exp-missing":
        t.update(exp=None)
    elif m == "exp-past":
        t.update(exp=-rng.choice([1, 10, 3600]))
    elif m == "exp-now":
        t.update(exp=0)
    elif m == "exp-1":
        t.update(exp=1)
    elif m == "exp-30":
        t.update(exp=30)
    elif m == "exp-90":
        t.update(exp=90)
    elif m == "nbf-future":
        t.update(nbf=rng.choice([1, 30, 61, 100]))
    elif m == "nbf-past":
        t.update(nbf=-5)
    elif m == "nojti":
        t.update(jti="")
    elif m == "client-only":
        t.update(sub="", client="app%d" % rng.randint(1, 3))
    elif m == "nouser":
        t.update(sub="", client="")
    return t


def selected_key(t):
    if t["kid"] == "":
        return "k-rsa"          # first usable signing key of the JWKS document
    return t["kid"] if t["kid"] in PUBLISHED else None


def alg_family(a):
    return {"RS256": "rsa", "RS384": "rsa", "RS512": "rsa", "ES256": "ec"}.get(a)


def crypto(t):
    """(alg allowed, key found, signature verifies) by construction of the token."""
    allowed = alg_family(t["alg"]) is not None
    sel = selected_key(t)
    found = sel is not None
    sig = bool(found and allowed and sel == t["signer"] and KEYTYPE[sel] == alg_family(t["alg"]) and not t["tamper"])
    return allowed, found, sig


def user_of(t):
    return t["sub"] or (("client:" + t["client"]) if t["client"] else "")


def good_at(t, aud_cfg, now):
    """the property's acceptance condition, stated on the token's construction (independent of the model)."""
    allowed, found, sig = crypto(t)
    return (allowed and found and sig and t["iss"] == ISS and (aud_cfg == "" or aud_cfg in t["aud"])
            and t["exp"] is not None and now < t["exp"] and (t["nbf"] is None or t["nbf"] <= now))


def gen_history(rng, hid, quick, ttl="1000h"):
    nt = rng.randint(2, 5)
    toks = []
    for i in range(nt):
        t = base_token(hid * 10 + i)
        for _ in range(rng.choice([1, 1, 1, 2])):
            t = mutate(t, rng.choice(MUTS), rng)
        if alg_family(t["alg"]) == "ec" and KEYTYPE[t["signer"]] != "ec":
            t["signer"] = "k-ec"            # a token can only be signed with a key of its algorithm's family
        if t["alg"] in ("RS256", "RS384", "RS512", "PS256") and KEYTYPE[t["signer"]] != "rsa":
            t["signer"] = "k-rsa"
        toks.append(t)
    if nt >= 2 and rng.random() < 0.3:
        toks[1]["jti"] = toks[0]["jti"]          # two different strings sharing a token ID
    ops = []
    for _ in range(rng.randint(4, 14 if quick else 30)):
        r = rng.random()
        if r < 0.55:
            ops.append(["V", rng.randrange(nt)])
        elif r < 0.68:
            j = rng.choice(toks)["jti"] or "jti-unrelated"
            ops.append(["R", j if rng.random() < 0.9 else "jti-unrelated"])
        elif r < 0.83:
            ops.append(["T", rng.choice([1, 5, 29, 30, 31, 59, 60, 61, 89, 90, 120, 600, 3599, 3600, 3601])])
        elif r < 0.93:
            ops.append(["X", rng.randrange(nt)])
        else:
            ops.append(["P"])
    return {"id": hid, "iss": ISS, "aud": rng.choice([AUD, AUD, ""]), "ttl": ttl, "tokens": toks, "ops": ops}


def corpus():
    t0, t1 = base_token(0), base_token(1)
    ec = mutate(base_token(2), "es256", None)
    hs = []

    def add(ops, toks=None, aud=AUD, ttl="1000h"):
        hs.append({"id": len(hs), "iss": ISS, "aud": aud, "ttl": ttl, "tokens": toks or [t0, t1, ec], "ops": ops})

    add([["R", "jti-0"], ["V", 0], ["V", 0], ["V", 0], ["V", 1]])                    # witness of C22_refuted_current
    add([["V", 0], ["R", "jti-0"], ["V", 0], ["V", 0], ["V", 0]])                    # hit -> revoked+evicted -> miss
    add([["V", 0], ["R", "jti-0"], ["X", 0], ["V", 0], ["V", 1]])
    add([["V", 0], ["R", "jti-0"], ["P"], ["V", 0], ["V", 2]])
    add([["V", 2], ["R", "jti-2"], ["T", 61], ["V", 2], ["T", 61], ["V", 2]], ttl="")  # real sweeper evicts the entry
    add([["V", 0], ["T", 3599], ["V", 0], ["T", 1], ["V", 0], ["V", 1]])              # expiry while cached
    add([["V", 0], ["V", 1], ["V", 2], ["V", 0], ["V", 1], ["V", 2]], aud="")
    return hs


ALG_V = ALGS


def vstr(s):
    return vf.vstr(s) if s else "[]"


def coq_token(t):
    allowed, found, sig = crypto(t)
    b = lambda x: "true" if x else "false"
    oz = lambda x: "None" if x is None else "(Some (%d))" % x
    return "mkT %s %s %s %s [%s] %s %s %s %s %s" % (ALGS[t["alg"]], b(found), b(sig), vstr(t["iss"]), "; ".join(vstr(a) for a in t["aud"]),
                                                    oz(t["exp"]), oz(t["nbf"]), vstr(t["jti"]), vstr(t["sub"]), vstr(t["client"]))


def coq_ops(ops):
    out = []
    for o in ops:
        if o[0] == "V":
            out.append("Validate %d" % o[1])
        elif o[0] == "R":
            out.append("Revoke %s" % vstr(o[1]))
        elif o[0] == "T":
            out.append("Advance %d" % o[1])
        elif o[0] == "X":
            out.append("Evict %d" % o[1])
        else:
            out.append("Purge")
    return "[" + "; ".join(out) + "]"


def run(ck):
    quick = ck.tier == "quick"
    ck.cov["rule"] = ("histories over 2-5 JWTs built from a valid RS256 token by 1-2 mutations out of %d (algorithms RS256/384/512 ES256 HS256-key-confusion "
                      "none PS256 EdDSA; forged/mismatched/missing/unknown/non-signing kid; tampered payload; iss/aud/exp/nbf/jti/sub variations; shared "
                      "jti), ops validate/revoke/advance clock/evict/purge; corpus first (witness of C22_refuted_current). distinct_nontrivial = distinct "
                      "(token fields, revoked?, cached?-agnostic) validations of a token that is accepted at some point of its history and validated "
                      "again after a revocation, eviction, purge or clock advance" % len(set(MUTS)))
    ck.assume("signature verification and kid lookup are oracle fields fixed per token string (static JWKS; rotation / refresh rate limit not modelled)",
              "the revocation store answers without error and revocations are never undone (tokens.Delete is an administrator action outside the property)",
              "ego.server.oauth.user.claim = sub; ego.server.oauth.provider is non-empty in resource-server mode")
    ck.trusted("harness/C22/c22_test.go (in-package overlay: test keys, in-process JWKS transport, SQLite blacklist, synctest clock), props/C22.py generators and comparison",
               "correspondence evaluated by vm_compute in a generated cases file")
    ck.coq_stage(GROUP, theorems=["C22_accept_sound", "C22_revocation_effective", "C22_accept_complete", "C22_refuted_current"])

    ok, binp = vf.go_test_build(ck.work, PKG, {PKG + "/zz_verif_c22_test.go": os.path.join(vf.HARNESS, "C22", "c22_test.go")}, "c22.test")
    if not ok:
        ck.violation("harness-build", "harness for %s does not build:\n%s" % (PKG, binp[-1500:]), replay={"log": binp[-3000:]}, found_input=False)
        return
    hs = corpus()
    n = 90 if quick else 1500
    while len(hs) < n:
        hs.append(gen_history(ck.rng, len(hs), quick, ttl="" if ck.rng.random() < 0.15 else "1000h"))
    if ck.replay_file:
        rp = json.load(open(ck.replay_file))["replay"]
        if isinstance(rp, dict) and "history" in rp:
            hs = [dict(rp["history"], id=0)]
    inp, outp = os.path.join(ck.work, "in.json"), os.path.join(ck.work, "out.json")
    json.dump(hs, open(inp, "w"))
    rc, log = vf.run_bin(binp, "^TestVerifC22$", {"VERIF_IN": inp, "VERIF_OUT": outp}, timeout=900)
    if rc != 0 or not os.path.exists(outp):
        ck.violation("harness-run", "harness failed:\n" + log[-1500:], replay={"log": log[-3000:]}, found_input=False)
        return
    res = {r["id"]: r for r in json.load(open(outp))}

    # ---------------- property oracle on the real outputs (independent of the Coq model)
    nontriv = set()
    oracle_hit = False
    nval = nacc = nrev = nclass = 0
    mutdist = {}
    for h in hs:
        r = res[h["id"]]
        if r.get("err"):
            ck.violation("harness-case", "harness: %s" % r["err"], replay={"history": h}, found_input=False)
            continue
        now, revoked, k = 0, set(), 0
        seen_ok, disturbed = set(), set()
        for o in h["ops"]:
            if o[0] == "R":
                revoked.add(o[1])
                disturbed |= seen_ok
            elif o[0] == "T":
                now += o[1]
                disturbed |= seen_ok
            elif o[0] in ("X", "P"):
                disturbed |= seen_ok
            elif o[0] == "V":
                t = h["tokens"][o[1]]
                code, user = r["codes"][k], r["users"][k]
                k += 1
                nval += 1
                g = good_at(t, h["aud"], now)
                rev = t["jti"] != "" and t["jti"] in revoked
                want = 0 if not g else (2 if rev else (1 if user_of(t) else 0))
                what = None
                if code == 1:
                    nacc += 1
                    if rev and g:
                        what = ("revoked-token-accepted", "a JWT whose token ID %r was revoked earlier in the history was accepted" % t["jti"])
                    elif not g:
                        allowed, found, sig = crypto(t)
                        why = ("algorithm %s not allowed" % t["alg"] if not allowed else "kid %r is not a published signing key" % t["kid"] if not found
                               else "signature does not verify" if not sig else "issuer %r" % t["iss"] if t["iss"] != ISS
                               else "audience %r" % t["aud"] if h["aud"] and h["aud"] not in t["aud"] else "exp %r at now=%d" % (t["exp"], now)
                               if t["exp"] is None or now >= t["exp"] else "nbf %r at now=%d" % (t["nbf"], now))
                        what = ("invalid-token-accepted", "a JWT was accepted although: " + why)
                    elif user != user_of(t):
                        what = ("wrong-user", "accepted as user %r, token names %r" % (user, user_of(t)))
                    if o[1] in disturbed:
                        nontriv.add((json.dumps(t, sort_keys=True), rev))
                    seen_ok.add(o[1])
                elif want == 1:
                    what = ("valid-token-refused", "a JWT satisfying every clause (not revoked) was refused with class %d" % code)
                elif code != want:
                    nclass += 1          # refusal class (revoked vs other) differs: informational, not part of the property
                if code == 2:
                    nrev += 1
                if what:
                    oracle_hit = True
                    ck.violation(what[0], "%s; token %s; history ops %s (V = validate, R = revoke, T = advance seconds, X = evict, P = purge), validation #%d" % (
                        what[1], json.dumps(t), json.dumps(h["ops"]), k), replay={"history": h})
        for t in h["tokens"]:
            allowed, found, sig = crypto(t)
            key = ("alg-ok" if allowed else "alg-bad") + ("/key" if found else "/nokey") + ("/sig" if sig else "/badsig")
            mutdist[key] = mutdist.get(key, 0) + 1
    ck.cov["evaluations"] = nval
    ck.cov["distinct_nontrivial"] = len(nontriv)
    ck.cov["input_distribution"] = {"histories": len(hs), "validations": nval, "accepted": nacc, "refused_as_revoked": nrev, "refusal_class_differs_from_oracle": nclass,
                                    "real_sweeper_histories": sum(1 for h in hs if not h["ttl"]), "audience_unchecked": sum(1 for h in hs if not h["aud"]),
                                    "tokens_by_crypto_class": mutdist, "jwks_fetches": sum(r.get("fetches", 0) for r in res.values())}
    for h in hs[:2] + hs[10:12]:
        ck.sample({"ops": h["ops"], "tokens": [{k: v for k, v in t.items() if k in ("alg", "signer", "kid", "exp", "jti")} for t in h["tokens"]],
                   "codes": res[h["id"]].get("codes"), "users": res[h["id"]].get("users")})

    # ---------------- correspondence with the model
    if getattr(ck, "coq_broken", None):
        if not oracle_hit:
            grp, log = ck.coq_broken
            ck.violation("proof-broken", "Coq development coq/%s no longer checks (C22 theorems); %d validations on the real code showed no violation:\n%s" % (grp, nval, log[-1200:]),
                         replay={"broken": "coq/" + grp, "log": log[-3000:]}, found_input=False)
        return
    L = ["From Common Require Import Base.", "From Jwt Require Import Model.", "Open Scope Z_scope.",
         "Definition dflt := mkT NoneAlg false false [] [] None None [] [] [].",
         "Fixpoint nl_eqb (a b : list N) : bool := match a, b with [], [] => true | x :: a', y :: b' => N.eqb x y && nl_eqb a' b' | _, _ => false end.",
         "Fixpoint sl_eqb (a b : list str) : bool := match a, b with [], [] => true | x :: a', y :: b' => str_eqb x y && sl_eqb a' b' | _, _ => false end.",
         "Record hcase := HC { hc : config; ht : list token; ho : list op; hcodes : list N; husers : list str }.",
         "Definition hc_ok (c : hcase) : bool := let o := outcomes true (hc c) (tok_table (ht c) dflt) (ho c) (init 0) in nl_eqb (map (fun x => N.min 1 (outcome_code x mod 2)) o) (hcodes c) && sl_eqb (map outcome_user o) (husers c).",
         "Definition hc_old_differs (c : hcase) : bool := negb (nl_eqb (map (fun x => N.min 1 (outcome_code x mod 2)) (outcomes false (hc c) (tok_table (ht c) dflt) (ho c) (init 0))) (hcodes c)).",
         "Fixpoint idx {A} (f : A -> bool) (i : nat) (l : list A) : list nat := match l with [] => [] | x :: r => (if f x then [] else [i]) ++ idx f (S i) r end."]
    cs, cmap = [], []
    for h in hs:
        r = res[h["id"]]
        if r.get("err"):
            continue
        cs.append("HC (mkC %s %s) [%s] %s %s [%s]" % (vstr(h["iss"]), vstr(h["aud"]), "; ".join(coq_token(t) for t in h["tokens"]), coq_ops(h["ops"]),
                                                      vf.vN([1 if c == 1 else 0 for c in r["codes"]]) if r["codes"] else "[]", "; ".join(vstr(u) for u in (r["users"] or []))))
        cmap.append(h)
    L.append("Definition cases : list hcase := [\n" + ";\n".join(cs) + "].")
    okc, ev = vf.coq_eval(GROUP, ck.work, "cases", "\n".join(L), {"BAD": "idx hc_ok 0 cases",
                                                                   "OLD": "[length (filter hc_old_differs cases)]"})
    if not okc:
        ck.violation("correspondence-eval", "model evaluation failed:\n" + str(ev)[-1500:], replay={"log": str(ev)[-3000:]}, found_input=False)
        return
    ck.cov["traces_validated_against_impl"] = len(cs) - len(ev["BAD"])
    ck.cov["input_distribution"]["histories_distinguishing_the_unrepaired_model"] = ev["OLD"][0] if ev["OLD"] else 0
    if not oracle_hit:
        for i in ev["BAD"][:5]:
            h = cmap[i]
            ck.violation("corr-history", "model and implementation disagree on history %s: real codes %s users %s" % (
                json.dumps(h["ops"]), res[h["id"]]["codes"], res[h["id"]]["users"]), replay={"history": h}, found_input=False)
