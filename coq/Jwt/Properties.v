(* Jwt/Properties.v — property theorems of C22 only; proofs live in Proofs.v. *)
From Common Require Import Base.
From Jwt Require Import Model Proofs.
Open Scope Z_scope.

(* the claim/revocation part of the property for a given version of ValidateJWT *)
Definition C22_statement (fixed : bool) : Prop :=
  forall cfg toks t0 d0 h id, 0 < c_ttl cfg ->
    let s := run fixed cfg toks h (init t0 d0) in
    accepted (validate fixed cfg s id (toks id)) = true -> claims_ok cfg (now s) (revoked s) (toks id) = true.

(* code before the repair: the revocation list is consulted only on a cache hit, so a revoked token that
   was never presented before (or whose cache entry is gone) is accepted *)
Theorem C22_refuted_current :
  exists cfg toks d0 h id, 0 < c_ttl cfg /\
    In (Revoke (t_jti (toks id))) h /\ t_jti (toks id) <> [] /\
    accepted (validate false cfg (run false cfg toks h (init 0 d0)) id (toks id)) = true.
Proof. exact refuted_current. Qed.

(* repaired code, every history of validations / revocations / clock advances / cache evictions / purges /
   JWKS rotations from server start: an accepted JWT uses an allowed algorithm, issuer and audience match
   the configuration (when configured), exp is present and in the future, nbf has passed, its token ID is
   not revoked; and EITHER it is a result-cache hit (verified when it was cached: this theorem at that
   step) OR its signature is intact and was made with the material the cached key set holds for its kid
   (the first key without kid), that key set being less than the TTL old when the token names a kid *)
Theorem C22_accept_sound :
  forall cfg toks t0 d0 h id, 0 < c_ttl cfg ->
    let s := run true cfg toks h (init t0 d0) in
    let r := validate true cfg s id (toks id) in
    accepted r = true ->
    let t := toks id in
    (alg_allowed (t_alg t) = true /\ iss_ok cfg t = true /\ aud_ok cfg t = true /\
     (exists e, t_exp t = Some e /\ now s < e) /\ nbf_ok (now s) t = true /\
     is_revoked (revoked s) (t_jti t) = false) /\
    (hit s id \/ key_now cfg (fst r) t).
Proof. exact accept_sound. Qed.

(* "published key": after every history the cached key set is empty (nothing fetched yet) or exactly the
   usable keys of the document the IdP served at some earlier point h1 of the history — the moment of the
   most recent successful fetch (fetched_at = the time then).  Keys the IdP withdrew before that fetch
   are gone; nothing is carried over. *)
Theorem C22_keys_from_last_fetch :
  forall fixed cfg toks t0 d0 h, 0 < c_ttl cfg ->
    let s := run fixed cfg toks h (init t0 d0) in
    jwks s = [] \/
    exists h1 h2, h = h1 ++ h2 /\
      jwks s = usable (published (run fixed cfg toks h1 (init t0 d0))) /\
      fetched_at s = now (run fixed cfg toks h1 (init t0 d0)).
Proof. exact keys_from_last_fetch. Qed.

(* revocation takes effect for every later request, whether or not the token was seen before: from ANY
   state satisfying the cache invariant (any cache content, any key set), after any history h1 containing
   the revocation and any continuation h2 *)
Theorem C22_revocation_effective :
  forall cfg toks s0 h1 h2 j id, 0 < c_ttl cfg ->
    Inv cfg toks s0 -> j <> [] -> t_jti (toks id) = j -> In (Revoke j) h1 ->
    accepted (validate true cfg (run true cfg toks (h1 ++ h2) s0) id (toks id)) = false.
Proof. exact revocation_effective. Qed.

(* and nothing else is refused: claims fine, not revoked, names a user, and a live result-cache entry or a
   key selection yielding the signing material -> accepted as that user (old and repaired code alike) *)
Theorem C22_accept_complete :
  forall fixed cfg toks t0 d0 h id, 0 < c_ttl cfg ->
    let s := run fixed cfg toks h (init t0 d0) in
    claims_ok cfg (now s) (revoked s) (toks id) = true -> is_nil (user_of (toks id)) = false ->
    (hit s id \/ (snd (select_key cfg s (toks id)) = Some (t_signer (toks id)) /\ t_sig_valid (toks id) = true)) ->
    snd (validate fixed cfg s id (toks id)) = Accept (user_of (toks id)).
Proof. exact accept_complete_run. Qed.

(* non-vacuity *)
Example C22_nonvacuous :
  let toks := fun _ : nat => demo_tok in
  (* accepted, cached, accepted again, revoked -> refused on the hit path and on the miss path *)
  map outcome_code (outcomes true demo_cfg toks
     [Validate 0; Advance 10; Validate 0; Revoke [106]%N; Validate 0; Validate 0; Purge; Validate 0] (init 0 demo_doc))
    = [1; 1; 2; 2; 2]%N /\
  map outcome_code (outcomes false demo_cfg toks
     [Validate 0; Advance 10; Validate 0; Revoke [106]%N; Validate 0; Validate 0; Purge; Validate 0] (init 0 demo_doc))
    = [1; 1; 2; 1; 1]%N /\
  (* rotation: key 1 withdrawn (kid reused for key 2); cached result still served; after purge the fresh key
     set still verifies it; once the key set is older than the TTL it is re-fetched and the token refused *)
  map outcome_code (outcomes true demo_cfg toks
     [Validate 0; Rotate demo_doc2; Validate 0; Purge; Validate 0; Advance 3600; Validate 0] (init 0 demo_doc))
    = [1; 1; 1; 0]%N /\
  claims_ok demo_cfg 0 [] demo_tok = true /\ claims_ok demo_cfg 1000 [] demo_tok = false /\
  Inv demo_cfg toks (run true demo_cfg toks [Validate 0] (init 0 demo_doc)) /\
  jwks (run true demo_cfg toks [Validate 0] (init 0 demo_doc)) = [([107]%N, 1%nat)].
Proof.
  cbv zeta. split; [vm_compute; reflexivity|]. split; [vm_compute; reflexivity|].
  split; [vm_compute; reflexivity|]. split; [vm_compute; reflexivity|]. split; [vm_compute; reflexivity|].
  split; [apply Inv_run; [reflexivity|apply Inv_init]|]. vm_compute. reflexivity.
Qed.
