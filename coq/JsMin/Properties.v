(* JsMin/Properties.v — property theorems of C33 only; proofs live in Proofs.v. *)
From JsMin Require Import Model Proofs Relex RelexPairs.
From Coq Require Import String.
Open Scope N_scope.

(* Full statement (NOT provable: JavaScript semantics are outside the model): for every semicolon-terminated
   script the minified text is valid JavaScript with the same observable behaviour.  What is proved instead
   is the token-level kernel below; behaviour is observed with node by the check. *)
Definition C33_statement : Prop :=
  forall (js_equiv : str -> str -> Prop) (src : str) (order : list str),
    forall out, minify1 true order src = Some out -> js_equiv src out.

(* Every token of the input is emitted unchanged, or it is an identifier of the renamable set that does not
   follow '.' / '?.' and is replaced by its short name; in the shorthand case the original name stays as key.
   Holds for every token list and every order in which Go's map iteration visits the locals. *)
Theorem C33_only_locals_renamed :
  forall fx order ts outs i t,
    (forall x, In x order -> In x (renamable fx ts)) ->
    rename_outs fx order ts = Some outs ->
    nth_error ts i = Some t ->
    exists o, nth_error outs i = Some o /\
      (o = [t] \/
       (fst t = tkIdent /\ In (snd t) (renamable fx ts) /\ after_dot (rev (firstn i ts)) = false /\
        exists m short, build_map order 0 (idents_of ts) = Some m /\ lookup (snd t) m = Some short /\
                        (o = [(tkIdent, short)] \/ o = [t; colon; (tkIdent, short)]))).
Proof.
  intros fx order ts outs i t Hsub H Hn.
  destruct (rename_outs_spec fx order ts outs i t H Hn) as [o [Ho Hs]].
  exists o. split; [exact Ho|].
  destruct Hs as [->|[Hid [Hin [Hd Hex]]]]; [left; reflexivity|].
  right. repeat split; auto. apply N.eqb_eq. exact Hid.
Qed.

(* names that may be renamed are never reserved words / protected globals, never bound at file scope, and
   (repaired code) never used inside a template-literal substitution *)
Theorem C33_renamable_not_protected :
  forall fx ts x, In x (renamable fx ts) ->
    reserved x = false /\ ~ In x (snd (collect_locals ts)) /\ (fx = true -> ~ In x (template_names ts)).
Proof. exact renamable_spec. Qed.

(* the rename map is injective and its short names are new *)
Theorem C33_renaming_injective_fresh :
  forall order ts m, build_map order 0 (idents_of ts) = Some m ->
    map fst m = order /\ NoDup (map snd m) /\ (forall s, In s (map snd m) -> ~ In s (idents_of ts)).
Proof.
  intros order ts m H. apply build_map_spec in H as [H1 [H2 H3]]. auto.
Qed.

(* no capture: a renamed identifier never becomes equal to an identifier that survives unrenamed *)
Theorem C33_no_capture :
  forall order ts m x short t, build_map order 0 (idents_of ts) = Some m ->
    lookup x m = Some short -> In t ts -> fst t = tkIdent -> snd t <> short.
Proof.
  intros order ts m x short t H Hl Hin Hk Heq.
  apply build_map_spec in H as [_ [Hfr _]].
  apply lookup_In in Hl as [_ Hs]. apply (Hfr short Hs).
  unfold idents_of. subst short. apply in_map. apply filter_In. split; [exact Hin|].
  unfold is_id. rewrite Hk. reflexivity.
Qed.

(* ---- separators: pairwise re-lexing over a finite alphabet (reflection) *)
(* alphabet, pair_producible, excluded: defined in RelexPairs.v *)
Theorem C33_emit_relex_pairs_partial :
  forall t1 t2, In t1 alphabet -> In t2 alphabet -> pair_producible t1 t2 = true -> excluded t1 t2 = false ->
    relex_ok true [t1; wsp; t2] = true.
Proof.
  assert (H : forallb (fun t1 => forallb (fun t2 =>
                negb (pair_producible t1 t2) || excluded t1 t2 || relex_ok true [t1; wsp; t2]) alphabet) alphabet = true)
    by (vm_compute; reflexivity).
  intros t1 t2 H1 H2 Hp He. rewrite forallb_forall in H. specialize (H t1 H1).
  rewrite forallb_forall in H. specialize (H t2 H2). rewrite Hp, He in H. exact H.
Qed.

(* whole token lists: for every list of identifier, number and operator tokens (any values, any length, blanks anywhere)
   that is well formed ([wf]: each token has the shape the lexer gives that kind, '/' is not in regex position, and the byte
   that follows it in the emitted text cannot extend it - [boundary_ok], a condition on the token and its successor only),
   the emitted text lexes back to exactly these tokens.  Strings, templates, regex literals and comments are outside [wf]. *)
Theorem C33_emit_relex_lists :
  forall ts, wf [] ts = true -> strip_ws (tokenize (emit true ts)) = strip_ws ts.
Proof. exact relex_lists. Qed.

(* the locality property of the model lexer the induction rests on: a well-shaped token followed by any text whose first
   byte passes [boundary_ok] is scanned as exactly that token, whatever comes later and whatever was lexed before (up to
   regex context) *)
Theorem C33_lexer_locality :
  forall t rout rest, tok_shape t (is_regex_ctx rout) = true -> boundary_ok t (hd_opt rest) = true ->
    exists b a, snd t = b :: a /\ lex_one b (a ++ rest) rout = (t, rest, false).
Proof. exact lex_tok_app. Qed.

(* the pairwise theorem lifted to whole lists: any list (any length, blanks anywhere) of identifier / number / operator
   tokens of the alphabet in which the first token can start a script and every two adjacent non-blank tokens form a
   producible, non-excluded pair ([chain_ok]) is emitted as text that lexes back to the same tokens.  Uses the pairwise
   fact [pairs_good] for adjacent tokens and the locality of the lexer for everything else. *)
Theorem C33_emit_relex_chain :
  forall ts, (forall u, In u (strip_ws ts) -> In u A3) -> chain_ok ts = true ->
    strip_ws (tokenize (emit true ts)) = strip_ws ts.
Proof. exact relex_chain. Qed.

Example C33_relex_chain_nonvacuous :
  let ts := tokenize (s2l "let a = x1 +  ++ n ; return a >>= 42 , typeof e ? n : ( 0xff !== 10n ) + 1.5 ") in
  forallb (fun u => existsb (tok_eqb u) A3) (strip_ws ts) = true /\ chain_ok ts = true /\ List.length (strip_ws ts) = 25%nat /\
  emit true ts = s2l "let a=x1+ ++n;return a>>=42,typeof e?n:(0xff!==10n)+1.5".
Proof. vm_compute. repeat split; reflexivity. Qed.

(* composition with the renaming: when the renamed token list (whose every token is described by
   C33_only_locals_renamed) is well formed, the minified text lexes to exactly that renamed list *)
Theorem C33_minified_relex :
  forall order src rs, rename_locals true order (strip_comments (tokenize src)) = Some rs -> wf [] rs = true ->
    exists out, minify1 true order src = Some out /\ strip_ws (tokenize out) = strip_ws rs.
Proof. exact minified_relex. Qed.

Example C33_minified_relex_nonvacuous :
  let src := s2l "function f(p, k){ let q = p + 1, total = q * k; /* c */ return {total, k: q / 2}; } // end" in
  let st := strip_comments (tokenize src) in
  exists rs, rename_locals true (renamable true st) st = Some rs /\ wf [] rs = true /\
             minify1 true (renamable true st) src = Some (s2l "function f(a,b){let c=a+1,d=c*b;return{total:d,k:c/2};}").
Proof. eexists. vm_compute. repeat split; reflexivity. Qed.

Example C33_relex_strings_nonvacuous :
  let ts := tokenize (s2l "let s = 'it\'s' + ""a // b"" + `t=${x}  y` ; f ( s , '' ) ;") in
  wf [] ts = true /\ emit true ts = s2l "let s='it\'s'+""a // b""+`t=${x}  y`;f(s,'');".
Proof. vm_compute. repeat split; reflexivity. Qed.

Example C33_relex_lists_nonvacuous :
  let ts := tokenize (s2l "function f(a1,b){let x = a1 + +b - 1.5e3/2 ; return x>>>=2, x!==b ? x-- : b++ +a1 .5}") in
  wf [] ts = true /\ List.length (strip_ws ts) = 39%nat /\
  emit true ts = s2l "function f(a1,b){let x=a1+ +b-1.5e3/2;return x>>>=2,x!==b?x--:b++ +a1.5}".
Proof. vm_compute. repeat split; reflexivity. Qed.

(* ... and it does not hold for all producible pairs: the lexer's own view of "c ? .5" is not preserved
   (valid JavaScript nevertheless), nor "0xe +1" *)
Theorem C33_emit_relex_refuted :
  exists ts, tokenize (s2l "c ? .5") = ts /\ relex_ok true ts = false.
Proof. eexists. split; [reflexivity|]. vm_compute. reflexivity. Qed.

(* the code before the repair: the token list of a valid script is emitted as text that lexes differently
   (line comment, number swallowing a dot, HTML comment opener), declaration lists are rewritten as
   shorthand properties, and a local used in a template substitution is renamed away from its use *)
Theorem C33_old_refuted :
  (exists ts, ts = tokenize (s2l "q / /2/.source") /\ relex_ok false ts = false /\ relex_ok true ts = true) /\
  (exists ts, ts = tokenize (s2l "1 .toString()") /\ relex_ok false ts = false /\ relex_ok true ts = true) /\
  (exists ts, ts = tokenize (s2l "a < !--b") /\ emit false ts = s2l "a<!--b" /\ emit true ts = s2l "a<! --b") /\
  (exists ts, ts = tokenize (s2l "function f(){let a,b,c;}") /\
     option_map (emit true) (rename_locals false (renamable false ts) ts) = Some (s2l "function f(){let d,b:e,g;}") /\
     option_map (emit true) (rename_locals true (renamable true ts) ts) = Some (s2l "function f(){let d,e,g;}")) /\
  (exists ts, ts = tokenize (s2l "function f(){let n=1;return `${n}`;}") /\
     option_map (emit true) (rename_locals false (renamable false ts) ts) = Some (s2l "function f(){let a=1;return`${n}`;}") /\
     renamable true ts = []).
Proof. repeat split; eexists; (split; [reflexivity|]); vm_compute; repeat split; reflexivity. Qed.

(* non-vacuity *)
Example C33_nonvacuous :
  let ts := strip_comments (tokenize ex_src) in
  renamable true ts = [s2l "q"] /\ snd (collect_locals ts) = [s2l "g"; s2l "f"] /\ template_names ts = [s2l "$"; s2l "p"] /\
  option_map (emit true) (rename_locals true (renamable true ts) ts) =
    Some (s2l "var g=1;function f(p){let a=g+p;return{q:a,k:`${p}`}.k;}") /\
  List.length (filter (fun p => pair_producible (fst p) (snd p) && negb (excluded (fst p) (snd p))) (list_prod alphabet alphabet)) = 3541%nat.
Proof. vm_compute. repeat split; reflexivity. Qed.
