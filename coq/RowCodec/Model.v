(* RowCodec/Model.v — executable model of the value path of the REST row endpoints on the SQLite backend:
     write:  JSON payload -> encoding/json (numbers become float64) -> parsing.CoerceToColumnType -> bindTimeValue
             -> bound parameter -> SQLite cell
     read:   SQLite cell -> driver value -> parsing.CoerceToColumnType -> encoding/json
   (/repo/internal/server/tables/rows.go getRowSet, insertRowSet, readRowData; parsing/generators.go).
   Definitions only, no proofs. *)
From Coq Require Export List ZArith Lia Bool.
Export ListNotations.
Open Scope Z_scope.

(* column types of a table created through the REST interface on SQLite (parsing.MapColumnType): int/int32/int64 are
   INTEGER, bool is BOOLEAN (0/1), string is TEXT, timestamp/date/time are RFC 3339 TEXT; float32/float64 are REAL *)
Inductive ty := TInt | TBool | TStr | TTs.

(* values of those types; a timestamp is an instant: seconds since the epoch and nanoseconds *)
Inductive value :=
| VInt (z : Z)
| VBool (b : bool)
| VStr (s : list N)          (* code points *)
| VTs (sec nano : Z).

(* SQLite cells *)
Inductive cell := CInteger (z : Z) | CText (s : list N) | CTime (sec nano : Z) | CNull.

(* ---------- integers: JSON number -> float64 -> Go int *)
Definition two53 := 9007199254740992.
Definition two63 := 9223372036854775808.

(* the float64 nearest to the integer z (round half to even), as an integer; exact up to 2^53 *)
Definition f64 (z : Z) : Z :=
  let a := Z.abs z in
  if a <=? two53 then z
  else let e := Z.log2 a - 52 in
       let q := a / 2 ^ e in
       let r := a mod 2 ^ e in
       let half := 2 ^ (e - 1) in
       let q' := if (half <? r) || ((r =? half) && Z.odd q) then q + 1 else q in
       Z.sgn z * (q' * 2 ^ e).

(* Go int(float64) on amd64 for an integral float: out of range gives the "integer indefinite" value -2^63 *)
Definition to_int (f : Z) : Z := if (- two63 <=? f) && (f <? two63) then f else - two63.

(* ---------- write side *)
Inductive res (A : Type) := Ok (a : A) | Rejected.
Arguments Ok {A}. Arguments Rejected {A}.

(* fixed = true: bindTimeValue formats with RFC3339Nano (repaired); false: RFC3339, whole seconds only *)
Definition coerce_store (fixed : bool) (t : ty) (v : value) : res cell :=
  match t, v with
  | TInt, VInt z => Ok (CInteger (to_int (f64 z)))
  | TBool, VBool b => Ok (CInteger (if b then 1 else 0))
  | TStr, VStr s => Ok (CText s)                                  (* bound as a parameter: no quoting, no trimming *)
  | TTs, VTs sec nano => Ok (CTime sec (if fixed then nano else 0))  (* UTC instant as RFC 3339 text *)
  | _, _ => Rejected                                               (* other spellings are outside this model *)
  end.

(* ---------- the repaired decoding (fix 4112ced4): the payload is decoded with UseNumber; a number whose text is an
   integer that fits in 64 bits becomes a Go int exactly, anything else the float64 it was before.
   exact = false is the old decoding (every number through float64). *)
Definition json_int (exact : bool) (z : Z) : Z :=
  if exact && (- two63 <=? z) && (z <? two63) then z else to_int (f64 z).

Definition coerce_store_n (exact fixed : bool) (t : ty) (v : value) : res cell :=
  match t, v with
  | TInt, VInt z => Ok (CInteger (json_int exact z))
  | _, _ => coerce_store fixed t v
  end.

(* ---------- read side: driver value -> CoerceToColumnType -> JSON *)
Definition read (t : ty) (c : cell) : res value :=
  match t, c with
  | TInt, CInteger z => Ok (VInt z)
  | TBool, CInteger z => Ok (VBool (negb (z =? 0)))
  | TStr, CText s => Ok (VStr s)
  | TTs, CTime sec nano => Ok (VTs sec nano)
  | _, _ => Rejected
  end.

Definition roundtrip (fixed : bool) (t : ty) (v : value) : res value :=
  match coerce_store fixed t v with Ok c => read t c | Rejected => Rejected end.

Definition roundtrip_n (exact fixed : bool) (t : ty) (v : value) : res value :=
  match coerce_store_n exact fixed t v with Ok c => read t c | Rejected => Rejected end.

(* which values of a column type come back unchanged *)
Definition representable (t : ty) (v : value) : Prop :=
  match t, v with
  | TInt, VInt z => Z.abs z <= two53
  | TBool, VBool _ => True
  | TStr, VStr _ => True
  | TTs, VTs _ nano => 0 <= nano < 1000000000
  | _, _ => False
  end.

(* values the documented type can hold *)
Definition of_type (t : ty) (v : value) : Prop :=
  match t, v with
  | TInt, VInt z => - two63 <= z < two63
  | TBool, VBool _ => True
  | TStr, VStr _ => True
  | TTs, VTs _ nano => 0 <= nano < 1000000000
  | _, _ => False
  end.

(* ---------- date and time columns (stored, like timestamps, as UTC RFC 3339 text of an instant)
   "YYYY-MM-DD" is read as midnight UTC of that day; a bare time of day "hh:mm:ss[.fraction]" is (fix c281d43a,
   util.parseTimeOfDay) that time on January 1 of year 0, UTC - what Go's time.Parse gives for a layout without a
   date.  The value read back is the RFC 3339 text of that instant. *)
Definition year0 : Z := -62167219200.       (* 0000-01-01T00:00:00Z in seconds since the epoch *)

Inductive col := Col (t : ty) | ColDate | ColTime.
Inductive cvalue :=
| CV (v : value)
| CVDate (day : Z)                          (* days since 1970-01-01 *)
| CVTod (sec nano : Z).                     (* seconds since midnight, nanoseconds *)

(* the instant a date / time-of-day value is parsed to (CoerceToColumnType -> StrictParseTimestamp) *)
Definition instant_of (v : cvalue) : res value :=
  match v with
  | CVDate d => Ok (VTs (86400 * d) 0)
  | CVTod s n => Ok (VTs (year0 + s) n)
  | CV _ => Rejected
  end.
(* how the client reads the RFC 3339 text that comes back *)
Definition date_of_instant (v : value) : res cvalue :=
  match v with
  | VTs s n => if (s mod 86400 =? 0) && (n =? 0) then Ok (CVDate (s / 86400)) else Rejected
  | _ => Rejected
  end.
Definition tod_of_instant (v : value) : res cvalue :=
  match v with
  | VTs s n => if (year0 <=? s) && (s <? year0 + 86400) then Ok (CVTod (s - year0) n) else Rejected
  | _ => Rejected
  end.

Definition roundtrip_col (c : col) (v : cvalue) : res cvalue :=
  match c, v with
  | Col t, CV x => match roundtrip_n true true t x with Ok y => Ok (CV y) | Rejected => Rejected end
  | ColDate, CVDate _ =>
      match instant_of v with
      | Ok i => match roundtrip_n true true TTs i with Ok j => date_of_instant j | Rejected => Rejected end
      | Rejected => Rejected
      end
  | ColTime, CVTod _ _ =>
      match instant_of v with
      | Ok i => match roundtrip_n true true TTs i with Ok j => tod_of_instant j | Rejected => Rejected end
      | Rejected => Rejected
      end
  | _, _ => Rejected
  end.

Definition of_col_type (c : col) (v : cvalue) : Prop :=
  match c, v with
  | Col t, CV x => of_type t x
  | ColDate, CVDate _ => True
  | ColTime, CVTod s n => 0 <= s < 86400 /\ 0 <= n < 1000000000
  | _, _ => False
  end.

(* ---------- float64 / float32 columns (REAL), abstractly: values are finite binary64 numbers, texts are decimal
   spellings.  The payload number is parsed by json.Number.Float64 (strconv.ParseFloat), bound to a REAL cell, read
   back as float64 and written by encoding/json (strconv.AppendFloat, shortest spelling that parses back, 'e' form
   below 1e-6 and from 1e21); the client parses that text. *)
Section Floats.
  Variable F : Type.
  Variable client_format server_format : F -> list N.
  Variable parse_float : list N -> option F.      (* None: not a number, or out of range (1e999) -> the row is rejected *)
  Variable sqlite_real : F -> F.
  Definition float_roundtrip (f : F) : option F :=
    match parse_float (client_format f) with
    | Some g => parse_float (server_format (sqlite_real g))
    | None => None
    end.
End Floats.

(* ---------- one table name over time: the column type used for coercion comes from the schema cache ----------
   getColumnInfo caches the column list per (user, dsn, table, showRowID): the write handlers (InsertRows, UpdateRows) use
   the showRowID=false entry, ReadRows the showRowID=true entry.  TableCreate and DeleteTable purge the schema cache.
   purge_all = true is the code (caches.Purge(SchemaCache)); false models an eviction of the write entry only. *)
Record tstate := mkT {
  actual : option ty;      (* the column type of the table that exists now *)
  held : option cell;      (* the cell of its row *)
  cw : option ty;          (* cached column type used by the write handlers *)
  cr : option ty           (* cached column type used by ReadRows *)
}.
Inductive top := TCreate (t : ty) | TDrop | TWrite (v : value) | TRead | TEvictW | TEvictR.

Definition tstep (purge_all : bool) (s : tstate) (o : top) : tstate * option (res value) :=
  match o with
  | TCreate t =>
      match actual s with
      | Some _ => (s, None)                                        (* table exists: error, nothing changes *)
      | None => (mkT (Some t) None None (if purge_all then None else cr s), None)
      end
  | TDrop =>
      match actual s with
      | Some _ => (mkT None None None (if purge_all then None else cr s), None)
      | None => (s, None)
      end
  | TWrite v =>
      match actual s with
      | None => (s, None)
      | Some t =>
          let tw := match cw s with Some c => c | None => t end in
          (mkT (actual s) (match coerce_store_n true true tw v with Ok c => Some c | Rejected => held s end) (Some tw) (cr s), None)
      end
  | TRead =>
      match actual s with
      | None => (s, None)
      | Some t =>
          let tr := match cr s with Some c => c | None => t end in
          (mkT (actual s) (held s) (cw s) (Some tr),
           Some (match held s with Some c => read tr c | None => Rejected end))
      end
  | TEvictW => (mkT (actual s) (held s) None (cr s), None)
  | TEvictR => (mkT (actual s) (held s) (cw s) None, None)
  end.
Definition tinit : tstate := mkT None None None None.
Definition trun (purge_all : bool) (h : list top) : tstate := fold_left (fun s o => fst (tstep purge_all s o)) h tinit.

Fixpoint ns_eqb (a b : list N) : bool :=
  match a, b with
  | [], [] => true
  | x :: a', y :: b' => (x =? y)%N && ns_eqb a' b'
  | _, _ => false
  end.
Definition value_eqb (a b : value) : bool :=
  match a, b with
  | VInt x, VInt y => x =? y
  | VBool x, VBool y => Bool.eqb x y
  | VStr x, VStr y => ns_eqb x y
  | VTs s n, VTs s' n' => (s =? s') && (n =? n')
  | _, _ => false
  end.
(* per TRead of a history: 1 when it returns the value written last, else 0 *)
Fixpoint chain_reads (purge_all : bool) (s : tstate) (last : option value) (h : list top) : list Z :=
  match h with
  | [] => []
  | o :: r =>
      let (s', out) := tstep purge_all s o in
      let last' := match o with TWrite v => Some v | TCreate _ | TDrop => None | _ => last end in
      match out, last with
      | Some (Ok v), Some w => (if value_eqb v w then 1 else 0) :: chain_reads purge_all s' last' r
      | Some _, _ => 0 :: chain_reads purge_all s' last' r
      | None, _ => chain_reads purge_all s' last' r
      end
  end.

(* ---------- correspondence helpers *)
Definition int_back (z : Z) : Z := to_int (f64 z).
Fixpoint bad_ints (l : list (Z * Z)) (i : nat) : list nat :=
  match l with
  | [] => []
  | (z, want) :: r => if int_back z =? want then bad_ints r (S i) else i :: bad_ints r (S i)
  end.
Fixpoint bad_ints_n (exact : bool) (l : list (Z * Z)) (i : nat) : list nat :=
  match l with
  | [] => []
  | (z, want) :: r => if json_int exact z =? want then bad_ints_n exact r (S i) else i :: bad_ints_n exact r (S i)
  end.
Fixpoint bad_ts (fixed : bool) (l : list (Z * Z * (Z * Z))) (i : nat) : list nat :=
  match l with
  | [] => []
  | (s, n, (ws, wn)) :: r =>
      match roundtrip fixed TTs (VTs s n) with
      | Ok (VTs s' n') => if (s' =? ws) && (n' =? wn) then bad_ts fixed r (S i) else i :: bad_ts fixed r (S i)
      | _ => i :: bad_ts fixed r (S i)
      end
  end.
