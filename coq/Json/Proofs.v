(* Json/Proofs.v — lemmas for C19. *)
From Common Require Import Base.
From Json Require Import Model.
From Coq Require Import ZifyBool ZifyN ZifyNat.
Open Scope N_scope.

(* ---------- scanning is compositional *)
Lemma scan_with_app stp : forall a b s,
  scan_with stp s (a ++ b) =
  let '(s1, o1) := scan_with stp s a in let '(s2, o2) := scan_with stp s1 b in (s2, o1 ++ o2).
Proof.
  induction a as [|c a IH]; intros b s; cbn [scan_with app].
  - destruct (scan_with stp s b); reflexivity.
  - destruct (stp s c) as [s1 o1]. rewrite IH.
    destruct (scan_with stp s1 a) as [s2 o2]. destruct (scan_with stp s2 b) as [s3 o3].
    now rewrite app_assoc.
Qed.

Lemma scan_app_to s a b s1 o1 s2 o2 :
  scan s a = (s1, o1) -> scan s1 b = (s2, o2) -> scan s (a ++ b) = (s2, o1 ++ o2).
Proof. unfold scan. intros Ha Hb. rewrite scan_with_app, Ha, Hb. reflexivity. Qed.

(* ---------- character classes *)
Definition quiet (c : N) : bool := negb (c =? 34) && negb (c =? 92).
Definition solid (c : N) : bool := quiet c && negb (is_space c).

Lemma space_quiet c : is_space c = true -> quiet c = true.
Proof. unfold is_space, quiet. lia. Qed.

Lemma step_out_space c : is_space c = true -> step st0 c = (st0, []).
Proof.
  intros H. pose proof (space_quiet c H) as Q. unfold quiet in Q. unfold step, st0.
  destruct (c =? 92) eqn:E1; [lia|]. destruct (c =? 34) eqn:E2; [lia|]. cbn. now rewrite H.
Qed.

Lemma step_out_solid c : solid c = true -> step st0 c = (st0, [c]).
Proof.
  unfold solid, quiet. intros H. unfold step, st0.
  destruct (c =? 92) eqn:E1; [lia|]. destruct (c =? 34) eqn:E2; [lia|]. cbn.
  destruct (is_space c); [lia|reflexivity].
Qed.

Lemma step_in_quiet c : quiet c = true -> step (true, false) c = ((true, false), [c]).
Proof.
  unfold quiet. intros H. unfold step.
  destruct (c =? 92) eqn:E1; [lia|]. destruct (c =? 34) eqn:E2; [lia|]. reflexivity.
Qed.

Lemma step_in_esc c : step (true, true) c = ((true, false), [c]).
Proof. reflexivity. Qed.

Lemma scan_ws w : forallb is_space w = true -> scan st0 w = (st0, []).
Proof.
  induction w as [|c w IH]; intros H; [reflexivity|].
  cbn [forallb] in H. apply andb_true_iff in H as [Hc Hw].
  unfold scan in *. cbn [scan_with]. rewrite (step_out_space c Hc), (IH Hw). reflexivity.
Qed.

Lemma scan_solid w : forallb solid w = true -> scan st0 w = (st0, w).
Proof.
  induction w as [|c w IH]; intros H; [reflexivity|].
  cbn [forallb] in H. apply andb_true_iff in H as [Hc Hw].
  unfold scan in *. cbn [scan_with]. rewrite (step_out_solid c Hc), (IH Hw). reflexivity.
Qed.

Lemma scan_in_quiet w : forallb quiet w = true -> scan (true, false) w = ((true, false), w).
Proof.
  induction w as [|c w IH]; intros H; [reflexivity|].
  cbn [forallb] in H. apply andb_true_iff in H as [Hc Hw].
  unfold scan in *. cbn [scan_with]. rewrite (step_in_quiet c Hc), (IH Hw). reflexivity.
Qed.

(* ---------- strings: the weak facts the scanner needs *)
Definition item_ok (i : sitem) : bool :=
  match i with
  | Plain c => quiet c
  | Esc _ => true
  | U4 a b c d => quiet a && quiet b && quiet c && quiet d
  end.

Lemma hexd_quiet c : hexd c = true -> quiet c = true.
Proof. unfold hexd, is_digit, quiet. lia. Qed.

Lemma wf_item_ok i : wf_item i = true -> item_ok i = true.
Proof.
  destruct i as [c|c|a b c d]; cbn [wf_item item_ok]; intros H.
  - unfold quiet. lia.
  - reflexivity.
  - apply andb_true_iff in H as [H Hd]. apply andb_true_iff in H as [H Hc]. apply andb_true_iff in H as [Ha Hb].
    now rewrite (hexd_quiet a Ha), (hexd_quiet b Hb), (hexd_quiet c Hc), (hexd_quiet d Hd).
Qed.

Lemma scan_item i : item_ok i = true -> scan (true, false) (item_text i) = ((true, false), item_text i).
Proof.
  destruct i as [c|c|a b c d]; cbn [item_ok item_text]; intros H.
  - unfold scan. cbn [scan_with]. now rewrite (step_in_quiet c H).
  - reflexivity.
  - apply andb_true_iff in H as [H Hd]. apply andb_true_iff in H as [H Hc]. apply andb_true_iff in H as [Ha Hb].
    change [92; 117; a; b; c; d] with ([92; 117] ++ [a; b; c; d]).
    eapply scan_app_to with (o1 := [92; 117]); [reflexivity|].
    apply scan_in_quiet. cbn [forallb]. now rewrite Ha, Hb, Hc, Hd.
Qed.

Lemma scan_items s : forallb item_ok s = true ->
  scan (true, false) (concat (map item_text s)) = ((true, false), concat (map item_text s)).
Proof.
  induction s as [|i s IH]; intros H; [reflexivity|].
  cbn [forallb] in H. apply andb_true_iff in H as [Hi Hs].
  cbn [map concat]. eapply scan_app_to; [apply scan_item, Hi|apply IH, Hs].
Qed.

Lemma scan_str s : forallb item_ok s = true -> scan st0 (str_text s) = (st0, str_text s).
Proof.
  intros H. unfold str_text.
  change (34 :: concat (map item_text s) ++ [34]) with ([34] ++ (concat (map item_text s) ++ [34])).
  eapply scan_app_to with (s1 := (true, false)) (o1 := [34]); [reflexivity|].
  eapply scan_app_to; [apply scan_items, H|reflexivity].
Qed.

(* ---------- tokens *)
Definition tok_ok (t : tok) : bool :=
  match t with
  | TP c => solid c
  | TLit l => forallb solid l
  | TStr s => forallb item_ok s
  end.

Lemma scan_tok t : tok_ok t = true -> scan st0 (tok_text t) = (st0, tok_text t).
Proof.
  destruct t as [c|l|s]; cbn [tok_ok tok_text]; intros H.
  - unfold scan. cbn [scan_with]. now rewrite (step_out_solid c H).
  - now apply scan_solid.
  - now apply scan_str.
Qed.

Lemma scan_interleave : forall ts l,
  forallb tok_ok ts = true -> forallb (forallb is_space) l = true ->
  scan st0 (interleave l ts) = (st0, concat (map tok_text ts)).
Proof.
  assert (Hhd : forall l, forallb (forallb is_space) l = true -> forallb is_space (hd [] l) = true).
  { intros [|w l]; cbn; [reflexivity|]. intros H. now apply andb_true_iff in H as [H _]. }
  assert (Htl : forall l, forallb (forallb is_space) l = true -> forallb (forallb is_space) (tl l) = true).
  { intros [|w l]; cbn; [reflexivity|]. intros H. now apply andb_true_iff in H as [_ H]. }
  induction ts as [|t ts IH]; intros l Ht Hl; cbn [interleave map concat].
  - apply scan_ws, Hhd, Hl.
  - cbn [forallb] in Ht. apply andb_true_iff in Ht as [Ht1 Ht2].
    change (tok_text t ++ concat (map tok_text ts)) with ([] ++ (tok_text t ++ concat (map tok_text ts))).
    eapply scan_app_to; [apply scan_ws, Hhd, Hl|].
    eapply scan_app_to; [apply scan_tok, Ht1|]. apply IH; [exact Ht2|apply Htl, Hl].
Qed.

(* ---------- well-formed values have scanner-friendly tokens *)
Section JvInd.
  Variable P : jv -> Prop.
  Hypothesis Hnull : P JNull.
  Hypothesis Hbool : forall b, P (JBool b).
  Hypothesis Hnum : forall l, P (JNum l).
  Hypothesis Hstr : forall s, P (JStr s).
  Hypothesis Harr : forall l, Forall P l -> P (JArr l).
  Hypothesis Hobj : forall l, Forall (fun kv => P (snd kv)) l -> P (JObj l).
  Fixpoint jv_ind2 (v : jv) : P v :=
    match v with
    | JNull => Hnull
    | JBool b => Hbool b
    | JNum l => Hnum l
    | JStr s => Hstr s
    | JArr l => Harr l ((fix go (l : list jv) : Forall P l :=
                           match l with [] => Forall_nil _ | x :: r => Forall_cons x (jv_ind2 x) (go r) end) l)
    | JObj l => Hobj l ((fix go (l : list (list sitem * jv)) : Forall (fun kv => P (snd kv)) l :=
                           match l with
                           | [] => Forall_nil _
                           | kv :: r => Forall_cons kv (jv_ind2 (snd kv)) (go r)
                           end) l)
    end.
End JvInd.

Lemma sep_concat_ok (l : list (list tok)) :
  Forall (fun ts => forallb tok_ok ts = true) l -> forallb tok_ok (sep_concat l) = true.
Proof.
  induction 1 as [|x r Hx Hr IH]; [reflexivity|].
  cbn [sep_concat]. destruct r as [|y r']; [exact Hx|].
  rewrite forallb_app, Hx. cbn [forallb andb]. exact IH.
Qed.

Lemma num_char_solid c : num_char c = true -> solid c = true.
Proof. unfold num_char, is_digit, solid, quiet, is_space. lia. Qed.

Lemma items_ok s : forallb wf_item s = true -> forallb item_ok s = true.
Proof.
  induction s as [|i s IH]; [reflexivity|]. cbn [forallb]. intros H.
  apply andb_true_iff in H as [Hi Hs]. now rewrite (wf_item_ok i Hi), (IH Hs).
Qed.

Lemma wf_tokens_ok : forall v, wf v = true -> forallb tok_ok (tokens v) = true.
Proof.
  induction v as [|b|l|s|l IH|l IH] using jv_ind2; cbn [wf tokens]; intros H.
  - reflexivity.
  - destruct b; reflexivity.
  - cbn [forallb tok_ok]. rewrite andb_true_r. unfold wf_num in H.
    assert (H' : forallb num_char l = true) by (destruct l; [discriminate|exact H]).
    clear H. induction l as [|c l IHl]; [reflexivity|]. cbn [forallb] in *.
    apply andb_true_iff in H' as [Hc Hl]. now rewrite (num_char_solid c Hc), (IHl Hl).
  - cbn [forallb tok_ok]. now rewrite (items_ok s H).
  - cbn [forallb]. rewrite forallb_app. cbn [forallb]. 
    assert (Hs : forallb tok_ok (sep_concat (map tokens l)) = true).
    { apply sep_concat_ok. induction IH as [|x r Hx Hr IHr]; cbn [map]; [constructor|].
      cbn [forallb] in H. apply andb_true_iff in H as [H1 H2]. constructor; [now apply Hx|now apply IHr]. }
    rewrite Hs. reflexivity.
  - cbn [forallb]. rewrite forallb_app. cbn [forallb].
    assert (Hs : forallb tok_ok (sep_concat (map (fun kv => TStr (fst kv) :: TP 58 :: tokens (snd kv)) l)) = true).
    { apply sep_concat_ok. induction IH as [|x r Hx Hr IHr]; cbn [map]; [constructor|].
      cbn [forallb] in H. apply andb_true_iff in H as [H1 H2]. apply andb_true_iff in H1 as [Hk Hv].
      constructor; [|now apply IHr].
      cbn [forallb tok_ok]. now rewrite (items_ok _ Hk), (Hx Hv). }
    rewrite Hs. reflexivity.
Qed.

(* ---------- the property *)
Lemma minify_canonical : forall v l, wf v = true -> fits l v -> minify (render l v) = compact v.
Proof.
  intros v l Hwf Hfit. unfold fits, fits_b in Hfit. apply andb_true_iff in Hfit as [_ Hws].
  unfold minify, render, compact. rewrite (scan_interleave _ _ (wf_tokens_ok v Hwf) Hws). reflexivity.
Qed.

(* the scanner ends outside any string, ready for a following document *)
Lemma minify_final_state : forall v l, wf v = true -> fits l v -> fst (scan st0 (render l v)) = st0.
Proof.
  intros v l Hwf Hfit. unfold fits, fits_b in Hfit. apply andb_true_iff in Hfit as [_ Hws].
  unfold render. rewrite (scan_interleave _ _ (wf_tokens_ok v Hwf) Hws). reflexivity.
Qed.

(* compact text is a fixed point: minifying twice changes nothing *)
Lemma minify_compact : forall v, wf v = true -> minify (compact v) = compact v.
Proof.
  intros v Hwf. unfold minify, compact.
  assert (H : forall ts, forallb tok_ok ts = true -> scan st0 (concat (map tok_text ts)) = (st0, concat (map tok_text ts))).
  { induction ts as [|t ts IH]; intros Ht; [reflexivity|]. cbn [forallb] in Ht.
    apply andb_true_iff in Ht as [H1 H2]. cbn [map concat].
    eapply scan_app_to; [apply scan_tok, H1|apply IH, H2]. }
  now rewrite (H _ (wf_tokens_ok v Hwf)).
Qed.

(* ---------- the defect of the scanner before the repair *)
Definition bad_v : jv :=
  JObj [([Plain 97], JStr [Plain 120; Esc 92]); ([Plain 98], JStr [Plain 99; Plain 32; Plain 100])].
Definition bad_l : layout := [[]; []; []; [32]; []; [32]; []; [32]; []; []].

Lemma old_refuted : exists v l, wf v = true /\ fits l v /\ minify_old (render l v) <> compact v.
Proof.
  exists bad_v, bad_l. split; [reflexivity|]. split; [reflexivity|].
  intros H. vm_compute in H. discriminate H.
Qed.

Lemma old_not_statement : ~ statement minify_old.
Proof.
  intros H. destruct old_refuted as (v & l & Hwf & Hfit & Hne). exact (Hne (H v l Hwf Hfit)).
Qed.

(* ---------- response writer *)
Section CompressProofs.
  Variable gzip gunzip : str -> str.
  Variable size : str -> N.
  Hypothesis gunzip_gzip : forall b, gunzip (gzip b) = b.

  Lemma write_maybe_decodes thr acc body :
    client_decode gunzip (write_maybe gzip size thr acc body) = body.
  Proof.
    unfold write_maybe, client_decode.
    destruct ((0 <? thr) && (thr <=? size body) && acc); [|reflexivity].
    destruct (size body <=? size (gzip body)); cbn [fst snd]; [reflexivity|apply gunzip_gzip].
  Qed.

  Lemma response_exact thr acc v l : wf v = true -> fits l v ->
    client_decode gunzip (write_json gzip size thr acc l v) = compact v.
  Proof. intros Hwf Hfit. unfold write_json. rewrite write_maybe_decodes. now apply minify_canonical. Qed.
End CompressProofs.
