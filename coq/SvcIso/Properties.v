(* SvcIso/Properties.v — property theorems of C42. *)
From SvcIso Require Import Model Proofs.

(* Whatever the service cache holds when a request is served — nothing, or the table of ANY other request,
   i.e. under every interleaving and order of requests — the table the service code runs with gives, for every
   symbol the request itself defines (user, body, parameters, headers, … and its URL values), the request's
   own value. *)
Theorem C42_own_values : forall (cache : option table) (r : request) n v,
  wf_request r = true -> In (n, v) (own r) -> get (seen cache r) n = Some v.
Proof. exact own_values_seen. Qed.

(* and no read-only ("_"-prefixed) symbol is ever taken from the cache: it is the request's own or absent *)
Theorem C42_no_foreign_readonly : forall cache r n, ro n = true -> get (seen cache r) n = get (seen None r) n.
Proof. exact ro_never_from_cache. Qed.

(* before the repair a later request saw the cached request's URL value *)
Theorem C42_old_refuted : exists cache r n v,
  wf_request r = true /\ In (n, v) (own r) /\ get (seen_old cache r) n <> Some v.
Proof. exact old_refuted. Qed.

Example C42_nonvacuous :
  let r1 := {| consts := [(9, 3); (10, 4)]; parts := [(1, 7); (2, 1)] |} in
  let r2 := {| consts := [(9, 5); (10, 6)]; parts := [(1, 8); (2, 1)] |} in
  wf_request r2 = true /\
  get (seen (cache_after None r1) r2) {| ro := false; nid := 1 |} = Some 8 /\
  get (seen_old (cache_after None r1) r2) {| ro := false; nid := 1 |} = Some 7.
Proof. vm_compute. repeat split; reflexivity. Qed.
