//go:build verif

package runtime_test

// Overlaid into /repo/internal/runtime by /verif/check C11 (external test package: may import every runtime package).
//   L                                  -> F <pkg> <name> <in types,..> <out types,..> <variadic>   for every IsNative entry
//   T <dir of internal/runtime/sort>   -> W <Ego name> <wrapper func>  (package table)  and
//                                         T <func> <sort.X reached, comma separated or ->   (go/ast: which functions of Go's
//                                         sort package each package-level function reaches, directly, as a function value, or
//                                         through other functions of the package)
//   J <id> M|I|U <hex of tagged value description | hex of JSON text> [<hex prefix> <hex indent>]
//                                      -> <id> ok <hex of Go's json.Marshal / MarshalIndent / Marshal(Unmarshal(text))> | <id> err
//   C <id> <pkg> <name> <type:hex>...  -> <id> <canonical result>   the Go library function of that name called directly (c11go)

import (
	"bufio"
	"encoding/hex"
	gojson "encoding/json"
	"fmt"
	"go/ast"
	"go/parser"
	"go/token"
	"math"
	"os"
	gofilepath "path/filepath"
	"reflect"
	"sort"
	"strconv"
	"strings"
	"testing"

	"github.com/tucats/ego/internal/language/data"
	rcmplx "github.com/tucats/ego/internal/runtime/cmplx"
	rfilepath "github.com/tucats/ego/internal/runtime/filepath"
	rmath "github.com/tucats/ego/internal/runtime/math"
	ros "github.com/tucats/ego/internal/runtime/os"
	rruntime "github.com/tucats/ego/internal/runtime/runtime"
	rstrconv "github.com/tucats/ego/internal/runtime/strconv"
	rstrings "github.com/tucats/ego/internal/runtime/strings"
	rtime "github.com/tucats/ego/internal/runtime/time"
)

var c11pkgs = map[string]*data.Package{"strings": rstrings.StringsPackage, "strconv": rstrconv.StrconvPackage, "math": rmath.MathPackage,
	"filepath": rfilepath.FilepathPackage, "cmplx": rcmplx.CmplxPackage, "os": ros.OsPackage, "time": rtime.TimePackage,
	"runtime": rruntime.RuntimePackage}

var c11go = map[string]any{
	"filepath.Base": gofilepath.Base,
	"filepath.Clean": gofilepath.Clean,
	"filepath.Dir": gofilepath.Dir,
	"filepath.Ext": gofilepath.Ext,
	"math.Abs": math.Abs,
	"math.Acos": math.Acos,
	"math.Acosh": math.Acosh,
	"math.Asin": math.Asin,
	"math.Asinh": math.Asinh,
	"math.Atan": math.Atan,
	"math.Atanh": math.Atanh,
	"math.Cbrt": math.Cbrt,
	"math.Ceil": math.Ceil,
	"math.Cos": math.Cos,
	"math.Cosh": math.Cosh,
	"math.Erf": math.Erf,
	"math.Erfc": math.Erfc,
	"math.Erfcinv": math.Erfcinv,
	"math.Erfinv": math.Erfinv,
	"math.Exp2": math.Exp2,
	"math.Expm1": math.Expm1,
	"math.Floor": math.Floor,
	"math.Gamma": math.Gamma,
	"math.Inf": math.Inf,
	"math.IsInf": math.IsInf,
	"math.IsNaN": math.IsNaN,
	"math.Log": math.Log,
	"math.Mod": math.Mod,
	"math.NaN": math.NaN,
	"math.Remainder": math.Remainder,
	"math.Round": math.Round,
	"math.RoundToEven": math.RoundToEven,
	"math.Sin": math.Sin,
	"math.Sinh": math.Sinh,
	"math.Sqrt": math.Sqrt,
	"math.Tan": math.Tan,
	"math.Tanh": math.Tanh,
	"math.Trunc": math.Trunc,
	"strconv.Atoi": strconv.Atoi,
	"strconv.CanBackquote": strconv.CanBackquote,
	"strconv.FormatBool": strconv.FormatBool,
	"strconv.FormatFloat": strconv.FormatFloat,
	"strconv.FormatInt": strconv.FormatInt,
	"strconv.IsGraphic": strconv.IsGraphic,
	"strconv.IsPrint": strconv.IsPrint,
	"strconv.Itoa": strconv.Itoa,
	"strconv.ParseBool": strconv.ParseBool,
	"strconv.ParseFloat": strconv.ParseFloat,
	"strconv.ParseInt": strconv.ParseInt,
	"strconv.ParseUint": strconv.ParseUint,
	"strconv.Quote": strconv.Quote,
	"strconv.QuoteRune": strconv.QuoteRune,
	"strconv.QuoteRuneToASCII": strconv.QuoteRuneToASCII,
	"strconv.QuoteRuneToGraphic": strconv.QuoteRuneToGraphic,
	"strconv.QuoteToASCII": strconv.QuoteToASCII,
	"strconv.QuoteToGraphic": strconv.QuoteToGraphic,
	"strconv.Unquote": strconv.Unquote,
	"strings.Clone": strings.Clone,
	"strings.Compare": strings.Compare,
	"strings.Contains": strings.Contains,
	"strings.ContainsAny": strings.ContainsAny,
	"strings.ContainsRune": strings.ContainsRune,
	"strings.Count": strings.Count,
	"strings.Cut": strings.Cut,
	"strings.CutPrefix": strings.CutPrefix,
	"strings.CutSuffix": strings.CutSuffix,
	"strings.EqualFold": strings.EqualFold,
	"strings.Fields": strings.Fields,
	"strings.HasPrefix": strings.HasPrefix,
	"strings.HasSuffix": strings.HasSuffix,
	"strings.Index": strings.Index,
	"strings.IndexAny": strings.IndexAny,
	"strings.IndexByte": strings.IndexByte,
	"strings.IndexRune": strings.IndexRune,
	"strings.LastIndex": strings.LastIndex,
	"strings.LastIndexAny": strings.LastIndexAny,
	"strings.LastIndexByte": strings.LastIndexByte,
	"strings.Repeat": strings.Repeat,
	"strings.Replace": strings.Replace,
	"strings.ReplaceAll": strings.ReplaceAll,
	"strings.SplitAfter": strings.SplitAfter,
	"strings.SplitAfterN": strings.SplitAfterN,
	"strings.SplitN": strings.SplitN,
	"strings.Title": strings.Title,
	"strings.ToLower": strings.ToLower,
	"strings.ToTitle": strings.ToTitle,
	"strings.ToUpper": strings.ToUpper,
	"strings.ToValidUTF8": strings.ToValidUTF8,
	"strings.Trim": strings.Trim,
	"strings.TrimLeft": strings.TrimLeft,
	"strings.TrimPrefix": strings.TrimPrefix,
	"strings.TrimRight": strings.TrimRight,
	"strings.TrimSpace": strings.TrimSpace,
	"strings.TrimSuffix": strings.TrimSuffix,
}

func c11canon(v reflect.Value) string {
	switch v.Kind() {
	case reflect.String:
		return strconv.Quote(v.String())
	case reflect.Int, reflect.Int64, reflect.Int32, reflect.Int16, reflect.Int8:
		return strconv.FormatInt(v.Int(), 10)
	case reflect.Uint8, reflect.Uint16, reflect.Uint32, reflect.Uint64, reflect.Uint:
		return strconv.FormatUint(v.Uint(), 10)
	case reflect.Bool:
		return strconv.FormatBool(v.Bool())
	case reflect.Float64, reflect.Float32:
		return strconv.FormatFloat(v.Float(), 'g', -1, 64)
	case reflect.Slice:
		if v.Type().Elem().Kind() == reflect.String {
			p := []string{}
			for i := 0; i < v.Len(); i++ {
				p = append(p, v.Index(i).String())
			}

			return strconv.Itoa(v.Len()) + ":" + strconv.Quote(strings.Join(p, "|"))
		}
	case reflect.Interface:
		if v.IsNil() {
			return "noerr"
		}

		return "error"
	}

	return "?" + v.Kind().String()
}

func TestVerifC11Direct(t *testing.T) {
	in, err := os.Open(os.Getenv("VERIF_IN"))
	if err != nil {
		t.Fatal(err)
	}
	defer in.Close()

	out, _ := os.Create(os.Getenv("VERIF_OUT"))
	defer out.Close()

	w := bufio.NewWriter(out)
	defer w.Flush()

	sc := bufio.NewScanner(in)
	sc.Buffer(make([]byte, 1<<20), 1<<20)

	for sc.Scan() {
		f := strings.Fields(sc.Text())
		if len(f) < 1 {
			continue
		}

		switch f[0] {
		case "L":
			names := []string{}
			for p := range c11pkgs {
				names = append(names, p)
			}

			sort.Strings(names)

			for _, p := range names {
				keys := c11pkgs[p].Keys()
				sort.Strings(keys)

				for _, k := range keys {
					v, _ := c11pkgs[p].Get(k)
					fn, ok := v.(data.Function)
					if !ok || !fn.IsNative || fn.Value == nil {
						continue
					}

					ft := reflect.TypeOf(fn.Value)
					if ft.Kind() != reflect.Func {
						continue
					}

					ins, outs := []string{}, []string{}
					for i := 0; i < ft.NumIn(); i++ {
						ins = append(ins, ft.In(i).String())
					}

					for i := 0; i < ft.NumOut(); i++ {
						outs = append(outs, ft.Out(i).String())
					}

					fmt.Fprintf(w, "F %s %s %s %s %v\n", p, k, "("+strings.Join(ins, ",")+")", "("+strings.Join(outs, ",")+")", ft.IsVariadic())
				}
			}
		case "T":
			c11sortAnalysis(w, f[1])
		case "J":
			c11json(w, f)
		case "C":
			id, pkg, name := f[1], f[2], f[3]
			gofn, known := c11go[pkg+"."+name]
			if !known {
				fmt.Fprintf(w, "%s NOGO\n", id)

				continue
			}

			fv := reflect.ValueOf(gofn) // the Go function itself, by name: independent of the package table
			ft := fv.Type()
			args := []reflect.Value{}

			for i, a := range f[4:] {
				parts := strings.SplitN(a, ":", 2)
				raw, _ := hex.DecodeString(parts[1])

				var av reflect.Value

				switch parts[0] {
				case "s":
					av = reflect.ValueOf(string(raw))
				case "i":
					n, _ := strconv.ParseInt(string(raw), 10, 64)
					av = reflect.ValueOf(n)
				case "f":
					switch string(raw) {
					case "nan":
						av = reflect.ValueOf(math.NaN())
					case "+inf":
						av = reflect.ValueOf(math.Inf(1))
					case "-inf":
						av = reflect.ValueOf(math.Inf(-1))
					case "-0":
						av = reflect.ValueOf(math.Copysign(0, -1))
					default:
						x, _ := strconv.ParseFloat(string(raw), 64)
						av = reflect.ValueOf(x)
					}
				case "b":
					av = reflect.ValueOf(string(raw) == "true")
				}

				args = append(args, av.Convert(ft.In(i)))
			}

			func() {
				defer func() {
					if r := recover(); r != nil {
						fmt.Fprintf(w, "%s PANIC\n", id)
					}
				}()

				res := fv.Call(args)
				parts := []string{}
				for _, r := range res {
					parts = append(parts, c11canon(r))
				}

				fmt.Fprintf(w, "%s %s\n", id, strings.Join(parts, " "))
			}()
		}
	}
}

// c11sortAnalysis parses the non-test files of the Ego sort package and prints the table entries and, for every
// package-level function, the set of Go sort.* functions it reaches.
func c11sortAnalysis(w *bufio.Writer, dir string) {
	fset := token.NewFileSet()

	pkgs, err := parser.ParseDir(fset, dir, func(fi os.FileInfo) bool { return !strings.HasSuffix(fi.Name(), "_test.go") }, 0)
	if err != nil {
		fmt.Fprintf(w, "TERR %v\n", err)

		return
	}

	direct := map[string]map[string]bool{} // func -> sort.X used in its body
	calls := map[string]map[string]bool{}  // func -> package-level identifiers used in its body
	funcs := map[string]bool{}

	for _, pkg := range pkgs {
		for _, file := range pkg.Files {
			sortName := ""
			for _, imp := range file.Imports {
				if imp.Path.Value == `"sort"` {
					sortName = "sort"
					if imp.Name != nil {
						sortName = imp.Name.Name
					}
				}
			}

			for _, d := range file.Decls {
				fd, ok := d.(*ast.FuncDecl)
				if ok && fd.Recv == nil {
					funcs[fd.Name.Name] = true
				}
			}

			for _, d := range file.Decls {
				switch decl := d.(type) {
				case *ast.FuncDecl:
					if decl.Recv != nil || decl.Body == nil {
						continue
					}

					name := decl.Name.Name
					direct[name], calls[name] = map[string]bool{}, map[string]bool{}

					ast.Inspect(decl.Body, func(n ast.Node) bool {
						switch x := n.(type) {
						case *ast.SelectorExpr:
							if id, ok := x.X.(*ast.Ident); ok && sortName != "" && id.Name == sortName && id.Obj == nil {
								direct[name][x.Sel.Name] = true
							}
						case *ast.Ident:
							calls[name][x.Name] = true
						}

						return true
					})
				case *ast.GenDecl:
					// the package table: "Name": data.Function{ ..., Value: wrapper, ... }
					ast.Inspect(decl, func(n ast.Node) bool {
						kv, ok := n.(*ast.KeyValueExpr)
						if !ok {
							return true
						}

						key, ok := kv.Key.(*ast.BasicLit)
						lit, ok2 := kv.Value.(*ast.CompositeLit)
						if !ok || !ok2 || key.Kind != token.STRING {
							return true
						}

						for _, el := range lit.Elts {
							if f, ok := el.(*ast.KeyValueExpr); ok {
								if k, ok := f.Key.(*ast.Ident); ok && k.Name == "Value" {
									if v, ok := f.Value.(*ast.Ident); ok {
										fmt.Fprintf(w, "W %s %s\n", strings.Trim(key.Value, `"`), v.Name)
									}
								}
							}
						}

						return true
					})
				}
			}
		}
	}

	names := []string{}
	for n := range direct {
		names = append(names, n)
	}

	sort.Strings(names)

	for _, n := range names {
		seen, reach := map[string]bool{}, map[string]bool{}

		var visit func(string)

		visit = func(f string) {
			if seen[f] {
				return
			}

			seen[f] = true
			for s := range direct[f] {
				reach[s] = true
			}

			for c := range calls[f] {
				if funcs[c] {
					visit(c)
				}
			}
		}

		visit(n)

		r := []string{}
		for s := range reach {
			r = append(r, s)
		}

		sort.Strings(r)

		if len(r) == 0 {
			r = []string{"-"}
		}

		fmt.Fprintf(w, "T %s %s\n", n, strings.Join(r, ","))
	}
}

// c11value builds the Go value an Ego literal of the same shape denotes: {"t":"s","v":hex} string, "i" int, "f" float64,
// "b" bool, "n" nil, "a" []any, "m" map[string]any.
func c11value(d map[string]any) any {
	switch d["t"] {
	case "s":
		b, _ := hex.DecodeString(d["v"].(string))

		return string(b)
	case "i":
		n, _ := strconv.ParseInt(d["v"].(string), 10, 64)

		return int(n)
	case "f":
		switch d["v"].(string) {
		case "nan":
			return math.NaN()
		case "+inf":
			return math.Inf(1)
		}

		x, _ := strconv.ParseFloat(d["v"].(string), 64)

		return x
	case "b":
		return d["v"].(bool)
	case "a":
		r := []any{}
		for _, e := range d["v"].([]any) {
			r = append(r, c11value(e.(map[string]any)))
		}

		return r
	case "m":
		r := map[string]any{}
		for k, e := range d["v"].(map[string]any) {
			r[k] = c11value(e.(map[string]any))
		}

		return r
	}

	return nil
}

func c11json(w *bufio.Writer, f []string) {
	id, mode := f[1], f[2]
	raw, _ := hex.DecodeString(f[3])

	var (
		out []byte
		err error
	)

	switch mode {
	case "M", "I":
		var d map[string]any
		if e := gojson.Unmarshal(raw, &d); e != nil {
			fmt.Fprintf(w, "%s baddesc\n", id)

			return
		}

		v := c11value(d)
		if mode == "M" {
			out, err = gojson.Marshal(v)
		} else {
			pre, _ := hex.DecodeString(f[4])
			ind, _ := hex.DecodeString(f[5])
			out, err = gojson.MarshalIndent(v, string(pre), string(ind))
		}
	case "U":
		var v any
		if err = gojson.Unmarshal(raw, &v); err == nil {
			out, err = gojson.Marshal(v)
		}
	}

	if err != nil {
		fmt.Fprintf(w, "%s err\n", id)
	} else {
		fmt.Fprintf(w, "%s ok %s\n", id, hex.EncodeToString(out))
	}
}
