//go:build verif

package router

// Overlaid into /repo/internal/router by /verif/check C32. Drives the real FindRoute.
// VERIF_IN: JSON {"seed":n,"orders":k,"calls":c,"cases":[{"routes":[[endpoint,method],...],"reqs":[[method,path],...]}]}
// VERIF_OUT: JSON [[{"res":[[status,endpoint,method],...distinct...],"cands":[route indices matching alone]}, ...per req], ...per case]
// Every case is run on `orders` routers built with different insertion orders, `calls` calls each
// (Go randomises map iteration per range loop).

import (
	"encoding/json"
	"fmt"
	"math/rand"
	"net/http"
	"os"
	"sort"
	"testing"
)

type verifCase struct {
	Routes [][2]string `json:"routes"`
	Reqs   [][2]string `json:"reqs"`
}

type verifIn struct {
	Seed   int64       `json:"seed"`
	Orders int         `json:"orders"`
	Calls  int         `json:"calls"`
	Cases  []verifCase `json:"cases"`
}

type verifReqOut struct {
	Res   [][3]string `json:"res"`
	Cands []int       `json:"cands"`
}

func verifNop(*Session, http.ResponseWriter, *http.Request) int { return 200 }

func verifResult(r *Route, status int) [3]string {
	if r == nil {
		return [3]string{fmt.Sprint(status), "", ""}
	}

	return [3]string{fmt.Sprint(status), r.endpoint, r.method}
}

func TestVerifFindRoute(t *testing.T) {
	b, err := os.ReadFile(os.Getenv("VERIF_IN"))
	if err != nil {
		t.Fatal(err)
	}

	in := verifIn{}
	if err := json.Unmarshal(b, &in); err != nil {
		t.Fatal(err)
	}

	rng := rand.New(rand.NewSource(in.Seed))
	out := [][]verifReqOut{}

	for _, c := range in.Cases {
		seen := make([]map[[3]string]bool, len(c.Reqs))
		for i := range seen {
			seen[i] = map[[3]string]bool{}
		}

		n := len(c.Routes)

		for o := 0; o < in.Orders; o++ {
			perm := make([]int, n)
			for i := range perm {
				perm[i] = i
			}

			switch o {
			case 0:
			case 1:
				for i := range perm {
					perm[i] = n - 1 - i
				}
			default:
				rng.Shuffle(n, func(i, j int) { perm[i], perm[j] = perm[j], perm[i] })
			}

			m := &Router{name: "verif", routes: map[routeSelector]*Route{}}
			for _, k := range perm {
				m.New(c.Routes[k][0], verifNop, c.Routes[k][1])
			}

			for qi, q := range c.Reqs {
				for k := 0; k < in.Calls; k++ {
					r, status := m.FindRoute(q[0], q[1], false)
					seen[qi][verifResult(r, status)] = true
				}
			}
		}

		co := []verifReqOut{}

		for qi, q := range c.Reqs {
			ro := verifReqOut{Res: [][3]string{}, Cands: []int{}}
			for k := range seen[qi] {
				ro.Res = append(ro.Res, k)
			}

			sort.Slice(ro.Res, func(i, j int) bool { return fmt.Sprint(ro.Res[i]) < fmt.Sprint(ro.Res[j]) })

			for i, rt := range c.Routes {
				m := &Router{name: "verif1", routes: map[routeSelector]*Route{}}
				m.New(rt[0], verifNop, rt[1])

				if _, status := m.FindRoute(q[0], q[1], false); status == 200 || status == 405 {
					ro.Cands = append(ro.Cands, i)
				}
			}

			co = append(co, ro)
		}

		out = append(out, co)
	}

	ob, _ := json.Marshal(out)
	if err := os.WriteFile(os.Getenv("VERIF_OUT"), ob, 0o644); err != nil {
		t.Fatal(err)
	}
}

// TestVerifHistory: registrations and lookups interleaved on ONE router instance.
// VERIF_IN: JSON {"orders":k,"calls":c,"histories":[[["R",endpoint,method]|["L",method,path],...],...]}
// VERIF_OUT: JSON [[{"res":[...],"fresh":[...]} per lookup op, in order] per history]
//
//	res   = distinct results of that lookup in the history (history replayed on `orders` routers, `calls` calls each)
//	fresh = distinct results of the same request on a router freshly built from the routes registered so far
//	        (no earlier lookups)
func TestVerifHistory(t *testing.T) {
	b, err := os.ReadFile(os.Getenv("VERIF_IN"))
	if err != nil {
		t.Fatal(err)
	}

	in := struct {
		Orders    int           `json:"orders"`
		Calls     int           `json:"calls"`
		Histories [][][3]string `json:"histories"`
	}{}
	if err := json.Unmarshal(b, &in); err != nil {
		t.Fatal(err)
	}

	type lookOut struct {
		Res   [][3]string `json:"res"`
		Fresh [][3]string `json:"fresh"`
	}

	toList := func(s map[[3]string]bool) [][3]string {
		l := [][3]string{}
		for k := range s {
			l = append(l, k)
		}

		sort.Slice(l, func(i, j int) bool { return fmt.Sprint(l[i]) < fmt.Sprint(l[j]) })

		return l
	}

	out := [][]lookOut{}

	for _, h := range in.Histories {
		nl := 0

		for _, o := range h {
			if o[0] == "L" {
				nl++
			}
		}

		res := make([]map[[3]string]bool, nl)
		fresh := make([]map[[3]string]bool, nl)

		for i := range res {
			res[i], fresh[i] = map[[3]string]bool{}, map[[3]string]bool{}
		}

		for k := 0; k < in.Orders; k++ {
			m := NewRouter("verif-history")
			sofar := [][3]string{}
			li := 0

			for _, o := range h {
				if o[0] == "R" {
					m.New(o[1], verifNop, o[2])
					sofar = append(sofar, o)

					continue
				}

				for c := 0; c < in.Calls; c++ {
					r, status := m.FindRoute(o[1], o[2], false)
					res[li][verifResult(r, status)] = true
				}

				f := NewRouter("verif-fresh")
				for _, s := range sofar {
					f.New(s[1], verifNop, s[2])
				}

				for c := 0; c < in.Calls; c++ {
					r, status := f.FindRoute(o[1], o[2], false)
					fresh[li][verifResult(r, status)] = true
				}

				li++
			}
		}

		ho := []lookOut{}
		for i := range res {
			ho = append(ho, lookOut{Res: toList(res[i]), Fresh: toList(fresh[i])})
		}

		out = append(out, ho)
	}

	ob, _ := json.Marshal(out)
	if err := os.WriteFile(os.Getenv("VERIF_OUT"), ob, 0o644); err != nil {
		t.Fatal(err)
	}
}
