"""C36 langlint rewrites are crash-safe (tools/langlint/lint.go rewriteFile)."""
import json
import os
import re
import shutil
import stat

import vf

GROUP = "Rewrite"
META = {
    "group": "Rewrite",
    "technique": "Coq proof over a POSIX directory model of rewriteFile's operation list (all crash points incl. torn "
                 "writes, then a later run) + the operation list extracted from the real langlint binary with strace "
                 "and the real process killed on entry to every file-system call, compared with the model's prefix states",
    "text": "Theorems C36_crash_safe (for every crash point between or inside the operations of the repaired "
            "rewriteFile - unlink leftover temp, create temp, write, close, chmod, one rename over the target - the target path holds the "
            "complete original or the complete new content, assuming only that rename/create/unlink are atomic and a "
            "torn write appends a prefix), C36_prefix_safe (the same for every prefix of the op list), C36_no_litter "
            "(a complete run changes the target and no other directory entry) and C36_later_run_clean (after a kill "
            "at any crash point a later langlint run succeeds and leaves the directory as it was except for the "
            "formatted target: no temp or backup file) are proved for all contents, names and directories; "
            "C36_old_refuted / C36_old_litter_refuted keep the pre-repair sequence (two renames: window with no file "
            "at the path; stale temp files never removed). The op list of the model is compared on every run with "
            "the syscall trace of the langlint binary built from the working tree, the binary is killed with strace "
            "on entry to each file-system call of the rewrite, each resulting directory is compared with the "
            "model's prefix state and checked against the property, and a later run is performed on it. full",
    "note": "Trusted: Coq kernel; atomic_fs (rename(2)/open/unlink atomic, interrupted write = prefix appended; process "
            "crash only - no power loss, so no fsync ordering); strace's syscall report and kill-on-entry injection; "
            "the name abstraction (target / temp / backup / bystander) in props/C36.py; the in-package harness "
            "harness/C36/c36_test.go. Not covered: failure (errno) paths of the individual operations, two langlint "
            "processes rewriting the same file concurrently, a crashed run whose leftover temp file is followed by a "
            "manual edit that makes the file already formatted (the stale temp then stays until the next rewrite).",
}

TRACE_SET = "%file,write,pwrite64,writev,close,fchmod,ftruncate,fsync,fdatasync"
BYSTANDER = "other.txt"
NNAMES = 8
UNPRIV = ["setpriv", "--reuid=65534", "--regid=65534", "--clear-groups"]
MODES = [0o644, 0o600, 0o664, 0o444, 0o400, 0o755]


# ----------------------------------------------------------------------------- generators

def gen_message_file(rng, nsec=None):
    """A valid message file that langlint will change (unsorted keys / odd blank lines), no warnings."""
    words = ["alpha", "beta", "gamma", "delta", "omega", "zeta", "key", "msg", "error", "usage", "a", "b", "z"]
    lines = []
    if rng.random() < 0.5:
        lines += ["# " + rng.choice(words) + " file", ""]
    nsec = nsec or rng.randint(1, 4)
    for s in range(nsec):
        lines.append("[%s%d]" % (rng.choice(words), s))
        n = rng.randint(2, 6)
        keys = rng.sample(range(100), n)
        keys.sort(reverse=True)                      # descending: never already sorted
        for k in keys:
            v = rng.choice(["text", "value {{x}}", "a=b", "", "sp ace", "été", "'{'"])
            lines.append("k%02d=%s" % (k, v))
            if rng.random() < 0.15:
                lines.append("")
        if rng.random() < 0.3:
            lines += ["", "# comment " + rng.choice(words)]
    nl = "\r\n" if rng.random() < 0.15 else "\n"
    return (nl.join(lines) + nl).encode()


def gen_blob(rng):
    r = rng.random()
    if r < 0.1:
        return b""
    if r < 0.2:
        return bytes(rng.randrange(256) for _ in range(rng.randint(1, 40)))
    if r < 0.25:
        return b"line\n" * rng.randint(20000, 60000)          # larger than one pipe/page buffer
    return gen_message_file(rng)


# ----------------------------------------------------------------------------- strace parsing

LINE_RE = re.compile(r"^(\d+)\s+(\w+)\((.*)\)\s+=\s+(-?\d+|\?)(.*)$")
STR_RE = re.compile(r'"((?:\\x[0-9a-f]{2})*)"')


def unhex(s):
    return bytes(int(x, 16) for x in re.findall(r"\\x([0-9a-f]{2})", s))


def parse_trace(path):
    """-> list of dicts {pid, name, strs:[bytes], args:str, ret:int|None, raw} in order of syscall *entry*
    (unfinished/resumed pairs joined at the position of the unfinished part)."""
    out, pending = [], {}
    for raw in open(path, errors="replace"):
        raw = raw.rstrip("\n")
        m = re.match(r"^(\d+)\s+(.*)$", raw)
        if not m:
            continue
        pid, rest = m.group(1), m.group(2)
        if rest.endswith("<unfinished ...>"):
            slot = {"pid": pid, "raw": None}
            pending[pid] = (slot, rest[:-len("<unfinished ...>")])
            out.append(slot)
            continue
        mr = re.match(r"^<\.\.\. \w+ resumed>\s?(.*)$", rest)
        if mr and pid in pending:
            slot, head = pending.pop(pid)
            slot["raw"] = pid + " " + head + mr.group(1)
            continue
        out.append({"pid": pid, "raw": raw})
    res = []
    for slot in out:
        if not slot.get("raw"):
            continue
        m = LINE_RE.match(slot["raw"])
        if not m:
            continue
        ret = None if m.group(4) == "?" else int(m.group(4))
        res.append({"pid": m.group(1), "name": m.group(2), "args": m.group(3),
                    "strs": [unhex(s) for s in STR_RE.findall(m.group(3))], "ret": ret, "err": m.group(5),
                    "raw": slot["raw"][:300]})
    return res


def relevant_ops(trace, dirpath):
    """Syscalls of the traced process that touch the case directory, each with its model operation.
    Returns list of dicts: {idx (index in trace), pid, name, op} ; op is None (no effect on names/contents),
    a tuple ('Create', n) | ('Write', n, data) | ('Close', n) | ('Chmod', n) | ('Rename', a, b) | ('Remove', n),
    or ('Unmodelled', text)."""
    d = dirpath.encode().rstrip(b"/") + b"/"
    fds = {}      # (pid-agnostic: Go threads share the table) fd -> (file name in dir, writable)
    rel = []
    for i, t in enumerate(trace):
        nm, strs, ret = t["name"], t["strs"], t["ret"]
        paths = [s for s in strs if s.startswith(d)]
        ok = ret is not None and ret >= 0
        op = None
        hit = False
        if nm in ("openat", "open", "creat", "openat2"):
            if paths:
                hit = True
                base = paths[0][len(d):]
                fl = t["args"]
                wr = nm == "creat" or "O_WRONLY" in fl or "O_RDWR" in fl
                if ok:
                    fds[ret] = (base, wr)
                    if nm == "creat" or "O_TRUNC" in fl or ("O_CREAT" in fl and "O_EXCL" in fl):
                        op = ("Create", base)
                    elif "O_CREAT" in fl or wr:
                        op = ("Unmodelled", "open for writing without truncation: " + t["raw"][:120])
        elif nm in ("write", "pwrite64", "writev", "close", "fchmod", "ftruncate", "fsync", "fdatasync"):
            m = re.match(r"\s*(\d+)", t["args"])
            fd = int(m.group(1)) if m else -1
            if fd in fds:
                hit = True
                base, wr = fds[fd]
                if nm == "write" and ok:
                    op = ("Write", base, strs[0][:ret] if strs else b"")
                elif nm in ("pwrite64", "writev", "ftruncate") and ok:
                    op = ("Unmodelled", nm)
                elif nm == "fchmod" and ok:
                    op = ("Chmod", base)
                elif nm == "close":
                    if wr:
                        op = ("Close", base)
                    if ok or ret is None:
                        fds.pop(fd, None)
        elif paths:
            hit = True
            if nm in ("rename", "renameat", "renameat2"):
                if ok and len(paths) == 2:
                    op = ("Rename", paths[0][len(d):], paths[1][len(d):])
                elif ok:
                    op = ("Unmodelled", "rename across the directory boundary")
            elif nm in ("unlink", "unlinkat", "rmdir"):
                # removing an absent name: the model's Remove is a no-op too (os.Remove's second attempt, rmdir, is not an op)
                if ok or ("ENOENT" in t.get("err", "") and "AT_REMOVEDIR" not in t["args"] and nm != "rmdir"):
                    op = ("Remove", paths[0][len(d):])
            elif nm in ("chmod", "fchmodat", "fchmodat2"):
                if ok:
                    op = ("Chmod", paths[0][len(d):])
            elif nm in ("link", "linkat", "symlink", "symlinkat", "truncate", "mkdir", "mkdirat", "mknod", "mknodat"):
                if ok:
                    op = ("Unmodelled", nm)
        if hit:
            rel.append({"idx": i, "pid": t["pid"], "name": nm, "op": op})
    return rel


def listing(dirpath):
    out = {}
    for n in sorted(os.listdir(dirpath)):
        p = os.path.join(dirpath, n)
        try:
            out[n] = open(p, "rb").read()
        except OSError:
            out[n] = None
    return out


class Names:
    """role ids of the model: 0 target, 1 temp (first other name created), 2 backup, 3 bystander, 4.. others"""

    def __init__(self, target):
        self.ids = {target: 0, BYSTANDER: 3, target + ".langlint-bak": 2}
        self.next = 4
        self.tmp = None

    def of(self, n):
        if isinstance(n, bytes):
            n = n.decode("utf8", "replace")
        if n not in self.ids:
            self.ids[n] = self.next
            self.next += 1
        return self.ids[n]

    def created(self, n):
        if isinstance(n, bytes):
            n = n.decode("utf8", "replace")
        if n not in self.ids and self.tmp is None:
            self.tmp = n
            self.ids[n] = 1
        return self.of(n)


def v_listing(names, lst):
    return "[" + "; ".join("(%d, %s)" % (names.of(n), vf.vN(c or b"")) for n, c in sorted(lst.items())) + "]"


def v_ops(names, ops):
    out = []
    for op in ops:                       # the temp role goes to the first name created, even if it is unlinked before
        if op[0] == "Create":
            names.created(op[1])
            break
    for op in ops:
        if op[0] == "Create":
            out.append("Create %d" % names.created(op[1]))
        elif op[0] == "Write":
            out.append("Write %d %s" % (names.of(op[1]), vf.vN(op[2])))
        elif op[0] in ("Close", "Chmod", "Remove"):
            out.append("%s %d" % (op[0], names.of(op[1])))
        elif op[0] == "Rename":
            out.append("Rename %d %d" % (names.of(op[1]), names.of(op[2])))
    return "[" + "; ".join(out) + "]"


# ----------------------------------------------------------------------------- one strace case

KINDS = ["regular", "symlink", "hardlink"]


def make_dir(base, fname, old, mode, kind="regular"):
    """The case directory. kind: the target is a regular file, a symbolic link to a regular file of the same directory
    ('shared_<name>', which must keep its content), or one of two hard links to the same file ('hl_<name>' is the other)."""
    shutil.rmtree(base, ignore_errors=True)
    os.makedirs(base)
    p = os.path.join(base, fname)
    real = os.path.join(base, "shared_" + fname) if kind == "symlink" else p
    with open(real, "wb") as f:
        f.write(old)
    os.chmod(real, mode)
    if kind == "symlink":
        os.symlink("shared_" + fname, p)
    elif kind == "hardlink":
        os.link(p, os.path.join(base, "hl_" + fname))
    with open(os.path.join(base, BYSTANDER), "wb") as f:
        f.write(b"x\n")
    return p


def strace_run(binp, target, trace_file, inject=None):
    cmd = ["strace", "-f", "-o", trace_file, "-s", "10000000", "-xx", "-e", "trace=" + TRACE_SET]
    if inject:
        cmd += ["-e", "inject=%s:signal=KILL:when=%d" % inject]
    cmd += [binp, target]
    rc, out = vf.sh(cmd, timeout=120)
    return rc, out


def run_case(ck, binp, ci, fname, old, mode, kind="regular", only_kill=None, unpriv=False, all_calls=True):
    """Returns dict with baseline ops, per-crash-point observations; records property violations."""
    base = os.path.join(ck.work, "case%d" % ci)
    d = os.path.join(base, "d")
    tr = os.path.join(base + ".trace")
    rep0 = {"file_name": fname, "old_hex": old.hex(), "mode": oct(mode), "kind": kind}
    target = make_dir(d, fname, old, mode, kind)
    before = listing(d)
    rc, out = strace_run(binp, target, tr)
    trace = parse_trace(tr)
    after = listing(d)
    res = {"ok": False, "fname": fname, "old": old, "mode": mode, "kind": kind, "before": before, "after": after, "points": []}
    if rc != 0 or not trace:
        ck.violation("clean-run-fails", "langlint failed on a valid message file (rc=%s): %s" % (rc, out[-300:]), replay=rep0)
        return res
    new = after.get(fname)
    res["new"] = new
    if new is None or new == old:
        ck.notes.append("case %d: file not changed by langlint; skipped" % ci)
        return res
    if set(after) != set(before) or any(after[n] != before[n] for n in before if n != fname):
        ck.violation("clean-run-litter", "a complete langlint run left other directory entries changed: %s -> %s" % (
            sorted(before), sorted(after)), replay=dict(rep0, after=sorted(after)))
    rel = relevant_ops(trace, d)
    mainpid = trace[0]["pid"]
    # the rewrite phase starts after the read of the target (first relevant call that is an op, minus nothing):
    first = next((j for j, r in enumerate(rel) if r["op"] is not None), None)
    if first is None:
        ck.violation("corr-oplist", "no file-system operation of the rewrite was seen in the syscall trace",
                     replay=rep0, found_input=False)
        return res
    res["rel"] = rel
    res["first"] = first
    res["ops"] = [r["op"] for r in rel if r["op"] is not None]
    res["ok"] = True
    # ---- crash points: entry of every relevant call from the first operation on
    for j in range(first, len(rel)):
        if only_kill is not None and j - first != only_kill:
            continue
        r = rel[j]
        # quick tier: calls that are no operation (stat, lstat, read-only close) leave the directory as the entry of
        # the next operation does, so only the entries of operations are killed at (thorough tier: every call)
        if only_kill is None and not all_calls and r["op"] is None:
            continue
        # strace counts 'when' per thread: occurrence number of this call within the issuing thread
        ordn = sum(1 for t in trace[:r["idx"]] if t["pid"] == r["pid"] and t["name"] == r["name"]) + 1
        good = False
        for attempt in range(4):
            target = make_dir(d, fname, old, mode, kind)
            trk = base + ".k%d.trace" % j
            rck, outk = strace_run(binp, target, trk, inject=(r["name"], ordn))
            tk = parse_trace(trk)
            relk = [x for x in relevant_ops(tk, d)]
            # the killed call itself is reported with '= ?' (ret None): drop it, compare the completed prefix
            done = [x["name"] for x in relk if tk[x["idx"]]["ret"] is not None]
            if rck != 0 and done == [x["name"] for x in rel[:j]]:
                good = True
                break
        if not good:
            ck.notes.append("case %d: kill at call %d (%s #%d) did not reproduce the baseline prefix; skipped" % (
                ci, j, r["name"], ordn))
            continue
        nops = sum(1 for x in rel[:j] if x["op"] is not None)
        crashed = listing(d)
        rep = dict(rep0, kill_at={"syscall": r["name"], "occurrence": ordn, "relevant_call_index": j - first,
                                  "ops_completed": nops}, directory_after_kill={k: (v or b"").hex() for k, v in crashed.items()})
        got = crashed.get(fname)
        if got != old and got != new:
            ck.violation("crash-window", "langlint killed on entry to %s (after %d completed operations %s): %s holds %s" % (
                r["name"], nops, [o[0] for o in res["ops"][:nops]], fname,
                "NO FILE" if got is None else "neither the original nor the formatted content (%d bytes)" % len(got)),
                replay=rep)
        # ---- a later run on what the crash left; for write-protected targets as an unprivileged user when possible
        # (root may open a read-only leftover for writing, an ordinary user may not)
        later_cmd = [binp, target]
        if unpriv and not (mode & 0o200):
            for root_, dirs_, files_ in os.walk(d):
                for n_ in [root_] + [os.path.join(root_, x) for x in files_]:
                    os.chown(n_, 65534, 65534)
            later_cmd = UNPRIV + later_cmd
        rc2, out2 = vf.sh(later_cmd, timeout=60)
        later = listing(d)
        if got is not None:
            if rc2 != 0:
                ck.violation("later-run-fails", "after a kill on entry to %s the next langlint run fails (rc=%d): %s" % (
                    r["name"], rc2, out2[-200:]), replay=rep)
            elif set(later) != set(before) or any(later[n] != before[n] for n in before if n != fname):
                ck.violation("later-run-litter", "after a kill on entry to %s (%d operations done) a later successful run "
                             "leaves %s in the directory (expected only %s)" % (
                                 r["name"], nops, sorted(set(later) - set(before)), sorted(before)),
                             replay=dict(rep, directory_after_later_run=sorted(later)))
            elif later.get(fname) != new:
                ck.violation("later-run-content", "after a kill on entry to %s a later run leaves %s with content that is "
                             "not the formatted file" % (r["name"], fname), replay=rep)
        res["points"].append({"j": j, "nops": nops, "crashed": crashed, "call": r["name"]})
    return res


# ----------------------------------------------------------------------------- the check

def run(ck):
    quick = ck.tier == "quick"
    ck.cov["rule"] = ("strace route: generated valid message files that langlint changes (1-4 sections, 2-6 descending keys, "
                      "comments, blank lines, CRLF 15%), file names with/without spaces, target modes 0644/0600/0664/0755 and write-protected 0444/0400 (at least one writable, one owner-only and two read-only targets in every run), target kinds regular file / symbolic link to a regular file of the same directory / one of two hard links (each kind at least twice in every run; the link target and the other hard link are directory entries whose content must stay as it was); every "
                      "file-system call of the rewrite is a crash point (process killed on entry). harness route: "
                      "rewriteFile on arbitrary byte contents (empty, binary, > 100 KB) and lintFile on generated files. "
                      "distinct_nontrivial = distinct (file content, crash point) pairs actually killed at, with the "
                      "observed directory compared against the model, plus distinct harness cases whose file changed")
    ck.assume("atomic_fs: rename(2), open(O_CREAT|O_TRUNC), unlink are atomic w.r.t. a process crash; an interrupted "
              "write has appended a prefix of its data (hypothesis of C36_crash_safe / C36_later_run_clean)",
              "crash = the process stops (SIGKILL); the kernel keeps completed operations (no power loss, no fsync ordering)",
              "the temp file is written through one descriptor at increasing offsets (Write = append)")
    ck.trusted("harness/C36/lock_main.go: an added init() locking main to its OS thread in the traced binary (no code replaced)",
               "strace syscall trace and inject=<call>:signal=KILL:when=<n> (kill on entry, call not executed)",
               "props/C36.py: trace parser, role abstraction of names (target/temp/backup/bystander), comparison",
               "harness/C36/c36_test.go (in-package overlay)")
    coq_ok = ck.coq_stage(GROUP, theorems=["C36_crash_safe", "C36_frame", "C36_prefix_safe", "C36_no_litter", "C36_later_run_clean",
                                           "C36_old_refuted", "C36_old_litter_refuted"])

    import time as _t
    t_coq = _t.time()
    # ---- the real binary from the working tree
    binp = os.path.join(ck.work, "langlint")
    ov = vf.go_overlay(os.path.join(ck.work, "binov"), {"tools/langlint/zz_verif_c36_lock.go":
                                                        os.path.join(vf.HARNESS, "C36", "lock_main.go")})
    rc, out = vf.sh(["go", "build", "-tags", "verif", "-overlay", ov, "-o", binp, "./tools/langlint"],
                    cwd=vf.REPO, env=vf.goenv(), timeout=600)
    if rc != 0:
        ck.violation("binary-build", "tools/langlint does not build:\n" + out[-1500:], replay={"log": out[-3000:]}, found_input=False)
        return
    okh, hbin = vf.go_test_build(ck.work, "tools/langlint", {"tools/langlint/zz_verif_c36_test.go":
                                 os.path.join(vf.HARNESS, "C36", "c36_test.go")}, "c36.test")
    if not okh:
        ck.violation("harness-build", "harness for tools/langlint does not build:\n" + hbin[-1500:],
                     replay={"log": hbin[-3000:]}, found_input=False)
        return

    t_build = _t.time()
    # ---- strace cases
    ncase = 8 if quick else 48
    # the pinned test's file first; then the same file write-protected (a rewrite may treat such targets differently);
    # every tier enumerates all crash points for writable, owner-only and read-only targets
    pinned = b"[b]\nz=one\na=two\n"
    cases = [("messages_xx.txt", pinned, 0o644, "regular"), ("messages_xx.txt", pinned, 0o444, "regular"),
             ("messages_xx.txt", pinned, 0o644, "symlink"), ("messages_xx.txt", pinned, 0o644, "hardlink")]
    fnames = ["messages_en.txt", "messages fr.txt", "m.txt", "messages_x.y.txt"]
    forced = [(0o600, "regular"), (0o400, "symlink"), (0o444, "hardlink")]
    while len(cases) < ncase:
        mode, kind = forced.pop(0) if forced else (ck.rng.choice(MODES), ck.rng.choice(KINDS))
        cases.append((ck.rng.choice(fnames), gen_message_file(ck.rng), mode, kind))
    only_kill = None
    if ck.replay_file:
        rp = json.load(open(ck.replay_file))["replay"]
        if "old_hex" in rp:
            cases = [(rp["file_name"], bytes.fromhex(rp["old_hex"]), int(rp.get("mode", "0o644"), 8), rp.get("kind", "regular"))]
            if "kill_at" in rp:
                only_kill = rp["kill_at"]["relevant_call_index"]
    # can the later run be made as an ordinary user? (root + setpriv + the binary reachable for that user)
    unpriv = False
    if os.geteuid() == 0 and shutil.which("setpriv"):
        os.chmod(binp, 0o755)
        rcu, _ = vf.sh(UNPRIV + [binp, "-h"], timeout=30)
        unpriv = rcu == 0
    ck.cov.setdefault("input_distribution", {})
    results = []
    for ci, (fname, old, mode, kind) in enumerate(cases):
        results.append(run_case(ck, binp, ci, fname, old, mode, kind, only_kill, unpriv, all_calls=not quick or ci == 0))
    npoints = sum(len(r["points"]) for r in results)
    nontriv = set()
    for r in results:
        for p in r["points"]:
            nontriv.add((r["old"], r["mode"], r["kind"], p["j"]))
    if npoints == 0 and not ck.viol:
        ck.violation("no-crash-point", "no crash point of the rewrite could be exercised (see notes)", replay={"notes": ck.notes},
                     found_input=False)

    t_strace = _t.time()
    # ---- harness cases: rewriteFile / lintFile in process
    hcases = []
    nh = 40 if quick else 400
    for i in range(nh):
        kind = "R" if i % 2 == 0 else "L"
        old = gen_message_file(ck.rng)
        new = gen_blob(ck.rng) if kind == "R" else b""
        if i == 0:
            new = b"line\n" * 60000                    # 300 KB in one rewrite
        elif i == 2:
            new = b""
        elif i == 4:
            new = bytes(range(256))
        hcases.append((kind, i, ck.rng.choice([0o644, 0o600, 0o640, 0o444, 0o400]), ck.rng.choice(fnames), old, new))
    if ck.replay_file and only_kill is not None:
        hcases = []
    inp, outp = os.path.join(ck.work, "h.in"), os.path.join(ck.work, "h.out")
    enc = lambda b: b.hex() or "-"
    with open(inp, "w") as f:
        for kind, i, mode, fname, old, new in hcases:
            f.write("%s %d %o %s %s %s\n" % (kind, i, mode, enc(fname.encode()), enc(old), enc(new)))
    rc, log = vf.run_bin(hbin, "^TestVerifC36$", {"VERIF_IN": inp, "VERIF_OUT": outp})
    if rc != 0:
        ck.violation("harness-run", "harness failed:\n" + log[-1500:], replay={"log": log[-3000:]}, found_input=False)
        return
    hres = {}
    for line in open(outp):
        f = line.split()
        ents = {}
        for e in f[4:]:
            n, c, m = e.split(":")
            ents[bytes.fromhex(n).decode()] = (b"" if c == "-" else bytes.fromhex(c), int(m, 8))
        hres[int(f[1])] = (f[2], int(f[3]), ents)
    hmodel = []
    for kind, i, mode, fname, old, new in hcases:
        st, changed, ents = hres[i]
        rep = {"harness": kind, "file_name": fname, "old_hex": old.hex(), "new_hex": new.hex(), "mode": oct(mode)}
        if st != "ok":
            ck.violation("rewrite-error", "%s failed on a writable directory" % ("rewriteFile" if kind == "R" else "lintFile"), replay=rep)
            continue
        extra = sorted(set(ents) - {fname, BYSTANDER})
        if extra or ents.get(BYSTANDER, (None,))[0] != b"x\n":
            ck.violation("clean-run-litter", "a complete %s leaves %s beside the target" % (
                "rewriteFile" if kind == "R" else "lintFile", extra), replay=rep)
        if kind == "R":
            if ents.get(fname, (None,))[0] != new:
                ck.violation("rewrite-content", "rewriteFile(path, new) left other content than new at path", replay=rep)
            if ents.get(fname, (None, None))[1] != mode:
                ck.violation("rewrite-mode", "rewriteFile changed the file mode %o -> %o" % (mode, ents.get(fname, (None, 0))[1]), replay=rep)
            nontriv.add(("R", old, new))
            hmodel.append((fname, old, new, {n: c for n, (c, m) in ents.items()}))
        elif changed:
            nontriv.add(("L", old))
            hmodel.append((fname, old, ents.get(fname, (b"",))[0], {n: c for n, (c, m) in ents.items()}))

    ck.cov["phase_seconds"] = {"coq_stage": round(t_coq - ck.t0, 1), "go_builds": round(t_build - t_coq, 1),
                               "strace_cases": round(t_strace - t_build, 1), "harness": round(_t.time() - t_strace, 1)}
    ck.cov["evaluations"] = npoints * 2 + len(results) + len(hcases)
    ck.cov["distinct_nontrivial"] = len(nontriv)
    ck.cov["input_distribution"] = {"strace_cases": len(results), "crash_points_killed": npoints,
                                    "crash_points_per_case": sorted({len(r["points"]) for r in results}),
                                    "harness_rewriteFile": sum(1 for h in hcases if h[0] == "R"),
                                    "harness_lintFile": sum(1 for h in hcases if h[0] == "L"),
                                    "harness_new_over_100KB": sum(1 for h in hcases if len(h[5]) > 100000),
                                    "crlf_files": sum(1 for c in cases if b"\r\n" in c[1]),
                                    "strace_case_modes": sorted({oct(c[2]) for c in cases}),
                                    "strace_case_kinds": {k: sum(1 for c in cases if c[3] == k) for k in KINDS},
                                    "read_only_targets": sum(1 for c in cases if not c[2] & 0o200),
                                    "later_run_of_read_only_targets_unprivileged": unpriv}
    for r in results[:2]:
        if r.get("ok"):
            ck.sample({"file": r["fname"], "observed_ops": [o[0] + " " + "/".join(
                x.decode("utf8", "replace") if isinstance(x, bytes) and len(x) < 60 else "<%d bytes>" % len(x)
                for x in o[1:]) for o in r["ops"]],
                "crash_points": [{"before_call": p["call"], "ops_done": p["nops"], "directory": sorted(p["crashed"])} for p in r["points"]]})

    # ---- correspondence with the model
    if getattr(ck, "coq_broken", None):
        if not any(v["found_input"] for v in ck.viol):
            grp, log = ck.coq_broken
            ck.violation("proof-broken", "Coq development %s no longer checks (C36 theorems); no crash point of the real "
                         "binary violated the property in this run:\n%s" % (grp, log[-1200:]),
                         replay={"broken": "coq/" + grp, "log": log[-3000:]}, found_input=False)
        return
    good = [r for r in results if r.get("ok")]
    unmod = [(i, o) for i, r in enumerate(good) for o in r["ops"] if o[0] == "Unmodelled"]
    lines = ["From Common Require Import Base.", "From Rewrite Require Import Model.", "Open Scope N_scope.",
             "Definition scases : list (list (name * content) * content * list fsop * list (nat * list (name * content))) := ["]
    sc = []
    for r in good:
        nm = Names(r["fname"])
        ops = v_ops(nm, [o for o in r["ops"] if o[0] != "Unmodelled"])
        pts = "[" + "; ".join("(%d%%nat, %s)" % (p["nops"], v_listing(nm, p["crashed"])) for p in r["points"]) + "]"
        sc.append("(%s, %s, %s, %s)" % (v_listing(nm, r["before"]), vf.vN(r["new"]), ops, pts))
    lines.append(";\n".join(sc))
    lines.append("].\nDefinition hcases : list (list (name * content) * content * list (name * content)) := [")
    hc = []
    for fname, old, new, ents in hmodel:
        if len(new) > 20000:
            continue                                   # keep the vm_compute file small; content checked by the oracle
        nm = Names(fname)
        hc.append("(%s, %s, %s)" % (v_listing(nm, {fname: old, BYSTANDER: b"x\n"}), vf.vN(new), v_listing(nm, ents)))
    lines.append(";\n".join(hc))
    lines.append("""].
Fixpoint idx {A} (f : nat -> A -> list nat) (i : nat) (l : list A) : list nat :=
  match l with [] => [] | x :: r => f i x ++ idx f (S i) r end.
Definition ex (i : nat) (c : list (name * content) * content * list fsop * list (nat * list (name * content))) : list nat :=
  match c with (_, new, ops, _) => if ops_eqb ops (ops_fixed 0 1 new) then [] else [i] end.
Definition pr (i : nat) (c : list (name * content) * content * list fsop * list (nat * list (name * content))) : list nat :=
  match c with (_, new, ops, _) =>
    if ops_eqb (filter content_op ops) (filter content_op (ops_fixed 0 1 new)) then [] else [i] end.
Definition st (i : nat) (c : list (name * content) * content * list fsop * list (nat * list (name * content))) : list nat :=
  match c with (d0, _, ops, pts) =>
    flat_map (fun p => if dir_agrees %d (run (firstn (fst p) ops) (dir_of d0)) (snd p) then [] else [(i * 100 + fst p)%%nat]) pts end.
Definition hf (i : nat) (c : list (name * content) * content * list (name * content)) : list nat :=
  match c with (d0, new, fin) => if dir_agrees %d (run (ops_fixed 0 1 new) (dir_of d0)) fin then [] else [i] end.
""" % (NNAMES, NNAMES))
    okc, resc = vf.coq_eval(GROUP, ck.work, "c36cases", "\n".join(lines),
                            {"EX": "idx ex 0 scases", "PR": "idx pr 0 scases", "ST": "idx st 0 scases", "HF": "idx hf 0 hcases"})
    found = any(v["found_input"] for v in ck.viol)
    if not okc:
        ck.violation("correspondence-eval", "model evaluation failed:\n" + str(resc)[-1500:], replay={"log": str(resc)[-3000:]},
                     found_input=False)
        return
    ck.cov["traces_validated_against_impl"] = len(good) + npoints + len(hc)
    if resc["EX"] and not resc["PR"]:
        ck.notes.append("observed operation list differs from ops_fixed only in close/chmod placement (cases %s)" % resc["EX"])
    if found:
        return                      # a failing crash point on the real binary is already reported
    for i, o in unmod[:1]:
        ck.violation("corr-oplist", "the rewrite issues a file-system operation the model does not have (%s); no crash point "
                     "violated the property in this run" % (o[1],), replay={"file_name": good[i]["fname"],
                     "old_hex": good[i]["old"].hex()}, found_input=False)
    for i in resc["PR"][:1]:
        ck.violation("corr-oplist", "operation list of the real rewrite %s (target mode %o, %s) differs from the model's ops_fixed "
                     "[Remove tmp; Create tmp; Write tmp new; Close tmp; Chmod tmp; Rename tmp path] (theorems C36_* are about the latter); "
                     "no crash point violated the property in this run" % ([o[0] for o in good[i]["ops"]], good[i]["mode"], good[i]["kind"]),
                     replay={"file_name": good[i]["fname"], "old_hex": good[i]["old"].hex(), "mode": oct(good[i]["mode"]),
                             "kind": good[i]["kind"]}, found_input=False)
    for code in resc["ST"][:1]:
        i, k = divmod(code, 100)
        ck.violation("corr-state", "directory after a kill with %d operations completed differs from the model's prefix state" % k,
                     replay={"file_name": good[i]["fname"], "old_hex": good[i]["old"].hex(), "ops_completed": k}, found_input=False)
    for i in resc["HF"][:1]:
        ck.violation("corr-final", "directory after rewriteFile/lintFile differs from the model's final state",
                     replay={"harness_case": i}, found_input=False)
