(* Token/Properties.v — property theorems of C21 only; proofs live in Proofs.v. *)
From Token Require Import Model Proofs.
Open Scope Z_scope.

(* The full statement.  [run true k h] is the state after ANY history h of the operations of Model.op: issue,
   revoke, un-revoke, flush, cache purges, disappearance of single cache entries at any moment (sweeper, full
   cache), clock advance, restart with another key, complete validations by the three validators, and the three
   atomic actions of router requests in any number of slots, interleaved arbitrarily with everything else. *)
Definition C21_statement : Prop :=
  forall k h o s' w b,
    step true (run true k h) o = (s', Some (w, b)) ->
    (b = true <-> Valid (run true k h) w /\ (router_op o = true -> Named (run true k h) w)).

(* Every decision taken at any point of any history — by cipher.Validate, cipher.Extract, an uninterrupted
   Authenticate, or by the cache look-up / TokenUnwrap action of an interleaved Authenticate — is "accept" exactly
   when the presented string is a genuine token string of a token issued here under the current key, not expired
   and not on the revocation list at that moment (the router additionally wants a non-empty user name). *)
Theorem C21_decisions_exact : C21_statement.
Proof. exact decisions_exact. Qed.

(* The three validators always answer, and accept iff the four-line specification holds now. *)
Theorem C21_accept_iff :
  forall k h w o, (o = VRouter w \/ o = VValidate w \/ o = VExtract w) ->
    (snd (step true (run true k h) o) = Some (w, true)
     <-> Valid (run true k h) w /\ (router_op o = true -> Named (run true k h) w)).
Proof. exact accept_iff. Qed.

(* The code before the repair (fixed = false: a TokenCache hit does not ask the revocation list): a revocation
   that lands between a request's TokenUnwrap and its cache fill leaves a positive entry behind, and the revoked
   token is accepted by every later request. *)
Theorem C21_old_refuted :
  exists h w, let s := run false 7 h in
              snd (step false s (VRouter w)) = Some (w, true) /\ ~ Valid s w.
Proof. exists race_history, (Genuine 0 0). exact old_refuted. Qed.

(* Altered strings.  decrypt/ciphertext_of stand for AES-GCM under the current key; the premise is the
   idealised AEAD law of C27 (only ciphertexts the server produced decrypt).  Every presented string is either,
   up to the letter case of its hex digits, the string issued for some token — or it is rejected by all three
   validators in every state.  In particular every single-byte change of a token string that is not a mere
   case change of a hex letter (and does not turn it into another issued token's string) is rejected. *)
Theorem C21_altered_rejected :
  forall (decrypt : list N -> option Z) (ciphertext_of : Z -> list N),
    (forall c n, decrypt c = Some n -> c = ciphertext_of n) ->
    (forall n, Forall (fun b => (b < 256)%N) (ciphertext_of n)) ->
    forall spelling s,
      (exists n sp, classify decrypt spelling s = Genuine n sp /\
                    map lower s = map lower (hexencode (ciphertext_of n)))
      \/ (exists z, classify decrypt spelling s = Altered z /\
            forall k h o, (o = VRouter (Altered z) \/ o = VValidate (Altered z) \/ o = VExtract (Altered z)) ->
                          snd (step true (run true k h) o) = Some (Altered z, false)).
Proof.
  intros decrypt ciphertext_of H1 H2 spelling s.
  destruct (classify decrypt spelling s) as [n sp|z] eqn:E.
  - left. exists n, sp. split; [reflexivity|]. exact (genuine_only_respelling decrypt ciphertext_of H1 H2 spelling s n sp E).
  - right. exists z. split; [reflexivity|]. intros k h o Ho. exact (altered_rejected k h z o Ho).
Qed.

(* ---------- non-vacuity *)
(* a token is accepted by all three validators, from the cache too; after revocation it is refused; after
   un-revocation accepted again; after expiry refused; under another key refused *)
Example C21_ex_accept :
  let h := [Issue 1 100; VRouter (Genuine 0 0); Advance 10] in
  Valid (run true 7 h) (Genuine 0 0) /\ Named (run true 7 h) (Genuine 0 0) /\
  snd (step true (run true 7 h) (VRouter (Genuine 0 0))) = Some (Genuine 0 0, true).
Proof.
  cbn zeta. assert (E : snd (step true (run true 7 [Issue 1 100; VRouter (Genuine 0 0); Advance 10]) (VRouter (Genuine 0 0)))
                        = Some (Genuine 0 0, true)) by (vm_compute; reflexivity).
  pose proof (proj1 (accept_iff 7 _ (Genuine 0 0) _ (or_introl eq_refl)) E) as [V N]. split; [exact V|]. split; [apply N; reflexivity|exact E].
Qed.
Example C21_ex_trace :
  map (fun x => match x with Some (_, b) => bz b | None => -1 end)
      (trace true (init 7)
         [Issue 1 100; VRouter (Genuine 0 0); Revoke 0; VRouter (Genuine 0 0); VValidate (Genuine 0 0);
          Unrevoke 0; VExtract (Genuine 0 0); VRouter (Genuine 0 1); Restart 8; VRouter (Genuine 0 0);
          Restart 7; VRouter (Genuine 0 0); Advance 101; VRouter (Genuine 0 0); VValidate (Altered 3)])
  = [-1; 1; -1; 0; 0; -1; 1; 1; -1; 0; -1; 1; -1; 0; 0].
Proof. vm_compute. reflexivity. Qed.
Example C21_ex_race_closed :
  snd (step true (run true 7 race_history) (VRouter (Genuine 0 0))) = Some (Genuine 0 0, false).
Proof. exact race_fixed. Qed.
Example C21_ex_altered :
  let dcr := fun c : list N => if list_eq_dec N.eq_dec c [171; 205]%N then Some 0 else None in
  classify dcr (fun _ => 0) [97; 66; 99; 100]%N = Genuine 0 0 /\ classify dcr (fun _ => 0) [97; 98; 99; 101]%N = Altered 1.
Proof. vm_compute. split; reflexivity. Qed.
