"""C25 Passwords are accepted exactly when they match (internal/server/auth/validate.go, hash.go, users_*.go)."""
import hashlib
import json
import os
import time
import vf

GROUP = "Password"
THEOREMS = ["C25_iff", "C25_reachable_wf", "C25_iff_partial", "C25_mixed_case_refuted", "C25_migration_invariant", "C25_no_upgrade_at_72", "C25_migration_old_refuted",
            "C25_change_keeps_wf", "C25_change_decides", "C25_laws_satisfiable"]
META = {
    "group": GROUP,
    "technique": "Coq proof over a Gallina model of ValidatePassword (bcrypt / legacy SHA-256 / brace-quoted plaintext, "
                 "case-folded lookup, logon-or-root, upgrade of legacy credentials) with bcrypt and SHA-256 as parameters under "
                 "stated laws + vm_compute correspondence with the real ValidatePassword on file- and SQLite-backed user stores",
    "text": "C25_iff: for every store that the server's own write paths can produce from the empty store (SetUser as used by the "
            "admin create handler and the Ego builtin, the DeleteUser builtin, the admin credential update, the login-time upgrade; "
            "C25_reachable_wf shows they are all well formed), every user name, password and plaintext setting, the pair "
            "authenticates iff both are non-empty, a user with that name up to case exists, the password matches the stored "
            "credential in its format (bcrypt compare / SHA-256 hex equal / quoted plaintext equal and plaintext enabled) and the "
            "user holds ego.logon or ego.root (case-insensitive); C25_iff_partial states the same for any store with lower-case "
            "distinct names. C25_migration_invariant (no side condition, after repair 608546a1): whatever a login attempt does to "
            "the store, every later verdict for every user and every candidate of any length is unchanged; C25_no_upgrade_at_72: "
            "passwords of 72 bytes or more are never upgraded; the old code is kept as C25_migration_old_refuted. "
            "C25_change_keeps_wf / C25_change_decides: after a credential change the user is judged by the new credential, "
            "everybody else as before. One finding stays recorded (C25_mixed_case_refuted): a record whose stored name contains an "
            "upper-case letter (not producible by the modelled write paths: a hand-edited users file, a direct WriteUser, "
            "--default-credential Admin:...) can never log in. The model (with a stand-in for the hashes that provably satisfies "
            "the laws, C25_laws_satisfiable) is compared with the real code on every run, including the real SetUser / DeleteUser "
            "builtins and credential changes with the auth cache live; the statement is evaluated independently on the real "
            "verdicts, stored credentials, stored names and the re-opened store. "
            "partial: stores holding a name with an upper-case letter (recorded finding, outside the modelled write paths)",
    "note": "Trusted: Coq kernel; bcrypt and SHA-256 idealised by the four laws of hash_laws (collision-free SHA-256; a bcrypt hash "
            "of a password of <= 72 bytes matches exactly that password among candidates of <= 72 bytes - this ignores bcrypt's "
            "cyclic-key collisions for passwords containing NUL bytes; bcrypt reads only 72 bytes; generated hashes start with $2a$); "
            "HashPassword fails only for passwords over 72 bytes (RNG failure not modelled); ASCII case folding for names and "
            "permissions; store = exact-key map (file) / WHERE name = ? (SQLite with its short-term AuthCache live and never purged within a "
            "scenario: the model says the cache must be transparent, the tie checks it); "
            "overlay harness, generators, Python oracle.",
}

LOGON_OK = [["ego.logon"], ["ego.root"], ["EGO.LOGON"], ["Ego.Root", "tables"], ["tables", "ego.logon"]]
LOGON_NO = [["tables"], [], ["logon"], ["ego.logon "], ["root", "ego.logons"]]
PWS = [b"s3cret", b"Tr0ub4dor&3", "pässwörd".encode(), b" pad ", b"A", b"q" * 71, b"Z9" * 36, b"L" * 80, b"correct horse battery staple"]
RAWS = [b"", b"{}", b"{", b"}", b"$2a$garbage", b"$2b$", b"s3cret", hashlib.sha256(b"s3cret").hexdigest().upper().encode(),
        b"{unterminated", b"$2y$04$short"]


def hx(b):
    return b.hex()


def candidates(rng, pw, k):
    pool = [pw, b"nope", b"", pw.swapcase() if pw.swapcase() != pw else pw + b"!", pw + b"x", pw[:-1], pw[:72], pw + b"\x01" * 5,
            b"{" + pw + b"}", pw * 2]
    if len(pw) >= 72:
        pool += [pw[:72] + b"tail", pw[:72]]
    out = [pw]
    while len(out) < k:
        out.append(rng.choice(pool))
    rng.shuffle(out)
    return out


def variants(name):
    return [name, name.upper(), name.capitalize(), name.swapcase()]


def gen_scenario(rng, store, migrating):
    plaintext = rng.random() < 0.6
    names = rng.sample(["bob", "al", "eve", "dan", "mia"], rng.randint(2, 4))
    if rng.random() < 0.15:
        names.append("Carol")                     # stored with an upper-case letter: known finding
    users, info = [], {}
    for i, n in enumerate(names):
        perms = rng.choice(LOGON_OK) if rng.random() < 0.75 else rng.choice(LOGON_NO)
        r = rng.random()
        if migrating and i == 0:
            fmt = rng.choice(["sha", "plain"])
            if fmt == "plain":
                plaintext = True
            pw = rng.choice([p for p in PWS if len(p) <= 72])
            if rng.random() < 0.35:
                pw = rng.choice([b"Z9" * 36, b"q" * 71])
        elif r < 0.3:
            fmt, pw = "bcrypt", rng.choice([p for p in PWS if len(p) <= 72])
        elif r < 0.55:
            fmt, pw = "sha", rng.choice(PWS)
            if not migrating and len(pw) <= 72 and rng.random() < 0.8:
                pw = b"L" * 80 if rng.random() < 0.3 else pw     # long ones never migrate
        elif r < 0.8:
            fmt, pw = "plain", rng.choice(PWS)
        else:
            fmt, pw = "raw", rng.choice(RAWS)
        users.append({"name": n, "fmt": fmt, "pw": hx(pw), "perms": perms})
        info[n] = (fmt, pw, perms)
    steps = []

    def add(n, cand):
        u = rng.choice(variants(n)) if rng.random() < 0.5 else n
        steps.append({"user": hx(u.encode()), "pass": hx(cand)})

    if migrating:
        n0 = names[0]
        fmt, pw, _ = info[n0]
        cands = [c for c in candidates(rng, pw, 6) if c != pw]
        for c in cands[:4]:
            add(n0, c)                      # before: cheap
        add(n0, pw)                          # the upgrade (one cost-12 bcrypt)
        post = cands[:1] + [pw]
        if len(pw) == 72:
            post = [pw + b"tail", pw]
        for c in post:
            add(n0, c)                      # after: cost-12 compares
    else:
        for _ in range(rng.randint(4, 10)):
            n = rng.choice(names + ["nobody", ""]) if rng.random() < 0.9 else "Carol"
            if n in info:
                fmt, pw, _ = info[n]
                # a legacy credential of <= 72 bytes would migrate on the right password: use it rarely here
                c = rng.choice(candidates(rng, pw if fmt != "raw" else b"s3cret", 4))
                if fmt in ("sha", "plain") and c == pw and len(pw) < 72 and not (fmt == "plain" and not plaintext):
                    c = pw + b"x"
                add(n, c)
            else:
                steps.append({"user": hx(n.encode()), "pass": hx(rng.choice([b"x", b"", b"s3cret"]))})
            if rng.random() < 0.22:
                change_block(rng, info, plaintext, steps, add)
        if not any(st.get("op") == "change" for st in steps) and rng.random() < 0.6:
            change_block(rng, info, plaintext, steps, add)
    return {"store": store, "plaintext": plaintext, "users": users, "steps": steps}


def cheap_right(fmt, pw, plaintext):
    """may the right password be presented without triggering a cost-12 upgrade?"""
    return fmt == "bcrypt" or len(pw) >= 72 or (fmt == "plain" and not plaintext)


def change_block(rng, info, plaintext, steps, add):
    """login, CHANGE the stored credential of an existing user (admin password reset), logins with old and new"""
    n = rng.choice(list(info))
    fmt, pw, perms = info[n]
    if fmt != "raw" and cheap_right(fmt, pw, plaintext):
        add(n, pw)                                   # loads the short-term cache with the current record
    else:
        add(n, pw + b"?")
    r = rng.random()
    if r < 0.7:
        nfmt, npw = "bcrypt", rng.choice([b"new-secret", b"N3w!", pw + b"2", b"Z9" * 36])
    elif r < 0.85:
        nfmt, npw = "sha", b"M" * 75                 # legacy format, never upgraded (over 72 bytes)
    else:
        nfmt, npw = "plain", rng.choice([b"plain-new", b"pw2"])
    if npw == pw:
        npw = pw + b"#"
    if nfmt == "bcrypt" and len(npw) > 72:           # bcrypt hashes exist only for passwords of at most 72 bytes
        npw = rng.choice([x for x in (b"new-secret", b"N3w!") if x != pw])
    steps.append({"op": "change", "user": hx(n.encode()), "fmt": nfmt, "pw": hx(npw)})
    info[n] = (nfmt, npw, perms)
    if fmt != "raw":
        add(n, pw)                                   # old password: must be rejected now
    if cheap_right(nfmt, npw, plaintext) or rng.random() < 0.25:
        add(n, npw)                                  # new password: must be accepted (given permission / setting)
    add(n, npw + b"x")


def corpus():
    u = lambda n, f, p, perms: {"name": n, "fmt": f, "pw": hx(p), "perms": perms}
    s = lambda n, p: {"user": hx(n.encode()), "pass": hx(p)}
    c = lambda n, f, p: {"op": "change", "user": hx(n.encode()), "fmt": f, "pw": hx(p)}
    su = lambda n, p, perms: {"op": "setuser", "user": hx(n.encode()), "pw": hx(p), "perms": perms}
    du = lambda n: {"op": "deluser", "user": hx(n.encode())}
    p72 = b"a" * 72
    return [
        # C25_migration_refuted witness: 72-byte quoted plaintext, upgrade, then prefix+tail
        {"store": "file", "plaintext": True, "users": [u("dave", "plain", p72, ["ego.logon"])],
         "steps": [s("dave", p72 + b"x"), s("dave", p72), s("dave", p72 + b"x"), s("dave", p72[:71])]},
        # C25_mixed_case_refuted witness
        {"store": "file", "plaintext": False, "users": [u("Carol", "bcrypt", b"pw", ["ego.logon"]), u("bob", "bcrypt", b"pw", ["ego.logon"])],
         "steps": [s("Carol", b"pw"), s("carol", b"pw"), s("BOB", b"pw"), s("bob", b"PW")]},
        # upgrade by a user without logon: verdict false, credential upgraded, still false afterwards
        {"store": "file", "plaintext": False, "users": [u("eve", "sha", b"zork", ["employees"]), u("al", "plain", b"p", ["ego.root"])],
         "steps": [s("eve", b"zork"), s("eve", b"zork"), s("al", b"p"), s("AL", b"p")]},
        # credential change (admin password reset) between logins, both stores, bcrypt- and SHA-stored users,
        # then a permission-less change and a change of a legacy credential that upgrades afterwards
        {"store": "db", "plaintext": False, "users": [u("bob", "bcrypt", b"first-secret", ["ego.logon"]),
                                                      u("al", "sha", b"F" * 80, ["ego.root"])],
         "steps": [s("bob", b"first-secret"), s("bob", b"second-secret"), c("bob", "bcrypt", b"second-secret"),
                   s("bob", b"second-secret"), s("bob", b"first-secret"), s("Bob", b"second-secret"),
                   s("al", b"F" * 80), c("al", "bcrypt", b"second-secret"), s("al", b"second-secret"), s("al", b"F" * 80),
                   c("bob", "sha", b"third"), s("bob", b"second-secret"), s("bob", b"third"), s("bob", b"third")]},
        {"store": "file", "plaintext": True, "users": [u("bob", "bcrypt", b"first-secret", ["ego.logon"]),
                                                       u("al", "plain", b"p", ["ego.root"])],
         "steps": [s("bob", b"first-secret"), c("bob", "bcrypt", b"second-secret"), s("bob", b"second-secret"),
                   s("bob", b"first-secret"), s("al", b"q"), c("al", "plain", b"q"), s("al", b"p"), s("al", b"q"), s("al", b"q")]},
        # users created / replaced / deleted through the server's own path (SetUser / DeleteUser builtins, as the admin
        # handlers do): the name is lower-cased there, so "Carol" can log in under every spelling (C25_iff, C25_reachable_wf)
        {"store": "file", "plaintext": False, "users": [u("bob", "bcrypt", b"pw", ["ego.logon"])],
         "steps": [su("Carol", b"pw1", ["ego.logon"]), s("Carol", b"pw1"), s("CAROL", b"nope"),
                   su("CAROL", b"pw2", ["EGO.ROOT"]), s("cArOl", b"pw2"), du("cArol"), s("carol", b"pw2"), s("bob", b"pw")]},
        # SetUser with a password over 72 bytes: HashPassword fails, no credential is stored, nobody logs in with it
        {"store": "file", "plaintext": False, "users": [u("bob", "sha", b"pw", ["ego.logon"])],
         "steps": [su("Longjohn", b"S" * 80, ["ego.logon"]), s("longjohn", b"S" * 80), s("longjohn", b"S" * 72 + b"other"),
                   su("BOB", b"T" * 73, ["ego.root"]), s("bob", b"T" * 73), s("bob", b"T" * 72)]},
        {"store": "db", "plaintext": False, "users": [u("bob", "bcrypt", b"pw", ["ego.logon"])],
         "steps": [su("Carol", b"pw1", ["ego.logon"]), s("Carol", b"pw1"), s("carol", b"nope"),
                   su("CAROL", b"pw2", ["tables"]), s("carol", b"pw2"), su("carol", b"pw3", ["ego.logon"]), s("Carol", b"pw2"),
                   s("Carol", b"pw3"), du("CAROL"), s("carol", b"pw3"), du("BOB"), s("bob", b"pw")]},
        {"store": "db", "plaintext": True, "users": [u("al", "plain", b"p", ["ego.root"]), u("bob", "sha", b"L" * 80, ["ego.logon"])],
         "steps": [s("al", b"P"), s("Al", b"p"), s("al", b"p"), s("bob", b"L" * 80), s("bob", b"L" * 72), s("bob", b"L" * 80)]},
    ]


def spec(info_by_lower, plaintext, upgraded, u, p):
    """The property text, evaluated without the model: (expected verdict, finding-class or None)."""
    if u == "" or p == b"":
        return False, None
    hit = [n for n in info_by_lower if n.lower() == u.lower()]
    if not hit:
        return False, None
    n = hit[0]
    fmt, pw, perms = info_by_lower[n]
    if n in upgraded:
        fmt, pw = "bcrypt", upgraded[n]
    if fmt == "bcrypt" and n not in upgraded:
        m = p == pw or (len(p) > 72 and p[:72] == pw)      # bcrypt reads 72 bytes: that is what "matches a bcrypt hash" means
    elif fmt == "bcrypt":
        m = p == pw                                         # an upgraded credential must accept what the legacy one accepted
    elif fmt == "sha":
        m = p == pw
    elif fmt == "plain":
        m = plaintext and p == pw
    else:
        m = False
    allowed = any(x.lower() in ("ego.logon", "ego.root") for x in perms)
    return bool(m and allowed), n


def vperm(perms):
    return "[" + "; ".join(vf.vstr(x) for x in perms) + "]"


def vstored(fmt, pw):
    if fmt == "bcrypt":
        return "bcrypt_gen toy %s" % vf.vstr(pw)
    if fmt == "sha":
        return "sha toy %s" % vf.vstr(pw)
    if fmt == "plain":
        return vf.vstr(b"{" + pw + b"}")
    return vf.vstr(pw)


def vstep(s):
    op = s.get("op")
    if op == "change":
        return "Change %s (%s)" % (vf.vstr(bytes.fromhex(s["user"])), vstored(s["fmt"], bytes.fromhex(s["pw"])))
    if op == "setuser":
        return "SetU %s %s %s" % (vf.vstr(bytes.fromhex(s["user"])), vf.vstr(bytes.fromhex(s["pw"])), vperm(s["perms"]))
    if op == "deluser":
        return "DelU %s" % vf.vstr(bytes.fromhex(s["user"]))
    return "Login %s %s" % (vf.vstr(bytes.fromhex(s["user"])), vf.vstr(bytes.fromhex(s["pass"])))


PRELUDE = """From Password Require Import Model.
Open Scope N_scope.
Definition cls (init : user) (st : store) : N :=
  match lookup (uname init) st with
  | None => 3
  | Some y => if str_eqb (upass y) (upass init) then 0 else if is_bcrypt (upass y) then 1 else 2
  end.
Inductive stp := Login (u p : str) | Change (n c : str) | SetU (n pw : str) (ps : list str) | DelU (n : str).
(* [base] = what the harness last wrote per user (seed or change); classes are relative to it *)
Fixpoint runs (pt : bool) (base st : store) (steps : list stp) : list N :=
  match steps with
  | [] => []
  | Login u p :: r => let (ok, st') := validate toy pt st u p in
                      (if ok then 1 else 0) :: map (fun x => cls x st') base ++ runs pt base st' r
  | Change n c :: r => let st' := change_password st n c in
                       let base' := change_password base n c in
                       (match lookup n st with Some _ => 1 | None => 0 end) :: map (fun x => cls x st') base' ++ runs pt base' st' r
  | SetU n pw ps :: r => let st' := set_user_pw toy st n pw ps in
                        let base' := set_user_pw toy base n pw ps in
                        (if N.of_nat (length pw) <=? 72 then 1 else 0) :: map (fun x => cls x st') base' ++ runs pt base' st' r
  | DelU n :: r => let st' := delete_user st n in
                   let base' := delete_user base n in
                   1 :: map (fun x => cls x st') base' ++ runs pt base' st' r
  end.
"""
CLS = {"same": 0, "bcrypt": 1, "missing": 3}


def run(ck):
    quick = ck.tier == "quick"
    ck.cov["rule"] = ("scenarios = user store (file / SQLite) seeded with 2-5 users x stored format (bcrypt, SHA-256 hex, quoted "
                      "plaintext, 10 raw oddities) x permission lists (5 granting, 5 not) x plaintext setting; steps = (name in 4 case "
                      "variants / unknown / empty, candidate in {right, wrong, empty, case-swapped, +suffix, -1 byte, first 72 bytes, "
                      "72-byte prefix + tail, quoted, doubled}) and credential changes of existing users (ReadUser/WriteUser as the admin handlers, live auth cache) followed by logins with the old and the new password; upgrade scenarios re-ask the same candidates after the upgrade. "
                      "distinct_nontrivial = distinct (stored format, plaintext, verdict, upgraded-before?, credential-changed-before?) classes with verdict "
                      "true or an existing user")
    ck.assume("hash_laws: SHA-256 collision-free; bcrypt(gen p) matches exactly p among candidates of <= 72 bytes (NUL-cyclic "
              "collisions ignored); bcrypt reads only the first 72 bytes; HashPassword output starts with $2a$",
              "HashPassword fails exactly for passwords longer than 72 bytes",
              "user names and permission names are ASCII; stores behave as exact-key maps")
    ck.trusted("harness/C25/c25_test.go (in-package overlay; seeded bcrypt hashes use bcrypt.MinCost, upgrades use the real cost 12)",
               "props/C25.py generators, Python oracle and comparison", "correspondence evaluated by vm_compute with the stand-in hashes `toy`")
    t0 = time.time()
    ck.coq_stage(GROUP, theorems=THEOREMS)
    tm = {"coq_stage": round(time.time() - t0, 1)}
    ck.cov["timing_s"] = tm
    t0 = time.time()

    ok, binp = vf.go_test_build(ck.work, "internal/server/auth", {"internal/server/auth/zz_verif_c25_test.go":
                                os.path.join(vf.HARNESS, "C25", "c25_test.go")}, "c25.test")
    tm["go_build"] = round(time.time() - t0, 1)
    if not ok:
        ck.violation("harness-build", "harness for internal/server/auth does not build:\n" + binp[-1500:],
                     replay={"log": binp[-3000:]}, found_input=False)
        return
    if ck.replay_file:
        scs = [json.load(open(ck.replay_file))["replay"]["scenario"]]
    else:
        nf, nfm, nd, ndm = (30, 4, 10, 2) if quick else (400, 60, 120, 30)
        scs = corpus()
        scs += [gen_scenario(ck.rng, "file", False) for _ in range(nf)] + [gen_scenario(ck.rng, "file", True) for _ in range(nfm)]
        scs += [gen_scenario(ck.rng, "db", False) for _ in range(nd)] + [gen_scenario(ck.rng, "db", True) for _ in range(ndm)]
    inp, outp = os.path.join(ck.work, "in.json"), os.path.join(ck.work, "out.json")
    tmp = os.path.join(ck.work, "stores")
    os.makedirs(tmp, exist_ok=True)
    json.dump(scs, open(inp, "w"))
    t0 = time.time()
    rc, log = vf.run_bin(binp, "^TestVerifC25$", {"VERIF_IN": inp, "VERIF_OUT": outp, "VERIF_TMP": tmp}, timeout=900)
    tm["harness_run"] = round(time.time() - t0, 1)
    if rc != 0 or not os.path.exists(outp):
        ck.violation("harness-run", "harness failed:\n" + log[-1500:], replay={"log": log[-3000:]}, found_input=False)
        return
    outs = json.load(open(outp))

    nsteps, classes, oracle_bad = 0, set(), set()
    dist = {"file": 0, "db": 0, "upgrades": 0, "changes": 0, "api_writes": 0, "accepted": 0, "steps_after_upgrade": 0, "logins_after_change": 0}
    for i, (sc, o) in enumerate(zip(scs, outs)):
        dist[sc["store"]] += 1
        if o.get("error"):
            ck.violation("harness-run", "scenario %d: %s" % (i, o["error"]), replay={"scenario": sc}, found_input=False)
            oracle_bad.add(i)
            continue
        info = {u["name"]: (u["fmt"], bytes.fromhex(u["pw"]), u["perms"]) for u in sc["users"]}
        upgraded = {}
        changed = set()
        asked = {}       # (lower user, candidate) -> verdict before any upgrade of that user

        def rep(sig, what, k):
            ck.violation(sig, what + " [store=%s plaintext=%s, step #%d of the replayed scenario]" % (sc["store"], sc["plaintext"], k),
                         replay={"scenario": dict(sc, steps=sc["steps"][:k + 1])})
            oracle_bad.add(i)

        for k, (st, so) in enumerate(zip(sc["steps"], o["steps"])):
            nsteps += 1
            if st.get("op") in ("setuser", "deluser"):
                cn = bytes.fromhex(st["user"]).decode().lower()
                dist["api_writes"] += 1
                if not so["ok"]:
                    rep("write-path-failed", "%s %r failed" % (st["op"], cn), k)
                    break
                if st["op"] == "setuser":
                    npw = bytes.fromhex(st["pw"])
                    if so.get("credset") != (len(npw) <= 72):
                        rep("setuser-credential", "SetUser(%r, %d-byte password) %s a new credential; HashPassword accepts at most 72 "
                            "bytes, so a longer password must leave the record's credential as it was" % (
                                cn, len(npw), "stored" if so.get("credset") else "did not store"), k)
                        break
                    if len(npw) <= 72:
                        info[cn] = ("bcrypt", npw, st["perms"])
                    else:
                        info[cn] = (info[cn][0], info[cn][1], st["perms"]) if cn in info else ("raw", b"", st["perms"])
                    changed.add(cn)
                else:
                    info.pop(cn, None)
                upgraded.pop(cn, None)
                for key in [q for q in asked if q[0] == cn]:
                    del asked[key]
                if sorted(so.get("names") or []) != sorted(info):
                    rep("write-path-names", "after %s %r the store holds the users %r, expected %r (names are lower-cased by the "
                        "server's write paths)" % (st["op"], bytes.fromhex(st["user"]).decode(), so.get("names"), sorted(info)), k)
                    break
                bad = [(name, c) for name, c in so["stored"].items() if c != ("bcrypt" if name in upgraded else "same")]
                if bad:
                    rep("stored-credential", "after %s %r the store holds %r" % (st["op"], cn, bad), k)
                    break
                continue
            if st.get("op") == "change":
                cn = bytes.fromhex(st["user"]).decode()
                dist["changes"] += 1
                if not so["ok"]:
                    rep("change-failed", "changing the credential of existing user %r failed" % cn, k)
                    break
                info[cn] = (st["fmt"], bytes.fromhex(st["pw"]), info[cn][2])
                changed.add(cn)
                upgraded.pop(cn, None)
                for key in [q for q in asked if q[0] == cn]:
                    del asked[key]
                bad = [(name, c) for name, c in so["stored"].items() if c != ("bcrypt" if name in upgraded else "same")]
                if bad:
                    rep("stored-credential", "after the credential change of %r the store holds %r" % (cn, bad), k)
                    break
                continue
            u, p = bytes.fromhex(st["user"]).decode(), bytes.fromhex(st["pass"])
            want, n = spec(info, sc["plaintext"], upgraded, u, p)
            got = so["ok"]
            dist["accepted"] += got
            if n is not None:
                classes.add((info[n][0], sc["plaintext"], got, n in upgraded, n in changed))
                dist["logins_after_change"] += n in changed
                if n in upgraded:
                    dist["steps_after_upgrade"] += 1
            if got != want:
                if n is not None and n != n.lower() and want and not got:
                    rep("mixed-case-stored-name", "user %r is stored with an upper-case letter; %r with the right password is rejected "
                        "(lookup uses the lower-cased name)" % (n, u), k)
                elif n in upgraded and len(upgraded[n]) == 72 and len(p) > 72 and p[:72] == upgraded[n] and got:
                    rep("bcrypt-72-truncation", "after the legacy 72-byte password of %r was upgraded to bcrypt, a %d-byte password "
                        "with that prefix is accepted (it was rejected before the upgrade)" % (n, len(p)), k)
                else:
                    rep("verdict", "ValidatePassword(%r, %r) = %s, the property says %s for the credential stored NOW (format %s%s, "
                        "password %r, permissions %r)" % (u, p, got, want, info[n][0] if n else "-", " upgraded" if n in upgraded else "",
                                                          (upgraded.get(n) or info[n][1])[:24] if n else None, info[n][2] if n else None), k)
                    break
            # upgrading must not change any verdict: compare with what the same question got before
            if n is not None:
                key = (n, p)
                if n not in upgraded:
                    asked[key] = got
                elif key in asked and asked[key] != got:
                    rep("migration-changed-verdict", "(%r, %r) was %s before %r's credential was upgraded and is %s after" % (
                        u, p, asked[key], n, got), k)
                    break
            # stored credentials: upgraded exactly on a legacy match of <= 72 bytes
            if n is not None and n not in upgraded:
                fmt, pw, _ = info[n]
                legacy_match = (fmt == "sha" and p == pw) or (fmt == "plain" and sc["plaintext"] and p == pw)
                if legacy_match and len(p) < 72 and n == n.lower():
                    upgraded[n] = p
                    dist["upgrades"] += 1
            for name, c in so["stored"].items():
                wantc = "bcrypt" if name in upgraded else "same"
                if c != wantc:
                    rep("stored-credential", "stored credential of %r is %r after the step, expected %r" % (name, c, wantc), k)
                    break
        else:
            for name, c in (o.get("reopened") or {}).items():
                wantc = "bcrypt" if name in upgraded else "same"
                if c != wantc:
                    rep("not-persisted", "re-opened store holds %r for %r, expected %r" % (c, name, wantc), len(sc["steps"]) - 1)
    ck.cov["evaluations"] = nsteps
    ck.cov["distinct_nontrivial"] = len(classes)
    ck.cov["input_distribution"] = dict(dist, scenarios=len(scs), steps=nsteps)
    for sc in scs[:2] + scs[-1:]:
        ck.sample({"store": sc["store"], "plaintext": sc["plaintext"],
                   "users": [(u["name"], u["fmt"], bytes.fromhex(u["pw"]).decode("latin1")[:16], u["perms"]) for u in sc["users"]],
                   "steps": [(s.get("op", "login"), bytes.fromhex(s["user"]).decode(),
                              bytes.fromhex(s.get("pass", s.get("pw", ""))).decode("latin1")[:16]) for s in sc["steps"][:6]]})

    # ---- correspondence with the model
    if getattr(ck, "coq_broken", None):
        if not [v for v in ck.viol if vf.match_known(ck.known, ck.pid, v["signature"]) is None]:
            grp, log = ck.coq_broken
            ck.violation("proof-broken", "Coq development %s no longer checks; %d steps against the property oracle on the real "
                         "code found no new failing input:\n%s" % (grp, nsteps, log[-1200:]),
                         replay={"broken": "coq/" + grp, "log": log[-3000:]}, found_input=False)
        return
    exprs = {}
    for i, (sc, o) in enumerate(zip(scs, outs)):
        if o.get("error"):
            continue
        st = "[" + "; ".join("{| uname := %s; upass := %s; uperms := %s |}" % (
            vf.vstr(u["name"]), vstored(u["fmt"], bytes.fromhex(u["pw"])), vperm(u["perms"])) for u in sc["users"]) + "]"
        steps = "[" + "; ".join(vstep(s) for s in sc["steps"]) + "]"
        exprs["s%d" % i] = "runs %s %s %s %s" % ("true" if sc["plaintext"] else "false", st, st, steps)
    t0 = time.time()
    okc, res = vf.coq_eval(GROUP, ck.work, "cases", PRELUDE, exprs)
    tm["model_eval"] = round(time.time() - t0, 1)
    if not okc:
        ck.violation("correspondence-eval", "model evaluation failed:\n" + str(res)[-1500:], replay={"log": str(res)[-3000:]},
                     found_input=False)
        return
    validated = 0
    for i, (sc, o) in enumerate(zip(scs, outs)):
        if "s%d" % i not in res:
            continue
        m = res["s%d" % i]
        order = [u["name"] for u in sc["users"]]      # the model's record order: write replaces in place or appends
        pos, bad = 0, None
        for k, so in enumerate(o["steps"]):
            stp = sc["steps"][k]
            if stp.get("op") == "setuser":
                nm = bytes.fromhex(stp["user"]).decode().lower()
                if nm not in order:
                    order.append(nm)
            elif stp.get("op") == "deluser":
                nm = bytes.fromhex(stp["user"]).decode().lower()
                order = [x for x in order if x != nm]
            w = 1 + len(order)
            row = m[pos: pos + w]
            pos += w
            first = so.get("credset") if stp.get("op") == "setuser" else so["ok"]
            real = [1 if first else 0] + [CLS.get(so["stored"].get(nm, "missing"), 2) for nm in order]
            if row != real:
                bad = (k, row, real)
                break
        if bad and i not in oracle_bad:
            k, row, real = bad
            stp = sc["steps"][k]
            ck.violation("corr-validate", "model and implementation disagree at step #%d (%s %r, %r): real [verdict, stored classes]=%s, "
                         "model %s (store=%s plaintext=%s)" % (k, stp.get("op", "login"), bytes.fromhex(stp["user"]),
                                                               bytes.fromhex(stp.get("pass", stp.get("pw", ""))), real, row,
                                                               sc["store"], sc["plaintext"]),
                         replay={"scenario": dict(sc, steps=sc["steps"][:k + 1])}, found_input=False)
        elif not bad:
            validated += 1
    ck.cov["traces_validated_against_impl"] = validated
