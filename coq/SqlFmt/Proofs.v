(* SqlFmt/Proofs.v — the SQL instance satisfies the lexical laws of PrecClimbProofs; quoting lemmas. *)
From Common Require Import Base.
From Coq Require Import Ascii String.
From SqlFmt Require Import PrecClimb PrecClimbProofs Model.
Open Scope N_scope.

Definition atom_ok (kws : list str) (a : satom) : Prop := atom_okb kws a = true.

Lemma model_kw_false s : model_kw s = false ->
  eqfold s (L "null") = false /\ eqfold s (L "true") = false /\ eqfold s (L "false") = false /\
  eqfold s (L "case") = false /\ eqfold s (L "cast") = false /\ eqfold s (L "exists") = false /\
  eqfold s (L "not") = false.
Proof.
  unfold model_kw. intros H.
  repeat (apply orb_false_iff in H; destruct H as [H ?]). repeat split; assumption.
Qed.

Lemma H_atom kws a : atom_ok kws a ->
  atom_of (tok_atom kws a) = Some a /\ preop_of (tok_atom kws a) = None.
Proof.
  unfold atom_ok. destruct a as [s|s|s| |[|]]; cbn [atom_okb tok_atom]; intros H;
    try (split; reflexivity).
  destruct (needs_quote kws s) eqn:Q.
  - split; reflexivity.
  - cbn [orb] in H. apply negb_true_iff in H. apply model_kw_false in H.
    destruct H as (H1 & H2 & H3 & H4 & H5 & H6 & H7).
    unfold atom_of, preop_of, tis, tk, tt, tq. cbn [fst snd N.eqb Pos.eqb negb andb].
    rewrite H1, H2, H3, H4, H5, H6, H7. split; reflexivity.
Qed.

Lemma H_lp : atom_of tlp = None /\ is_lp tlp = true /\ preop_of tlp = None.
Proof. repeat split; reflexivity. Qed.
Lemma H_rp : is_rp trp = true /\ binop_of trp = None.
Proof. split; reflexivity. Qed.

Lemma H_bin s : binop_of (tok_bin s) = Some s.
Proof.
  unfold tok_bin. destruct (str_eqb s (L "OR")) eqn:E1.
  - apply str_eqb_eq in E1. subst. reflexivity.
  - destruct (str_eqb s (L "AND")) eqn:E2.
    + apply str_eqb_eq in E2. subst. reflexivity.
    + reflexivity.
Qed.

Lemma H_pre s : preop_of (tok_pre s) = Some s.
Proof.
  unfold tok_pre. destruct (str_eqb s (L "NOT")) eqn:E1.
  - apply str_eqb_eq in E1. subst. reflexivity.
  - reflexivity.
Qed.

(* ---- a name that folds to a lower-case word lower-cases to that word *)
Definition is_lc (c : N) : bool := (97 <=? c) && (c <=? 122).

Lemma eqfold_lower : forall s w, forallb is_lc w = true -> eqfold s w = true -> List.map lower s = w.
Proof.
  induction s as [|x s IH]; destruct w as [|y w]; cbn [eqfold forallb List.map]; intros Hl He; try discriminate.
  - reflexivity.
  - apply andb_true_iff in Hl as [Hy Hw]. apply andb_true_iff in He as [Hxy He].
    f_equal; [|apply IH; assumption].
    unfold is_lc in Hy. unfold upper, lower in *.
    apply N.eqb_eq in Hxy.
    destruct ((97 <=? x) && (x <=? 122)) eqn:A; destruct ((97 <=? y) && (y <=? 122)) eqn:B;
      destruct ((65 <=? x) && (x <=? 90)) eqn:C; lia.
Qed.

Lemma covers_kw kws s : covers kws = true -> model_kw s = true -> needs_quote kws s = true.
Proof.
  intros Hc Hm. unfold needs_quote. apply orb_true_iff. right.
  unfold covers in Hc. rewrite forallb_forall in Hc.
  assert (Hw : forall w, In w fragment_kws -> forallb is_lc w = true -> eqfold s w = true ->
                         existsb (str_eqb (List.map lower s)) kws = true).
  { intros w Hi Hl He. rewrite (eqfold_lower s w Hl He). apply Hc. exact Hi. }
  unfold model_kw in Hm.
  repeat (apply orb_true_iff in Hm; destruct Hm as [Hm|Hm]);
    (refine (Hw _ _ _ Hm); [unfold fragment_kws; repeat (try (left; reflexivity); right)|reflexivity]).
Qed.

Lemma all_atoms_ok kws : covers kws = true -> forall a, atom_ok kws a.
Proof.
  intros Hc a. unfold atom_ok. destruct a as [s|s|s| |b]; try reflexivity.
  cbn [atom_okb]. destruct (model_kw s) eqn:M.
  - rewrite (covers_kw kws s Hc M). reflexivity.
  - apply orb_true_r.
Qed.

Lemma atoms_all_ok kws (e : sexpr) : covers kws = true -> atoms_all (atom_ok kws) e.
Proof.
  intros Hc. induction e; cbn [atoms_all]; auto using all_atoms_ok.
Qed.

(* ---- the instantiated generic theorems *)
Theorem sql_parse_print kws tbl (e : sexpr) :
  wf_table str_eqb tbl = true -> WF tbl (atom_ok kws) tbl e -> sparse tbl (sprint kws e) = Some e.
Proof.
  intros Ht Hw. unfold sparse, sprint.
  eapply parse_print with (atom_ok := atom_ok kws);
    eauto using str_eqb_eq, H_atom, H_lp, H_rp, H_bin, H_pre.
Qed.

Theorem sql_reparse kws tbl ts (e : sexpr) :
  covers kws = true -> wf_table str_eqb tbl = true ->
  sparse tbl ts = Some e -> sparse tbl (sprint kws e) = Some e.
Proof.
  intros Hc Ht Hp. unfold sparse, sprint in *.
  eapply reparse with (atom_ok := atom_ok kws);
    eauto using str_eqb_eq, H_atom, H_lp, H_rp, H_bin, H_pre, atoms_all_ok.
Qed.

Theorem sql_parse_wf tbl ts (e : sexpr) : sparse tbl ts = Some e -> WF tbl (fun _ => True) tbl e.
Proof. intros Hp. unfold sparse in Hp. eapply parse_sound; eauto using str_eqb_eq. Qed.

(* ---- quoting: the lexer reads a quoted string / identifier back as exactly that value *)
Lemma scan_q_dbl q : forall s acc rest, (hdN rest =? q) = false \/ rest = [] ->
  scan_q q (dbl q s ++ q :: rest) acc = Some (acc ++ s, rest).
Proof.
  induction s as [|c s IH]; intros acc rest Hr.
  - cbn [dbl app scan_q]. rewrite N.eqb_refl. rewrite app_nil_r.
    destruct rest as [|c2 r2]; [reflexivity|].
    destruct Hr as [Hr|Hr]; [|discriminate]. cbn [hdN] in Hr. rewrite Hr. reflexivity.
  - cbn [dbl]. destruct (c =? q) eqn:E.
    + apply N.eqb_eq in E. subst c. cbn [app scan_q]. rewrite N.eqb_refl.
      rewrite IH by exact Hr. rewrite <- app_assoc. reflexivity.
    + cbn [app scan_q]. rewrite E. rewrite IH by exact Hr. rewrite <- app_assoc. reflexivity.
Qed.

Lemma lex_quote_string s : lex (quote 39 s) = LOk [(3, s, false)].
Proof.
  unfold lex, quote. cbn [List.length]. rewrite app_length. cbn [List.length].
  replace (List.length (dbl 39 s) + 1)%nat with (S (List.length (dbl 39 s))) by lia.
  cbn -[scan_q]. rewrite (scan_q_dbl 39 s [] []) by (right; reflexivity). reflexivity.
Qed.

Lemma lex_quote_ident s : lex (quote 34 s) = LOk [(1, s, true)].
Proof.
  unfold lex, quote. cbn [List.length]. rewrite app_length. cbn [List.length].
  replace (List.length (dbl 34 s) + 1)%nat with (S (List.length (dbl 34 s))) by lia.
  cbn -[scan_q]. rewrite (scan_q_dbl 34 s [] []) by (right; reflexivity). reflexivity.
Qed.
