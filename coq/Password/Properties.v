(* Password/Properties.v — property theorems of C25 only; proofs live in Proofs.v.
   [validate H plaintext st u p] = (ValidatePassword's verdict, the user store afterwards).
   [H : hashes] packs bcrypt (generate / compare) and SHA-256-hex; [hash_laws H] are the assumed laws:
   SHA-256 collision-free, a bcrypt hash matches exactly its own password among passwords of at most 72
   bytes, bcrypt reads only the first 72 bytes of a candidate, generated hashes carry a bcrypt prefix. *)
From Password Require Import Model Proofs.
Open Scope N_scope.

(* the statement of the property, first half, with no side condition on the store *)
Definition C25_statement : Prop :=
  forall H pt st u p, hash_laws H ->
    (fst (validate H pt st u p) = true <->
     u <> [] /\ p <> [] /\
     exists usr, In usr st /\ lower (uname usr) = lower u /\
                 cred_matches H pt (classify (upass usr)) p /\ permitted usr = true).

(* ... holds for every store whose user names are lower case and distinct (what SetUser / DeleteUser /
   the admin handlers write): authenticates <-> user exists case-insensitively, the password matches the
   stored credential in its format (plaintext only when enabled), and logon or root is held *)
Theorem C25_iff_partial :
  forall H pt st u p, hash_laws H -> store_wf st ->
    (fst (validate H pt st u p) = true <->
     u <> [] /\ p <> [] /\
     exists usr, In usr st /\ lower (uname usr) = lower u /\
                 cred_matches H pt (classify (upass usr)) p /\ permitted usr = true).
Proof. exact validate_iff'. Qed.

(* ... and fails for a stored name that is not lower case: that user can never log in *)
Theorem C25_mixed_case_refuted :
  forall H, hash_laws H ->
  exists st u p usr, In usr st /\ lower (uname usr) = lower u /\ u <> [] /\ p <> [] /\
    cred_matches H true (classify (upass usr)) p /\ permitted usr = true /\
    NoDup (map uname st) /\ fst (validate H true st u p) = false.
Proof. exact mixed_case_refuted'. Qed.

(* second half: whatever a login attempt does to the store (upgrade of a legacy credential to bcrypt),
   every later verdict for every user and every candidate password is unchanged -- except, when the
   upgraded password is exactly 72 bytes long, for candidates longer than 72 bytes *)
Definition C25_migration_statement : Prop :=
  forall H pt st u (p : str) v (q : str), hash_laws H ->
    fst (validate H pt (snd (validate H pt st u p)) v q) = fst (validate H pt st v q).

Theorem C25_migration_invariant_partial :
  forall H pt st u (p : str) v (q : str), hash_laws H ->
    ((length q <= 72)%nat \/ length p <> 72%nat) ->
    fst (validate H pt (snd (validate H pt st u p)) v q) = fst (validate H pt st v q).
Proof. exact migration_invariant'. Qed.

Theorem C25_migration_refuted :
  forall H, hash_laws H ->
  exists st u p q, store_wf st /\ fst (validate H true st u p) = true /\
    fst (validate H true st u q) = false /\
    fst (validate H true (snd (validate H true st u p)) u q) = true.
Proof. exact migration_refuted'. Qed.

(* credential change (ReadUser / replace Password / WriteUser, as the admin handlers do): the store stays
   well formed, so C25_iff_partial holds in the new state, and concretely the changed user is judged by the
   NEW credential while every other user's verdicts are untouched *)
Theorem C25_change_keeps_wf :
  forall st n c, store_wf st -> store_wf (change_password st n c).
Proof. exact change_keeps_wf. Qed.

Theorem C25_change_decides :
  forall H pt st n c usr u p, hash_laws H -> store_wf st -> lookup n st = Some usr ->
    (fst (validate H pt (change_password st n c) u p) = true <->
     if str_eqb n (lower u)
     then u <> [] /\ p <> [] /\ cred_matches H pt (classify c) p /\ permitted usr = true
     else fst (validate H pt st u p) = true).
Proof. exact change_decides. Qed.

(* the assumed laws are satisfiable (the stand-in used for the correspondence run satisfies them) *)
Theorem C25_laws_satisfiable : hash_laws toy.
Proof. exact toy_laws. Qed.

(* ---- non-vacuity on a concrete store *)
Definition ex_store : store :=
  [ {| uname := [98;111;98]; upass := sha toy [115;51]; uperms := [[69;71;79;46;76;79;71;79;78]] |};   (* bob, legacy SHA of "s3", EGO.LOGON *)
    {| uname := [97;108]; upass := [123;112;125]; uperms := [ego_root] |};                              (* al, "{p}", root *)
    {| uname := [101;118;101]; upass := bcrypt_gen toy [120]; uperms := [[120]] |} ].                   (* eve, bcrypt, no logon *)

Example C25_nonvacuous :
  store_wf ex_store /\
  fst (validate toy false ex_store [66;111;98] [115;51]) = true /\          (* "Bob" / "s3" *)
  fst (validate toy false ex_store [98;111;98] [83;51]) = false /\          (* "S3" *)
  fst (validate toy false ex_store [97;108] [112]) = false /\               (* plaintext disabled *)
  fst (validate toy true ex_store [97;108] [112]) = true /\
  fst (validate toy true ex_store [101;118;101] [120]) = false /\           (* right password, no logon/root *)
  upass (hd {| uname := []; upass := []; uperms := [] |} (snd (validate toy false ex_store [66;111;98] [115;51]))) = bcrypt_gen toy [115;51] /\
  fst (validate toy false (snd (validate toy false ex_store [66;111;98] [115;51])) [98;111;98] [115;51]) = true.
Proof.
  split.
  - split; [intros x [<-|[<-|[<-|[]]]]; reflexivity|].
    repeat constructor; cbn; intuition discriminate.
  - vm_compute. repeat split; congruence.
Qed.

Example C25_nonvacuous_change :
  let st' := change_password ex_store [98;111;98] (bcrypt_gen toy [110;101;119]) in     (* bob := bcrypt("new") *)
  store_wf st' /\
  fst (validate toy false st' [66;111;98] [110;101;119]) = true /\        (* "Bob" / "new" *)
  fst (validate toy false st' [98;111;98] [115;51]) = false.               (* old password *)
Proof.
  split; [apply change_keeps_wf; apply C25_nonvacuous|]. vm_compute. split; reflexivity.
Qed.
