//go:build verif

package util

// Overlaid into /repo/internal/util (and, with the package clause changed by props/C27.py's twin
// file c27_settings_test.go, into /repo/internal/cli/settings) by /verif/check C27.
//
// Line protocol (VERIF_IN -> VERIF_OUT, one output line per input line, "-" = empty hex):
//   E <pt> <pw>                      -> E <ct>                 real Encrypt
//   L <kind> <pt> <pw>               -> L <ct>                 older-format ciphertext made here with Go's
//                                                              crypto only: 2 = ÿEGO+salt+nonce+gcm (PBKDF2),
//                                                              3 = nonce+gcm (hex-MD5 key), 4 = "v2:"+b64(nonce+gcm)
//                                                              (SHA-256 key), 5 = b64(nonce+gcm) (hex-MD5 key)
//   B <text>                         -> B ok <bytes> <reenc> | B err      encoding/base64 Decode / re-Encode
//   D <data> <pw> 0|9                -> D <real> -             real Decrypt; model predicted no gcm.Open
//   D <data> <pw> <k> <salt> <nonce> <body>
//                                    -> D <real> <ref>         real Decrypt; ref = gcm.Open on the slices the
//                                                              model predicted, key by derivation k
//                                                              (1 Argon2id, 2 PBKDF2, 3 hex-MD5, 4 SHA-256)
//   H <text>                         -> H ok <bytes> | H err              encoding/hex DecodeString (the token layer)
//   <real>, <ref> are  ok:<hex plaintext>  or  err

import (
	"bufio"
	"crypto/aes"
	"crypto/cipher"
	"crypto/md5"
	"crypto/rand"
	"crypto/sha256"
	"encoding/base64"
	"encoding/hex"
	"fmt"
	"os"
	"strings"
	"testing"

	"golang.org/x/crypto/argon2"
	"golang.org/x/crypto/pbkdf2"
)

func c27unhex(s string) []byte {
	if s == "-" {
		return nil
	}

	b, err := hex.DecodeString(s)
	if err != nil {
		panic(err)
	}

	return b
}

func c27hex(b []byte) string {
	if len(b) == 0 {
		return "-"
	}

	return hex.EncodeToString(b)
}

var c27keys = map[string][]byte{}

// independent reference key derivations (parameters as documented for the formats)
func c27key(kind string, pw, salt []byte) []byte {
	id := kind + "|" + string(pw) + "|" + string(salt)
	if k, ok := c27keys[id]; ok {
		return k
	}

	var k []byte

	switch kind {
	case "1":
		k = argon2.IDKey(pw, salt, 2, 32*1024, 1, 32)
	case "2":
		k = pbkdf2.Key(pw, salt, 100000, 32, sha256.New)
	case "3":
		h := md5.Sum(pw)
		k = []byte(hex.EncodeToString(h[:]))
	case "4":
		h := sha256.Sum256(pw)
		k = h[:]
	default:
		panic("kind " + kind)
	}

	c27keys[id] = k

	return k
}

func c27gcm(key []byte) cipher.AEAD {
	blk, err := aes.NewCipher(key)
	if err != nil {
		panic(err)
	}

	g, err := cipher.NewGCM(blk)
	if err != nil {
		panic(err)
	}

	return g
}

func c27verdict(s string, err error) string {
	if err != nil {
		return "err"
	}

	return "ok:" + c27hex([]byte(s))
}

func TestVerifC27(t *testing.T) {
	in, err := os.Open(os.Getenv("VERIF_IN"))
	if err != nil {
		t.Fatal(err)
	}
	defer in.Close()

	out, err := os.Create(os.Getenv("VERIF_OUT"))
	if err != nil {
		t.Fatal(err)
	}
	defer out.Close()

	w := bufio.NewWriter(out)
	defer w.Flush()

	sc := bufio.NewScanner(in)
	sc.Buffer(make([]byte, 1<<22), 1<<22)

	for sc.Scan() {
		f := strings.Fields(sc.Text())
		if len(f) < 1 {
			continue
		}

		switch f[0] {
		case "E":
			ct, err := Encrypt(string(c27unhex(f[1])), string(c27unhex(f[2])))
			if err != nil {
				t.Fatal(err)
			}

			fmt.Fprintf(w, "E %s\n", c27hex([]byte(ct)))

		case "L":
			pt, pw := c27unhex(f[2]), c27unhex(f[3])
			salt := make([]byte, 16)
			nonce := make([]byte, 12)
			_, _ = rand.Read(salt)
			_, _ = rand.Read(nonce)

			var ct []byte

			switch f[1] {
			case "2":
				ct = append([]byte{0xFF, 0x45, 0x47, 0x4F}, salt...)
				ct = append(ct, c27gcm(c27key("2", pw, salt)).Seal(nonce, nonce, pt, nil)...)
			case "3":
				ct = c27gcm(c27key("3", pw, nil)).Seal(nonce, nonce, pt, nil)
			case "4":
				ct = []byte("v2:" + base64.StdEncoding.EncodeToString(c27gcm(c27key("4", pw, nil)).Seal(nonce, nonce, pt, nil)))
			case "5":
				ct = []byte(base64.StdEncoding.EncodeToString(c27gcm(c27key("3", pw, nil)).Seal(nonce, nonce, pt, nil)))
			default:
				t.Fatal("bad L kind")
			}

			fmt.Fprintf(w, "L %s\n", c27hex(ct))

		case "B":
			b, err := base64.StdEncoding.DecodeString(string(c27unhex(f[1])))
			if err != nil {
				fmt.Fprintf(w, "B err\n")
			} else {
				fmt.Fprintf(w, "B ok %s %s\n", c27hex(b), c27hex([]byte(base64.StdEncoding.EncodeToString(b))))
			}

		case "H":
			b, err := hex.DecodeString(string(c27unhex(f[1])))
			if err != nil {
				fmt.Fprintf(w, "H err\n")
			} else {
				fmt.Fprintf(w, "H ok %s\n", c27hex(b))
			}

		case "D":
			data, pw := c27unhex(f[1]), c27unhex(f[2])
			real := c27verdict(Decrypt(string(data), string(pw)))
			ref := "-"

			if len(f) >= 7 {
				salt, nonce, body := c27unhex(f[4]), c27unhex(f[5]), c27unhex(f[6])
				if len(nonce) != 12 {
					ref = "err" // gcm.Open panics on a wrong nonce length; the model never predicts one
				} else {
					p, err := c27gcm(c27key(f[3], pw, salt)).Open(nil, nonce, body, nil)
					ref = c27verdict(string(p), err)
				}
			}

			fmt.Fprintf(w, "D %s %s\n", real, ref)
		}
	}
}
