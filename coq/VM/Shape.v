(* VM/Shape.v — the stack-shape hypothesis of C10_catch_once is an invariant of the model's own instruction
   semantics: shape_ok is preserved by every instruction that completes (calls and returns included), by the
   runtime errors that leave the operands in place, and by the catch redirection itself. *)
From Coq Require Import ZArith NArith List Bool Lia.
Import ListNotations.
From VM Require Import Model Proofs.
Open Scope nat_scope.

Definition shape_ok (c : ctx) : Prop :=
  wf_stack (c_stack c) /\ c_fp c = fp_of (c_stack c) /\ (c_running c = true -> c_result c = None).

Definition no_frame (x : item) : Prop := match x with ItF _ => False | _ => True end.

Lemma fp_of_app : forall pre st, Forall no_frame pre -> fp_of (pre ++ st) = fp_of st.
Proof. induction pre as [|x r IH]; intros st H; [reflexivity|]. inversion H; subst. destruct x; cbn in *; auto; contradiction. Qed.

Lemma wf_app : forall pre st, Forall no_frame pre -> wf_stack st -> wf_stack (pre ++ st).
Proof. induction pre as [|x r IH]; intros st H W; [exact W|]. inversion H; subst. destruct x; cbn in *; auto; contradiction. Qed.

Lemma fp_of_le : forall st, fp_of st <= length st.
Proof. induction st as [|x r IH]; cbn; [lia|]. destruct x; cbn; lia. Qed.

(* above the frame pointer there is no call frame; at the frame pointer sits the topmost frame *)
Lemma split_at_fp : forall st, exists pre, Forall no_frame pre /\ st = pre ++ trunc (fp_of st) st /\
  (fp_of st = 0 \/ exists fr rest, trunc (fp_of st) st = ItF fr :: rest /\ fp_of st = S (length rest)).
Proof.
  induction st as [|x r IH].
  - exists []. cbn. repeat split; auto.
  - destruct x as [v|l|fr].
    + destruct IH as [pre [Hp [He Hf]]]. exists (ItV v :: pre). cbn [fp_of].
      assert (Ht : trunc (fp_of r) (ItV v :: r) = trunc (fp_of r) r).
      { unfold trunc. pose proof (fp_of_le r). cbn [length]. replace (S (length r) - fp_of r) with (S (length r - fp_of r)) by lia. reflexivity. }
      rewrite Ht. split; [constructor; cbn; auto|]. split; [cbn; f_equal; exact He|exact Hf].
    + destruct IH as [pre [Hp [He Hf]]]. exists (ItM l :: pre). cbn [fp_of].
      assert (Ht : trunc (fp_of r) (ItM l :: r) = trunc (fp_of r) r).
      { unfold trunc. pose proof (fp_of_le r). cbn [length]. replace (S (length r) - fp_of r) with (S (length r - fp_of r)) by lia. reflexivity. }
      rewrite Ht. split; [constructor; cbn; auto|]. split; [cbn; f_equal; exact He|exact Hf].
    + exists []. cbn [fp_of]. rewrite trunc_all. split; [constructor|]. split; [reflexivity|]. right. exists fr, r. split; reflexivity.
Qed.

Lemma wf_trunc_frame : forall st fr rest, wf_stack st -> trunc (fp_of st) st = ItF fr :: rest ->
  f_fp fr = fp_of rest /\ wf_stack rest.
Proof.
  induction st as [|x r IH]; intros fr rest W H.
  - cbn in H. discriminate.
  - destruct x as [v|l|fr0].
    + cbn [fp_of] in H. cbn in W.
      assert (Ht : trunc (fp_of r) (ItV v :: r) = trunc (fp_of r) r).
      { unfold trunc. pose proof (fp_of_le r). cbn [length]. replace (S (length r) - fp_of r) with (S (length r - fp_of r)) by lia. reflexivity. }
      rewrite Ht in H. eapply IH; eauto.
    + cbn [fp_of] in H. cbn in W.
      assert (Ht : trunc (fp_of r) (ItM l :: r) = trunc (fp_of r) r).
      { unfold trunc. pose proof (fp_of_le r). cbn [length]. replace (S (length r) - fp_of r) with (S (length r - fp_of r)) by lia. reflexivity. }
      rewrite Ht in H. eapply IH; eauto.
    + cbn [fp_of] in H. rewrite trunc_all in H. injection H as <- <-. cbn in W. exact W.
Qed.

(* replacing what lies above the frame pointer by frame-free items keeps the shape *)
Lemma shape_replace_top : forall c pre pre' rest,
  shape_ok c -> c_stack c = pre ++ rest -> Forall no_frame pre -> Forall no_frame pre' ->
  forall c', c_stack c' = pre' ++ rest -> c_fp c' = c_fp c -> (c_running c' = true -> c_result c' = None) ->
  shape_ok c'.
Proof.
  intros c pre pre' rest [W [F R]] Hs Hp Hp' c' Hs' Hf' Hr'.
  rewrite Hs in W, F. rewrite fp_of_app in F by exact Hp.
  assert (Wr : wf_stack rest).
  { clear -W Hp. induction pre as [|x r IH]; [exact W|]. inversion Hp; subst. destruct x; cbn in *; auto; contradiction. }
  split; [rewrite Hs'; apply wf_app; assumption|].
  split; [rewrite Hs', fp_of_app by exact Hp'; congruence|exact Hr'].
Qed.

Lemma shape_pop0 : forall c c' pre', shape_ok c -> Forall no_frame pre' ->
  c_stack c' = pre' ++ c_stack c -> c_fp c' = c_fp c -> (c_running c' = true -> c_result c' = None) -> shape_ok c'.
Proof. intros c c' pre' H Hp Hs Hf Hr. apply (shape_replace_top c [] pre' (c_stack c) H); auto. Qed.

Lemma shape_pop1 : forall c c' x r pre', shape_ok c -> c_stack c = x :: r -> no_frame x -> Forall no_frame pre' ->
  c_stack c' = pre' ++ r -> c_fp c' = c_fp c -> (c_running c' = true -> c_result c' = None) -> shape_ok c'.
Proof. intros c c' x r pre' H Hs Hx Hp Hs' Hf Hr. apply (shape_replace_top c [x] pre' r H); auto. Qed.

Lemma shape_pop2 : forall c c' x y r pre', shape_ok c -> c_stack c = x :: y :: r -> no_frame x -> no_frame y ->
  Forall no_frame pre' ->
  c_stack c' = pre' ++ r -> c_fp c' = c_fp c -> (c_running c' = true -> c_result c' = None) -> shape_ok c'.
Proof. intros c c' x y r pre' H Hs Hx Hy Hp Hs' Hf Hr. apply (shape_replace_top c [x; y] pre' r H); auto. Qed.

Lemma pop_values_split : forall n st vs r, pop_values n st = Some (vs, r) ->
  exists pre, Forall no_frame pre /\ st = pre ++ r.
Proof.
  induction n as [|k IH]; intros st vs r H; cbn in H.
  - injection H as <- <-. exists []. split; [constructor|reflexivity].
  - destruct st as [|[v|l|fr] st']; try discriminate.
    destruct (pop_values k st') as [[vs' r']|] eqn:E; [|discriminate]. injection H as <- <-.
    destruct (IH _ _ _ E) as [pre [Hp He]]. exists (ItV v :: pre). split; [constructor; cbn; auto|]. cbn. f_equal. exact He.
Qed.

Lemma drop_to_marker_split : forall l st fp, fp = fp_of st ->
  exists pre, Forall no_frame pre /\ st = pre ++ drop_to_marker l fp st.
Proof.
  intros l st. induction st as [|x r IH]; intros fp Hfp.
  - exists []. split; [constructor|reflexivity].
  - cbn [drop_to_marker]. destruct (Nat.leb (length (x :: r)) fp) eqn:El.
    + exists []. split; [constructor|reflexivity].
    + apply Nat.leb_gt in El. destruct x as [v|m|fr].
      * cbn [fp_of] in Hfp. destruct (IH fp Hfp) as [pre [Hp He]].
        exists (ItV v :: pre). split; [constructor; cbn; auto|]. cbn. f_equal. exact He.
      * cbn [fp_of] in Hfp. destruct l as [t|].
        -- destruct (N.eqb m t).
           ++ exists [ItM m]. split; [repeat constructor|reflexivity].
           ++ destruct (IH fp Hfp) as [pre [Hp He]].
              exists (ItM m :: pre). split; [constructor; cbn; auto|]. cbn. f_equal. exact He.
        -- exists [ItM m]. split; [repeat constructor|reflexivity].
      * cbn [fp_of] in Hfp. lia.
Qed.

(* callframe.go callFramePushWithTable *)
Lemma frame_push_shape : forall c t code, shape_ok c -> shape_ok (frame_push c t code).
Proof.
  intros c t code [W [F R]]. unfold frame_push, shape_ok; cbn.
  split; [split; [exact F|exact W]|]. split; [reflexivity|]. intros _. reflexivity.
Qed.

(* callframe.go callFramePop from a well-shaped context inside a function *)
Lemma frame_pop_shape : forall c c', shape_ok c -> 0 < c_fp c ->
  (forall v, c_result c = Some v -> length (c_stack c) = c_fp c) ->
  frame_pop c = (c', None) -> wf_stack (c_stack c') /\ c_fp c' = fp_of (c_stack c') /\
                               (c_result c' = None \/ c_result c' = c_result c /\ c_fp c < length (c_stack c)).
Proof.
  intros c c' [W [F R]] Hpos Hres H. unfold frame_pop in H.
  destruct (split_at_fp (c_stack c)) as [pre [Hp [He Hf]]]. rewrite <- F in He, Hf.
  destruct Hf as [Hz | [fr [rest [Ht Hl]]]]; [lia|].
  rewrite Ht in H.
  assert (Hfirst : firstn (length (c_stack c) - c_fp c) (c_stack c) = pre).
  { rewrite He at 2. rewrite He at 1. rewrite Ht. rewrite app_length. cbn [length]. rewrite Hl.
    replace (length pre + S (length rest) - S (length rest)) with (length pre + 0) by lia.
    rewrite firstn_app_2. cbn. apply app_nil_r. }
  rewrite Hfirst in H.
  assert (Hlen : length (c_stack c) = length pre + c_fp c).
  { rewrite He at 1. rewrite app_length, Ht. cbn [length]. lia. }
  rewrite F in Ht. destruct (wf_trunc_frame _ _ _ W Ht) as [Hffp Wr].
  destruct pre as [|x pre'].
  - destruct (c_result c) as [v|] eqn:Er; injection H as <-; cbn; auto.
  - injection H as <-. cbn [c_stack set_stack c_fp c_result].
    split; [apply (wf_app (x :: pre') rest Hp Wr)|]. split; [change (f_fp fr = fp_of ((x :: pre') ++ rest)); rewrite (fp_of_app (x :: pre') rest Hp); exact Hffp|].
    right. split; [reflexivity|]. rewrite Hlen. cbn [length]. lia.
Qed.

(* instructions whose completed execution keeps the shape: everything except Dup (could copy a call frame) and
   the call/return/entry/defer-run instructions treated below *)
Definition simple_instr (i : instr) : bool :=
  match i with
  | IAtLine _ | IPushV _ | IPushMark _ | IPushFun _ | IStoreGlobal _ | IImport | ISymbolCreate _ | IStore _
  | IStoreAlways _ | ILoad _ | IPushScope | IPopScope _ | INop | IDeferStart _ | IDefer _ | ITry _ | ITryPop
  | IDropToMarker _ | IBranch _ | IBranchFalse _ | IBranchTrue _ | IBin _ | IRecover | IPrint _ | INewline
  | IEntryPointExit => true
  | _ => false
  end.

Ltac same_guard R := let H := fresh in intros H; apply R; exact H.

Lemma exec_simple_shape : forall child p g c i g' c',
  shape_ok c -> simple_instr i = true -> exec child p g c i = (g', c', None) -> shape_ok c'.
Proof.
  intros child p g c i g' c' Hok Hs H. pose proof Hok as [W [F R]].
  destruct i; try discriminate Hs; cbn [exec] in H.
  all: unfold pop, push in H.
  all: repeat match type of H with
       | context [match ?x with _ => _ end] =>
           match x with
           | context [match _ with _ => _ end] => fail 1
           | _ => destruct x eqn:?
           end
       end; try discriminate H.
  all: try (injection H as <- <-).
  all: try (eapply (shape_pop0 c _ []); [exact Hok|constructor|reflexivity|reflexivity|same_guard R]; fail).
  all: try (eapply (shape_pop0 c _ [_]); [exact Hok|repeat constructor|reflexivity|reflexivity|same_guard R]; fail).
  all: try (eapply (shape_pop1 c _ _ _ []); [exact Hok|eassumption|exact I|constructor|reflexivity|reflexivity|same_guard R]; fail).
  all: try (eapply (shape_pop1 c _ _ _ [_]); [exact Hok|eassumption|exact I|repeat constructor|reflexivity|reflexivity|same_guard R]; fail).
  all: try (eapply (shape_pop2 c _ _ _ _ [_]); [exact Hok|eassumption|exact I|exact I|repeat constructor|reflexivity|reflexivity|same_guard R]; fail).
  all: try match goal with
       | |- shape_ok (set_stack ?c0 (?x :: c_stack ?c1)) =>
           apply (shape_pop0 c1 _ [x] Hok); [repeat constructor|reflexivity|reflexivity|same_guard R]
       end.
  all: try match goal with
       | |- shape_ok (set_stack ?c1 (drop_to_marker ?l (c_fp ?c1) (c_stack ?c1))) =>
           destruct (drop_to_marker_split l (c_stack c1) (c_fp c1) F) as [pre [Hp He]];
           apply (shape_replace_top c1 pre [] (drop_to_marker l (c_fp c1) (c_stack c1)) Hok He Hp);
           [constructor|reflexivity|reflexivity|same_guard R]
       end.
  all: try match goal with
       | E : pop_values _ (c_stack ?c1) = Some (_, ItV ?v :: ?r) |- shape_ok (set_defers (set_stack ?c1 ?r) _) =>
           destruct (pop_values_split _ _ _ _ E) as [pre [Hp He]];
           apply (shape_replace_top c1 (pre ++ [ItV v]) [] r Hok);
           [rewrite He, <- app_assoc; reflexivity|apply Forall_app; split; [exact Hp|repeat constructor]
           |constructor|reflexivity|reflexivity|same_guard R]
       | E : pop_values _ (c_stack ?c1) = Some (_, ?r) |- shape_ok (set_stack ?c1 ?r) =>
           destruct (pop_values_split _ _ _ _ E) as [pre [Hp He]];
           apply (shape_replace_top c1 pre [] r Hok He Hp); [constructor|reflexivity|reflexivity|same_guard R]
       | E : c_stack ?c1 = ItV _ :: ItV _ :: ?r |- shape_ok (set_stack ?c1 (?x :: ?r)) =>
           apply (shape_pop2 c1 _ _ _ r [x] Hok E I I); [repeat constructor|reflexivity|reflexivity|same_guard R]
       end.
  (* IRecover, the panic chain walk *)
  match type of H with (match ?t with _ => _ end) = _ => destruct t as [[v anc']|] end;
  injection H as <- <-;
  match goal with |- shape_ok (set_stack ?c0 (?x :: c_stack ?c1)) =>
    apply (shape_pop0 c1 _ [x] Hok); [repeat constructor|reflexivity|reflexivity|same_guard R] end.
Qed.

(* Call: the frame pushed saves the frame pointer of the stack below it *)
Lemma do_call_shape : forall p g c argc g' c',
  shape_ok c -> do_call p g c argc = (g', c', None) -> shape_ok c'.
Proof.
  intros p g c argc g' c' Hok H. pose proof Hok as [W [F R]]. unfold do_call in H.
  destruct (pop_values argc (c_stack c)) as [[vs st]|] eqn:E; [|discriminate].
  destruct st as [|[[z|bb| |sv|u cap]|l|fr] r]; try discriminate.
  unfold call_func in H. destruct (new_scope g _) as [g1 t]. injection H as <- <-.
  apply frame_push_shape.
  destruct (pop_values_split _ _ _ _ E) as [pre [Hp He]].
  apply (shape_replace_top c (pre ++ [ItV (VFunc u cap)]) [] r Hok);
    [rewrite He, <- app_assoc; reflexivity|apply Forall_app; split; [exact Hp|repeat constructor]
    |constructor|reflexivity|reflexivity|same_guard R].
Qed.

(* RunDefers leaves the context alone except for its defer list *)
Lemma run_defers_shape : forall child g c g' c' e,
  shape_ok c -> run_defers_op child g c = (g', c', e) -> shape_ok c'.
Proof.
  intros child g c g' c' e Hok H. destruct (run_defers_rev_once child g c) as [e0 H0]. rewrite H0 in H.
  injection H as <- <- <-. destruct Hok as [W [F R]]. split; [exact W|]. split; [exact F|exact R].
Qed.

(* the unwinding loop of handleCatch keeps the shape at every pop, call frames included *)
Lemma unwind_to_try_shape : forall fuel c c',
  shape_ok c -> c_result c = None -> unwind_to_try fuel c = (c', None) -> shape_ok c' /\ c_result c' = None.
Proof.
  induction fuel as [|f IH]; intros c c' Hok Hres H; [discriminate|].
  pose proof Hok as [W [F R]]. cbn [unwind_to_try] in H.
  destruct (c_stack c) as [|[v|l|fr] r] eqn:E; try discriminate.
  - apply (IH (set_stack c r)); auto.
    apply (shape_pop1 c _ (ItV v) r [] Hok E I); [constructor|reflexivity|reflexivity|same_guard R].
  - assert (Hs : shape_ok (set_stack c r)).
    { apply (shape_pop1 c _ (ItM l) r [] Hok E I); [constructor|reflexivity|reflexivity|same_guard R]. }
    destruct (N.eqb l L_try).
    + injection H as <-. split; [exact Hs|exact Hres].
    + apply (IH (set_stack c r)); auto.
  - cbn in W, F. destruct W as [Hf Wr].
    rewrite (frame_pop_top (set_stack c (ItF fr :: r)) fr r) in H; auto.
    apply (IH (restore (set_stack c (ItF fr :: r)) fr r)); auto.
    split; [exact Wr|]. split; [exact Hf|]. intros _. exact Hres.
Qed.

(* a caught error: the context the catch block starts in is well shaped again *)
Theorem catch_preserves_shape : forall c e c',
  shape_ok c -> c_running c = true -> handle_catch c (Some e) = (c', None) -> shape_ok c'.
Proof.
  intros c e c' Hok Hrun H. pose proof Hok as [W [F R]]. specialize (R Hrun).
  unfold handle_catch, handle_catch_gen in H.
  destruct e; try discriminate H; try (injection H as <-; exact Hok); cbn [andb] in H;
  rewrite Hrun in H; cbn [negb] in H;
  (destruct (find_live (c_trys c)); [|discriminate H]);
  (destruct (unwind_to_try _ c) as [c2 [e2|]] eqn:U; [discriminate H|]);
  injection H as <-;
  destruct (unwind_to_try_shape _ _ _ Hok R U) as [[W2 [F2 R2]] Hr2];
  (split; [exact W2|]; split; [exact F2|]; intros _; exact Hr2).
Qed.

(* one dispatch step that completes without raising, for the simple instructions, calls and RunDefers *)
Theorem step_preserves_shape : forall child p g c i g' c',
  shape_ok c ->
  (simple_instr i = true \/ (exists n, i = ICall n) \/ i = IRunDefers) ->
  exec child p g (set_pc c (S (c_pc c))) i = (g', c', None) -> shape_ok c'.
Proof.
  intros child p g c i g' c' Hok Hi H.
  assert (Hok' : shape_ok (set_pc c (S (c_pc c)))).
  { destruct Hok as [W [F R]]. split; [exact W|]. split; [exact F|exact R]. }
  destruct Hi as [Hs | [[n ->] | ->]].
  - eapply exec_simple_shape; eauto.
  - cbn [exec] in H. eapply do_call_shape; eauto.
  - cbn [exec] in H. eapply run_defers_shape; eauto.
Qed.
