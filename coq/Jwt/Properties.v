(* Jwt/Properties.v — property theorems of C22 only; proofs live in Proofs.v. *)
From Common Require Import Base.
From Jwt Require Import Model Proofs.
Open Scope Z_scope.

(* the property, for a given version of ValidateJWT: after every history, acceptance implies the token's
   own fields satisfy every clause, including "its token ID has not been revoked" *)
Definition C22_statement (fixed : bool) : Prop :=
  forall cfg toks t0 h id,
    let s := run fixed cfg toks h (init t0) in
    accepted (validate fixed cfg s id (toks id)) = true -> good cfg (now s) (revoked s) (toks id) = true.

(* code before the repair: the revocation list is consulted only on a cache hit, so a revoked token that
   was never presented before (or whose cache entry is gone) is accepted *)
Theorem C22_refuted_current :
  exists cfg toks h id,
    In (Revoke (t_jti (toks id))) h /\ t_jti (toks id) <> [] /\
    accepted (validate false cfg (run false cfg toks h (init 0)) id (toks id)) = true.
Proof. exact refuted_current. Qed.

(* repaired code, every history of validations / revocations / clock advances / cache evictions / purges:
   an accepted JWT uses an allowed algorithm, its kid resolves to a published key, the signature verifies,
   issuer and audience match the configuration (when configured), exp is present and in the future,
   nbf has passed, and its token ID is not revoked *)
Theorem C22_accept_sound :
  forall cfg toks t0 h id,
    let s := run true cfg toks h (init t0) in
    accepted (validate true cfg s id (toks id)) = true ->
    let t := toks id in
    alg_allowed (t_alg t) = true /\ t_key_found t = true /\ t_sig_ok t = true /\
    iss_ok cfg t = true /\ aud_ok cfg t = true /\
    (exists e, t_exp t = Some e /\ now s < e) /\ nbf_ok (now s) t = true /\
    is_revoked (revoked s) (t_jti t) = false.
Proof. exact accept_sound. Qed.

(* revocation takes effect for every later request, whether or not the token was seen before: from ANY
   state satisfying the cache invariant (any cache content), after any history h1 containing the
   revocation and any continuation h2 *)
Theorem C22_revocation_effective :
  forall cfg toks s0 h1 h2 j id,
    Inv cfg toks s0 -> j <> [] -> t_jti (toks id) = j -> In (Revoke j) h1 ->
    accepted (validate true cfg (run true cfg toks (h1 ++ h2) s0) id (toks id)) = false.
Proof. exact revocation_effective. Qed.

(* and nothing else is refused: a token satisfying every clause (and naming a user) is accepted as that
   user, whatever the cache holds — old and repaired code alike *)
Theorem C22_accept_complete :
  forall fixed cfg toks t0 h id,
    let s := run fixed cfg toks h (init t0) in
    good cfg (now s) (revoked s) (toks id) = true -> is_nil (user_of (toks id)) = false ->
    snd (validate fixed cfg s id (toks id)) = Accept (user_of (toks id)).
Proof. exact accept_complete_run. Qed.

(* non-vacuity *)
Example C22_nonvacuous :
  let toks := fun _ : nat => demo_tok in
  (* accepted, cached, accepted again, revoked -> refused on the hit path and on the miss path *)
  map outcome_code (outcomes true demo_cfg toks
     [Validate 0; Advance 10; Validate 0; Revoke [106]%N; Validate 0; Validate 0; Purge; Validate 0] (init 0))
    = [1; 1; 2; 2; 2]%N /\
  map outcome_code (outcomes false demo_cfg toks
     [Validate 0; Advance 10; Validate 0; Revoke [106]%N; Validate 0; Validate 0; Purge; Validate 0] (init 0))
    = [1; 1; 2; 1; 1]%N /\
  good demo_cfg 0 [] demo_tok = true /\ good demo_cfg 1000 [] demo_tok = false /\
  Inv demo_cfg toks (run true demo_cfg toks [Validate 0] (init 0)).
Proof.
  cbv zeta. split; [vm_compute; reflexivity|]. split; [vm_compute; reflexivity|].
  split; [vm_compute; reflexivity|]. split; [vm_compute; reflexivity|]. apply Inv_run, Inv_init.
Qed.
