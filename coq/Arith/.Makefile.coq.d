Model.vo Model.glob Model.v.beautified Model.required_vo: Model.v ../Common/Base.vo
Model.vio: Model.v ../Common/Base.vio
Model.vos Model.vok Model.required_vos: Model.v ../Common/Base.vos
Sites.vo Sites.glob Sites.v.beautified Sites.required_vo: Sites.v 
Sites.vio: Sites.v 
Sites.vos Sites.vok Sites.required_vos: Sites.v 
Spec.vo Spec.glob Spec.v.beautified Spec.required_vo: Spec.v Model.vo
Spec.vio: Spec.v Model.vio
Spec.vos Spec.vok Spec.required_vos: Spec.v Model.vos
Proofs.vo Proofs.glob Proofs.v.beautified Proofs.required_vo: Proofs.v ../Common/Base.vo Model.vo Spec.vo
Proofs.vio: Proofs.v ../Common/Base.vio Model.vio Spec.vio
Proofs.vos Proofs.vok Proofs.required_vos: Proofs.v ../Common/Base.vos Model.vos Spec.vos
Prog.vo Prog.glob Prog.v.beautified Prog.required_vo: Prog.v ../Common/Base.vo Model.vo
Prog.vio: Prog.v ../Common/Base.vio Model.vio
Prog.vos Prog.vok Prog.required_vos: Prog.v ../Common/Base.vos Model.vos
ProgProofs.vo ProgProofs.glob ProgProofs.v.beautified ProgProofs.required_vo: ProgProofs.v ../Common/Base.vo Model.vo Spec.vo Proofs.vo Prog.vo
ProgProofs.vio: ProgProofs.v ../Common/Base.vio Model.vio Spec.vio Proofs.vio Prog.vio
ProgProofs.vos ProgProofs.vok ProgProofs.required_vos: ProgProofs.v ../Common/Base.vos Model.vos Spec.vos Proofs.vos Prog.vos
Properties.vo Properties.glob Properties.v.beautified Properties.required_vo: Properties.v Model.vo Spec.vo Proofs.vo
Properties.vio: Properties.v Model.vio Spec.vio Proofs.vio
Properties.vos Properties.vok Properties.required_vos: Properties.v Model.vos Spec.vos Proofs.vos
PropertiesC04.vo PropertiesC04.glob PropertiesC04.v.beautified PropertiesC04.required_vo: PropertiesC04.v Model.vo Spec.vo Proofs.vo Prog.vo ProgProofs.vo
PropertiesC04.vio: PropertiesC04.v Model.vio Spec.vio Proofs.vio Prog.vio ProgProofs.vio
PropertiesC04.vos PropertiesC04.vok PropertiesC04.required_vos: PropertiesC04.v Model.vos Spec.vos Proofs.vos Prog.vos ProgProofs.vos
