(* VM/Shape2.v — the stack shape (frames well formed, frame pointer consistent) is preserved by EVERY instruction
   of the model, completing or failing, by catch redirection and by panic unwinding, unless the instruction pops
   a call frame off an empty local stack (flagged); whole-run statement. *)
From Coq Require Import ZArith NArith List Bool Lia.
Import ListNotations.
From VM Require Import Model Proofs Shape.
Open Scope nat_scope.

Definition shape2 (c : ctx) : Prop := wf_stack (c_stack c) /\ c_fp c = fp_of (c_stack c).

Lemma shape_ok_shape2 : forall c, shape_ok c -> shape2 c.
Proof. intros c [W [F _]]. split; assumption. Qed.

Lemma shape2_replace_top : forall c pre pre' rest,
  shape2 c -> c_stack c = pre ++ rest -> Forall no_frame pre -> Forall no_frame pre' ->
  forall c', c_stack c' = pre' ++ rest -> c_fp c' = c_fp c -> shape2 c'.
Proof.
  intros c pre pre' rest [W F] Hs Hp Hp' c' Hs' Hf'.
  rewrite Hs in W, F. rewrite fp_of_app in F by exact Hp.
  assert (Wr : wf_stack rest).
  { clear -W Hp. induction pre as [|x r IH]; [exact W|]. inversion Hp; subst. destruct x; cbn in *; auto; contradiction. }
  split; [rewrite Hs'; apply wf_app; assumption|].
  rewrite Hs', fp_of_app by exact Hp'. congruence.
Qed.

Lemma shape2_same : forall c c', shape2 c -> c_stack c' = c_stack c -> c_fp c' = c_fp c -> shape2 c'.
Proof. intros c c' H Hs Hf. apply (shape2_replace_top c [] [] (c_stack c) H); auto. Qed.

Lemma shape2_push : forall c c' x, shape2 c -> no_frame x -> c_stack c' = x :: c_stack c -> c_fp c' = c_fp c -> shape2 c'.
Proof. intros c c' x H Hx Hs Hf. apply (shape2_replace_top c [] [x] (c_stack c) H); auto. Qed.

Lemma shape2_pop1 : forall c c' x r pre', shape2 c -> c_stack c = x :: r -> no_frame x -> Forall no_frame pre' ->
  c_stack c' = pre' ++ r -> c_fp c' = c_fp c -> shape2 c'.
Proof. intros c c' x r pre' H Hs Hx Hp Hs' Hf. apply (shape2_replace_top c [x] pre' r H); auto. Qed.

Lemma shape2_frame_push : forall c t code, shape2 c -> shape2 (frame_push c t code).
Proof. intros c t code [W F]. unfold frame_push, shape2; cbn. split; [split; [exact F|exact W]|reflexivity]. Qed.

(* inside a function callFramePop always succeeds from a well-shaped context and gives a well-shaped caller *)
Lemma frame_pop_shape2 : forall c, shape2 c -> 0 < c_fp c ->
  exists c', frame_pop c = (c', None) /\ shape2 c'.
Proof.
  intros c [W F] Hpos. unfold frame_pop.
  destruct (split_at_fp (c_stack c)) as [pre [Hp [He Hf]]]. rewrite <- F in He, Hf.
  destruct Hf as [Hz | [fr [rest [Ht Hl]]]]; [lia|].
  rewrite Ht.
  assert (Hfirst : firstn (length (c_stack c) - c_fp c) (c_stack c) = pre).
  { rewrite He at 2. rewrite He at 1. rewrite Ht. rewrite app_length. cbn [length]. rewrite Hl.
    replace (length pre + S (length rest) - S (length rest)) with (length pre + 0) by lia.
    rewrite firstn_app_2. cbn. apply app_nil_r. }
  rewrite Hfirst. rewrite F in Ht. destruct (wf_trunc_frame _ _ _ W Ht) as [Hffp Wr].
  destruct pre as [|x pre'].
  - destruct (c_result c) as [v|]; eexists; (split; [reflexivity|]); split; cbn; auto.
  - eexists. split; [reflexivity|]. split; cbn [c_stack set_stack c_fp].
    + apply (wf_app (x :: pre') rest Hp Wr).
    + change (f_fp fr = fp_of ((x :: pre') ++ rest)). rewrite (fp_of_app (x :: pre') rest Hp). exact Hffp.
Qed.

(* truncating to the frame pointer (Go: c.stackPointer = c.framePointer) keeps the shape *)
Lemma shape2_trunc : forall c c', shape2 c -> c_stack c' = trunc (c_fp c) (c_stack c) -> c_fp c' = c_fp c -> shape2 c'.
Proof.
  intros c c' H Hs Hf. pose proof H as [W F].
  destruct (split_at_fp (c_stack c)) as [pre [Hp [He _]]]. rewrite <- F in He.
  apply (shape2_replace_top c pre [] (trunc (c_fp c) (c_stack c)) H He Hp); auto.
Qed.

Lemma ret1_stack_shape2 : forall c c', shape2 c -> c_stack c' = ret1_stack (c_fp c) (c_stack c) -> c_fp c' = c_fp c -> shape2 c'.
Proof.
  intros c c' H Hs Hf. unfold ret1_stack in Hs.
  destruct (andb _ _); [eapply shape2_trunc; eauto|eapply shape2_same; eauto].
Qed.

Definition top_frame (c : ctx) : bool := match c_stack c with ItF _ :: _ => true | _ => false end.

Lemma top_not_frame : forall c x r, top_frame c = false -> c_stack c = x :: r -> no_frame x.
Proof. intros c x r H E. unfold top_frame in H. rewrite E in H. destruct x; cbn; auto. discriminate. Qed.

Section Child.
  Variable child : glob -> ctx -> glob * option err.

  Lemma do_return_shape2 : forall g c k g' c' e,
    shape2 c ->
    (match k with RBool | RInt 1 => top_frame c = false | _ => True end) ->
    do_return g c k = (g', c', e) -> shape2 c'.
  Proof.
    intros g c k g' c' e Hok Hfl H. unfold do_return, pop in H.
    destruct k as [| |[|[|n]]].
    - (* RNone *)
      cbn [set_result set_stack c_fp c_stack] in H.
      destruct (Nat.ltb_spec 0 (c_fp c)).
      + assert (Hs : shape2 (set_stack (set_result (set_stack c (trunc (c_fp c - 1) (c_stack c))) None) (trunc (c_fp c) (c_stack c)))).
        { eapply shape2_trunc; eauto. }
        destruct (frame_pop_shape2 _ Hs) as [c2 [E2 S2]]; [exact H0|]. rewrite E2 in H. injection H as <- <- <-. exact S2.
      + injection H as <- <- <-. destruct Hok as [W F]. assert (c_fp c = 0) by lia.
        split; cbn; rewrite H; cbn; unfold trunc; rewrite Nat.sub_0_r, skipn_all; cbn; auto.
    - (* RBool *)
      destruct (c_stack c) as [|x r] eqn:E.
      + injection H as <- <- <-. exact Hok.
      + pose proof (top_not_frame c x r Hfl E) as Hx.
        assert (Hs : shape2 (set_stack c r)) by (apply (shape2_pop1 c _ x r [] Hok E Hx); [constructor|reflexivity|reflexivity]).
        destruct x as [v|l|fr]; [|injection H as <- <- <-; exact Hs|contradiction].
        cbn [set_result set_stack c_fp c_stack] in H.
        destruct (Nat.ltb_spec 0 (c_fp c)).
        * assert (Hs' : shape2 (set_result (set_stack c r) (Some v))) by (eapply shape2_same; eauto).
          destruct (frame_pop_shape2 _ Hs') as [c2 [E2 S2]]; [exact H0|]. rewrite E2 in H. injection H as <- <- <-. exact S2.
        * injection H as <- <- <-. eapply shape2_same; eauto.
    - (* RInt 0 *)
      cbn [set_result set_stack c_fp c_stack] in H.
      destruct (Nat.ltb_spec 0 (c_fp c)).
      + assert (Hs : shape2 (set_stack (set_result (set_stack c (trunc (c_fp c - 1) (c_stack c))) None) (trunc (c_fp c) (c_stack c)))).
        { eapply shape2_trunc; eauto. }
        destruct (frame_pop_shape2 _ Hs) as [c2 [E2 S2]]; [exact H0|]. rewrite E2 in H. injection H as <- <- <-. exact S2.
      + injection H as <- <- <-. destruct Hok as [W F]. assert (c_fp c = 0) by lia.
        split; cbn; rewrite H; cbn; unfold trunc; rewrite Nat.sub_0_r, skipn_all; cbn; auto.
    - (* RInt 1 *)
      destruct (c_stack c) as [|x r] eqn:E.
      + injection H as <- <- <-. exact Hok.
      + pose proof (top_not_frame c x r Hfl E) as Hx.
        assert (Hs : shape2 (set_stack c r)) by (apply (shape2_pop1 c _ x r [] Hok E Hx); [constructor|reflexivity|reflexivity]).
        cbn [set_result set_stack c_fp c_stack] in H.
        set (res := match x with ItV v => Some v | _ => Some VNil end) in H.
        assert (Hs' : shape2 (set_stack (set_result (set_stack c r) res) (ret1_stack (c_fp c) r))).
        { apply (ret1_stack_shape2 (set_stack c r)); auto. }
        destruct (Nat.ltb_spec 0 (c_fp c)).
        * destruct (frame_pop_shape2 _ Hs') as [c2 [E2 S2]]; [exact H0|]. rewrite E2 in H. injection H as <- <- <-. exact S2.
        * injection H as <- <- <-. eapply shape2_same; eauto.
    - (* RInt >= 2 *)
      cbn [set_result set_stack c_fp c_stack] in H.
      destruct (Nat.ltb_spec 0 (c_fp c)).
      + assert (Hs : shape2 (set_result c None)) by (eapply shape2_same; eauto).
        destruct (frame_pop_shape2 _ Hs) as [c2 [E2 S2]]; [exact H0|]. rewrite E2 in H. injection H as <- <- <-. exact S2.
      + injection H as <- <- <-. eapply shape2_same; eauto.
  Qed.

  Lemma invoke_list_stack : forall pk ds g c g' c' e,
    invoke_list child pk g c ds = (g', c', e) -> c_stack c' = c_stack c /\ c_fp c' = c_fp c.
  Proof.
    intros pk ds. induction ds as [|d r IH]; intros g c g' c' e H; cbn [invoke_list] in H.
    - injection H as <- <- <-. auto.
    - destruct (child _ _) as [g1 e1].
      destruct (invoke_list child pk _ _ r) as [[g3 c3] e3] eqn:E3. injection H as <- <- <-.
      apply IH in E3. destruct pk; exact E3.
  Qed.
End Child.

Section Child2.
  Variable child : glob -> ctx -> glob * option err.

  (* panic unwinding: whatever it ends with, the context it leaves is well shaped *)
  Lemma unwind_panic_shape2 : forall p fuel g c g' c' e,
    shape2 c -> unwind_panic child p fuel g c = (g', c', e) -> shape2 c'.
  Proof.
    intros p fuel. induction fuel as [|f IH]; intros g c g' c' e Hok H; cbn [unwind_panic] in H.
    - injection H as <- <- <-. exact Hok.
    - destruct (match c_defers c with [] => (g, c, None) | _ :: _ => invoke_panic_defers child g c end)
        as [[g1 c1] e1] eqn:E1.
      assert (H1 : shape2 c1).
      { destruct (c_defers c); [injection E1 as <- <- <-; exact Hok|].
        unfold invoke_panic_defers in E1. apply invoke_list_stack in E1. destruct E1. eapply shape2_same; eauto. }
      destruct e1 as [e1|]; [injection H as <- <- <-; exact H1|].
      destruct (c_panic c1) as [pv|].
      + destruct (Nat.eqb_spec (c_fp c1) 0).
        * injection H as <- <- <-. eapply shape2_same; eauto.
        * assert (Hs : shape2 (set_stack c1 (trunc (c_fp c1) (c_stack c1)))) by (eapply shape2_trunc; eauto).
          destruct (frame_pop_shape2 _ Hs) as [c3 [E3 S3]]; [cbn; lia|]. rewrite E3 in H. eapply IH; eauto.
      + cbn [set_defers c_fp c_stack set_stack c_code] in H.
        destruct (Nat.eqb_spec (c_fp c1) 0).
        * injection H as <- <- <-. eapply shape2_same; eauto.
        * match type of H with context [frame_pop ?x] =>
            assert (Hs : shape2 x) by (destruct (Nat.eqb _ 1); eapply shape2_trunc; eauto);
            destruct (frame_pop_shape2 x Hs) as [c5 [E5 S5]]; [destruct (Nat.eqb _ 1); cbn; lia|]; rewrite E5 in H
          end.
          injection H as <- <- <-. exact S5.
  Qed.

  Definition callee_frame (argc : nat) (c : ctx) : bool :=
    match pop_values argc (c_stack c) with Some (_, ItF _ :: _) => true | _ => false end.

  Lemma do_call_shape2 : forall p g c argc g' c' e,
    shape2 c -> callee_frame argc c = false -> do_call p g c argc = (g', c', e) -> shape2 c'.
  Proof.
    intros p g c argc g' c' e Hok Hfl H. unfold do_call in H. unfold callee_frame in Hfl.
    destruct (pop_values argc (c_stack c)) as [[vs st]|] eqn:E; [|injection H as <- <- <-; exact Hok].
    destruct (pop_values_split _ _ _ _ E) as [pre [Hp He]].
    destruct st as [|x r]; [injection H as <- <- <-; exact Hok|].
    assert (Hx : no_frame x) by (destruct x; cbn; auto; discriminate).
    assert (Hs : shape2 (set_stack c r)).
    { apply (shape2_replace_top c (pre ++ [x]) [] r Hok);
        [rewrite He, <- app_assoc; reflexivity|apply Forall_app; split; [exact Hp|repeat constructor; exact Hx]
        |constructor|reflexivity|reflexivity]. }
    destruct x as [[z|bb| |sv|u cap]|l|fr]; try (injection H as <- <- <-; exact Hs).
    unfold call_func in H. destruct (new_scope g _) as [g1 t]. injection H as <- <- <-.
    apply shape2_frame_push. exact Hs.
  Qed.
End Child2.

(* the unwinding loop of handleCatch, any result register *)
Lemma unwind_to_try_shape2 : forall fuel c c' e, shape2 c -> unwind_to_try fuel c = (c', e) -> shape2 c'.
Proof.
  induction fuel as [|f IH]; intros c c' e Hok H; cbn [unwind_to_try] in H.
  - injection H as <- <-. exact Hok.
  - destruct (c_stack c) as [|x r] eqn:E; [injection H as <- <-; exact Hok|].
    destruct x as [v|l|fr].
    + apply (IH (set_stack c r) c' e); auto.
      apply (shape2_pop1 c _ (ItV v) r [] Hok E I); [constructor|reflexivity|reflexivity].
    + assert (Hs : shape2 (set_stack c r)) by (apply (shape2_pop1 c _ (ItM l) r [] Hok E I); [constructor|reflexivity|reflexivity]).
      destruct (N.eqb l L_try); [injection H as <- <-; exact Hs|]. apply (IH (set_stack c r) c' e); auto.
    + assert (Hs : shape2 (set_stack c (ItF fr :: r))) by (eapply shape2_same; eauto).
      destruct (frame_pop_shape2 _ Hs) as [c2 [E2 S2]].
      { destruct Hok as [W F]. cbn. rewrite F, E. cbn. lia. }
      rewrite E2 in H. eapply IH; eauto.
Qed.

Lemma handle_catch_shape2 : forall c e c' e', shape2 c -> handle_catch c e = (c', e') -> shape2 c'.
Proof.
  intros c e c' e' Hok H. unfold handle_catch, handle_catch_gen in H.
  destruct e as [e|]; [|injection H as <- <-; exact Hok].
  destruct e; try (injection H as <- <-; exact Hok); cbn [andb] in H;
  (destruct (negb (c_running c)); [injection H as <- <-; exact Hok|]);
  (destruct (find_live (c_trys c)); [|injection H as <- <-; exact Hok]);
  (destruct (unwind_to_try _ c) as [c2 [e2|]] eqn:U; injection H as <- <-;
   apply unwind_to_try_shape2 in U; auto; eapply shape2_same; eauto).
Qed.

(* the one way the model (and the Go VM) can lose the shape: an instruction that pops from an EMPTY local
   stack takes the call frame itself *)
Definition underflow (c : ctx) (i : instr) : bool :=
  match i with
  | IStoreGlobal _ | IStore _ | IStoreAlways _ | IBranchFalse _ | IBranchTrue _ | IUserPanic | IEntryPoint | IDup
  | IReturn RBool | IReturn (RInt 1) => top_frame c
  | ICall argc => callee_frame argc c
  | _ => false
  end.

Section Exec.
  Variable child : glob -> ctx -> glob * option err.

  Ltac notframe Hfl :=
    match goal with
    | |- no_frame (ItV _) => exact I
    | |- no_frame (ItM _) => exact I
    | E : c_stack ?c = ?x :: ?r |- no_frame ?x => exact (top_not_frame c x r Hfl E)
    end.

  Lemma exec_shape2 : forall p g c i g' c' e,
    shape2 c -> underflow c i = false -> exec child p g c i = (g', c', e) -> shape2 c'.
  Proof.
    intros p g c i g' c' e Hok Hfl H. pose proof Hok as [W F].
    destruct i; cbn [exec underflow] in H, Hfl.
    all: try (eapply do_call_shape2; eauto; fail).
    all: try (eapply do_return_shape2; [exact Hok| |exact H]; destruct k as [| |[|[|?]]]; auto; fail).
    all: try (destruct (run_defers_rev_once child g c) as [e0 H0]; rewrite H0 in H; injection H as <- <- <-;
              eapply shape2_same; [exact Hok|reflexivity|reflexivity]; fail).
    all: unfold pop, push in H.
    all: repeat match type of H with
         | context [match ?x with _ => _ end] =>
             match x with
             | context [match _ with _ => _ end] => fail 1
             | _ => destruct x eqn:?
             end
         end.
    all: try match goal with E : c_stack ?c1 = ItF _ :: _, Hf : top_frame ?c1 = false |- _ =>
           exfalso; unfold top_frame in Hf; rewrite E in Hf; discriminate end.
    all: try (injection H as <- <- <-).
    all: try (exact Hok).
    all: try (eapply shape2_same; [exact Hok|reflexivity|reflexivity]; fail).
    all: try (eapply shape2_push; [exact Hok|exact I|reflexivity|reflexivity]; fail).
    all: try match goal with E : c_stack ?c1 = ?x :: ?r |- shape2 _ =>
           (apply (shape2_pop1 c1 _ x r [] Hok E); [notframe Hfl|constructor|reflexivity|reflexivity]) end.
    all: try match goal with E : c_stack ?c1 = ?x :: ?r |- shape2 (set_stack _ (?y :: _)) =>
           (apply (shape2_pop1 c1 _ x r [y] Hok E); [notframe Hfl|repeat constructor|reflexivity|reflexivity]) end.
    (* Dup *)
    all: try match goal with E : c_stack ?c1 = ?x :: ?r |- shape2 (set_stack ?c1 (?x :: ?x :: ?r)) =>
           apply (shape2_pop1 c1 _ x r [x; x] Hok E);
           [notframe Hfl|repeat constructor; notframe Hfl|reflexivity|reflexivity] end.
    (* DropToMarker / EntryPointExit *)
    all: try match goal with |- shape2 (set_stack ?c1 (drop_to_marker ?l (c_fp ?c1) (c_stack ?c1))) =>
           destruct (drop_to_marker_split l (c_stack c1) (c_fp c1) F) as [pre [Hp He]];
           apply (shape2_replace_top c1 pre [] (drop_to_marker l (c_fp c1) (c_stack c1)) Hok He Hp);
           [constructor|reflexivity|reflexivity] end.
    (* Defer, Print: pop_values *)
    all: try match goal with
         | E : pop_values _ (c_stack ?c1) = Some (_, ItV ?v :: ?r) |- shape2 (set_defers (set_stack ?c1 ?r) _) =>
             destruct (pop_values_split _ _ _ _ E) as [pre [Hp He]];
             apply (shape2_replace_top c1 (pre ++ [ItV v]) [] r Hok);
             [rewrite He, <- app_assoc; reflexivity|apply Forall_app; split; [exact Hp|repeat constructor]
             |constructor|reflexivity|reflexivity]
         | E : pop_values _ (c_stack ?c1) = Some (_, ?r) |- shape2 (set_stack ?c1 ?r) =>
             destruct (pop_values_split _ _ _ _ E) as [pre [Hp He]];
             apply (shape2_replace_top c1 pre [] r Hok He Hp); [constructor|reflexivity|reflexivity]
         end.
    (* arithmetic: two operands popped *)
    all: try match goal with
         | E : c_stack ?c1 = ItV ?a :: ItV ?b :: ?r |- shape2 (set_stack ?c1 (?x :: ?r)) =>
             apply (shape2_replace_top c1 [ItV a; ItV b] [x] r Hok E); [repeat constructor|repeat constructor|reflexivity|reflexivity]
         | E : c_stack ?c1 = ItV ?a :: ItV ?b :: ?r |- shape2 (set_stack ?c1 ?r) =>
             apply (shape2_replace_top c1 [ItV a; ItV b] [] r Hok E); [repeat constructor|constructor|reflexivity|reflexivity]
         end.
    - (* EntryPoint: the name is popped, the function value pushed, then a call *)
      eapply do_call_shape2; [| |exact H]; [|reflexivity].
      apply (shape2_pop1 c _ (ItV (VStr s)) l [ItV v0] Hok Heql I); [repeat constructor|reflexivity|reflexivity].
    - (* Recover: the panic chain walk *)
      match type of H with (match ?t with _ => _ end) = _ => destruct t as [[v anc']|] end;
      injection H as <- <- <-; (eapply (shape2_push c _ (ItV _)); [exact Hok|exact I|reflexivity|reflexivity]).
  Qed.
End Exec.

Lemma step_shape2 : forall child p g c i g1 c1 e fl,
  shape2 c -> underflow c i = false -> step child p g c i = ((g1, c1, e), fl) -> shape2 c1.
Proof.
  intros child p g c i g1 c1 e fl Hok Hfl H. unfold step in H.
  destruct (exec child p g (set_pc c (S (c_pc c))) i) as [[g2 c2] e2] eqn:E.
  assert (H2 : shape2 c2).
  { eapply exec_shape2; [| |exact E]; [eapply shape2_same; [exact Hok|reflexivity|reflexivity]|exact Hfl]. }
  destruct (handle_catch c2 e2) as [c3 e3] eqn:E3.
  pose proof (handle_catch_shape2 _ _ _ _ H2 E3) as H3.
  destruct e3 as [e3|]; [|injection H as <- <- <- <-; exact H3].
  destruct e3; try (injection H as <- <- <- <-; exact H3).
  destruct (unwind_panic child p _ g2 c3) as [[g4 c4] e4] eqn:E4.
  pose proof (unwind_panic_shape2 child p _ _ _ _ _ _ H3 E4) as H4.
  destruct e4; injection H as <- <- <- <-; exact H4.
Qed.

(* RunFromAddress with a flag raised when an instruction pops a call frame off an empty local stack *)
Fixpoint run_u (fuel : nat) (p : program) (g : glob) (c : ctx) : glob * ctx * outcome * bool :=
  match fuel with
  | O => (g, c, OutOfFuel, false)
  | S f =>
      if negb (c_running c) then (g, c, Finished None, false) else
      match nth_error (code_of p (c_code c)) (c_pc c) with
      | None => (g, c, Finished None, false)
      | Some i =>
          let child := fun g' c' => match run f p g' c' with
                                     | (g'', _, Finished e) => (g'', e)
                                     | (g'', _, OutOfFuel) => (g'', Some EOther) end in
          match step child p g c i with
          | ((g1, c1, _), false) => let '(r, u) := run_u f p g1 c1 in (r, orb (underflow c i) u)
          | ((g1, c1, e), true) => (g1, c1, Finished e, underflow c i)
          end
      end
  end.

Lemma run_u_project : forall fuel p g c, fst (run_u fuel p g c) = run fuel p g c.
Proof.
  induction fuel as [|f IH]; intros p g c; [reflexivity|]. cbn [run_u run].
  destruct (negb (c_running c)); [reflexivity|].
  destruct (nth_error (code_of p (c_code c)) (c_pc c)) as [i|]; [|reflexivity].
  destruct (step _ p g c i) as [[[g1 c1] e] fl]. destruct fl; [reflexivity|].
  rewrite <- IH. destruct (run_u f p g1 c1) as [r u]. reflexivity.
Qed.

(* Whole run, whole instruction set, completing and failing instructions, caught and uncaught errors, panic
   unwinding: unless the flag was raised the context the run ends in is well shaped. *)
Theorem run_preserves_shape : forall fuel p g c,
  shape2 c -> snd (run_u fuel p g c) = false -> shape2 (snd (fst (run fuel p g c))).
Proof.
  induction fuel as [|f IH]; intros p g c Hok Hu; [exact Hok|]. cbn [run_u run] in *.
  destruct (negb (c_running c)); [exact Hok|].
  destruct (nth_error (code_of p (c_code c)) (c_pc c)) as [i|]; [|exact Hok].
  destruct (step _ p g c i) as [[[g1 c1] e] fl] eqn:E. destruct fl.
  - cbn in Hu. cbn. eapply step_shape2; eauto.
  - destruct (run_u f p g1 c1) as [r u] eqn:Er. cbn in Hu. apply orb_false_iff in Hu. destruct Hu as [Hu1 Hu2].
    apply IH; [eapply step_shape2; eauto|rewrite Er; exact Hu2].
Qed.

(* the contexts deferred calls run in start well shaped *)
Lemma child_ctx_shape2 : forall c d, shape2 (child_ctx c d).
Proof. intros c d. split; cbn; auto. Qed.
