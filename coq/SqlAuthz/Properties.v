(* SqlAuthz/Properties.v — property theorems of C15 only; proofs live in Proofs.v. *)
From SqlAuthz Require Import Model Proofs.
Open Scope N_scope.

(* Proved once, for every schema: if the schema passes check_coverage then for every parse tree that
   conforms to it and whose root is a statement, every named table reference anywhere below the root
   - in whatever field, at whatever depth, outside the positions listed as exempt - is among the
   usages Tables() reports. *)
Theorem coverage_sound : forall S, check_coverage S = true ->
  forall n ti, conforms S n = true -> find_ty S (n_ty n) = Some ti -> t_stmt ti = true ->
  forall t, In t (refs_below S n) -> t <> 0 -> exists u, In (u, t) (tables_reported S n).
Proof. exact Proofs.coverage_sound. Qed.

(* The positions listed in the schema as forbidding subqueries are not an exception any more but a premise that
   is computed per tree: when [forbidden_clean S n] holds, EVERY named table reference below the statement is
   reported.  (Trees for which it fails are exactly the statements with a table reference inside a CHECK / DEFAULT /
   GENERATED / index expression; the check executes each of them and requires the engine to refuse it.) *)
Theorem coverage_sound_total : forall S, check_coverage S = true ->
  forall n ti, conforms S n = true -> find_ty S (n_ty n) = Some ti -> t_stmt ti = true ->
  forbidden_clean S n = true ->
  forall t, In t (refs_below_all S n) -> t <> 0 -> exists u, In (u, t) (tables_reported S n).
Proof. exact Proofs.coverage_sound_total. Qed.

(* ... and a statement of a schema-changing kind whose target is present reports an admin usage; a schema
   passing check_ddl gives every such statement type a source for it *)
Theorem ddl_requires_admin : forall S, check_ddl S = true ->
  (forall c, In c (s_cases S) -> is_ddl_kind (c_kind c) = true -> c_adminref c ++ c_adminstr c <> []) /\
  (forall n c, find_case S (n_ty n) = Some c -> is_ddl_kind (c_kind c) = true -> target_present S n = true ->
     exists t, In (UAdmin, t) (tables_reported S n)).
Proof. intros S H. split; [exact (ddl_has_source S H)|exact (Proofs.ddl_requires_admin S H)]. Qed.

(* authorizeStatement: the statement executes exactly when every reported usage passed its check *)
Theorem C15_authz : forall chk kind us,
  authorize chk kind us = true <-> (forall u t, In (u, t) us -> chk (perm_for kind u) t = true).
Proof. exact authorize_iff. Qed.

(* ... and then every reported usage was actually put to the permission oracle, one question per
   usage in order - no usage is skipped (e.g. because its table was already asked about in another role) *)
Theorem C15_checks_made : forall chk kind us, authorize chk kind us = true ->
  checks_made chk kind us = map (fun p => (perm_for kind (fst p), snd p)) us.
Proof. exact executes_checks_all. Qed.

(* INSERT statements that also change existing rows: the loop with the extra permissions executes exactly when
   every reported usage passed its own permission AND, for the write target, every extra one (update for an upsert,
   delete for INSERT OR REPLACE) *)
Theorem C15_authz_upsert : forall chk kind ex us, authorize_x chk kind ex us = true <->
  (forall u t, In (u, t) us -> forall p, In p (perms_of kind ex u) -> chk p t = true).
Proof. exact authorize_x_iff. Qed.

Theorem C15_authz_upsert_conservative : forall chk kind us, authorize_x chk kind [] us = authorize chk kind us.
Proof. exact authorize_x_nil. Qed.

(* before the repair an upsert was authorized by the insert permission alone *)
Theorem C15_old_refuted_upsert :
  authorize only_insert_t K_insert [(UWrite, 1)] = true /\ only_insert_t PUpdate 1 = false /\
  authorize_x only_insert_t K_insert (extra_write_perms true false) [(UWrite, 1)] = false /\
  authorize_x only_insert_t K_insert (extra_write_perms false true) [(UWrite, 1)] = false /\
  authorize_x only_insert_t K_insert (extra_write_perms false false) [(UWrite, 1)] = true.
Proof. exact old_refuted_upsert. Qed.

Example C15_upsert_nonvacuous :
  authorize_x (fun p t => match p with PInsert | PUpdate | PRead => true | _ => false end) K_insert
              (extra_write_perms true false) [(UWrite, 1); (URead, 2)] = true /\
  checks_made_x (fun p t => match p with PInsert | PRead => true | _ => false end) K_insert
              (extra_write_perms true false) [(UWrite, 1); (URead, 2)] = [(PInsert, 1); (PUpdate, 1)].
Proof. vm_compute. auto. Qed.

(* The property: under a schema that passes both checks, a statement executes only if every table it
   references anywhere had a permission check that passed (read for references, the kind's own write
   permission for its target), and a schema-changing statement only with DSN-administrator authority. *)
Definition C15_statement (S : schema) : Prop := every_table_checked_stmt S.

Theorem C15_every_table_checked : forall S, check_coverage S && check_ddl S = true -> C15_statement S.
Proof. exact every_table_checked. Qed.

(* the same composition without any excepted position, under the per-tree premise *)
Theorem C15_every_table_checked_total : forall S, check_coverage S && check_ddl S = true ->
  forall chk n ti, conforms S n = true -> find_ty S (n_ty n) = Some ti -> t_stmt ti = true ->
    forbidden_clean S n = true -> executes S chk n = true ->
    forall t, In t (refs_below_all S n) -> t <> 0 -> exists u, chk (perm_for (kind_of S n) u) t = true.
Proof. exact every_table_checked_total. Qed.

Example C15_total_nonvacuous :
  forbidden_clean mini_fixed w_update = true /\ In 2 (refs_below_all mini_fixed w_update) /\
  refs_below_all mini_fixed w_update = [1; 2].
Proof. vm_compute. repeat split; auto. Qed.

(* the pinned tree, in miniature: UPDATE t SET a = (SELECT ... FROM other) executes for a caller who may
   only update t, although it reads other; DROP INDEX executes for a caller with no permission at all *)
Theorem C15_old_refuted_update :
  check_coverage mini_old = false /\ conforms mini_old w_update = true /\
  executes mini_old only_update_t w_update = true /\ In 2 (refs_below mini_old w_update) /\
  (forall u, only_update_t (perm_for K_update u) 2 = false).
Proof. exact old_refuted_update. Qed.

Theorem C15_old_refuted_dropindex :
  check_ddl mini_old = false /\ is_ddl_kind (kind_of mini_old w_dropindex) = true /\
  executes mini_old (fun _ _ => false) w_dropindex = true.
Proof. exact old_refuted_dropindex. Qed.

(* non-vacuity: the repaired miniature passes both checks, its trees conform, and the same two
   statements are now refused for the same callers *)
Example C15_nonvacuous :
  check_coverage mini_fixed && check_ddl mini_fixed = true /\ conforms mini_fixed w_update = true /\
  In 2 (refs_below mini_fixed w_update) /\ target_present mini_fixed w_dropindex = true /\
  executes mini_fixed only_update_t w_update = false /\ executes mini_fixed (fun _ _ => false) w_dropindex = false /\
  executes mini_fixed (fun _ _ => true) w_update = true.
Proof. vm_compute. repeat split; auto. Qed.
