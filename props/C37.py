"""C37 Printed durations can be read back (internal/util/time.go)."""
import os
import vf

GROUP = "Dur"
META = {
    "group": "Dur",
    "technique": "Coq proof of format/parse round trip over a Gallina model of FormatDuration/ParseDuration + vm_compute correspondence with the real functions",
    "text": "Theorems C37_roundtrip (every duration of >= 1 s up to the int64 ns range, either sign, printed in the extended form parses back to the same duration to the second) and C37_documented_forms (every optionally signed, spaced or unspaced sum of d/h/m/s terms is accepted with its value) are proved for all inputs over the model; the model is compared with the real FormatDuration/ParseDuration on every run and the round trip is also evaluated on the real code. full",
    "note": "Trusted: Coq kernel; hand-written model of time.ParseDuration (integer fragment), egostrings.Atoi (decimal path), parseDurationWithDays, FormatDuration with integer division in place of float64 Hours()/Minutes()/Seconds() (exact for whole seconds and below 2^53 ns) - tied to the code by the correspondence run; the overlay harness and the Python comparison.",
}
NS = 1000000000
MAXS = 9223372036
ALPHA = "0123456789 dhms-+.nuq"


def gen_durations(rng, n):
    """ns values: boundaries and log-uniform whole seconds, some with sub-second remainders."""
    out = []
    b = [1, 59, 60, 61, 3599, 3600, 3601, 3900, 86399, 86400, 86401, 90000, 90061, 172800, 51 * 3600,
         2678400, 774 * 3600 + 23 * 60 + 15, 31536000, 10 ** 6 * 3600, MAXS, MAXS - 1, MAXS - 59]
    for s in b:
        out += [s * NS, -s * NS]
    while len(out) < n:
        bits = rng.randint(1, 33)
        s = rng.randint(1, min(MAXS, (1 << bits)))
        if rng.random() < 0.3:
            s = s - s % 60            # zero seconds
        if rng.random() < 0.2:
            s = s - s % 3600          # zero minutes
        if rng.random() < 0.15:
            s = s - s % 86400 or 86400
        s = max(s, 1)
        d = s * NS
        if rng.random() < 0.3 and d < (1 << 52):
            d += rng.randint(0, NS - 1)   # sub-second part is dropped by the extended form
        if rng.random() < 0.4:
            d = -d
        out.append(d)
    return out


def gen_spellings(rng, n):
    """(text, expected ns or None=not asserted) — documented forms: Go syntax, 'd' suffix, spaces."""
    out = []
    units = [("d", 86400 * NS), ("h", 3600 * NS), ("m", 60 * NS), ("s", NS), ("ms", NS // 1000)]
    for _ in range(n):
        k = rng.randint(1, 5)
        idx = sorted(rng.sample(range(5), k))
        terms, tot = [], 0
        for i in idx:
            v = rng.choice([0, 1, 2, 7, 23, 24, 59, 60, 61, 100, 999, rng.randint(0, 100000)])
            terms.append("%d%s" % (v, units[i][0]))
            tot += v * units[i][1]
        sep = rng.choice(["", " ", " ", "  "])
        txt = sep.join(terms)
        neg = rng.random() < 0.25
        if neg:
            txt = "-" + txt
            tot = -tot
        if abs(tot) > (1 << 62):
            continue
        out.append((txt, tot))
    return out


def gen_malformed(rng, n):
    out = ["", " ", "  ", "d", "1d3q", "3q", "30md", "1d30mh", "5ms3h1d", "1d 1h 30m", "-", "-d", "1d-5m", "1d-3h",
           "1d 2d", "m", "1dm", "1d5", "5", "0", "-0", "+5m", "1d+5m", "0d", "1d 0s", "1.5h", "1d.5s", "1d 5 m",
           "99999999999999999999d", "9223372036854775807d", "384307168202282326d", "1d9223372036854775807ms",
           "2562047h", "2562048h", "1h 5m", "-2d 3h", "1 d", "d1", "1dd", "mmd", "1msd", "1m5d", "5s1d", "1d5s3s"]
    while len(out) < n:
        ln = rng.randint(1, 10)
        out.append("".join(rng.choice(ALPHA) for _ in range(ln)))
    return out


def run(ck):
    quick = ck.tier == "quick"
    ck.cov["rule"] = ("durations: boundary + log-uniform whole seconds up to int64 ns range, 30%% with a sub-second "
                      "remainder (< 2^52 ns); spellings: sums of d/h/m/s/ms terms with/without spaces and sign, plus a "
                      "malformed stream over the alphabet '%s'. distinct_nontrivial = distinct inputs whose real result "
                      "is not an error and (for durations) has at least two terms" % ALPHA)
    ck.assume("time.ParseDuration / egostrings.Atoi are modelled only on their integer, ASCII fragment (model says OOM elsewhere)",
              "int(d.Hours()) etc. are modelled with integer division: exact for whole seconds and for |d| < 2^53 ns")
    ck.trusted("harness/C37/c37_test.go (in-package overlay), props/C37.py generators and comparison",
               "correspondence evaluated by vm_compute in a generated cases file")
    coq_ok = ck.coq_stage(GROUP, theorems=["C37_roundtrip", "C37_documented_forms", "C37_old_refuted"])

    ok, binp = vf.go_test_build(ck.work, "internal/util", {"internal/util/zz_verif_c37_test.go":
                                os.path.join(vf.HARNESS, "C37", "c37_test.go")}, "c37.test")
    if not ok:
        ck.violation("harness-build", "harness for internal/util does not build:\n" + binp[-1500:],
                     replay={"log": binp[-3000:]}, found_input=False)
        return
    nd = 400 if quick else 4000
    durs = gen_durations(ck.rng, nd)
    spell = gen_spellings(ck.rng, 300 if quick else 3000)
    mal = gen_malformed(ck.rng, 300 if quick else 3000)
    if ck.replay_file:
        import json
        rp = json.load(open(ck.replay_file))["replay"]
        durs = [int(x) for x in rp.get("durations", [])] or durs[:1]
        spell = [(t, None) for t in rp.get("texts", [])]
        mal = []
    inp = os.path.join(ck.work, "in.txt")
    outp = os.path.join(ck.work, "out.txt")
    with open(inp, "w") as f:
        for d in durs:
            f.write("F %d\nR %d\n" % (d, d))
        for t, _ in spell:
            f.write("P %s\n" % (t.encode().hex() or "-"))
        for t in mal:
            f.write("P %s\n" % (t.encode().hex() or "-"))
    rc, log = vf.run_bin(binp, "^TestVerifC37$", {"VERIF_IN": inp, "VERIF_OUT": outp})
    if rc != 0:
        ck.violation("harness-run", "harness failed:\n" + log[-1500:], replay={"log": log[-3000:]}, found_input=False)
        return
    F, R, P = {}, {}, {}
    for line in open(outp):
        f = line.split()
        if f[0] == "F":
            F[int(f[1])] = bytes.fromhex(f[2]).decode()
        elif f[0] == "R":
            R[int(f[1])] = int(f[3]) if f[2] == "ok" else None
        elif f[0] == "P":
            P[bytes.fromhex(f[1] if f[1] != "-" else "").decode()] = int(f[3]) if f[2] == "ok" else None

    # ---- property oracle on the implementation itself
    nontriv = set()
    for d in durs:
        want = (abs(d) // NS) * NS * (1 if d >= 0 else -1)
        got = R.get(d)
        if F.get(d, "").count(" ") >= 1 and got is not None:
            nontriv.add(d)
        if got != want:
            ck.violation("roundtrip", "ParseDuration(FormatDuration(%d ns, true) = %r) = %s, want %d ns" % (
                d, F.get(d), "error" if got is None else got, want), replay={"durations": [d], "formatted": F.get(d)})
    for t, want in spell:
        if want is None:
            continue
        got = P.get(t)
        if got is not None:
            nontriv.add(t)
        if got != want:
            ck.violation("documented-form", "ParseDuration(%r) = %s, want %d ns (documented spaced/day-suffixed form)" % (
                t, "error" if got is None else got, want), replay={"texts": [t]})
    ck.cov["evaluations"] = len(durs) * 2 + len(spell) + len(mal)
    ck.cov["distinct_nontrivial"] = len(nontriv)
    ck.cov["input_distribution"] = {"durations": len(durs), "negative": sum(1 for d in durs if d < 0),
                                    "with_days": sum(1 for d in durs if abs(d) >= 86400 * NS),
                                    "sub_second_remainder": sum(1 for d in durs if d % NS),
                                    "spellings": len(spell), "malformed_stream": len(mal),
                                    "malformed_accepted_by_impl": sum(1 for t in mal if P.get(t) is not None)}
    for d in durs[:3]:
        ck.sample({"ns": d, "formatted": F.get(d), "parsed_back": R.get(d)})
    for t, w in spell[:3]:
        ck.sample({"text": t, "parsed": P.get(t), "want": w})

    # ---- correspondence: model (vm_compute) vs implementation
    if not getattr(ck, "coq_broken", None):
        lines = ["From Dur Require Import Model.", "Open Scope Z_scope.",
                 "Definition fcases : list (Z * str) := ["]
        lines.append(";\n".join("(%s, %s)" % (("(%d)" % d), vf.vrunes(F[d])) for d in durs))
        lines.append("]. \nDefinition pcases : list (str * option Z) := [")
        allp = [t for t, _ in spell] + mal
        lines.append(";\n".join("(%s, %s)" % (vf.vrunes(t), "None" if P[t] is None else "Some (%d)" % P[t]) for t in allp))
        lines.append("""].
Definition fbad (i : nat) (c : Z * str) : list nat :=
  match format_ext (fst c) with Some s => if str_eqb s (snd c) then [] else [i] | None => [] end.
Definition pbad (i : nat) (c : str * option Z) : list nat :=
  match parse_dur (fst c), snd c with
  | OOM, _ => [] | Ok v, Some w => if v =? w then [] else [i] | Err, None => [] | _, _ => [i] end.
Fixpoint idx {A} (f : nat -> A -> list nat) (i : nat) (l : list A) : list nat :=
  match l with [] => [] | x :: r => f i x ++ idx f (S i) r end.
Definition FB := Eval vm_compute in idx fbad 0 fcases.
Definition PB := Eval vm_compute in idx pbad 0 pcases.
Definition OOMS := Eval vm_compute in length (filter (fun c => match parse_dur (fst c) with OOM => true | _ => false end) pcases).
Eval vm_compute in FB.
Eval vm_compute in PB.
Eval vm_compute in [OOMS].
""")
        rc, out = vf.coq_run(GROUP, ck.work, "cases", "\n".join(lines))
        import re
        lists = re.findall(r"=\s*(\[[^\]]*\]|nil)\s*(?:%\w+)?\s*:\s*list nat", out, re.S)
        if rc != 0 or len(lists) != 3:
            ck.violation("correspondence-eval", "model evaluation failed:\n" + out[-1500:], replay={"log": out[-3000:]},
                         found_input=False)
        else:
            fb, pb, ooms = [[int(x) for x in re.findall(r"\d+", l)] for l in lists]
            ck.cov["traces_validated_against_impl"] = len(durs) + len(allp) - (ooms[0] if ooms else 0)
            ck.cov["input_distribution"]["outside_model_fragment"] = ooms[0] if ooms else 0
            if any(v["signature"] in ("roundtrip", "documented-form") for v in ck.viol):
                fb, pb = [], []      # a failing input was already found on the implementation itself
            for i in fb:
                ck.violation("corr-format", "model/implementation disagree on FormatDuration(%d ns): real %r" % (durs[i], F[durs[i]]),
                             replay={"durations": [durs[i]]}, found_input=False)
            for i in pb:
                ck.violation("corr-parse", "model/implementation disagree on ParseDuration(%r): real %s" % (allp[i], P[allp[i]]),
                             replay={"texts": [allp[i]]}, found_input=False)
    else:
        grp, log = ck.coq_broken
        found = any(v["signature"] in ("roundtrip", "documented-form") for v in ck.viol)
        if not found:
            ck.violation("proof-broken", "Coq development %s no longer checks (theorems C37_roundtrip / C37_documented_forms):\n%s" % (grp, log[-1200:]),
                         replay={"broken": "coq/%s" % grp, "log": log[-3000:]}, found_input=False)
