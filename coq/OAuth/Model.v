(* OAuth/Model.v — C23: single-use authorization codes / refresh tokens (executable definitions only).

   Go code modelled (internal/server/oauth/authserver/codes.go, token.go; internal/caches/find.go, delete.go):

     consumeCode(code):  val, found := caches.Find(cache, code)      -- critical section 1 (cacheLock)
                         if !found { return _, false }
                         [old]  caches.Delete(cache, code)           -- critical section 2, result ignored
                         [new]  if !caches.Delete(cache, code) { return _, false }
                         ... return pending, true
     consumeRefreshToken: same shape on OAuthRefreshCache.

   A request thread is therefore two atomic actions on one shared bit "the entry for this key is
   present": AFind t (reads the bit) and ADelete t (reads and clears it; executed only when t's own
   Find saw the entry).  AExpire is the environment (expiry sweep, purge) removing the entry.
   Codes/refresh tokens are fresh 256-bit random strings and are never re-added under the same key. *)
From Common Require Import Base.
Open Scope N_scope.

Inductive act := AFind (t : nat) | ADelete (t : nat) | AExpire.

(* an event: the action together with what it observed (Find: found; Delete: its bool result) *)
Definition ev := (act * bool)%type.

Definition is_find_true (t : nat) (e : ev) : bool :=
  match e with (AFind u, true) => Nat.eqb u t | _ => false end.
Definition is_delete_true (t : nat) (e : ev) : bool :=
  match e with (ADelete u, true) => Nat.eqb u t | _ => false end.

Definition thread_found (tr : list ev) (t : nat) : bool := existsb (is_find_true t) tr.
Definition thread_deleted (tr : list ev) (t : nat) : bool := existsb (is_delete_true t) tr.

(* state = (entry present?, events so far, newest first) *)
Definition state := (bool * list ev)%type.

Definition step (s : state) (a : act) : state :=
  let '(present, tr) := s in
  match a with
  | AFind t => (present, (AFind t, present) :: tr)
  | ADelete t => if thread_found tr t
                 then (false, (ADelete t, present) :: tr)
                 else (present, tr)                 (* consume returned before reaching Delete *)
  | AExpire => (false, (AExpire, present) :: tr)
  end.

Definition exec (present : bool) (sched : list act) : state := fold_left step sched (present, []).
Definition trace (s : state) : list ev := snd s.

(* success of thread t's consume call *)
Definition success_old (tr : list ev) (t : nat) : bool := thread_found tr t.                         (* before the repair *)
Definition success (tr : list ev) (t : nat) : bool := thread_found tr t && thread_deleted tr t.      (* repaired code *)

Definition successes (n : nat) (f : nat -> bool) : nat := length (filter f (seq 0 n)).

(* ---- all interleavings, inductively: sched is a merge of the given thread programs *)
Definition thread (t : nat) : list act := [AFind t; ADelete t].

Inductive merge {A : Type} : list (list A) -> list A -> Prop :=
| merge_nil : forall ts, Forall (fun l => l = []) ts -> merge ts []
| merge_cons : forall ts1 a l ts2 s,
    merge (ts1 ++ l :: ts2) s -> merge (ts1 ++ (a :: l) :: ts2) (a :: s).

(* n request threads presenting the same key, plus the environment removing the entry k times *)
Definition interleaving (n : nat) (sched : list act) : Prop :=
  exists k, merge (repeat AExpire k :: map thread (seq 0 n)) sched.

(* executable check used by the tie: every thread's actions appear exactly once, Find before Delete *)
Definition acts_of (t : nat) (a : act) : bool :=
  match a with AFind u | ADelete u => Nat.eqb u t | AExpire => false end.
Definition act_eqb (a b : act) : bool :=
  match a, b with
  | AFind t, AFind u | ADelete t, ADelete u => Nat.eqb t u
  | AExpire, AExpire => true
  | _, _ => false
  end.
Fixpoint acts_eqb (a b : list act) : bool :=
  match a, b with
  | [], [] => true
  | x :: a', y :: b' => act_eqb x y && acts_eqb a' b'
  | _, _ => false
  end.
Definition thread_bound (n : nat) (a : act) : bool :=
  match a with AFind u | ADelete u => Nat.ltb u n | AExpire => true end.
Definition is_interleaving (n : nat) (sched : list act) : bool :=
  forallb (thread_bound n) sched &&
  forallb (fun t => acts_eqb (filter (acts_of t) sched) (thread t)) (seq 0 n).

(* ---- the token endpoint around consume (token.go handleAuthorizationCodeGrant / handleRefreshTokenGrant) *)

(* base64.RawURLEncoding *)
Definition b64char (n : N) : N :=
  if n <? 26 then 65 + n else if n <? 52 then 97 + (n - 26) else if n <? 62 then 48 + (n - 52)
  else if n =? 62 then 45 else 95.
Fixpoint b64url (l : list N) : str :=
  match l with
  | a :: b :: c :: r =>
      let n := a * 65536 + b * 256 + c in
      b64char (n / 262144) :: b64char ((n / 4096) mod 64) :: b64char ((n / 64) mod 64) :: b64char (n mod 64) :: b64url r
  | [a; b] => let n := a * 65536 + b * 256 in
              [b64char (n / 262144); b64char ((n / 4096) mod 64); b64char ((n / 64) mod 64)]
  | [a] => let n := a * 65536 in [b64char (n / 262144); b64char ((n / 4096) mod 64)]
  | [] => []
  end.

Record pending := mkP { p_client : str; p_redirect : str; p_challenge : str; p_method : str }.
Record request := mkR { r_client : str; r_redirect : str; r_verifier : str;
                        r_public : bool (* client registered without a secret hash *) }.
Inductive resp := R200 | R400 | R401.
Inductive pkce := PkceOk | PkceMethod | PkceFailed.

Definition is_nil (s : str) : bool := match s with [] => true | _ => false end.
Definition s256 : str := [83; 50; 53; 54].

Section Sha.
  Variable sha256 : list N -> list N.

  (* codes.go verifyPKCE *)
  Definition verify_pkce (p : pending) (verifier : str) : pkce :=
    if is_nil (p_challenge p) then PkceOk
    else if negb (str_eqb (p_method p) s256) then PkceMethod
    else if str_eqb (b64url (sha256 verifier)) (p_challenge p) then PkceOk else PkceFailed.

  (* token.go handleAuthorizationCodeGrant after a successful consumeCode *)
  Definition grant (p : pending) (r : request) : resp :=
    if negb (str_eqb (p_client p) (r_client r)) then R401
    else if negb (str_eqb (p_redirect p) (r_redirect r)) then R400
    else if r_public r && is_nil (p_challenge p) then R400
    else match verify_pkce p (r_verifier r) with PkceOk => R200 | _ => R400 end.

  (* response of request thread t (client authentication already passed) *)
  Definition respond (consumed : bool) (p : pending) (r : request) : resp :=
    if consumed then grant p r else R400.

  (* handleRefreshTokenGrant: only the client binding is checked after consumeRefreshToken *)
  Definition respond_refresh (consumed : bool) (owner : str) (r : request) : resp :=
    if consumed then (if str_eqb owner (r_client r) then R200 else R401) else R400.

  Definition is200 (x : resp) : bool := match x with R200 => true | _ => false end.

  (* responses of the n concurrent requests reqs (thread t sends nth t reqs) after schedule sched;
     old = success criterion before the repair; present = the code is in the cache at the start *)
  Definition threads_of (reqs : list request) : list (nat * request) := combine (seq 0 (length reqs)) reqs.
  Definition responses (old present : bool) (p : pending) (reqs : list request) (sched : list act) : list resp :=
    let tr := trace (exec present sched) in
    map (fun x => respond ((if old then success_old else success) tr (fst x)) p (snd x)) (threads_of reqs).
  Definition responses_refresh (old present : bool) (owner : str) (reqs : list request) (sched : list act) : list resp :=
    let tr := trace (exec present sched) in
    map (fun x => respond_refresh ((if old then success_old else success) tr (fst x)) owner (snd x)) (threads_of reqs).
  Definition count200 (l : list resp) : nat := length (filter is200 l).
  Definition tokens_issued (old present : bool) (p : pending) (reqs : list request) (sched : list act) : nat :=
    count200 (responses old present p reqs sched).
End Sha.

(* ---- observables compared with the real code by the tie *)
Definition resp_code (x : resp) : N := match x with R200 => 200 | R400 => 400 | R401 => 401 end.
Definition pkce_code (x : pkce) : N := match x with PkceOk => 0 | PkceMethod => 1 | PkceFailed => 2 end.
Definition sha_table (tbl : list (str * list N)) (v : str) : list N :=
  match find (fun e => str_eqb (fst e) v) tbl with Some e => snd e | None => [] end.
(* which threads reached the yield point (their Find saw the entry) *)
Definition founds (present : bool) (n : nat) (sched : list act) : list bool :=
  map (thread_found (trace (exec present sched))) (seq 0 n).
Definition remaining (present : bool) (sched : list act) : bool := fst (exec present sched).
