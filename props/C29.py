"""C29 Cluster cache invalidation is bounded and complete (internal/server/cluster, internal/caches/purge.go)."""
import json
import os
import re
import vf

GROUP = "Cluster"
PKG = "internal/server/cluster"
THEOREMS = ["C29_complete", "C29_origin_discards", "C29_delivered_peer_discards", "C29_bounded", "C29_run_bounded",
            "C29_no_feedback", "C29_no_rebroadcast", "C29_holds", "C29_old_refuted"]
META = {
    "group": "Cluster",
    "technique": "Coq proofs over a message-passing model of purge / broadcast / flush handling (any cluster size, any run of "
                 "purges, deliveries in any order, drops, membership and reachability changes, forged requests) + step-by-step "
                 "vm_compute correspondence with the real BroadcastCacheFlush/SendCacheFlush/FlushCacheHandler/caches.Purge code "
                 "driven in-process (real SQLite cluster table, intercepted HTTP transport) + property oracle on the real outputs",
    "text": "Over the model compared with the real code after every step: C29_complete (a purge on node n sends a first-hop "
            "flush to every active peer, reachable peers have it in flight), C29_origin_discards, C29_delivered_peer_discards "
            "(in every run from a fresh cluster of any size every in-flight request is within the hop limit, so whichever is "
            "delivered, in any order, makes its target discard that cache), C29_bounded (one purge = exactly one request per "
            "active peer, fewer than the number of members, addressed only to active peers, hop count 1), C29_run_bounded (a "
            "run sends exactly the sum of its purges' peer counts), C29_no_feedback (a run without purges - any deliveries, "
            "drops, forged requests with any hop count - sends nothing), C29_no_rebroadcast (handling a genuine or forged "
            "request emits nothing and the network shrinks by one); C29_old_refuted shows the pre-CLUSTER-1 handler "
            "re-broadcasts. full",
    "note": "Trusted: Coq kernel; the hand-written model tied to the code by the per-step correspondence; harness/C29/c29_test.go "
            "(one process plays each node in turn; http.DefaultTransport replaced; in-memory SQLite cluster table; synctest); "
            "the HTTP router between transport and handler is not exercised (route registration is checked textually); "
            "standalone mode (no cluster name) and token mismatch are outside the model.",
}


def fmt(acts):
    return " ; ".join(" ".join(str(x) for x in a) for a in acts)


def line_of(sc):
    return "%d %s ; %s" % (sc["n"], " ".join(str(c) for c in sc["cs"]), fmt(sc["acts"]))


# cache classes: the predefined ones (0..11; defs.ClusterCacheNames only names 0..8), user-defined and odd ids
CLASS_POOL = list(range(12)) + [9, 10, 11, 12, 37, 1000, -1]


def parse_line(line):
    head, _, rest = line.partition(";")
    hf = [int(x) for x in head.split()]
    n, cs = hf[0], hf[1:]
    acts = []
    for part in rest.split(";"):
        w = part.split()
        if w:
            acts.append(tuple([w[0]] + [int(x) for x in w[1:]]))
    return dict(n=n, cs=cs, acts=acts)


def corpus():
    return [
        dict(n=4, cs=[0, 1], acts=[("ST", 2, 0), ("ST", 3, 0), ("ST", 1, 0), ("SD", 4, 1), ("PU", 1, 0), ("DE", 1), ("SS", 2, 0),
                              ("PU", 3, 0), ("FO", 2, 0, 5, 9), ("FO", 2, 0, 4, 9), ("DE", 0), ("DE", 0), ("DE", 0), ("DR", 0),
                              ("SS", 5, 1), ("PU", 5, 1)]),
        dict(n=1, cs=[0], acts=[("ST", 1, 0), ("PU", 1, 0), ("DE", 0)]),
        # the CLUSTER-1 shape: two nodes, one purge, deliver everything that is ever in flight
        dict(n=2, cs=[0], acts=[("ST", 1, 0), ("ST", 2, 0), ("PU", 1, 0)] + [("DE", 0)] * 6),
        dict(n=5, cs=[0, 1], acts=[("ST", i, c) for i in range(1, 6) for c in (0, 1)] + [("PU", 2, 1), ("PU", 4, 1), ("PU", 2, 0)]
             + [("DE", 3), ("DE", 0), ("DE", 5), ("DE", 2)] + [("DE", 0)] * 10),
        # an admin "flush all caches" on node 1 that has an OAuth JWT cache: classes without a cluster name travel too;
        # the receivers hold other caches as well and must stay silent
        dict(n=3, cs=[0, 1, 11], acts=[("ST", 1, 11), ("ST", 2, 0), ("ST", 2, 1), ("ST", 2, 11), ("ST", 3, 0), ("ST", 3, 11),
                                       ("PU", 1, 0), ("PU", 1, 1), ("PU", 1, 11), ("DE", 5), ("DE", 4), ("DE", 0), ("DE", 0),
                                       ("DE", 0), ("DE", 0), ("DE", 0), ("DE", 0)]),
        dict(n=2, cs=[3, 9, 10, 12, 1000, -1], acts=[("ST", 2, c) for c in (3, 9, 10, 12, 1000, -1)]
             + [("PU", 1, 12), ("DE", 0), ("PU", 1, 1000), ("DE", 0), ("PU", 1, -1), ("DE", 0), ("PU", 1, 9), ("DE", 0),
                ("FO", 2, 77, 1, 1), ("FO", 2, 10, 1, 1)]),
        dict(n=3, cs=[0], acts=[("ST", 2, 0), ("FO", 2, 0, 0, 7), ("ST", 2, 0), ("FO", 2, 0, 1, 7), ("ST", 2, 0), ("FO", 2, 0, 4, 7),
                              ("ST", 2, 0), ("FO", 2, 0, 5, 7), ("FO", 2, 0, 100, 7), ("FO", 2, 0, -1, 7)]),
    ]


def gen_scenario(rng):
    n = rng.randint(1, 5)
    cs = sorted(set(rng.choice(CLASS_POOL) for _ in range(rng.randint(1, 4))))
    acts = []
    # most runs start with well-populated nodes, so that a handler that touches MORE than the named cache shows
    if rng.random() < 0.6:
        acts += [("ST", node, c) for node in range(1, n + 1) for c in cs if rng.random() < 0.8]
    for _ in range(rng.randint(4, 30)):
        r = rng.random()
        node = rng.randint(1, n)
        c = rng.choice(cs)
        if r < 0.25:
            acts.append(("ST", node, c))
        elif r < 0.50:
            acts.append(("PU", node if rng.random() < 0.93 else n + 1, c))
        elif r < 0.75:
            acts.append(("DE", rng.choice([0, 0, 0, 1, 1, 2, 3, 5])))
        elif r < 0.80:
            acts.append(("DR", rng.choice([0, 1, 2])))
        elif r < 0.87:
            acts.append(("SS", rng.choice([node, node, n + 1]), rng.randint(0, 1)))
        elif r < 0.93:
            acts.append(("SD", node, rng.randint(0, 1)))
        else:
            fc = c if rng.random() < 0.6 else rng.choice(CLASS_POOL + [77])     # also classes nobody holds
            acts.append(("FO", node, fc, rng.choice([0, 1, 1, 2, 4, 5, 6, 50, -3]), rng.choice([0, 1, n, 9])))
    if rng.random() < 0.5:
        acts += [("DE", 0)] * rng.randint(3, 12)      # drain: the cluster must go quiet
    return dict(n=n, cs=cs, acts=acts)


def oracle(sc, res, report):
    """The property evaluated on what the real code did, with the membership bookkeeping done here."""
    n = sc["n"]
    active = {i: True for i in range(1, n + 1)}
    down = set()
    net = []
    present = set()
    stats = {"purges": 0, "sent": 0, "delivered": 0, "ignored_hops": 0}
    for i, (a, st) in enumerate(zip(sc["acts"], res["steps"])):
        def bad(sig, what):
            report(sig, "%s at step %d (%s) of: %s" % (what, i, " ".join(map(str, a)), line_of(sc)))
        sent = [tuple(x) for x in st["sent"]]
        pres = {tuple(x) for x in st["present"]}
        kind = a[0]
        if kind == "PU":
            node, c = a[1], a[2]
            peers = sorted(p for p, ok in active.items() if ok and p != node)
            stats["purges"] += 1
            stats["sent"] += len(sent)
            if len(sent) > len(peers):
                bad("flush-storm", "one purge sent %d flush requests, the node has %d active peers" % (len(sent), len(peers)))
            missing = [p for p in peers if (p, c, 1, node) not in sent]
            if missing:
                bad("peer-not-notified", "active peers %r were not sent the flush for cache %d (sent: %r)" % (missing, c, sent))
            extra = [m for m in sent if m not in {(p, c, 1, node) for p in peers}]
            if extra:
                bad("flush-misaddressed", "unexpected flush requests %r (peers %r)" % (extra, peers))
            if (node, c) in pres:
                bad("origin-keeps-cache", "node %d still holds cache %d after purging it" % (node, c))
            if st["hook"] != 1:
                bad("hook-count", "caches.Purge fired the OnPurge hook %d times" % st["hook"])
            present = pres
            net += [m for m in sent if m[0] not in down]
        elif kind in ("DE", "FO"):
            if kind == "DE":
                if a[1] >= len(net):
                    m = None
                else:
                    m = net.pop(a[1])
            else:
                m = (a[1], a[2], a[3], a[4])
            if sent or st["hook"]:
                bad("rebroadcast", "handling a received flush sent %r (OnPurge fired %d times): a node must never re-broadcast"
                    % (sent, st["hook"]))
            if m is not None:
                stats["delivered"] += 1
                if st["status"] != 200:
                    bad("flush-rejected", "FlushCacheHandler answered %d to a cluster flush" % st["status"])
                if m[2] <= 4 and (m[0], m[1]) in pres:
                    bad("peer-keeps-cache", "node %d still holds cache %d after handling the flush %r" % (m[0], m[1], m))
                if m[2] > 4:
                    stats["ignored_hops"] += 1
                    if ((m[0], m[1]) in present) != ((m[0], m[1]) in pres):
                        bad("hop-limit", "a flush over the hop limit changed the cache state")
            present = pres
        else:
            if sent or st["hook"]:
                bad("spurious-send", "requests %r were sent by an action that is not a purge" % (sent,))
            if kind == "ST":
                present.add((a[1], a[2]))
            elif kind == "DR":
                if a[1] < len(net):
                    net.pop(a[1])
            elif kind == "SS":
                if a[2] == 1 or a[1] in active:
                    active[a[1]] = a[2] == 1
            elif kind == "SD":
                (down.add if a[2] == 1 else down.discard)(a[1])
        if [tuple(x) for x in st["net"]] != net:
            bad("network-bookkeeping", "requests in flight %r, expected %r" % (st["net"], net))
            net = [tuple(x) for x in st["net"]]
    return stats


def zl(x):
    return "(%d)" % x if x < 0 else str(x)


def zlist(xs):
    return "[" + ";".join(zl(x) for x in xs) + "]"


def coq_act(a):
    k = a[0]
    if k == "PU":
        return "PurgeAt %s %s" % (zl(a[1]), zl(a[2]))
    if k == "ST":
        return "Store %s %s" % (zl(a[1]), zl(a[2]))
    if k == "DE":
        return "Deliver %d%%nat" % a[1]
    if k == "DR":
        return "Drop %d%%nat" % a[1]
    if k == "SS":
        return "SetState %s %s" % (zl(a[1]), "true" if a[2] else "false")
    if k == "SD":
        return "SetDown %s %s" % (zl(a[1]), "true" if a[2] else "false")
    return "Forge (mkMsg %s %s %s %s)" % (zl(a[1]), zl(a[2]), zl(a[3]), zl(a[4]))


def enc_obs(nodes, cs, st):
    out = [len(st["sent"]), len(st["net"])]
    pres = {tuple(x) for x in st["present"]}
    for n in nodes:
        for c in cs:
            l = [m for m in st["sent"] if m[0] == n and m[1] == c]
            out += [len(l), sum(m[2] * 100 + m[3] for m in l), 1 if (n, c) in pres else 0]
    for m in st["net"]:
        out += list(m)
    return out


def run(ck):
    quick = ck.tier == "quick"
    ck.cov["rule"] = ("clusters of 1..5 nodes (+1 joining node) x 1..4 cache classes drawn from the predefined 0..11 (with and without a cluster name), 12, 37, 1000, -1, nodes mostly pre-populated; runs of 4..42 actions: purge on any node, "
                      "store, deliver the i-th in-flight request (any order), drop, membership active/removed, node "
                      "unreachable/reachable, forged requests with hop counts -3..50; half of the runs end by draining the "
                      "network. distinct_nontrivial = distinct runs with at least one purge that reached >= 1 peer AND at "
                      "least one delivery handled by the real FlushCacheHandler")
    ck.assume("requests are handled one at a time per node (the handler's effect on the node is caches.PurgeLocal, atomic by C28)",
              "all nodes share one cluster name and token key (ValidateClusterToken succeeds between members)",
              "the cluster table lists rows in a fixed order (ORDER BY joined_at)")
    ck.trusted("harness/C29/c29_test.go (in-package overlay; one process plays each node in turn; http.DefaultTransport "
               "replaced by a recorder; in-memory SQLite cluster table; synctest)",
               "props/C29.py generator, encodings, oracle", "model evaluated by vm_compute in a generated cases file")
    ck.coq_stage(GROUP, theorems=THEOREMS)

    # ---- wiring (textual): Initialize installs BroadcastCacheFlush as the purge hook; the flush route runs FlushCacheHandler
    wiring = []
    src = lambda p: open(os.path.join(vf.REPO, p)).read()
    try:
        if not re.search(r"caches\.OnPurge\s*=\s*BroadcastCacheFlush\b", src("internal/server/cluster/cluster.go")):
            wiring.append("cluster.Initialize no longer installs BroadcastCacheFlush as caches.OnPurge")
        if not re.search(r"r\.New\(\s*defs\.ServicesClusterFlushPath\s*,\s*cluster\.FlushCacheHandler\s*,\s*http\.MethodPost",
                         src("internal/commands/server.go")):
            wiring.append("route defs.ServicesClusterFlushPath is no longer served by cluster.FlushCacheHandler (POST)")
    except OSError as e:
        wiring.append("source not readable: %s" % e)
    ck.add_obligations(2, 2 - len(wiring))
    for w in wiring:
        ck.violation("wiring", w + " (the harness installs the hook / calls the handler itself, so this link is only checked "
                     "textually)", replay={"wiring": w}, found_input=False)

    ok, binp = vf.go_test_build(ck.work, PKG, {PKG + "/zz_verif_c29_test.go": os.path.join(vf.HARNESS, "C29", "c29_test.go")},
                                "c29.test")
    if not ok:
        ck.violation("harness-build", "harness for internal/server/cluster does not build:\n" + binp[-1500:],
                     replay={"log": binp[-3000:]}, found_input=False)
        return

    def run_scs(scs, tag):
        inp = os.path.join(ck.work, "in_%s.txt" % tag)
        outp = os.path.join(ck.work, "out_%s.txt" % tag)
        with open(inp, "w") as f:
            for sc in scs:
                f.write(line_of(sc) + "\n")
        home = os.path.join(ck.work, "home")
        os.makedirs(home, exist_ok=True)
        rc, log = vf.run_bin(binp, "^TestVerifC29$", {"VERIF_IN": inp, "VERIF_OUT": outp, "HOME": home})
        if rc != 0 or not os.path.exists(outp):
            return None, log
        res = [json.loads(l) for l in open(outp) if l.strip()]
        if len(res) != len(scs):
            return None, "harness produced %d results for %d runs\n%s" % (len(res), len(scs), log[-1200:])
        return res, log

    if ck.replay_file:
        rp = json.load(open(ck.replay_file))["replay"] or {}
        scs = [parse_line(l) for l in rp.get("lines", [])] or corpus()
    else:
        scs = corpus() + [gen_scenario(ck.rng) for _ in range(250 if quick else 3000)]
    results, log = run_scs(scs, "main")
    if results is None:
        ck.violation("harness-run", "harness failed:\n" + log[-1500:], replay={"log": log[-3000:]}, found_input=False)
        return

    found = {}

    def report_for(sc):
        def report(sig, what):
            if sig not in found:
                found[sig] = True
                ck.violation(sig, what, replay={"lines": [line_of(sc)]})
        return report

    tot = {"runs": 0, "steps": 0, "purges": 0, "flushes_sent": 0, "delivered": 0, "over_hop_limit": 0, "by_size": {}}
    nontriv = set()
    for sc, res in zip(scs, results):
        if res.get("error"):
            ck.violation("harness-run", "harness error %s on %s" % (res["error"], line_of(sc)), replay={"lines": [line_of(sc)]},
                         found_input=False)
            continue
        st = oracle(sc, res, report_for(sc))
        tot["runs"] += 1
        tot["steps"] += len(sc["acts"])
        tot["purges"] += st["purges"]
        tot["flushes_sent"] += st["sent"]
        tot["delivered"] += st["delivered"]
        tot["over_hop_limit"] += st["ignored_hops"]
        tot["by_size"][sc["n"]] = tot["by_size"].get(sc["n"], 0) + 1
        if st["sent"] and st["delivered"]:
            nontriv.add(line_of(sc))
    ck.cov["evaluations"] = tot["steps"]
    ck.cov["distinct_nontrivial"] = len(nontriv)
    ck.cov["input_distribution"] = tot
    for sc, res in list(zip(scs, results))[:3]:
        ck.sample({"run": line_of(sc), "last_step": (res.get("steps") or [None])[-1]})

    # ---- correspondence
    corr_bad = []
    if not getattr(ck, "coq_broken", None):
        cases = []
        for sc, res in zip(scs, results):
            if res.get("error"):
                continue
            nodes = list(range(1, sc["n"] + 2))
            cs = list(sc["cs"])
            steps = ";\n  ".join("(%s, %s)" % (coq_act(a), zlist(enc_obs(nodes, cs, st))) for a, st in zip(sc["acts"], res["steps"]))
            cases.append("(%d%%nat, (%s, %s, %s, [%s]))" % (res["index"], zlist(list(range(1, sc["n"] + 1))), zlist(nodes), zlist(cs), steps))
        prelude = "\n".join([
            "From Cluster Require Import Model.", "Open Scope Z_scope.",
            "Definition cases : list (nat * (list Z * list Z * list Z * list (act * list Z))) := [",
            ";\n".join(cases), "].",
            """Definition bad (c : nat * (list Z * list Z * list Z * list (act * list Z))) : list nat :=
  match c with (i, (ns, nodes, cs, h)) =>
    match first_bad nodes cs (cluster ns) h 0 with Some j => [i; j] | None => [] end end."""])
        ok, out = vf.coq_eval(GROUP, ck.work, "cases", prelude, {"BAD": "flat_map bad cases"})
        if not ok:
            ck.violation("correspondence-eval", "model evaluation failed:\n" + out[-1500:], replay={"log": out[-3000:]},
                         found_input=False)
        else:
            b = out["BAD"]
            ck.cov["traces_validated_against_impl"] = tot["runs"] - len(b) // 2
            for j in range(0, len(b), 2):
                corr_bad.append((scs[b[j]], b[j + 1]))
    if (corr_bad or getattr(ck, "coq_broken", None)) and not found and not ck.replay_file:
        extra = [gen_scenario(ck.rng) for _ in range(1500)]
        res2, _ = run_scs(extra, "search")
        if res2 is not None:
            for sc, res in zip(extra, res2):
                if not res.get("error"):
                    oracle(sc, res, report_for(sc))
    if not found:
        if corr_bad:
            sc, j = corr_bad[0]
            ck.violation("corr-cluster", "model and cluster code disagree at step %d of: %s (theorems C29_* are about the model; "
                         "the tie no longer holds)" % (j, line_of(sc)), replay={"lines": [line_of(sc)]}, found_input=False)
        elif getattr(ck, "coq_broken", None):
            grp, clog = ck.coq_broken
            ck.violation("proof-broken", "Coq development %s no longer checks (theorems %s):\n%s" % (
                grp, ", ".join(THEOREMS), clog[-1200:]), replay={"broken": "coq/" + grp, "log": clog[-3000:]}, found_input=False)
