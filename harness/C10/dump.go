//go:build verif

package bytecode

// Overlaid into /repo/internal/language/bytecode by /verif/check C10 / C12 (non-test file so that the
// in-package harness of the compiler package can call it).  Serialises a compiled ByteCode with its
// operands: the --disassemble text is lossy (constants print as ^1, function literals are dropped).

import (
	"fmt"
	"strconv"
	"strings"

	"github.com/tucats/ego/internal/language/data"
	"github.com/tucats/ego/internal/language/tokenizer"
)

// VerifDump returns one line per instruction of every code unit reachable from b:
//   U <id> <literal 0|1> <nreturns> <quoted name>
//   I <opcode name> <operand>
// operand grammar: nil | i:<int> | b:<bool> | s:<quoted> | m:<quoted label>:<n values> | c(<operand>) constant
//   | f:<unit id> | l[<operand>,...] | t:<quoted spelling> token | x:<quoted Go type> anything else
func VerifDump(b *ByteCode) string {
	d := &verifDumper{ids: map[*ByteCode]int{}}
	d.unit(b)

	var sb strings.Builder

	for k := 0; k < len(d.units); k++ {
		u := d.units[k]
		nret := 0

		if u.declaration != nil {
			nret = len(u.declaration.Returns)
		}

		lit := 0
		if u.literal {
			lit = 1
		}

		fmt.Fprintf(&sb, "U %d %d %d %s\n", k, lit, nret, strconv.Quote(u.name))

		for n := 0; n < u.nextAddress; n++ {
			i := u.instructions[n]
			name, ok := opcodeNames[i.Operation]
			if !ok {
				name = fmt.Sprintf("Unknown%d", int(i.Operation))
			}

			fmt.Fprintf(&sb, "I %s %s\n", name, d.operand(i.Operand))
		}
	}

	return sb.String()
}

type verifDumper struct {
	ids   map[*ByteCode]int
	units []*ByteCode
}

func (d *verifDumper) unit(b *ByteCode) int {
	if id, ok := d.ids[b]; ok {
		return id
	}

	id := len(d.units)
	d.ids[b] = id
	d.units = append(d.units, b)

	return id
}

func (d *verifDumper) operand(v any) string {
	switch x := v.(type) {
	case nil:
		return "nil"
	case int:
		return "i:" + strconv.Itoa(x)
	case bool:
		return "b:" + strconv.FormatBool(x)
	case string:
		return "s:" + strconv.Quote(x)
	case StackMarker:
		return "m:" + strconv.Quote(x.label) + ":" + strconv.Itoa(len(x.values))
	case data.Immutable:
		return "c(" + d.operand(x.Value) + ")"
	case *ByteCode:
		return "f:" + strconv.Itoa(d.unit(x))
	case tokenizer.Token:
		return "t:" + strconv.Quote(x.Spelling())
	case []any:
		parts := make([]string, len(x))
		for k, e := range x {
			parts[k] = d.operand(e)
		}

		return "l[" + strings.Join(parts, ",") + "]"
	case data.Function:
		if bc, ok := x.Value.(*ByteCode); ok {
			return "f:" + strconv.Itoa(d.unit(bc))
		}

		return "x:" + strconv.Quote("data.Function")
	default:
		return "x:" + strconv.Quote(fmt.Sprintf("%T", v))
	}
}
