(* RateLimit/Properties.v — property theorems of C24 only; proofs live in Proofs.v.
   A run [run c h] of a history h (attempts with right/wrong password, clock advances, scans of the
   background pruner at arbitrary points) yields the final state and the trace (most recent event first).
   [next_outcome c s name good] is what Authenticate does with the next Basic-credential request. *)
From RateLimit Require Import Model Proofs.
Open Scope Z_scope.

(* The property as stated: for a positive limit, the next attempt of a user is refused (no password check)
   exactly when one of the user's rejected attempts brought the consecutive-failure count to the limit or
   beyond less than [lock] ago, with no accepted attempt of that user since. *)
Definition C24_statement : Prop :=
  forall c h n g, cfg_ok c ->
    (refused (next_outcome c (fst (run c h)) n g) = true <->
     exists a, since_limit_reached c (snd (run c h)) (lower n) = Some a /\ a < lock c).

Theorem C24_locked_iff : C24_statement.
Proof. exact refused_iff. Qed.

(* refused means: Locked with a positive Retry-After and the password verifier is not consulted *)
Theorem C24_locked_refused :
  forall c h n g a, cfg_ok c ->
    since_limit_reached c (snd (run c h)) (lower n) = Some a -> a < lock c ->
    exists r, next_outcome c (fst (run c h)) n g = OLocked r /\ 0 < r
              /\ checked (next_outcome c (fst (run c h)) n g) = false.
Proof. exact locked_refused. Qed.

(* no other reason to be refused; in particular at least [limit] consecutive failures are on record *)
Theorem C24_only_locked_refused :
  forall c h n g r, cfg_ok c ->
    next_outcome c (fst (run c h)) n g = OLocked r ->
    exists a, since_limit_reached c (snd (run c h)) (lower n) = Some a /\ a < lock c
              /\ limit c <= consecutive_failures (snd (run c h)) (lower n).
Proof. exact only_locked_refused. Qed.

(* the same, unfolded over the history: once a rejected attempt makes the consecutive failures reach the
   limit, every attempt of that user (any spelling of the name, any password) is refused unchecked for the
   next [lock] ns whatever else happens (other users, scans) ... *)
Theorem C24_locks_at_limit :
  forall c h n h2 m g, cfg_ok c ->
    snd (step c (fst (run c h)) (Attempt n false)) = ORejected ->
    limit c <= consecutive_failures (snd (run c (h ++ [Attempt n false]))) (lower n) ->
    elapsed_ops h2 < lock c -> lower m = lower n ->
    exists r, next_outcome c (fst (run c ((h ++ [Attempt n false]) ++ h2))) m g = OLocked r /\ 0 < r
              /\ checked (next_outcome c (fst (run c ((h ++ [Attempt n false]) ++ h2))) m g) = false.
Proof. exact locks_at_limit_refused. Qed.

(* ... and once [lock] ns have passed since the user's last rejected attempt the user is checked again *)
Theorem C24_unlocked_after_lockout :
  forall c h n h2 m g, cfg_ok c ->
    snd (step c (fst (run c h)) (Attempt n false)) = ORejected ->
    lower m = lower n -> lock c <= elapsed_ops h2 -> wrong_attempts h2 (lower n) = 0 ->
    checked (next_outcome c (fst (run c ((h ++ [Attempt n false]) ++ h2))) m g) = true.
Proof. exact unlocked_after_lockout. Qed.

(* an accepted login removes the record, zeroes the count, and the user cannot be refused again before
   [limit] further wrong passwords have been tried *)
Theorem C24_success_clears :
  forall c h n, cfg_ok c ->
    snd (step c (fst (run c h)) (Attempt n true)) = OAccepted ->
    get (lower n) (tbl (fst (run c (h ++ [Attempt n true])))) = None
    /\ consecutive_failures (snd (run c (h ++ [Attempt n true]))) (lower n) = 0
    /\ forall h2 m g, lower m = lower n -> wrong_attempts h2 (lower n) < limit c ->
         checked (next_outcome c (fst (run c ((h ++ [Attempt n true]) ++ h2))) m g) = true.
Proof. exact success_clears. Qed.

(* attempts on one user never touch another user's record ... *)
Theorem C24_isolation_step :
  forall c s n g v, lower n <> v ->
    get v (tbl (fst (step c s (Attempt n g)))) = get v (tbl s) /\ now (fst (step c s (Attempt n g))) = now s.
Proof. exact step_isolated. Qed.

(* ... and what a user observes is the same as if the other users' attempts had never been made *)
Theorem C24_isolation :
  forall c v h, outcomes_of v (snd (run c h)) = outcomes_of v (snd (run c (project v h))).
Proof. intros c v h. apply isolation_sim. Qed.

(* limit 0: every attempt reaches the password verifier and nothing is ever recorded *)
Theorem C24_limit_zero_never_locks :
  forall c h n g, limit c = 0 ->
    next_outcome c (fst (run c h)) n g = (if g then OAccepted else ORejected) /\ tbl (fst (run c h)) = [].
Proof. intros c h n g H0. split; [apply limit_zero_never_locks; assumption|apply limit_zero_no_records; assumption]. Qed.

(* the stored record is exactly the history's summary: counter = consecutive failures, lastFailure = time of
   the last rejected attempt, lockedUntil = time of the last limit-reaching failure + lock; no record = no
   failures on the books *)
Theorem C24_record_tracks_history :
  forall c h u, cfg_ok c ->
    match get u (tbl (fst (run c h))) with
    | None => consecutive_failures (snd (run c h)) u = 0 /\ since_limit_reached c (snd (run c h)) u = None
    | Some r => failures r = consecutive_failures (snd (run c h)) u /\ 1 <= failures r
                /\ lockedUntil r = option_map (fun a => now (fst (run c h)) - a + lock c) (since_limit_reached c (snd (run c h)) u)
                /\ since_last_failure (snd (run c h)) u = Some (now (fst (run c h)) - lastFailure r)
    end.
Proof. exact record_tracks_history. Qed.

(* the scan forgets a user (consecutive failures restart at 0) only when the user is not locked and the last
   rejected attempt is more than twice the lockout old; it never changes who is locked *)
Theorem C24_prune_only_stale :
  forall c h u, cfg_ok c ->
    mem u (prune_dropped c (fst (run c h))) = true ->
    check_rate_limit c (fst (run c h)) u = 0 /\
    exists a, since_last_failure (snd (run c h)) u = Some a /\ 2 * lock c < a.
Proof. exact prune_only_stale. Qed.

Theorem C24_prune_keeps_locks :
  forall c s v, check_rate_limit c (prune c s) v = check_rate_limit c s v.
Proof. exact prune_keeps_locks. Qed.

(* RecordFailure before the repair (After instead of not-Before): a failure landing exactly at the expiry
   instant is let through, counted, and starts no new lockout although the limit is (more than) reached *)
Theorem C24_old_refuted :
  exists c h n a, cfg_ok c /\
    since_limit_reached c (snd (run_old c h)) (lower n) = Some a /\ a < lock c /\
    checked (snd (step_old c (fst (run_old c h)) (Attempt n false))) = true.
Proof. exact old_refuted. Qed.

(* ---- non-vacuity: limit 2, lockout 60 s *)
Definition ex_cfg : cfg := {| limit := 2; lock := 60000000000 |}.
Definition Alice : str := [65;108;105;99;101]%N.   (* "Alice" *)
Definition bob : str := [98;111;98]%N.

(* two failures lock alice (under any spelling); 59.9 s later she is still refused with the right password;
   bob is unaffected; at 60 s she is checked; a third failure at that very instant relocks (repaired code) *)
Example C24_nonvacuous_lock :
  cfg_ok ex_cfg /\
  let h := [Attempt alice false; Attempt bob false; Attempt Alice false; Advance 59900000000] in
  since_limit_reached ex_cfg (snd (run ex_cfg h)) (lower alice) = Some 59900000000 /\
  next_outcome ex_cfg (fst (run ex_cfg h)) Alice true = OLocked 1 /\
  next_outcome ex_cfg (fst (run ex_cfg h)) bob true = OAccepted /\
  next_outcome ex_cfg (fst (run ex_cfg (h ++ [Advance 100000000]))) alice false = ORejected /\
  next_outcome ex_cfg (fst (run ex_cfg (h ++ [Advance 100000000; Attempt alice false]))) alice true = OLocked 61 /\
  checked (snd (step_old ex_cfg (fst (run_old ex_cfg (h ++ [Advance 100000000; Attempt alice false]))) (Attempt alice true))) = true.
Proof. unfold cfg_ok. vm_compute. repeat split; congruence. Qed.

Example C24_nonvacuous_success_and_prune :
  let h := [Attempt alice false; Attempt alice true; Attempt bob false; Advance 120000000001; Prune] in
  snd (step ex_cfg (fst (run ex_cfg [Attempt alice false])) (Attempt alice true)) = OAccepted /\
  wrong_attempts [Attempt bob false; Attempt alice false] (lower alice) < limit ex_cfg /\
  mem bob (prune_dropped ex_cfg (fst (run ex_cfg [Attempt bob false; Advance 120000000001]))) = true /\
  tbl (fst (run ex_cfg h)) = [] /\
  project bob h = [Attempt bob false; Advance 120000000001; Prune] /\
  outcomes_of bob (snd (run ex_cfg h)) = [ORejected].
Proof. vm_compute. repeat split; congruence. Qed.

Example C24_nonvacuous_limit_zero :
  next_outcome {| limit := 0; lock := 1 |} (fst (run {| limit := 0; lock := 1 |} [Attempt bob false; Attempt bob false])) bob false = ORejected.
Proof. vm_compute. reflexivity. Qed.
