#!/bin/sh
# usage: tools_mkmutwt.sh <name> — scratch worktree /tmp/mut-<name> of /repo HEAD with the generated files
W=/tmp/mut-$1
git -C /repo worktree add --detach -q "$W" HEAD || exit 2
cp /repo/internal/cli/app/lib.zip "$W/internal/cli/app/"; cp /repo/internal/i18n/messages.go "$W/internal/i18n/"; cp /repo/go.sum "$W/"
echo "$W"
