"""C34 Minified CSS keeps the stylesheet's meaning (internal/util/javascript/minify_css.go MinifyCSS)."""
import glob
import json
import os
import re
import vf

GROUP = "Css"
META = {
    "group": "Css",
    "technique": "Coq: byte-exact automaton model of MinifyCSS, a CSS tokenizer model css_lex and norm; proved for all inputs that "
                 "MinifyCSS keeps exactly the essential bytes (simulation of a specification automaton); full token statement "
                 "refuted with witnesses; token preservation under the computable guard css_guard evaluated by vm_compute on "
                 "every generated and shipped stylesheet; correspondence model vs real MinifyCSS byte for byte; independent CSS "
                 "Syntax 3 tokenizer oracle on the real outputs",
    "text": "C34_refuted: the full statement norm(css_lex(minify s)) = norm(css_lex s) is false for MinifyCSS (a/**/b{} -> ab{}; "
            "also an escaped space followed by a space, a string broken by a newline: recorded as known findings together with "
            "unquoted url() bodies and '-- >' forming '-->'). Proved for ALL inputs not ending inside an unclosed string, by lock-step "
            "simulation of the byte-exact minifier automaton against specification automata: C34_essential_bytes_partial (apart from "
            "the spaces and semicolons it writes outside strings, the output is byte for byte the stylesheet without comments, "
            "outside-string whitespace and semicolons; strings verbatim) and C34_separators_partial (snorm(minify s) = "
            "snorm(decomment s): the byte-level normal form - every byte, plus a separator exactly between two bytes of which the "
            "first is not one of {};,>: and the second not one of {};,>, semicolons merged and dropped before '}' - is the same for the "
            "output and for the comment-stripped input, so no separator between two such bytes and no non-redundant semicolon is ever "
            "dropped or invented); C34_tokens_preserved_partial0: hence the normalised token sequence of the sub-grammar "
            "(whitespace, comments, strings, the one-byte tokens {};,>: and runs of all other bytes) read off that normal form, "
            "ntoks0 = tlex o snorm, is the same for the tagged output and for css_lex0's input stream. partial: the last step from the byte-level normal form to CSS tokens (that under css_guard - no "
            "run-comment-run, no backslash outside strings, no unclosed string - norm(css_lex s) is a function of snorm(decomment s), "
            "for the input and for the re-lexed output) is not proved: the three bridges norm(tlex l) = tlex(snorm l), css_lex0 = css_lex "
            "modulo norm, and re-scanning the output finds the minifier's string tags are evaluated per case (Model.bridge_b, "
            "unfinished proof in coq/Css/Lex0.v.unfinished); token preservation under css_guard is evaluated on the model "
            "(vm_compute) and on the real output (CSS Syntax 3 tokenizer) for every generated stylesheet and the shipped CSS",
    "note": "Trusted: Coq kernel; hand-written automaton model of MinifyCSS tied to the code by byte-for-byte correspondence; the "
            "Python CSS Syntax 3 tokenizer used as oracle; css_lex treats unquoted url(...) bodies as ordinary tokens.",
}
LEVEL = "proof"

WSB = b" \t\n\r\x0c"
HEX = "0123456789abcdefABCDEF"
NL = "\n\r\x0c"
WSC = " \t\n\r\x0c"


# ---------------------------------------------------------------- CSS Syntax Level 3 tokenizer (oracle)
def css_tokens(s):
    """s: str (bytes decoded as latin-1). Comments produce no token. Names are kept as spelled."""
    n = len(s)
    out = []

    def name_start(c):
        return (c.isascii() and c.isalpha()) or c == "_" or ord(c) >= 0x80

    def name_char(c):
        return name_start(c) or (c.isascii() and c.isdigit()) or c == "-"

    def valid_escape(i):
        return i < n and s[i] == "\\" and (i + 1 >= n or s[i + 1] not in NL)

    def starts_ident(i):
        if i >= n:
            return False
        c = s[i]
        if c == "-":
            return i + 1 < n and (name_start(s[i + 1]) or s[i + 1] == "-" or valid_escape(i + 1))
        return name_start(c) or valid_escape(i)

    def starts_number(i):
        if i >= n:
            return False
        c = s[i]
        if c in "+-":
            if i + 1 < n and s[i + 1].isdigit():
                return True
            return i + 2 < n and s[i + 1] == "." and s[i + 2].isdigit()
        if c == ".":
            return i + 1 < n and s[i + 1].isdigit()
        return c.isascii() and c.isdigit()

    def escape_end(j):
        """j at the backslash of a valid escape; returns the index after it"""
        j += 1
        if j >= n:
            return j
        if s[j] in HEX:
            k = 0
            while j < n and k < 6 and s[j] in HEX:
                j += 1
                k += 1
            if j < n and s[j] in WSC:
                if s[j] == "\r" and j + 1 < n and s[j + 1] == "\n":
                    j += 1
                j += 1
            return j
        return j + 1

    def consume_name(i):
        j = i
        while j < n:
            if name_char(s[j]):
                j += 1
            elif valid_escape(j):
                j = escape_end(j)
            else:
                break
        return s[i:j], j

    def consume_number(i):
        j = i
        if j < n and s[j] in "+-":
            j += 1
        while j < n and s[j].isdigit() and s[j].isascii():
            j += 1
        if j + 1 < n and s[j] == "." and s[j + 1].isdigit():
            j += 2
            while j < n and s[j].isdigit():
                j += 1
        if j < n and s[j] in "eE":
            k = j + 1
            if k < n and s[k] in "+-":
                k += 1
            if k < n and s[k].isdigit():
                j = k
                while j < n and s[j].isdigit():
                    j += 1
        return s[i:j], j

    i = 0
    while i < n:
        c = s[i]
        if c == "/" and i + 1 < n and s[i + 1] == "*":
            j = s.find("*/", i + 2)
            i = n if j < 0 else j + 2
            continue
        if c in WSC:
            while i < n and s[i] in WSC:
                i += 1
            out.append(("ws",))
            continue
        if c in "\"'":
            j = i + 1
            bad = False
            while True:
                if j >= n:
                    break
                d = s[j]
                if d == c:
                    j += 1
                    break
                if d in NL:
                    bad = True
                    break
                if d == "\\":
                    if j + 1 >= n:
                        j += 1
                        continue
                    if s[j + 1] in NL:
                        j += 3 if s[j + 1] == "\r" and j + 2 < n and s[j + 2] == "\n" else 2
                        continue
                    j = escape_end(j)
                    continue
                j += 1
            out.append(("bad-string",) if bad else ("string", s[i:j]))
            i = j
            continue
        if c == "#":
            if i + 1 < n and (name_char(s[i + 1]) or valid_escape(i + 1)):
                nm, i = consume_name(i + 1)
                out.append(("hash", nm))
            else:
                out.append(("delim", c))
                i += 1
            continue
        if c in "+." and starts_number(i) or (c == "-" and starts_number(i)) or (c.isascii() and c.isdigit()):
            num, j = consume_number(i)
            if starts_ident(j):
                unit, j = consume_name(j)
                out.append(("dimension", num, unit))
            elif j < n and s[j] == "%":
                j += 1
                out.append(("percentage", num))
            else:
                out.append(("number", num))
            i = j
            continue
        if c == "-" and s.startswith("-->", i):
            out.append(("cdc",))
            i += 3
            continue
        if c == "<" and s.startswith("<!--", i):
            out.append(("cdo",))
            i += 4
            continue
        if c == "@":
            if starts_ident(i + 1):
                nm, i = consume_name(i + 1)
                out.append(("at", nm))
            else:
                out.append(("delim", c))
                i += 1
            continue
        if starts_ident(i):
            nm, j = consume_name(i)
            if j < n and s[j] == "(":
                j += 1
                if nm.lower() == "url":
                    k = j
                    while k < n and s[k] in WSC:
                        k += 1
                    if k < n and s[k] in "\"'":
                        out.append(("function", nm))
                        i = j
                        continue
                    # unquoted url
                    val = []
                    bad = False
                    while True:
                        if k >= n:
                            break
                        d = s[k]
                        if d == ")":
                            k += 1
                            break
                        if d in WSC:
                            while k < n and s[k] in WSC:
                                k += 1
                            if k >= n:
                                break
                            if s[k] == ")":
                                k += 1
                                break
                            bad = True
                            break
                        if d in "\"'(" or ord(d) < 9 or ord(d) == 11 or 14 <= ord(d) <= 31 or ord(d) == 127:
                            bad = True
                            break
                        if d == "\\":
                            if valid_escape(k):
                                e = escape_end(k)
                                val.append(s[k:e])
                                k = e
                                continue
                            bad = True
                            break
                        val.append(d)
                        k += 1
                    if bad:
                        while k < n:
                            if s[k] == ")":
                                k += 1
                                break
                            if valid_escape(k):
                                k = escape_end(k)
                            else:
                                k += 1
                        out.append(("bad-url",))
                    else:
                        out.append(("url", "".join(val)))
                    i = k
                    continue
                out.append(("function", nm))
                i = j
                continue
            out.append(("ident", nm))
            i = j
            continue
        if c in ":;,{}()[]":
            out.append((c,))
        else:
            out.append(("delim", c))
        i += 1
    return out


def is_delim_tok(t):
    return t in (("{",), ("}",), (";",), (",",), ("delim", ">"))


def norm_tokens(toks):
    out = []
    pb, pend = True, False
    for t in toks:
        if t == ("ws",):
            pend = True
            continue
        if pend and not pb and not is_delim_tok(t):
            out.append(("ws",))
        out.append(t)
        pb = is_delim_tok(t) or t == (":",)
        pend = False
    res, semi = [], False
    for t in out:
        if t == (";",):
            semi = True
        elif t == ("}",):
            res.append(t)
            semi = False
        else:
            if semi:
                res.append((";",))
            res.append(t)
            semi = False
    if semi:
        res.append((";",))
    return res


# ---------------------------------------------------------------- guard clauses (Python mirror of css_guard + url / cdc)
def chunk_guard(b):
    """returns the list of violated clauses of Css.css_guard for the bytes b"""
    viol = set()
    i, n = 0, len(b)
    g = 0            # 0 none, 1 run just before, 2 run then comments
    in_run = False
    while i < n:
        c = b[i]
        if c == 0x2f and i + 1 < n and b[i + 1] == 0x2a:
            j = b.find(b"*/", i + 2)
            i = n if j < 0 else j + 2
            in_run = False
            g = 0 if g == 0 else 2
            continue
        if c in (0x22, 0x27):
            j = i + 1
            closed = False
            while j < n:
                d = b[j]
                if d == c:
                    closed = True
                    j += 1
                    break
                if d == 0x5c:
                    j += 2
                    continue
                if d in (10, 13, 12):
                    break
                j += 1
            if not closed:
                viol.add("bad-string")
            i = min(j, n)
            in_run = False
            g = 0
            continue
        if c in WSB:
            i += 1
            in_run = False
            g = 0
            continue
        if c in b"{};,>:":
            i += 1
            in_run = False
            g = 0
            continue
        # run byte
        if not in_run and g == 2:
            viol.add("comment-joins-tokens")
        if c == 0x5c:
            viol.add("escape-outside-string")
            if i + 1 < n and b[i + 1] not in (10, 13, 12):
                i += 1
        in_run = True
        g = 1
        i += 1
    return viol


def classify(src, before, after):
    """clauses that explain a token change, most specific first"""
    v = chunk_guard(src)
    order = [k for k in ("comment-joins-tokens", "escape-outside-string", "bad-string") if k in v]
    if any(t[0] in ("url", "bad-url") for t in before):
        order.append("unquoted-url")
    if sum(1 for t in after if t[0] in ("cdc", "cdo")) != sum(1 for t in before if t[0] in ("cdc", "cdo")):
        order.append("cdc-formed")
    return order


# ---------------------------------------------------------------- generators
IDENTS = ["a", "b", "div", "li", "x-y", "_z", "--v", "h1", "tbody", "\u00e9t\u00e9", "B", "red", "solid", "auto", "inherit", "sans-serif"]
PROPS = ["color", "margin", "font", "background", "content", "border-top", "--x", "width", "transition", "grid-template-areas"]


def gen_ws(rng, must=False):
    if not must and rng.random() < 0.45:
        return ""
    return "".join(rng.choice([" ", " ", " ", "\n", "\t", "\r\n", "\x0c"]) for _ in range(rng.randint(1, 3)))


def gen_comment(rng):
    body = rng.choice(["", "x", " note ", "*", "**", "/", "/*", "a*b/c", "\n multi \n line ", "'", '"', ";}", "* /"])
    return "/*" + body + "*/"


def gen_gap(rng, must=False):
    """whitespace and comments; comments only next to whitespace (guard-respecting)"""
    r = rng.random()
    if r < 0.75:
        return gen_ws(rng, must)
    if r < 0.85:
        return gen_ws(rng, True) + gen_comment(rng) + gen_ws(rng)
    if r < 0.95:
        return gen_ws(rng) + gen_comment(rng) + gen_ws(rng, True)
    return gen_ws(rng, True) + gen_comment(rng) + gen_comment(rng) + gen_ws(rng, True)


def gen_string(rng):
    q = rng.choice("\"'")
    parts = []
    for _ in range(rng.randint(0, 5)):
        parts.append(rng.choice(["a", " ", "  ", ";", "}", "{", ":", ",", ">", "/*", "*/", "\\" + q, "\\\\", "\\a ", "\\\n", "\t",
                                 "'" if q == '"' else '"', "\\26 ", "\u00e9", "x y", "\\"  + "\\" + " "]))
    return q + "".join(parts) + q


def gen_value(rng):
    k = rng.random()
    if k < 0.25:
        return rng.choice(["0", "1", "10px", "1.5em", "-2px", "+3", ".5", "100%", "1e3", "12px/1.5", "#fff", "#a1b2c3", "0 10px 0 10px"])
    if k < 0.45:
        return rng.choice(IDENTS)
    if k < 0.6:
        return gen_string(rng)
    if k < 0.7:
        return "url(" + gen_ws(rng) + gen_string(rng) + gen_ws(rng) + ")"
    if k < 0.8:
        return rng.choice(["calc(", "var(", "rgb(", "min("]) + gen_ws(rng) + gen_value(rng) + gen_gap(rng, True) + rng.choice(["+", "-", "*", "/"]) + \
            gen_gap(rng, True) + gen_value(rng) + gen_ws(rng) + ")"
    if k < 0.9:
        return gen_value(rng) + gen_gap(rng, True) + gen_value(rng)
    return gen_value(rng) + gen_ws(rng) + "," + gen_gap(rng) + gen_value(rng) + rng.choice(["", gen_gap(rng, True) + "!important"])


def gen_selector(rng):
    def simple():
        s = rng.choice(IDENTS[:10] + ["*", "", ""])
        for _ in range(rng.randint(0, 2)):
            s += rng.choice([".c1", "#id", ":hover", "::before", ":not(.x)", ":nth-child(2n + 1)", "[href]", '[a="b c"]', "[x~='y  z']"])
        return s or ".k"
    s = simple()
    for _ in range(rng.randint(0, 3)):
        comb = rng.choice([" ", " ", ">", "+", "~", ",", " :", " ::"])
        if comb == " ":
            s += gen_gap(rng, True) + simple()
        elif comb in (" :", " ::"):
            s += gen_gap(rng, True) + comb.strip() + "hover"
        else:
            s += gen_gap(rng) + comb + gen_gap(rng) + simple()
    return s


def gen_decls(rng):
    out = []
    for _ in range(rng.randint(0, 4)):
        out.append(gen_gap(rng) + rng.choice(PROPS) + gen_gap(rng) + ":" + gen_gap(rng) + gen_value(rng) + gen_gap(rng) +
                   rng.choice([";", ";", ";;", "; ;", ";" + gen_gap(rng) + ";", ""]))
    return "".join(out)


def gen_rule(rng, depth=0):
    r = rng.random()
    if r < 0.15 and depth < 2:
        pre = rng.choice(["@media", "@supports", "@media screen and", "@container"]) + gen_gap(rng, True) + \
            "(" + gen_ws(rng) + rng.choice(["min-width", "max-width", "display"]) + gen_ws(rng) + ":" + gen_gap(rng) + rng.choice(["600px", "grid", "10em"]) + gen_ws(rng) + ")"
        return pre + gen_gap(rng) + "{" + "".join(gen_gap(rng) + gen_rule(rng, depth + 1) for _ in range(rng.randint(0, 2))) + gen_gap(rng) + "}"
    if r < 0.22:
        return rng.choice(["@charset", "@import"]) + gen_gap(rng, True) + gen_string(rng) + gen_gap(rng) + ";"
    return gen_selector(rng) + gen_gap(rng) + "{" + gen_decls(rng) + gen_gap(rng) + "}"


def gen_sheet(rng):
    return gen_gap(rng) + "".join(gen_rule(rng) + gen_gap(rng) for _ in range(rng.randint(1, 4)))


GUARD_BREAKERS = ["a/**/b{}", "a\\  b{}", "a:\"\nb\" c  d \"x\"", "a{b:url(x;;y)}", "a -- > b{}", "a{b:url(/**/x)}", "a{b:1/**/px}",
                  "a\\{ b{}", "a{b:\"x  ", "a{b:'\\", "url/**/(x)", "a\\\n b", "\\", "a{content:\"a\\\"  b\"}", "a{b:url( x  y )}"]
CORPUS = ["", " ", "a{}", "a { color: red; }", "a :hover { color: blue; }", "a , b , c { color: red; }", "a > b { color: red; }",
          "a { color: red;; margin: 0; }", "a { content: \"  hello   world  \"; }", "a { color: /* primary */ red; }",
          "@media (max-width: 600px) { body { font-size: 14px; } }", "/* c */ a /* d */ { /* e */ }", "a{b:c;/**/}", "a{b:c; ;}",
          "a{b:c;;;}", "; ; ;", "a /**/ /**/ b{}", "a{b:calc(1px + 2px)}", "a{b:1px -2px}", "a{b:c} /* unterminated", "a{b:c} /", "/",
          "a/ b", "a{b:c;", "a{b:c; ", "a   ", "a{b : c}", "a{b:c ;d:e}", ">a", "a,>b", "a{b:c}\n\n", "a /* x */", "/**/a", "a{b:'x'/**/'y'}",
          "a{b:x/**/'y'}", "a:/**/b", "a{;}", "{;;}", "a{b:c/**/;}", "a /*/ b */ c", "a /***/ b", "a{b:\"/*\"}", "a{b:'*/'} c  d"]


def gen_random_bytes(rng, n):
    alpha = [b"a", b"b", b"1", b"-", b" ", b" ", b"\n", b"\t", b"/", b"*", b"/*", b"*/", b"\"", b"'", b"\\", b";", b":", b"{", b"}", b",",
             b">", b"(", b")", b".", b"#", b"@", b"%", b"\xc3\xa9", b"\x0c", b"\r", b"url(", b"+", b"!", b"\x0b", b"<!--", b"--"]
    out = []
    for _ in range(n):
        out.append(b"".join(rng.choice(alpha) for _ in range(rng.randint(1, 20))))
    return out


def hx(b):
    return b.hex() or "-"


def unhx(s):
    return b"" if s == "-" else bytes.fromhex(s)


def run(ck):
    quick = ck.tier == "quick"
    ck.cov["rule"] = ("generated stylesheets (rules with combinators, pseudo-classes, attribute selectors, at-rules, declarations with "
                      "numbers/dimensions/strings with escapes/quoted url()/calc(), comments and whitespace runs at token boundaries, "
                      "semicolon runs), a corpus of edge cases, guard-breaking shapes, random byte strings over a CSS alphabet, and the "
                      "shipped lib/assets CSS. distinct_nontrivial = distinct inputs that satisfy css_guard, contain a comment or a "
                      "string or a semicolon run, and are changed by MinifyCSS")
    ck.assume("C34_essential_bytes_partial: the input does not end inside an unclosed quoted string (the final trimming loop of MinifyCSS would eat the string's trailing spaces)",
              "css_lex treats an unquoted url(...) body as ordinary tokens; CSS Syntax 3 url tokens are handled by the Python oracle only",
              "the step from the byte-level normal form (snorm/decomment, proved) to css_lex tokens under css_guard is evaluated (model and real code), not proved")
    ck.trusted("harness/C34/c34_test.go (in-package overlay of internal/util/javascript), props/C34.py generators, CSS Syntax 3 tokenizer oracle and comparison",
               "correspondence and css_guard/preserved_b evaluated by vm_compute in a generated cases file")
    ck.coq_stage(GROUP, theorems=["C34_refuted", "C34_essential_bytes_partial", "C34_separators_partial", "C34_tokens_preserved_partial0"])
    broken = getattr(ck, "coq_broken", None)

    ok, binp = vf.go_test_build(ck.work, "internal/util/javascript", {"internal/util/javascript/zz_verif_c34_test.go":
                                os.path.join(vf.HARNESS, "C34", "c34_test.go")}, "c34.test")
    if not ok:
        ck.violation("harness-build", "harness for internal/util/javascript does not build:\n" + binp[-1500:],
                     replay={"log": binp[-3000:]}, found_input=False)
        return

    import time
    t1 = time.time()
    rng = ck.rng
    mult = 10 if (broken and not ck.replay_file) else 1     # proofs broken: search harder on the real code
    nsheet, nrand = (150, 200) if quick else (2500, 2500)
    cases = [c.encode("utf8") for c in CORPUS] + [c.encode("utf8") for c in GUARD_BREAKERS]
    nfixed = len(cases)
    for _ in range(nsheet * mult):
        cases.append(gen_sheet(rng).encode("utf8"))
    for _ in range(nsheet * mult // 8):          # guard breakers inside generated sheets
        t = gen_sheet(rng)
        k = rng.randint(0, len(t))
        cases.append((t[:k] + rng.choice(["a/**/b", "x\\ ", "\\{", "\"\n", "url(a;;b)", "1/**/px", "url( /*c*/ d)"]) + t[k:]).encode("utf8"))
    cases += gen_random_bytes(rng, nrand * mult)
    shipped = []
    for p in sorted(glob.glob(os.path.join(vf.REPO, "lib", "assets", "**", "*.css"), recursive=True)):
        data = open(p, "rb").read()
        shipped.append((os.path.relpath(p, vf.REPO), data))
    if ck.replay_file:
        rp = json.load(open(ck.replay_file))["replay"] or {}
        cases = [bytes.fromhex(x) for x in rp.get("cases_hex", [])]
        shipped = []
        nfixed = 0
    # shipped files: whole (oracle) and cut at rule boundaries into pieces (model)
    pieces = []
    for name, data in shipped:
        cur, depth = bytearray(), 0
        for ch in data:
            cur.append(ch)
            if ch == 0x7b:
                depth += 1
            elif ch == 0x7d:
                depth = max(0, depth - 1)
                if depth == 0 and len(cur) > 1200:
                    pieces.append(bytes(cur))
                    cur = bytearray()
        if cur:
            pieces.append(bytes(cur))
    if quick and len(pieces) > 8:
        pieces = rng.sample(pieces, 8)
    allcases = cases + pieces + [d for _, d in shipped]
    nmodel = len(cases) + len(pieces)            # whole shipped files go to the oracle only

    inp = os.path.join(ck.work, "in.txt")
    outp = os.path.join(ck.work, "out.txt")
    with open(inp, "w") as f:
        for b in allcases:
            f.write("M %s\n" % hx(b))
    rc, log = vf.run_bin(binp, "^TestVerifC34$", {"VERIF_IN": inp, "VERIF_OUT": outp})
    if rc != 0:
        ck.violation("harness-run", "harness failed:\n" + log[-1500:], replay={"log": log[-3000:]}, found_input=False)
        return
    real = {}
    for line in open(outp):
        f = line.split()
        real[int(f[0])] = unhx(f[2])
    if len(real) != len(allcases):
        ck.violation("harness-run", "harness answered %d of %d cases" % (len(real), len(allcases)), replay={}, found_input=False)
        return

    t2 = time.time()
    # ---- property oracle on the real output: CSS Syntax 3 token sequence, normalised
    nontriv, changed_guarded, classes = set(), 0, {}
    pyguard = []
    for i, b in enumerate(allcases):
        r = real[i]
        before = css_tokens(b.decode("latin-1"))
        after = css_tokens(r.decode("latin-1"))
        gv = chunk_guard(b)
        pyguard.append(not gv)
        if norm_tokens(before) != norm_tokens(after):
            cl = classify(b, before, after)
            sig = cl[0] if cl else "tokens-changed"
            classes[sig] = classes.get(sig, 0) + 1
            ck.violation(sig, "MinifyCSS(%r) = %r changes the CSS token sequence (%s)" % (
                b[:200].decode("latin-1"), r[:200].decode("latin-1"), sig), replay={"cases_hex": [b.hex()], "minified_hex": r.hex()})
        elif not gv and r != b and (b"/*" in b or b'"' in b or b"'" in b or b";;" in b):
            nontriv.add(b)
    ck.cov["evaluations"] = len(allcases)
    ck.cov["distinct_nontrivial"] = len(nontriv)
    ck.cov["input_distribution"] = {"corpus_and_guard_breakers": nfixed, "generated_sheets": nsheet * mult + nsheet * mult // 8,
                                    "random_byte_strings": nrand * mult, "shipped_files": [n for n, _ in shipped],
                                    "shipped_pieces_in_model": len(pieces), "guard_true": sum(1 for g in pyguard if g),
                                    "token_change_classes": classes,
                                    "max_input_bytes": max(len(b) for b in allcases) if allcases else 0}
    for i in (3, 9, nfixed + 1, nfixed + 2):
        if i < len(allcases):
            ck.sample({"css": allcases[i][:300].decode("latin-1"), "minified": real[i][:300].decode("latin-1"), "css_guard": pyguard[i]})

    t3 = time.time()
    ck.cov["stage_seconds"] = {"coq_build_and_go_build": round(t1 - ck.t0, 1), "generate_and_run_harness": round(t2 - t1, 1),
                               "python_oracle": round(t3 - t2, 1)}
    newfound = any(v["found_input"] and vf.match_known(ck.known, ck.pid, v["signature"]) is None for v in ck.viol)

    # ---- correspondence and model-level evaluation of the guarded statement
    if not broken and not newfound:
        def chunks(lst, k):
            for a in range(0, len(lst), k):
                yield a, lst[a:a + k]
        mb, gp, gt, br = [], [], [], []
        failed = None
        def eval_part(bp):
            base, part = bp
            lines = ["From Common Require Import Base.", "From Css Require Import Model.", "Open Scope N_scope.",
                     "Definition cases : list (list N * list N) := ["]
            lines.append(";\n".join("(%s, %s)" % (vf.vN(allcases[i]), vf.vN(real[i])) for i in part))
            lines.append("""].
Fixpoint idx {A} (f : nat -> A -> list nat) (i : nat) (l : list A) : list nat :=
  match l with [] => [] | x :: r => f i x ++ idx f (S i) r end.
Definition R := Eval vm_compute in
  (idx (fun i c => if str_eqb (minify_css (fst c)) (snd c) then [] else [i]) 0 cases,
   idx (fun i c => if css_guard (fst c) && negb (preserved_b (fst c)) then [i] else []) 0 cases,
   idx (fun i c => if css_guard (fst c) then [i] else []) 0 cases,
   idx (fun i c => if css_guard (fst c) && negb (ends_in_string (fst c)) && negb (bridge_b (fst c)) then [i] else []) 0 cases).
Eval vm_compute in (fst (fst (fst R))).
Eval vm_compute in (snd (fst (fst R))).
Eval vm_compute in (snd (fst R)).
Eval vm_compute in (snd R).
""")
            rc, out = vf.coq_run(GROUP, os.path.join(ck.work, "m%d" % base), "cases%d" % base, "\n".join(lines), timeout=900)
            lists = re.findall(r"=\s*(\[[^\]]*\]|nil)\s*(?:%\w+)?\s*:\s*list nat", out, re.S)
            if rc != 0 or len(lists) != 4:
                return out
            return [[base + int(x) for x in re.findall(r"\d+", l)] for l in lists]
        from concurrent.futures import ThreadPoolExecutor
        with ThreadPoolExecutor(max_workers=4) as ex:
            results = list(ex.map(eval_part, chunks(list(range(nmodel)), 120 if quick else 400)))
        for r in results:
            if isinstance(r, str):
                failed = r
                break
            mb += r[0]
            gp += r[1]
            gt += r[2]
            br += r[3]
        ck.cov["stage_seconds"]["model_evaluation"] = round(time.time() - t3, 1)
        if failed is not None:
            ck.violation("correspondence-eval", "model evaluation failed:\n" + failed[-1500:], replay={"log": failed[-3000:]},
                         found_input=False)
        else:
            ck.cov["traces_validated_against_impl"] = nmodel
            ck.cov["input_distribution"]["model_guard_true"] = len(gt)
            for i in mb[:5]:
                ck.violation("corr-minify", "model minify_css and real MinifyCSS disagree on %r: real %r" % (
                    allcases[i][:200].decode("latin-1"), real[i][:200].decode("latin-1")), replay={"cases_hex": [allcases[i].hex()]},
                    found_input=False)
            for i in gp[:5]:
                ck.violation("guarded-statement-fails", "model: css_guard holds but the normalised token sequence changes for %r -> %r" % (
                    allcases[i][:200].decode("latin-1"), real[i][:200].decode("latin-1")), replay={"cases_hex": [allcases[i].hex()]})
            for i in br[:5]:
                ck.violation("bridge-fails", "model: css_guard holds but css_lex0 / css_lex / byte-level normal form disagree (bridge_b) for %r" % (
                    allcases[i][:200].decode("latin-1")), replay={"cases_hex": [allcases[i].hex()]}, found_input=False)
            gts = set(gt)
            dis = [i for i in range(nmodel) if (i in gts) != pyguard[i]]
            for i in dis[:3]:
                ck.violation("guard-mismatch", "css_guard (Coq) = %s but the Python mirror says %s for %r" % (
                    i in gts, pyguard[i], allcases[i][:200].decode("latin-1")), replay={"cases_hex": [allcases[i].hex()]}, found_input=False)
    elif broken and not newfound:
        grp, log = broken
        ck.violation("proof-broken", "Coq development %s no longer checks (C34_refuted / C34_essential_bytes_partial):\n%s" % (grp, log[-1200:]),
                     replay={"broken": "coq/%s" % grp, "log": log[-3000:]}, found_input=False)
