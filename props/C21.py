"""C21 Native tokens are honoured exactly while valid (tokens, router.Authenticate, cipher.Validate/Extract, caches)."""
import json
import os
import vf

GROUP = "Token"
META = {
    "group": "Token",
    "technique": "Coq proof (invariant + refinement to a four-line specification) over a Gallina state machine of token issue / "
                 "revocation store / BlacklistCache / TokenCache / clock / router request atomic actions, tied to the real "
                 "packages by a step-by-step vm_compute correspondence run inside testing/synctest bubbles with a SQLite "
                 "revocation table and an instrumented Authenticate (yield points), plus a direct oracle on the real decisions",
    "text": "Theorem C21_decisions_exact: after ANY history of issue, revoke, un-revoke, flush, cache purge, loss of single cache "
            "entries at any moment, clock advance, restart with another key, complete validations and arbitrarily interleaved "
            "atomic actions of router requests, every decision (cipher.Validate, cipher.Extract, Authenticate incl. its cache hit "
            "path) is accept iff the string is a genuine token string issued here under the current key, unexpired and not on "
            "the revocation list at that moment (router: and the user name is non-empty); C21_accept_iff is the per-validator "
            "corollary; C21_altered_rejected: under the idealised AEAD law every string that is not a hex-case respelling of an "
            "issued token string is refused in every state; C21_old_refuted: the code before fix (cache hit did not consult the "
            "revocation list) accepts a revoked token after a revocation lands between TokenUnwrap and the cache fill - "
            "replayed on the real code and repaired. The model is compared with the real code after every atomic step. full",
    "note": "Trusted: Coq kernel; the hand-written model (tied by the correspondence run: decisions, revocation table, "
            "BlacklistCache and TokenCache contents after every step); AES-GCM/Argon2 idealised (Genuine/Altered split, premise of "
            "C21_altered_rejected); SQLite keeps the table; cache entry loss is modelled as nondeterministic eviction (schedule "
            "read off the observed run); the clock does not tick inside one atomic action; store read errors are not modelled.",
}

IDS = [0, 1, 2, 100, 101]
WS = [(n, sp) for n in range(3) for sp in range(2)]
NTOK = 3

def instrument(ck):
    """Instrumented copy of router/auth.go with the two yield points, placed by go/ast on the call shapes
    (harness/C21/instrument/main.go): the statement calling auth.TokenUnwrap / tokens.Unwrap and the statement calling
    caches.Add(caches.TokenCache, ...) inside Authenticate.  Fails loudly only when a shape is not there exactly once."""
    p = os.path.join(ck.work, "auth_instrumented.go")
    tool = os.path.join(ck.work, "c21-instrument")
    rc, out = vf.sh(["go", "build", "-o", tool, os.path.join(vf.HARNESS, "C21", "instrument", "main.go")],
                    cwd=vf.REPO, env=vf.goenv(), timeout=600)
    if rc != 0:
        return None, "instrumenter does not build:\n" + out[-1500:]
    rc, out = vf.sh([tool, os.path.join(vf.REPO, "internal/router/auth.go"), p], timeout=120)
    if rc != 0 or not os.path.exists(p):
        return None, out[-1500:]
    return p, ""


# ----------------------------------------------------------------------------- histories
def G(n, sp=0):
    return ["G", n, sp]


CORPUS = [
    # the refuted history of the code before the repair (Token/Proofs.v race_history) and the later request
    [["N", 1, 1000], ["I", G(0), [], [["B", 0]]], ["VR", G(0)], ["VV", G(0)], ["I", G(0), [["D", 0]], []], ["VR", G(0)]],
    # revoke / un-revoke / flush around cached positives and negatives
    [["N", 1, 500], ["VR", G(0)], ["VR", G(0)], ["B", 0], ["VR", G(0)], ["VV", G(0)], ["VX", G(0)], ["D", 0], ["VV", G(0)],
     ["VR", G(0)], ["B", 0], ["VX", G(0)], ["F"], ["VX", G(0)], ["VR", G(0, 1)], ["B", 0], ["VR", G(0, 1)], ["VR", G(0)]],
    # expiry: fresh, cached, at the boundary second, after it; cache sweeps
    [["N", 1, 30], ["N", 2, 200], ["VR", G(0)], ["VR", G(1)], ["T", 29], ["VR", G(0)], ["T", 1], ["VR", G(0)], ["VV", G(0)],
     ["VX", G(0)], ["ET", 0, 0], ["VR", G(0)], ["T", 1], ["VR", G(0)], ["VV", G(0)], ["VX", G(0)], ["ET", 0, 0], ["VR", G(0)],
     ["T", 100], ["VR", G(1)], ["T", 61], ["T", 61], ["VR", G(1)]],
    # restart with another key and back; revocations persist
    [["N", 1, 900], ["N", 2, 900], ["VR", G(0)], ["B", 1], ["K", 8], ["VR", G(0)], ["VV", G(1)], ["N", 3, 900], ["VR", G(2)],
     ["K", 7], ["VR", G(0)], ["VR", G(1)], ["VV", G(2)], ["D", 1], ["VR", G(1)]],
    # altered strings, unissued strings, empty user name, ids that are no token
    [["VR", G(0)], ["N", 0, 300], ["VV", G(0)], ["VX", G(0)], ["VR", G(0)], ["N", 1, 300], ["VR", ["A", 0]], ["VV", ["A", 1]],
     ["VR", ["A", 1]], ["VX", ["A", 2]], ["VV", ["A", 3]], ["VV", ["A", 4]], ["VR", ["A", 5]], ["VV", ["A", 6]], ["B", 100],
     ["VR", G(1)], ["D", 101], ["D", 100], ["VR", G(1, 1)]],
    # interleavings: revocation / un-revocation / flush / purge / expiry / restart inside a request
    [["N", 1, 100], ["N", 2, 100], ["I", G(0), [["B", 0]], []], ["I", G(1), [], [["B", 0], ["D", 0]]], ["VR", G(1)],
     ["I", G(1), [["PT"]], [["PB"], ["B", 1]]], ["VR", G(1)], ["I", G(1), [["F"]], [["T", 200]]], ["VR", G(1)], ["VR", G(0)]],
    # a token kept in use through the router (every hit renews the cache entry) must still expire: fill, advance, hit,
    # advance past Expires with no purge in between, validate again through the router
    [["N", 1, 30], ["VR", G(0)], ["T", 20], ["VR", G(0)], ["T", 11], ["VR", G(0)], ["VR", G(0)], ["T", 40], ["VR", G(0)],
     ["VV", G(0)]],
    # fill, revoke, fill-after-purge: the cache fill of a request that validated before the revocation lands after the
    # purge; every later request (cache hit) must refuse, also after time has passed
    [["N", 1, 1000], ["VR", G(0)], ["PT"], ["I", G(0), [], [["B", 0]]], ["VR", G(0)], ["T", 30], ["VR", G(0)], ["VR", G(0, 1)],
     ["D", 0], ["VR", G(0)]],
    [["N", 1, 100], ["B", 0], ["VV", G(0)], ["PB"], ["VV", G(0)], ["EB", 0], ["D", 0], ["VR", G(0)], ["ET", 0, 0], ["B", 0],
     ["B", 0], ["VR", G(0)], ["F"], ["I", G(0), [], [["B", 0], ["VV", G(0)]]], ["VR", G(0)], ["VX", G(0)]],
]


def gen_history(rng, length):
    ops, ntok = [], 0

    def wire():
        r = rng.random()
        if r < 0.8 and ntok:
            return G(rng.randrange(ntok), 1 if rng.random() < 0.2 else 0)
        if r < 0.9:
            return G(rng.randrange(NTOK), 0)
        return ["A", rng.randrange(7)]

    def ident():
        if ntok and rng.random() < 0.85:
            return rng.randrange(ntok)
        return rng.choice([100, 101])

    def simple(allow_time=True):
        nonlocal ntok
        r = rng.random()
        if r < 0.28:
            return ["B", ident()]
        if r < 0.43:
            return ["D", ident()]
        if r < 0.48:
            return ["F"]
        if r < 0.53:
            return [rng.choice(["PT", "PB"])]
        if r < 0.58 and ntok:
            return rng.choice([["ET", rng.randrange(ntok), 0], ["EB", ident()]])
        if r < 0.72 and allow_time:
            return ["T", rng.choice([1, 4, 10, 30, 59, 61, 100, 300])]
        if r < 0.75 and allow_time:
            return ["K", rng.choice([7, 8])]
        return [rng.choice(["VR", "VR", "VV", "VX"]), wire()]

    while len(ops) < length:
        r = rng.random()
        if ntok < NTOK and (ntok == 0 or r < 0.12):
            ops.append(["N", 0 if rng.random() < 0.08 else rng.randint(1, 3), rng.choice([5, 30, 90, 200, 1000])])
            ntok += 1
        elif r < 0.18 and ntok:
            # the two shapes that need several steps: in-use token crossing its expiry; cache fill after a revocation purge
            n = rng.randrange(ntok)
            if rng.random() < 0.5:
                ops += [["VR", G(n)], ["T", rng.choice([4, 10, 30, 59])], ["VR", G(n)], ["T", rng.choice([1, 30, 59, 100])], ["VR", G(n)]]
            else:
                ops += [["ET", n, 0], ["I", G(n), [], [["B", n]]], ["VR", G(n)]]
        elif r < 0.32 and ntok:
            pre = [simple(False) for _ in range(rng.choice([0, 0, 1]))]
            mid = [simple(False) for _ in range(rng.choice([0, 1, 1, 2]))]
            ops.append(["I", wire(), pre, mid])
        else:
            ops.append(simple())
    return ops


# ----------------------------------------------------------------------------- oracle (independent of the Coq model)
class Spec:
    """The four-line specification evaluated on the operations alone."""

    def __init__(self):
        self.now, self.key, self.toks, self.revoked = 0, 7, [], set()

    def apply(self, op):
        k = op[0]
        if k == "N":
            self.toks.append({"user": op[1], "exp": self.now + op[2], "key": self.key})
        elif k == "B":
            self.revoked.add(op[1])
        elif k == "D":
            self.revoked.discard(op[1])
        elif k == "F":
            self.revoked = set()
        elif k == "T":
            self.now += max(0, op[1])
        elif k == "K":
            self.key = op[1]

    def valid(self, w, router):
        if w[0] != "G" or not (0 <= w[1] < len(self.toks)):
            return False, "altered-or-unissued"
        t = self.toks[w[1]]
        if t["key"] != self.key:
            return False, "other-key"
        if t["exp"] < self.now:
            return False, "expired"
        if w[1] in self.revoked:
            return False, "revoked"
        if router and t["user"] == 0:
            return False, "empty-user"
        return True, "valid"


def vwire(w):
    return "(Genuine %d %d)" % (w[1], w[2]) if w[0] == "G" else "(Altered %d)" % w[1]


def vop(op):
    k = op[0]
    return {"N": lambda: "Issue %d %d" % (op[1], op[2]), "B": lambda: "Revoke %d" % op[1], "D": lambda: "Unrevoke %d" % op[1],
            "F": lambda: "Flush", "PT": lambda: "PurgeTc", "PB": lambda: "PurgeBl", "ET": lambda: "EvictTc %d %d" % (op[1], op[2]),
            "EB": lambda: "EvictBl %d" % op[1], "T": lambda: "Advance %d" % op[1], "K": lambda: "Restart %d" % op[1],
            "VR": lambda: "VRouter " + vwire(op[1]), "VV": lambda: "VValidate " + vwire(op[1]),
            "VX": lambda: "VExtract " + vwire(op[1]), "RL": lambda: "RLookup %d %s" % (op[1], vwire(op[2])),
            "RU": lambda: "RUnwrap %d" % op[1], "RS": lambda: "RStore %d" % op[1]}[k]()


def model_history(steps):
    """(op, want) list for Model.first_bad; the sweeper's evictions during an Advance are read off the observation."""
    out, prev = [], None
    nid = len(IDS)
    for st in steps:
        op, want = st["op"], [st["dec"]] + st["snap"]
        if op[0] == "T" and prev is not None:
            ev = []
            for i, ident in enumerate(IDS):
                if prev[2 * i + 1] >= 0 and st["snap"][2 * i + 1] == -1:
                    ev.append(["EB", ident])
            for j, (n, sp) in enumerate(WS):
                if prev[2 * nid + j] >= 0 and st["snap"][2 * nid + j] == -1:
                    ev.append(["ET", n, sp])
            seq = [op] + ev
            for o in seq[:-1]:
                out.append((o, []))
            out.append((seq[-1], want))
        else:
            out.append((op, want))
        prev = st["snap"]
    return out


def run(ck):
    quick = ck.tier == "quick"
    ck.cov["rule"] = ("histories of 12-20 operations over <= 3 tokens (issue with lifetimes 5..1000 s, revoke / un-revoke of token "
                      "and foreign ids, flush, cache purges and single evictions, clock advances 1..300 s incl. the sweeper period, "
                      "restart with another key, validations through Authenticate / cipher.Validate / cipher.Extract of genuine, "
                      "re-spelled, unissued and altered strings, and router requests with operations injected between their atomic "
                      "actions); 9 corpus histories first. distinct_nontrivial = distinct (validator, reason) x (cache hit | miss) "
                      "x decision classes observed on the real code, counted per history with at least one accept and one refusal")
    ck.assume("AES-GCM with an Argon2id key is an ideal AEAD: only ciphertexts produced by tokens.New under the current key decrypt "
              "(Genuine/Altered split of the model; explicit premise of C21_altered_rejected)",
              "the SQLite table 'blacklist' keeps exactly the inserted and not deleted ids; reads do not fail",
              "the clock does not advance inside one atomic action (Unwrap's expiry test and its revocation look-up see one instant)",
              "a restart is the only way the token key changes (key.go); it empties the in-memory caches and ends requests in flight")
    ck.trusted("harness/C21/c21_test.go + zz_caches_peek.go (overlay), the go/ast instrumentation of router/auth.go (harness/C21/instrument: two yield points), "
               "props/C21.py generators, eviction-schedule inference and the Python oracle",
               "correspondence evaluated by vm_compute in a generated cases file (Token.Model.first_bad)")
    ck.coq_stage(GROUP, theorems=["C21_decisions_exact", "C21_accept_iff", "C21_altered_rejected", "C21_old_refuted"])

    inst, msg = instrument(ck)
    if inst is None:
        ck.violation("instrumentation", "cannot place the yield points in Authenticate: " + msg, replay={"log": msg}, found_input=False)
        return
    ok, binp = vf.go_test_build(ck.work, "internal/router",
                                {"internal/router/zz_verif_c21_test.go": os.path.join(vf.HARNESS, "C21", "c21_test.go"),
                                 "internal/caches/zz_verif_c21.go": os.path.join(vf.HARNESS, "C21", "zz_caches_peek.go")},
                                "c21.test", replace={"internal/router/auth.go": inst})
    if not ok:
        ck.violation("harness-build", "harness for internal/router does not build:\n" + binp[-1500:],
                     replay={"log": binp[-3000:]}, found_input=False)
        return

    nh = 4 if quick else 150
    hist = [list(h) for h in CORPUS] + [gen_history(ck.rng, ck.rng.randint(10, 16) if quick else ck.rng.randint(12, 20))
                                        for _ in range(nh)]
    mut_n = 30 if quick else 1500
    mut_explicit = []
    if ck.replay_file:
        rp = json.load(open(ck.replay_file))["replay"]
        hist = [rp["ops"]] if "ops" in rp else []
        mut_explicit = rp.get("mutations", [])
        mut_n = 0 if (hist or mut_explicit) else mut_n
    # the harness is dominated by Argon2id (32 MiB per decryption): histories run in parallel processes (each process has
    # its own caches, revocation table and key), the alteration run beside them
    from concurrent.futures import ThreadPoolExecutor
    nshard = max(1, min(4 if quick else 8, len(hist)))
    shards = [[(i, h) for i, h in enumerate(hist) if i % nshard == k] for k in range(nshard)]

    def run_shard(k):
        inp, outp = os.path.join(ck.work, "in%d.json" % k), os.path.join(ck.work, "out%d.json" % k)
        json.dump([{"id": i, "ntok": NTOK, "ops": h} for i, h in shards[k]], open(inp, "w"))
        rc, log = vf.run_bin(binp, "^TestVerifC21$", {"VERIF_IN": inp, "VERIF_OUT": outp}, timeout=1500)
        if rc != 0 or not os.path.exists(outp):
            return None, log
        return json.load(open(outp)), log

    def run_mut():
        inp, outp = os.path.join(ck.work, "inm.json"), os.path.join(ck.work, "outm.json")
        json.dump({"seed": mut_seed, "n": mut_n, "explicit": mut_explicit, "router": 6}, open(inp, "w"))
        rc, log = vf.run_bin(binp, "^TestVerifC21Mut$", {"VERIF_IN": inp, "VERIF_OUT": outp}, timeout=1500)
        if rc != 0 or not os.path.exists(outp):
            return None, log
        return json.load(open(outp)), log

    mut_seed = ck.rng.randint(1, 2 ** 31)
    results, mres, mlog = [], None, ""
    with ThreadPoolExecutor(max_workers=nshard + 1) as ex:
        futs = [ex.submit(run_shard, k) for k in range(nshard)] if hist else []
        mfut = ex.submit(run_mut) if (mut_n or mut_explicit) else None
        for f in futs:
            r, log = f.result()
            if r is None:
                ck.violation("harness-run", "harness failed:\n" + log[:1500], replay={"log": log[:3000]}, found_input=False)
                return
            results += r
        if mfut:
            mres, mlog = mfut.result()
    results.sort(key=lambda r: r["id"])

    # ---- property oracle on the real decisions
    classes, ndec, nsteps, interleaved = set(), 0, 0, 0
    oracle_failed = set()
    for res in results:
        h = hist[res["id"]]
        if res["err"]:
            ck.violation("harness-history", "history %d: %s" % (res["id"], res["err"]), replay={"ops": h}, found_input=True)
            oracle_failed.add(res["id"])
            continue
        sp, seen, slots = Spec(), set(), {}
        for st in res["steps"]:
            op, dec = st["op"], st["dec"]
            nsteps += 1
            if op[0] == "RL":
                slots[op[1]] = op[2]
                interleaved += 1
            w = op[1] if op[0] in ("VR", "VV", "VX") else (op[2] if op[0] == "RL" else slots.get(op[1]) if op[0] == "RU" else None)
            if dec >= 0 and w is not None:
                ndec += 1
                want, why = sp.valid(w, op[0] in ("VR", "RL", "RU"))
                seen.add((op[0], why, dec))
                if bool(dec) != want:
                    sig = ("accepted-" + why) if dec else "refused-valid"
                    ck.violation(sig, "history %d, step %s: real decision %s for %s but the token is %s at that moment "
                                 "(now=%d key=%d revoked=%s)" % (res["id"], op, "accept" if dec else "refuse", w, why, sp.now,
                                                                 sp.key, sorted(sp.revoked)), replay={"ops": h})
                    oracle_failed.add(res["id"])
            sp.apply(op)
        if any(d == 1 for _, _, d in seen) and any(d == 0 for _, _, d in seen):
            classes |= seen
        if res["id"] < 3:
            ck.sample({"ops": h[:8], "decisions": [s["dec"] for s in res["steps"]][:12]})

    # ---- altered strings
    if mut_n or mut_explicit:
        if mres is None:
            ck.violation("harness-run-mut", "alteration harness failed:\n" + mlog[:1500], replay={"log": mlog[:3000]}, found_input=False)
            return
        if mres["err"] or mres["base"] != [1, 1, 1]:
            ck.violation("genuine-refused", "a fresh token string is not accepted by all validators: %s %s" % (mres["base"], mres["err"]),
                         replay={"mutations": []})
        kinds = {}
        for kind, pos, old, new, same, v, x, r in mres["cases"]:
            kinds[(kind, same)] = kinds.get((kind, same), 0) + 1
            got = [d for d in (v, x, r) if d >= 0]
            if any(d != same for d in got):
                sig = "altered-accepted" if not same else "respelling-refused"
                ck.violation(sig, "token string with byte %d (%r -> %r, kind %d): decisions [validate, extract, router] = %s, "
                             "expected %d (only a hex letter-case change decodes to the same ciphertext)" % (
                                 pos, chr(old), chr(new), kind, [v, x, r], same), replay={"mutations": [[kind, pos, new]]})
        ck.cov.setdefault("input_distribution", {})["alterations"] = {
            "token_length": mres["len"], "cases": len(mres["cases"]),
            "replace/delete/insert": [sum(v for (k, _), v in kinds.items() if k == i) for i in range(3)],
            "case_only_respellings": sum(v for (_, s), v in kinds.items() if s)}

    ck.cov["evaluations"] = nsteps + (len(mres["cases"]) if mres else 0)
    ck.cov["distinct_nontrivial"] = len(classes)
    ck.cov.setdefault("input_distribution", {}).update({
        "histories": len(hist), "corpus": len(CORPUS), "atomic_steps": nsteps, "decisions": ndec,
        "interleaved_requests": interleaved,
        "decision_classes": sorted("%s/%s/%d" % c for c in classes)})

    # ---- correspondence: model (vm_compute) vs implementation, after every atomic step
    if getattr(ck, "coq_broken", None):
        if not ck.viol:
            grp, log = ck.coq_broken
            ck.violation("proof-broken", "Coq development %s no longer checks:\n%s" % (grp, log[-1200:]),
                         replay={"broken": "coq/%s" % grp, "log": log[-3000:]}, found_input=False)
        return
    good = [r for r in results if not r["err"]]
    if not good:
        return
    lines = ["From Token Require Import Model.", "Open Scope Z_scope.",
             "Definition ids : list Z := %s." % vf.vZ(IDS),
             "Definition ws : list (Z * Z) := [%s]." % ";".join("(%d,%d)" % w for w in WS),
             "Definition cases : list (Z * list (op * list Z)) := ["]
    rows = []
    for r in good:
        mh = model_history(r["steps"])
        rows.append("(%d, [%s])" % (r["id"], ";\n   ".join("(%s, %s)" % (vop(o), vf.vZ(w) if w else "[]") for o, w in mh)))
    lines.append(";\n".join(rows))
    lines.append("].")
    lines.append("Definition bad (fixed : bool) : list Z := flat_map (fun c => match first_bad fixed ids ws (init 7) (snd c) 0 with "
                 "Some k => [fst c; Z.of_nat k] | None => [] end) cases.")
    ok, res = vf.coq_eval(GROUP, ck.work, "cases", "\n".join(lines), {"new": "bad true", "old": "bad false"})
    if not ok:
        ck.violation("correspondence-eval", "model evaluation failed:\n" + res[-1500:], replay={"log": res[-3000:]}, found_input=False)
        return
    bad = res["new"]
    ck.cov["traces_validated_against_impl"] = len(good) - len(bad) // 2
    ck.cov["input_distribution"]["histories_where_old_model_differs"] = len(res["old"]) // 2
    for i in range(0, len(bad), 2):
        hid, k = bad[i], bad[i + 1]
        if hid in oracle_failed:
            continue        # a failing input was already reported for this history by the oracle
        mh = model_history([r for r in good if r["id"] == hid][0]["steps"])
        ck.violation("corr-step", "model and implementation disagree in history %d at atomic step %d (%s): real decision/"
                     "revocation table/BlacklistCache/TokenCache = %s" % (hid, k, mh[k][0], mh[k][1]),
                     replay={"ops": hist[hid]}, found_input=False)
