"""C32 Route resolution is deterministic and most specific (internal/router/router.go FindRoute)."""
import json
import os
import vf

GROUP = "Route"
META = {
    "group": "Route",
    "technique": "Coq proofs over a Gallina model of FindRoute as a function of the route list in map-iteration order "
                 "(order-independence under a decidable condition, fewest-variables preference, refutation of the "
                 "unrestricted claim) + vm_compute correspondence with the real FindRoute on generated tables rebuilt in "
                 "several insertion orders + the real route table regenerated from the real declarations on every run",
    "text": "Theorems over the model of FindRoute (routes visited in an arbitrary order): C32_perm_invariant_at / "
            "C32_perm_invariant (when the deciding stage of the tie-break cascade has exactly one qualifying candidate - the "
            "decidable predicate det - every permutation of the table resolves the request to the same route), "
            "C32_certificate_sound / C32_certificate_deterministic (a verified finite enumeration of request classes - segments "
            "abstracted per position to the table's own literals or FRESH, methods to the table's methods or FRESHM, pruning of "
            "prefixes only one route can still match, saturation beyond the longest route, glob routes included: if the boolean "
            "certificate_f T computes to true then det holds for EVERY method string and path string and FindRoute on T is a "
            "function of method and path only), C32_fewest_vars (the chosen route has no more variables than any other candidate "
            "unless one is spelled exactly like the path), C32_history_table / C32_stateless (no hidden state across interleaved "
            "registrations and lookups), C32_empty_path_is_root / C32_old_refuted (fix 0d5a8a0d), C32_refuted (the unrestricted "
            "claim is false for hypothetical tables such as '/' + '/x'; recorded as known findings per deciding stage). On every "
            "run the REAL route table is dumped from the real declarations and the single generated obligation certificate_f "
            "real_routes = true is closed by vm_compute, giving C32_real_table_deterministic: every permutation of the real "
            "table answers every request identically. The model is compared with the real FindRoute (all permutations vs. "
            "re-built and re-iterated maps; histories on one router; ~1970 requests derived from the real table). partial: "
            "service routes discovered from lib/services at start-up, redirects.json and OAuth routes are not in the dumped "
            "table; the unrestricted claim fails for hypothetical tables (known findings)",
    "note": "Trusted: Coq kernel; the hand-written model (string equality of endpoint and path expressed on segment lists, "
            "strings.Count as segment count, the min/max loop expressed by its result) tied to the code by the correspondence "
            "run; ASCII methods only; overlay harnesses harness/C32/*.go; props/C32.py generators and comparison.",
}

STAGE = {0: "single", 1: "same-endpoint", 2: "no-variable-tie", 3: "fewest-variables-tie", 4: "nil-route",
         5: "part-count-tie", 6: "longest-tie"}
METHODS = ["GET", "POST", "ANY", "DELETE"]
SEGS = ["a", "b", "a", "@x", "{{v}}", "{{w}}", "{{v}}", "c", "", "{{g...}}", "{{", "x}}", "{v}", "{{...}}"]

CORPUS = [
    {"routes": [["/", "GET"], ["/x", "GET"]], "reqs": [["GET", "/x"], ["POST", "/x"], ["GET", "/"], ["GET", ""], ["GET", "/x/"]]},
    {"routes": [["/x/", "GET"], ["/x/", "ANY"]], "reqs": [["GET", "/x"], ["POST", "/x"]]},
    {"routes": [["/t/@sql", "ANY"], ["/t/{{n}}", "GET"], ["/{{a}}/{{n}}", "GET"]],
     "reqs": [["GET", "/t/@sql"], ["get", "/t/zz/"], ["GET", "/t"], ["GET", "/t//"], ["GET", ""], ["GET", "/t/{{n}}"]]},
    {"routes": [["/a/{{g...}}", "GET"], ["/a/b", "GET"], ["/{{v}}/{{g...}}", "GET"]],
     "reqs": [["GET", "/a/b"], ["GET", "/a"], ["GET", "/a/b/c/d"], ["GET", "/q/r"], ["GET", "/{{v}}/r"]]},
    {"routes": [["/d/{{v}}/b", "GET"], ["/d/{{v}}/c", "GET"], ["/d/", "POST"]],
     "reqs": [["GET", "/d/"], ["GET", "/d"], ["GET", "/d/1/b"], ["POST", "/d"]]},
    {"routes": [["/d/{{v}}/{{w}}", "PUT"], ["/d/{{v}}/{{w}}/rows", "PUT"], ["/d/{{v}}/{{w}}/permissions", "PUT"]],
     "reqs": [["PUT", "/d/1/"], ["PUT", "/d/1/2"], ["PUT", "/d/1/2/rows"], ["PUT", "/d"]]},
    {"routes": [["/{{v}}/a", "GET"], ["/a/{{v}}", "GET"], ["/{{v}}/{{w}}", "GET"]],
     "reqs": [["GET", "/a/a"], ["GET", "/a"], ["GET", "/a/a/"], ["GET", "//"]]},
    {"routes": [["/", "POST"], ["/a/{{v}}/", "GET"]], "reqs": [["GET", "/a/{{v}}/"], ["GET", "/a/1"], ["PUT", "/zz"]]},
    {"routes": [["", "GET"], ["/a", "GET"]], "reqs": [["GET", "/a"], ["GET", "/b"], ["GET", ""]]},
]


def gen_endpoint(rng):
    r = rng.random()
    if r < 0.04:
        return "/"
    if r < 0.05:
        return ""
    k = rng.choice([1, 1, 2, 2, 2, 3, 3, 4])
    segs = [rng.choice(SEGS) for _ in range(k)]
    if "{{g...}}" in segs and rng.random() < 0.7:      # a glob is normally the last segment
        segs = [s for s in segs if s != "{{g...}}"] + ["{{g...}}"]
    e = "/" + "/".join(segs)
    if rng.random() < 0.3:
        e += "/"
    return e


def gen_paths(rng, routes, n):
    out = []
    vals = ["a", "b", "c", "zz", "@x", "", "{{v}}", "1"]
    while len(out) < n:
        r = rng.random()
        e = rng.choice(routes)[0]
        segs = e.strip("/").split("/") if e.strip("/") else []
        conc = [rng.choice(vals) if s.startswith("{{") and rng.random() < 0.85 else s for s in segs]
        if r < 0.45:
            pass
        elif r < 0.6 and conc:
            conc = conc[:rng.randint(0, len(conc))]
        elif r < 0.75:
            conc = conc + [rng.choice(vals) for _ in range(rng.randint(1, 2))]
        elif r < 0.85 and conc:
            conc[rng.randrange(len(conc))] = rng.choice(vals)
        elif r < 0.9:
            out.append(rng.choice(["", "/", "//", "x", "a", "/a//", "///", "/a/b/"]))
            continue
        else:
            conc = [rng.choice(vals) for _ in range(rng.randint(1, 4))]
        p = "/" + "/".join(conc)
        t = rng.random()
        if t < 0.3:
            p += "/"
        elif t < 0.36:
            p += "//"
        out.append(p)
    return out


def gen_cases(rng, ncases):
    cases = []
    for _ in range(ncases):
        n = rng.choice([1, 2, 2, 3, 3, 3, 4, 4, 5])
        routes, seen = [], set()
        base = gen_endpoint(rng)
        while len(routes) < n:
            e = gen_endpoint(rng)
            r = rng.random()
            if r < 0.25:
                e = base
            elif r < 0.4 and base not in ("", "/"):
                e = base.rstrip("/") + "/" + rng.choice(SEGS)
            elif r < 0.5 and base not in ("", "/"):
                e = base.rstrip("/") if base.endswith("/") else base + "/"
            m = rng.choice(METHODS)
            if (e, m) in seen:
                continue
            seen.add((e, m))
            routes.append([e, m])
        reqs = [[rng.choice(["GET", "GET", "POST", "get", "DELETE", "PUT"]), p] for p in gen_paths(rng, routes, 4)]
        cases.append({"routes": routes, "reqs": reqs})
    return cases


HIST_CORPUS = [
    [["R", "/dsns/{{dsn}}/tables/{{table}}", "GET"], ["L", "GET", "/dsns/prod/tables/@sql"],
     ["R", "/dsns/{{dsn}}/tables/@sql", "GET"], ["L", "GET", "/dsns/prod/tables/@sql"], ["L", "GET", "/dsns/prod/tables/@sql/"]],
    [["L", "GET", "/a"], ["R", "/{{v}}", "ANY"], ["L", "GET", "/a"], ["L", "get", "/a"], ["R", "/a", "GET"], ["L", "GET", "/a"],
     ["R", "/a/", "GET"], ["L", "GET", "/a"], ["L", "POST", "/a"]],
    [["R", "/a/{{g...}}", "GET"], ["L", "GET", "/a/b"], ["R", "/a/b", "GET"], ["L", "GET", "/a/b"], ["L", "GET", "/a/b/c"]],
]


def gen_histories(rng, cases, n):
    """registrations in a random order; after every registration each request of the case is looked up again"""
    out = []
    for c in cases:
        if len(out) >= n:
            break
        if len(c["routes"]) < 2:
            continue
        regs = list(c["routes"])
        rng.shuffle(regs)
        reqs = c["reqs"][:3]
        h = [["L"] + reqs[0]]
        for r in regs:
            h.append(["R"] + r)
            h += [["L"] + q for q in reqs]
        out.append(h)
    return out


def history_lookups(h):
    """[(routes registered so far, request)] for every lookup of the history, in order"""
    sofar, out = [], []
    for o in h:
        if o[0] == "R":
            sofar = sofar + [[o[1], o[2]]]
        else:
            out.append((sofar, [o[1], o[2]]))
    return out


def croute(r):
    return "(mkRoute %s %s)" % (vf.vstr(r[0]), vf.vstr(r[1]))


def creq(q):
    return "(%s, %s)" % (vf.vstr(q[0]), vf.vstr(q[1]))


PRELUDE = """From Common Require Import Base.
From Route Require Import Model.
Open Scope N_scope.
Fixpoint ins_all {A} (x : A) (l : list A) : list (list A) :=
  match l with [] => [[x]] | y :: t => (x :: l) :: map (cons y) (ins_all x t) end.
Fixpoint perms {A} (l : list A) : list (list A) :=
  match l with [] => [[]] | x :: t => flat_map (ins_all x) (perms t) end.
Fixpoint idx (T : list route) (r : route) (i : N) : N :=
  match T with [] => 9999 | a :: t => if route_eqb a r then i else idx t r (i + 1) end.
Definition code (T : list route) (o : outcome) : N :=
  match o with NotFound => 0 | NotAllowed => 1 | FoundNil => 2 | Found r => 3 + idx T r 0 end.
Definition nodup_N (l : list N) : list N :=
  fold_right (fun x acc => if existsb (N.eqb x) acc then acc else x :: acc) [] l.
Definition one (T : list route) (q : str * str) : list N :=
  let cs := nodup_N (map (fun T' => code T (find_route T' (fst q) (snd q))) (perms T)) in
  let m := upper (fst q) in let ps := split (norm_path (snd q)) in
  [N.of_nat (length cs)] ++ cs ++ [if det (cands T m ps) ps then 1 else 0; stage (cands T m ps) ps].
Definition one_fixed (T : list route) (q : str * str) : list N :=
  let m := upper (fst q) in let ps := split (norm_path (snd q)) in
  [code T (find_route T (fst q) (snd q)); code T (find_route (rev T) (fst q) (snd q));
   if det (cands T m ps) ps then 1 else 0; stage (cands T m ps) ps; N.of_nat (length (cands T m ps))].
"""


def model_eval(ck, cases, name):
    """returns per case per request: (set of codes, det, stage) or None on failure"""
    lines = [PRELUDE, "Definition cases : list (list route * list (str * str)) := ["]
    lines.append(";\n".join("([%s], [%s])" % (";".join(croute(r) for r in c["routes"]),
                                               ";".join(creq(q) for q in c["reqs"])) for c in cases))
    lines.append("].")
    ok, res = vf.coq_eval(GROUP, ck.work, name, "\n".join(lines),
                          {"R": "flat_map (fun c => flat_map (one (fst c)) (snd c)) cases"})
    if not ok:
        return None, res
    flat = res["R"]
    out, i = [], 0
    try:
        for c in cases:
            co = []
            for _ in c["reqs"]:
                k = flat[i]
                codes = set(flat[i + 1:i + 1 + k])
                det, stage = flat[i + 1 + k], flat[i + 2 + k]
                i += k + 3
                co.append((codes, det, stage))
            out.append(co)
    except IndexError:
        return None, "short model output"
    if i != len(flat):
        return None, "model output length mismatch"
    return out, ""


def rcode(routes, res):
    st, e, m = res
    if st == "404":
        return 0
    if st == "405":
        return 1
    if st == "200" and e == "" and m == "" and ["", ""] not in routes and ["", "ANY"] not in routes:
        return 2
    if st == "200":
        for i, r in enumerate(routes):
            if r[0] == e and r[1] == m:
                return 3 + i
    return -1


def norm_path(p):
    if p == "":
        p = "/"
    if len(p) > 1:
        p = (p[:-1] if p.endswith("/") else p) + "/"
    return p


def real_table_requests(table):
    """request family derived from the real table: prefixes, full paths, extra / empty / missing segments,
    the endpoint text itself, for every method of the table and one foreign method"""
    methods = sorted({r[1] for r in table}) + ["OPTIONS"]
    paths = {"", "/", "//", "/zz", "/zz/yy"}
    for e, _ in table:
        segs = e.strip("/").split("/")
        conc = ["zz%d" % i if s.startswith("{{") else s for i, s in enumerate(segs)]
        for j in range(1, len(conc) + 1):
            paths.add("/" + "/".join(conc[:j]))
            paths.add("/" + "/".join(conc[:j]) + "//")
        paths.add("/" + "/".join(conc) + "/extra")
        paths.add("/" + "/".join(conc) + "/extra/more")
        paths.add(e)
        if len(conc) > 1:
            paths.add("/" + "/".join(conc[:-1]) + "//" + conc[-1])
            paths.add("/" + "/".join(segs[:-1] + [conc[-1]]))
    reqs, seen = [], set()
    for p in sorted(paths):
        for m in methods:
            k = (m, norm_path(p))
            if k not in seen:
                seen.add(k)
                reqs.append([m, p])
    return reqs


def run(ck):
    quick = ck.tier == "quick"
    ck.cov["rule"] = ("generated tables of 1-5 routes over segments %s (shared prefixes, same endpoint under several methods, "
                      "'/' and '' endpoints) x 4 paths each derived from the endpoints (variables filled, truncated, extended, "
                      "empty segments, trailing slashes) + malformed paths; the real table x a request family derived from it. "
                      "distinct_nontrivial = distinct (table, request) pairs for which the real code reports at least two "
                      "candidates" % sorted(set(SEGS)))
    ck.assume("request methods are ASCII (strings.ToUpper / EqualFold modelled on ASCII)",
              "the real route table is the one built by defineStaticRoutes + defineNativeAdminHandlers with default settings "
              "(no lib/services directory, no redirects.json, OAuth AS/RS disabled)")
    ck.trusted("harness/C32/find_test.go, router_dump.go, table_test.go (overlays), props/C32.py generators and comparison",
               "correspondence evaluated by vm_compute in generated files")
    thms = ["C32_certificate_sound", "C32_certificate_deterministic",
            "C32_refuted", "C32_perm_invariant_at", "C32_perm_invariant", "C32_fewest_vars", "C32_history_table", "C32_stateless",
            "C32_empty_path_is_root", "C32_old_refuted"]
    coq_ok = ck.coq_stage(GROUP, theorems=thms)

    H = os.path.join(vf.HARNESS, "C32")
    ok, binp = vf.go_test_build(ck.work, "internal/router",
                                {"internal/router/zz_verif_dump.go": os.path.join(H, "router_dump.go"),
                                 "internal/router/zz_verif_c32_test.go": os.path.join(H, "find_test.go")}, "c32find.test")
    if not ok:
        ck.violation("harness-build", "harness for internal/router does not build:\n" + binp[-1500:],
                     replay={"log": binp[-3000:]}, found_input=False)
        return
    # ------------------------------------------------------------------ generated tables
    if ck.replay_file:
        rp = json.load(open(ck.replay_file))["replay"]
        cases = [{"routes": rp["routes"], "reqs": rp["reqs"]}] if "routes" in rp else CORPUS[:1]
    else:
        cases = CORPUS + gen_cases(ck.rng, 130 if quick else 1500)
    inp, outp = os.path.join(ck.work, "in.json"), os.path.join(ck.work, "out.json")
    json.dump({"seed": ck.seed, "orders": 8 if quick else 16, "calls": 12 if quick else 24, "cases": cases}, open(inp, "w"))
    rc, log = vf.run_bin(binp, "^TestVerifFindRoute$", {"VERIF_IN": inp, "VERIF_OUT": outp})
    if rc != 0:
        ck.violation("harness-run", "FindRoute harness failed (panic in FindRoute?):\n" + log[-1500:],
                     replay={"log": log[-3000:]}, found_input=False)
        return
    real = json.load(open(outp))
    model, merr = (None, "Coq development broken")
    if coq_ok:
        model, merr = model_eval(ck, cases, "cases")
        if model is None:
            ck.violation("correspondence-eval", "model evaluation failed:\n" + merr[-1500:], replay={"log": merr[-3000:]},
                         found_input=False)
    nontriv, nevals, nd_seen, stage_hist = set(), 0, 0, {}
    for ci, c in enumerate(cases):
        routes = c["routes"]
        for qi, q in enumerate(c["reqs"]):
            nevals += 1
            ro = real[ci][qi]
            R = {rcode(routes, r) for r in ro["res"]}
            rep = {"routes": routes, "reqs": [q], "real": ro["res"]}
            if len(ro["cands"]) >= 2:
                nontriv.add(json.dumps([routes, q]))
            md = model[ci][qi] if model else None
            if md:
                stage_hist[STAGE[md[2]]] = stage_hist.get(STAGE[md[2]], 0) + 1
            # property oracle 1: the answer does not depend on the order
            if len(R) > 1:
                nd_seen += 1
                sig = "order-dependent:" + (STAGE.get(md[2], "?") if md and not md[1] else "unclassified")
                ck.violation(sig, "FindRoute(%r, %r) over table %r returns different routes for different map orders: %r" % (
                    q[0], q[1], routes, ro["res"]), replay=rep)
            # property oracle 2: fewer variables preferred (no candidate spelled exactly like the path)
            np_ = norm_path(q[1])
            cand = [routes[i] for i in ro["cands"]]
            if cand and not any(r[0] == np_ for r in cand):
                for r in ro["res"]:
                    if r[0] == "200" and (r[1] or r[2]):
                        worse = [x for x in cand if x[0].count("{{") < r[1].count("{{")]
                        if worse:
                            ck.violation("fewest-vars", "FindRoute(%r, %r) over %r chose %r although %r has fewer variables" % (
                                q[0], q[1], routes, r[1], worse[0][0]), replay=rep)
            # correspondence
            if md:
                M, det, stage = md
                if -1 in R or not R <= M or (det and R != M):
                    if len(R) > 1 or any(v["signature"] == "fewest-vars" for v in ck.viol):
                        continue
                    ck.violation("corr-find", "model/implementation disagree on FindRoute(%r, %r) over %r: real %r, model codes %r (det=%d)" % (
                        q[0], q[1], routes, ro["res"], sorted(M), det), replay=rep, found_input=False)
    for c in cases[:2]:
        ck.sample({"routes": c["routes"], "request": c["reqs"][0], "real": real[cases.index(c)][0]["res"]})

    # ------------------------------------------------------------------ histories: registrations and lookups interleaved
    nhl = 0
    if ck.replay_file:
        hists = [rp["history"]] if "history" in rp else []
    else:
        hists = HIST_CORPUS + gen_histories(ck.rng, cases[len(CORPUS):], 40 if quick else 400)
    if hists:
        hin, hout = os.path.join(ck.work, "hin.json"), os.path.join(ck.work, "hout.json")
        json.dump({"orders": 3 if quick else 6, "calls": 4 if quick else 8, "histories": hists}, open(hin, "w"))
        rc, log = vf.run_bin(binp, "^TestVerifHistory$", {"VERIF_IN": hin, "VERIF_OUT": hout})
        if rc != 0:
            ck.violation("harness-run", "history harness failed:\n" + log[-1500:], replay={"log": log[-3000:]}, found_input=False)
        else:
            hreal = json.load(open(hout))
            looks = [history_lookups(h) for h in hists]
            hmodel = None
            if coq_ok:
                # consecutive lookups against the same table are one model "case"
                mcases, where = [], []
                for hi, ls in enumerate(looks):
                    for li, (tab, q) in enumerate(ls):
                        if mcases and where[-1][0] == hi and mcases[-1]["routes"] == tab:
                            mcases[-1]["reqs"].append(q)
                        else:
                            mcases.append({"routes": tab, "reqs": [q]})
                        where.append((hi, len(mcases) - 1, len(mcases[-1]["reqs"]) - 1))
                mres, merr = model_eval(ck, mcases, "hcases")
                if mres is None:
                    ck.violation("correspondence-eval", "model evaluation of the histories failed:\n" + merr[-1500:],
                                 replay={"log": merr[-3000:]}, found_input=False)
                else:
                    hmodel, k = [[None] * len(ls) for ls in looks], 0
                    for hi, ls in enumerate(looks):
                        for li in range(len(ls)):
                            _, ci, qi = where[k]
                            hmodel[hi][li] = mres[ci][qi]
                            k += 1
            for hi, ls in enumerate(looks):
                for li, (tab, q) in enumerate(ls):
                    nhl += 1
                    nevals += 1
                    ro = hreal[hi][li]
                    R = {rcode(tab, r) for r in ro["res"]}
                    F = {rcode(tab, r) for r in ro["fresh"]}
                    rep = {"history": hists[hi], "lookup_index": li, "request": q, "registered_so_far": tab,
                           "in_history": ro["res"], "fresh_router_same_table": ro["fresh"]}
                    if len(tab) >= 2:
                        nontriv.add(json.dumps(["hist", tab, q]))
                    # oracle: the answer depends on the table at the time of the request only, not on earlier lookups.
                    # (ties make both sets random samples, so the fresh router is decisive only when the request is decided)
                    if hmodel:
                        M, det, stage = hmodel[hi][li]
                        if -1 in R or not R <= M or (det and R != M):
                            if det and F == M:
                                ck.violation("history-dependent", "lookup #%d %s %r in a history answers %r, but a fresh router holding "
                                             "the same %d routes answers %r, as the model does (history %r)" % (
                                                 li, q[0], q[1], ro["res"], len(tab), ro["fresh"], hists[hi]), replay=rep)
                            else:
                                ck.violation("corr-history", "model/implementation disagree on lookup #%d %s %r of history %r: real %r, "
                                             "fresh router %r, model codes %r over the %d routes registered so far" % (
                                                 li, q[0], q[1], hists[hi], ro["res"], ro["fresh"], sorted(M), len(tab)),
                                             replay=rep, found_input=False)
                    elif len(F) == 1 and not (R & F):
                        ck.violation("history-dependent", "lookup #%d %s %r in a history answers %r, but a fresh router holding the same "
                                     "%d routes answers %r (history %r)" % (li, q[0], q[1], ro["res"], len(tab), ro["fresh"], hists[hi]),
                                     replay=rep)
            ck.sample({"history": hists[0], "lookups": hreal[0]})

    # ------------------------------------------------------------------ the real table
    ok, binc = vf.go_test_build(ck.work, "internal/commands",
                                {"internal/router/zz_verif_dump.go": os.path.join(H, "router_dump.go"),
                                 "internal/commands/zz_verif_c32_test.go": os.path.join(H, "table_test.go")}, "c32tab.test")
    ntab, nreq = 0, 0
    if not ok:
        ck.violation("harness-build", "table dumper for internal/commands does not build:\n" + binc[-1500:],
                     replay={"log": binc[-3000:]}, found_input=False)
    elif not ck.replay_file:
        env = vf.ego_env(ck.work)
        tab = os.path.join(ck.work, "table.txt")
        e2 = {k: env[k] for k in ("HOME", "TMPDIR", "EGO_PATH")}
        rc, log = vf.run_bin(binc, "^TestVerifRouteTable$", dict(e2, VERIF_OUT=tab))
        table = []
        if rc == 0:
            for line in open(tab):
                f = line.split()
                table.append([bytes.fromhex(f[1]).decode(), f[2]])
        ntab = len(table)
        if rc != 0 or ntab < 10:
            ck.violation("table-dump", "the real route table could not be dumped (%d routes):\n%s" % (ntab, log[-1200:]),
                         replay={"log": log[-3000:]}, found_input=False)
        else:
            # the single obligation for ALL requests: the verified enumerator's certificate on the regenerated table
            cert_ok = None
            if coq_ok:
                src = ("From Coq Require Import Permutation.\nFrom Common Require Import Base.\n"
                       "From Route Require Import Model Proofs Enum Properties.\nOpen Scope N_scope.\n"
                       "Definition real_routes : list route := [\n" + ";\n".join(croute(r) for r in table) + "].\n"
                       "Theorem C32_real_table : certificate_f real_routes = true.\nProof. vm_compute. reflexivity. Qed.\n"
                       "Theorem C32_real_table_all_requests : forall m p,\n"
                       "  det (cands real_routes (upper m) (split (norm_path p))) (split (norm_path p)) = true.\n"
                       "Proof. exact (C32_certificate_sound _ C32_real_table). Qed.\n"
                       "Theorem C32_real_table_deterministic : forall T' method path, Permutation real_routes T' ->\n"
                       "  find_route T' method path = find_route real_routes method path.\n"
                       "Proof. exact (C32_certificate_deterministic _ C32_real_table). Qed.\n"
                       "Print Assumptions C32_real_table_deterministic.\n")
                rcq, outq = vf.coq_run(GROUP, ck.work, "RealCertificate", src, timeout=900)
                cert_ok = rcq == 0
                ck.add_obligations(3, 3 if cert_ok else 0)
                ck.cov["real_table_certificate"] = {"holds_for_all_requests": cert_ok, "routes": ntab}
                if cert_ok:
                    ck.trusted("generated C32_real_table / C32_real_table_all_requests / C32_real_table_deterministic: " +
                               ("Closed under the global context" if "Closed under" in outq else outq[-300:]))
            reqs = real_table_requests(table)
            nreq = len(reqs)
            rin, rout = os.path.join(ck.work, "rin.json"), os.path.join(ck.work, "rout.json")
            json.dump({"Builds": 4 if quick else 12, "Calls": 6 if quick else 16, "Reqs": reqs}, open(rin, "w"))
            rc, log = vf.run_bin(binc, "^TestVerifRealFind$", dict(e2, VERIF_IN=rin, VERIF_OUT=rout))
            if rc != 0:
                ck.violation("harness-run", "real-table FindRoute run failed:\n" + log[-1500:], replay={"log": log[-3000:]},
                             found_input=False)
            else:
                rres = json.load(open(rout))
                mres = None
                if coq_ok:
                    pre = PRELUDE + "Definition real_routes : list route := [\n" + ";\n".join(croute(r) for r in table) + "].\n"
                    pre += "Definition reqs : list (str * str) := [\n" + ";\n".join(creq(q) for q in reqs) + "].\n"
                    okc, res = vf.coq_eval(GROUP, ck.work, "RealTable", pre, {"R": "flat_map (one_fixed real_routes) reqs"},
                                           timeout=1200)
                    if not okc:
                        ck.violation("correspondence-eval", "real-table obligations failed to evaluate:\n" + res[-1500:],
                                     replay={"log": res[-3000:]}, found_input=False)
                    else:
                        mres = res["R"]
                        ck.add_obligations(nreq)
                amb = 0
                for i, q in enumerate(reqs):
                    nevals += 1
                    R = {rcode(table, r) for r in rres[i]}
                    rep = {"real_table": True, "reqs": [q], "real": rres[i]}
                    if mres:
                        c1, c2, det, stage, ncand = mres[5 * i:5 * i + 5]
                        if ncand >= 2:
                            nontriv.add(json.dumps(["real", q[0], norm_path(q[1])]))
                        if not det:
                            amb += 1
                            # a class the table does not decide is a finding (reported below), not a discharged obligation
                            ck.cov["discharged"] -= 1
                            ck.cov["obligations"] -= 1
                            sig = "real-table:%s %s" % (q[0], norm_path(q[1]))
                            ck.violation(sig, "the real route table does not decide %s %r independently of the map order "
                                         "(stage %s, %d candidates; model: %d vs %d for reversed order; real results %r)" % (
                                             q[0], q[1], STAGE.get(stage), ncand, c1, c2, rres[i][:4]), replay=rep)
                        elif R != {c1}:
                            ck.violation("corr-real-table", "model/implementation disagree on the real table for %s %r: real %r, model code %d" % (
                                q[0], q[1], rres[i], c1), replay=rep, found_input=len(R) > 1)
                    elif len(R) > 1:
                        ck.violation("real-table:%s %s" % (q[0], norm_path(q[1])), "the real FindRoute returns different routes for %s %r: %r" % (
                            q[0], q[1], rres[i]), replay=rep)
                ck.cov["real_table"] = {"routes": ntab, "request_classes_checked": nreq, "ambiguous": amb}
                if cert_ok is False and not any(v["signature"].startswith("real-table:") or v["signature"] == "corr-real-table"
                                                for v in ck.viol):
                    ck.violation("real-table-certificate", "certificate_f real_routes = true no longer checks: the verified enumerator finds a "
                                 "request class of the real table that the cascade does not decide (none of the %d enumerated requests "
                                 "exhibits it):\n%s" % (nreq, outq[-800:]), replay={"log": outq[-3000:]}, found_input=False)
                ck.sample({"real_table_request": reqs[len(reqs) // 2], "real": rres[len(reqs) // 2]})

    ck.cov["evaluations"] = nevals
    ck.cov["distinct_nontrivial"] = len(nontriv)
    ck.cov["traces_validated_against_impl"] = nevals if model else 0
    ck.cov["input_distribution"] = {"generated_tables": len(cases), "requests": sum(len(c["reqs"]) for c in cases),
                                    "order_dependent_observed": nd_seen, "deciding_stage_histogram": stage_hist,
                                    "histories": len(hists), "history_lookups": nhl,
                                    "real_table_routes": ntab, "real_table_requests": nreq}
    if not coq_ok and not any(v["found_input"] for v in ck.viol):
        grp, log = ck.coq_broken
        ck.violation("proof-broken", "Coq development %s no longer checks (theorems %s):\n%s" % (grp, ", ".join(thms), log[-1200:]),
                     replay={"broken": "coq/%s" % grp, "log": log[-3000:]}, found_input=False)
