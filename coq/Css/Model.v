(* Css/Model.v — executable model for C34 (definitions only).
   - minify_css : byte-exact model of javascript.MinifyCSS (internal/util/javascript/minify_css.go).
     The Go loop works with an index and look-ahead; here it is the equivalent byte automaton: a
     look-ahead becomes a pending mode that is resolved when the next byte arrives.
   - css_lex : CSS Syntax Level 3 tokenisation at the granularity the property needs: whitespace,
     comments, strings, the one-character tokens { } ; , > : and maximal runs of everything else
     (idents, numbers, hashes, functions, other delimiters, escapes) - the finer tokenisation of a run
     is a function of the run alone.
   - norm : drop comments, whitespace next to { } ; , > / after : / at the ends, collapse other
     whitespace, drop redundant semicolons. *)
From Common Require Import Base.
Open Scope N_scope.

Definition is_ws (c : N) : bool := (c =? 32) || (c =? 9) || (c =? 10) || (c =? 13) || (c =? 12).
Definition is_delim (c : N) : bool := (c =? 123) || (c =? 125) || (c =? 59) || (c =? 44) || (c =? 62).
Definition is_quote (c : N) : bool := (c =? 34) || (c =? 39).

(* ---------------------------------------------------------------- MinifyCSS *)
Inductive mode :=
| MNorm                       (* at the top of the loop *)
| MSlash                      (* saw '/', the next byte decides comment or not *)
| MCom | MComStar             (* inside a comment / after '*' inside a comment *)
| MStr (q : N) | MStrEsc (q : N)
| MWs                         (* inside a whitespace run; the space is decided by the next byte *)
| MSemi                       (* after a run of ';' *)
| MSemiWs.                    (* after a run of ';' and whitespace: looking for '}' *)

(* output is kept reversed; every byte carries a tag: true = copied from inside a quoted string
   (quotes included).  The tag does not influence what is produced. *)
Definition obyte := (bool * N)%type.
Definition prev_blocks (rout : list obyte) : bool :=
  match rout with [] => true | (_, p) :: _ => is_delim p || (p =? 58) end.

(* a byte seen at the top of the loop *)
Definition top (rout : list obyte) (c : N) : mode * list obyte :=
  if c =? 47 then (MSlash, rout)
  else if is_quote c then (MStr c, (true, c) :: rout)
  else if is_ws c then (MWs, rout)
  else if c =? 59 then (MSemi, rout)
  else (MNorm, (false, c) :: rout).

Definition feed (s : mode * list obyte) (c : N) : mode * list obyte :=
  let '(m, rout) := s in
  match m with
  | MNorm => top rout c
  | MSlash => if c =? 42 then (MCom, rout) else top ((false, 47) :: rout) c
  | MCom => if c =? 42 then (MComStar, rout) else (MCom, rout)
  | MComStar => if c =? 47 then (MNorm, rout) else if c =? 42 then (MComStar, rout) else (MCom, rout)
  | MStr q => if c =? q then (MNorm, (true, c) :: rout)
              else if c =? 92 then (MStrEsc q, (true, c) :: rout) else (MStr q, (true, c) :: rout)
  | MStrEsc q => (MStr q, (true, c) :: rout)
  | MWs => if is_ws c then (MWs, rout)
           else top (if is_delim c || prev_blocks rout then rout else (false, 32) :: rout) c
  | MSemi => if c =? 59 then (MSemi, rout) else if is_ws c then (MSemiWs, rout)
             else if c =? 125 then top rout c else top ((false, 59) :: rout) c
  | MSemiWs => if is_ws c then (MSemiWs, rout) else if c =? 125 then top rout c else top ((false, 59) :: rout) c
  end.

(* end of input *)
Definition finish (s : mode * list obyte) : list obyte :=
  let '(m, rout) := s in
  match m with
  | MSlash => (false, 47) :: rout
  | MWs => if prev_blocks rout then rout else (false, 32) :: rout
  | MSemi | MSemiWs => (false, 59) :: rout
  | _ => rout
  end.

(* the final loop removes every trailing space, wherever it came from *)
Fixpoint trim_sp (rout : list obyte) : list obyte :=
  match rout with
  | (t, c) :: r => if c =? 32 then trim_sp r else rout
  | [] => []
  end.

Definition run_min (src : list N) : mode * list obyte := fold_left feed src (MNorm, []).
Definition minify_tagged (src : list N) : list obyte := rev (trim_sp (finish (run_min src))).
Definition minify_css (src : list N) : list N := map snd (minify_tagged src).

(* ---------------------------------------------------------------- essential bytes
   What a stylesheet consists of once comments, whitespace outside strings and semicolons outside
   strings are taken away: string bytes (tagged true) and all other bytes, in order.  This is a
   specification automaton: it knows comments and strings, nothing about spaces or semicolons. *)
Inductive emode := ENorm | ESlash | ECom | EComStar | EStr (q : N) | EStrEsc (q : N).

Definition etop (eout : list obyte) (c : N) : emode * list obyte :=
  if c =? 47 then (ESlash, eout)
  else if is_quote c then (EStr c, (true, c) :: eout)
  else if is_ws c || (c =? 59) then (ENorm, eout)
  else (ENorm, (false, c) :: eout).

Definition efeed (s : emode * list obyte) (c : N) : emode * list obyte :=
  let '(m, eout) := s in
  match m with
  | ENorm => etop eout c
  | ESlash => if c =? 42 then (ECom, eout) else etop ((false, 47) :: eout) c
  | ECom => if c =? 42 then (EComStar, eout) else (ECom, eout)
  | EComStar => if c =? 47 then (ENorm, eout) else if c =? 42 then (EComStar, eout) else (ECom, eout)
  | EStr q => if c =? q then (ENorm, (true, c) :: eout)
              else if c =? 92 then (EStrEsc q, (true, c) :: eout) else (EStr q, (true, c) :: eout)
  | EStrEsc q => (EStr q, (true, c) :: eout)
  end.
Definition efinish (s : emode * list obyte) : list obyte :=
  match fst s with ESlash => (false, 47) :: snd s | _ => snd s end.
Definition essential (src : list N) : list obyte := rev (efinish (fold_left efeed src (ENorm, []))).

(* the essential part of a minifier output: drop the spaces and semicolons it wrote outside strings *)
Definition ess_keep (b : obyte) : bool := fst b || negb ((snd b =? 32) || (snd b =? 59)).
Definition ess (out : list obyte) : list obyte := filter ess_keep out.

(* the input ends inside a quoted string that is never closed *)
Definition ends_in_string (src : list N) : bool :=
  match fst (run_min src) with MStr _ | MStrEsc _ => true | _ => false end.

(* ---------------------------------------------------------------- tokens *)
Inductive ctok :=
| CWs | CCom
| CStr (q : N) (body : list N) (closed : bool)
| CD (c : N)                  (* one of  { } ; , > :  *)
| CRun (r : list N).

Definition is_struct (c : N) : bool := is_delim c || (c =? 58).
Definition is_nl (c : N) : bool := (c =? 10) || (c =? 13) || (c =? 12).

Inductive lmode :=
| LNorm | LSlash | LEsc       (* LEsc: saw '\' outside a string *)
| LCom | LComStar
| LStr (q : N) (rbody : list N) | LStrEsc (q : N) (rbody : list N)
| LWs.

(* lexer state: mode, current run (reversed), tokens so far (reversed) *)
Definition lst := (lmode * list N * list ctok)%type.

Definition flush (rrun : list N) (rt : list ctok) : list ctok :=
  match rrun with [] => rt | _ => CRun (rev rrun) :: rt end.

Definition ltop (rrun : list N) (rt : list ctok) (c : N) : lst :=
  if c =? 47 then (LSlash, rrun, rt)
  else if c =? 92 then (LEsc, rrun, rt)
  else if is_quote c then (LStr c [], [], flush rrun rt)
  else if is_ws c then (LWs, [], flush rrun rt)
  else if is_struct c then (LNorm, [], CD c :: flush rrun rt)
  else (LNorm, c :: rrun, rt).

Definition lfeed (s : lst) (c : N) : lst :=
  let '(m, rrun, rt) := s in
  match m with
  | LNorm => ltop rrun rt c
  | LSlash => if c =? 42 then (LCom, [], flush rrun rt) else ltop (47 :: rrun) rt c
  | LEsc => if is_nl c then ltop (92 :: rrun) rt c       (* not a valid escape: '\' is a delim *)
            else (LNorm, c :: 92 :: rrun, rt)            (* escaped code point belongs to the run *)
  | LCom => if c =? 42 then (LComStar, [], rt) else (LCom, [], rt)
  | LComStar => if c =? 47 then (LNorm, [], CCom :: rt) else if c =? 42 then (LComStar, [], rt) else (LCom, [], rt)
  | LStr q rb => if c =? q then (LNorm, [], CStr q (rev rb) true :: rt)
                 else if c =? 92 then (LStrEsc q (c :: rb), [], rt)
                 else if is_nl c then ltop [] (CStr q (rev rb) false :: rt) c   (* bad-string *)
                 else (LStr q (c :: rb), [], rt)
  | LStrEsc q rb => (LStr q (c :: rb), [], rt)
  | LWs => if is_ws c then (LWs, [], rt) else ltop [] (CWs :: rt) c
  end.

Definition lfinish (s : lst) : list ctok :=
  let '(m, rrun, rt) := s in
  match m with
  | LNorm => flush rrun rt
  | LSlash => flush (47 :: rrun) rt
  | LEsc => flush (92 :: rrun) rt
  | LCom | LComStar => CCom :: rt
  | LStr q rb | LStrEsc q rb => CStr q (rev rb) false :: rt
  | LWs => CWs :: rt
  end.

Definition css_lex (src : list N) : list ctok := rev (lfinish (fold_left lfeed src (LNorm, [], []))).

(* ---------------------------------------------------------------- norm *)
Definition is_cws (t : ctok) : bool := match t with CWs => true | _ => false end.
Definition is_ccom (t : ctok) : bool := match t with CCom => true | _ => false end.
Definition tok_delim (t : ctok) : bool := match t with CD c => is_delim c | _ => false end.
Definition tok_blocks (t : ctok) : bool := match t with CD _ => true | _ => false end.  (* { } ; , > and : *)

(* whitespace: state (previous token blocks?, whitespace pending?) *)
Fixpoint normw (pb pend : bool) (l : list ctok) : list ctok :=
  match l with
  | [] => []
  | t :: r =>
    if is_cws t then normw pb true r
    else (if pend && negb pb && negb (tok_delim t) then [CWs] else []) ++ t :: normw (tok_blocks t) false r
  end.

(* semicolons: pending ';' is dropped before '}' and merged with following ones *)
Fixpoint norms (pend : bool) (l : list ctok) : list ctok :=
  match l with
  | [] => if pend then [CD 59] else []
  | t :: r =>
    match t with
    | CD 59 => norms true r
    | CD 125 => t :: norms false r
    | _ => (if pend then [CD 59] else []) ++ t :: norms false r
    end
  end.

Definition norm (l : list ctok) : list ctok :=
  norms false (normw true false (filter (fun t => negb (is_ccom t)) l)).

Fixpoint ctok_eqb (a b : ctok) : bool :=
  match a, b with
  | CWs, CWs | CCom, CCom => true
  | CStr q1 b1 c1, CStr q2 b2 c2 => (q1 =? q2) && str_eqb b1 b2 && Bool.eqb c1 c2
  | CD x, CD y => x =? y
  | CRun x, CRun y => str_eqb x y
  | _, _ => false
  end.
Fixpoint toks_eqb (a b : list ctok) : bool :=
  match a, b with
  | [], [] => true
  | x :: a', y :: b' => ctok_eqb x y && toks_eqb a' b'
  | _, _ => false
  end.

(* the property, as a computable test on one stylesheet *)
Definition preserved_b (s : list N) : bool := toks_eqb (norm (css_lex (minify_css s))) (norm (css_lex s)).

(* ---------------------------------------------------------------- guard
   The stylesheet, read as tokens, has none of the shapes on which MinifyCSS is known to change the
   token sequence:
   - a run, then only comments, then a run (a/**/b): removing the comment joins two tokens;
   - a backslash outside strings (escaped code points in identifiers);
   - a string that is not closed on its line (bad-string), since MinifyCSS reads on to the next quote. *)
Definition has_bs (r : list N) : bool := existsb (N.eqb 92) r.
(* g: 0 = no run just before, 1 = a run just before, 2 = a run and then only comments *)
Fixpoint guard_toks (g : N) (l : list ctok) : bool :=
  match l with
  | [] => true
  | t :: r =>
    match t with
    | CCom => guard_toks (if g =? 0 then 0 else 2) r
    | CRun x => negb (g =? 2) && negb (has_bs x) && guard_toks 1 r
    | CStr _ _ closed => closed && guard_toks 0 r
    | _ => guard_toks 0 r
    end
  end.
Definition css_guard (s : list N) : bool := guard_toks 0 (css_lex s).

(* ---------------------------------------------------------------- separators
   decomment: the stylesheet as a tagged byte stream with comments removed and every whitespace byte
   outside strings written as a space.  A specification automaton like [efeed]: it knows comments and
   strings only. *)
Definition dtop (dout : list obyte) (c : N) : emode * list obyte :=
  if c =? 47 then (ESlash, dout)
  else if is_quote c then (EStr c, (true, c) :: dout)
  else if is_ws c then (ENorm, (false, 32) :: dout)
  else (ENorm, (false, c) :: dout).

Definition dfeed (s : emode * list obyte) (c : N) : emode * list obyte :=
  let '(m, dout) := s in
  match m with
  | ENorm => dtop dout c
  | ESlash => if c =? 42 then (ECom, dout) else dtop ((false, 47) :: dout) c
  | ECom => if c =? 42 then (EComStar, dout) else (ECom, dout)
  | EComStar => if c =? 47 then (ENorm, dout) else if c =? 42 then (EComStar, dout) else (ECom, dout)
  | EStr q => if c =? q then (ENorm, (true, c) :: dout)
              else if c =? 92 then (EStrEsc q, (true, c) :: dout) else (EStr q, (true, c) :: dout)
  | EStrEsc q => (EStr q, (true, c) :: dout)
  end.
Definition decomment (src : list N) : list obyte := rev (efinish (fold_left dfeed src (ENorm, []))).

(* snorm: the byte-level normal form.  An untagged space is a separator, an untagged ';' a semicolon.
   A separator is kept only between two bytes of which the first is not one of { } ; , > : and the
   second is not one of { } ; , > ; semicolons are merged and dropped before '}'.
   State: previous byte blocks / separator pending / semicolon pending / output (reversed). *)
Record snst := SN { sn_pb : bool; sn_pw : bool; sn_ps : bool; sn_out : list obyte }.
Definition sn0 : snst := SN true false false [].

Definition is_sep (x : obyte) : bool := negb (fst x) && (snd x =? 32).
Definition is_semi (x : obyte) : bool := negb (fst x) && (snd x =? 59).

Definition snstep (st : snst) (x : obyte) : snst :=
  if is_sep x then (if sn_pb st then st else SN false true (sn_ps st) (sn_out st))
  else if is_semi x then SN true false true (sn_out st)
  else
    let c := snd x in
    let brace := negb (fst x) && (c =? 125) in
    let o1 := if sn_ps st && negb brace then (false, 59) :: sn_out st else sn_out st in
    let o2 := if sn_pw st && negb (sn_pb st) && negb (is_delim c) then (false, 32) :: o1 else o1 in
    SN (is_delim c || (c =? 58)) false false (x :: o2).

Definition snfinish (st : snst) : list obyte :=
  rev (if sn_ps st then (false, 59) :: sn_out st else sn_out st).
Definition snorm (l : list obyte) : list obyte := snfinish (fold_left snstep l sn0).

(* ---------------------------------------------------------------- css_lex0: the tokenizer of the sub-grammar
   Sub-grammar: whitespace, comments, quoted strings, the one-byte tokens { } ; , > : and runs of any other
   bytes (identifier-like runs, numbers, other punctuation).  css_lex0 strips comments first ([decomment]),
   classifies every byte ([cls]) and merges neighbouring run bytes into runs and neighbouring string bytes
   into strings ([group]).  It differs from css_lex on purpose in three places, all excluded by css_guard:
   a comment between two run bytes does not split the run, a backslash has no special meaning outside strings,
   and a string runs to its closing quote even across a newline. *)
Definition cls (x : obyte) : ctok :=
  if fst x then CStr 0 [snd x] true
  else if snd x =? 32 then CWs
  else if is_struct (snd x) then CD (snd x)
  else CRun [snd x].

Fixpoint group (l : list ctok) : list ctok :=
  match l with
  | [] => []
  | t :: r =>
    match t, group r with
    | CRun a, CRun b :: r' => CRun (a ++ b) :: r'
    | CStr q a c, CStr _ b _ :: r' => CStr q (a ++ b) c :: r'
    | _, gr => t :: gr
    end
  end.

Definition tlex (l : list obyte) : list ctok := group (map cls l).
Definition css_lex0 (s : list N) : list ctok := tlex (decomment s).
(* the normalised token sequence read off the byte-level normal form *)
Definition ntoks0 (l : list obyte) : list ctok := tlex (snorm l).

(* in a tagged stream, a string byte directly followed by a non-string byte is not one of { } ; , > :
   (it is the closing quote) *)
Fixpoint tag_ok (l : list obyte) : bool :=
  match l with
  | x :: ((y :: _) as r) => negb (fst x && negb (fst y) && is_struct (snd x)) && tag_ok r
  | _ => true
  end.

(* css_lex spells a string token as quote kind + body; css_lex0 as the bytes including the quotes *)
Definition strq (t : ctok) : ctok :=
  match t with
  | CStr q b true => CStr 0 (q :: b ++ [q]) true
  | CStr q b false => CStr 0 (q :: b) true
  | _ => t
  end.

(* bridges that are evaluated per case by the check *)
Definition bridge_b (s : list N) : bool :=
  toks_eqb (norm (css_lex0 s)) (group (map strq (norm (css_lex s))))               (* css_lex0 vs css_lex, modulo norm *)
  && toks_eqb (norm (css_lex0 (minify_css s))) (group (map strq (norm (css_lex (minify_css s)))))
  && toks_eqb (norm (css_lex0 s)) (ntoks0 (decomment s))                   (* norm o tlex = tlex o snorm *)
  && toks_eqb (norm (tlex (minify_tagged s))) (ntoks0 (minify_tagged s))
  && toks_eqb (css_lex0 (minify_css s)) (tlex (minify_tagged s)).          (* re-scanning the output finds the same strings *)
