//go:build verif

package tables

// Overlaid into /repo/internal/server/tables by /verif/check C40 (kernel correspondence).
// VERIF_IN JSON lines {"perms":[...]} -> VERIF_OUT lines "panic" | "true" | "false"  (validPermissions)

import (
	"bufio"
	"encoding/json"
	"fmt"
	"os"
	"testing"
)

func TestVerifC40Perms(t *testing.T) {
	in, err := os.Open(os.Getenv("VERIF_IN"))
	if err != nil {
		t.Fatal(err)
	}
	defer in.Close()

	out, err := os.Create(os.Getenv("VERIF_OUT"))
	if err != nil {
		t.Fatal(err)
	}
	defer out.Close()

	w := bufio.NewWriter(out)
	defer w.Flush()

	sc := bufio.NewScanner(in)
	sc.Buffer(make([]byte, 1<<20), 1<<20)

	for sc.Scan() {
		q := struct {
			Perms []string `json:"perms"`
		}{}
		if json.Unmarshal(sc.Bytes(), &q) != nil {
			continue
		}

		r := func() (s string) {
			defer func() {
				if p := recover(); p != nil {
					s = "panic"
				}
			}()

			return fmt.Sprintf("%v", validPermissions(q.Perms))
		}()

		fmt.Fprintln(w, r)
	}
}
