//go:build verif

package services

// Overlaid into /repo/internal/server/services by /verif/check C09 (runtime observation part).
//
// VERIF_IN : JSON [{"id","kind","src","reps","mode"}]
// VERIF_OUT: JSON [{"id","before","after","class","runs","errs"}]
//
// kind = "prog"     : src is an Ego program with func main(); compiled and run the way `ego run file`
//                     does it (source + "\n@entrypoint main"), reps times in this one process
//        "service"  : src is an Ego service (func handler(req, w)); served reps times through the real
//                     ServiceHandler with an httptest recorder (in-process services path)
//        "childproc": runChildProcess on a real OS process; mode = ok | fail | timeout | nostart
//        "childpipe": runChildViaPipe (spawns os.Args[0], which is not a real ego child and exits)
//        "rest"     : rest.Exchange against a loopback server; mode = ok | slow | down, with the
//                     "user code running" flag false so that the progress goroutine is started
//
// For every case the number of live goroutines is sampled (after a settle) before the first and after
// the last repetition.

import (
	"encoding/json"
	"fmt"
	"io"
	"net"
	"net/http"
	"net/http/httptest"
	"os"
	"os/exec"
	"path/filepath"
	"runtime"
	"strings"
	"syscall"
	"testing"
	"time"

	"github.com/tucats/ego/internal/builtins"
	"github.com/tucats/ego/internal/cli/settings"
	"github.com/tucats/ego/internal/defs"
	"github.com/tucats/ego/internal/errors"
	"github.com/tucats/ego/internal/language/bytecode"
	"github.com/tucats/ego/internal/language/compiler"
	"github.com/tucats/ego/internal/language/symbols"
	"github.com/tucats/ego/internal/language/tokenizer"
	"github.com/tucats/ego/internal/router"
	"github.com/tucats/ego/internal/runtime/rest"
)

type verifC09Case struct {
	ID   int    `json:"id"`
	Kind string `json:"kind"`
	Src  string `json:"src"`
	Reps int    `json:"reps"`
	Mode string `json:"mode"`
}

type verifC09Result struct {
	ID     int            `json:"id"`
	Before int            `json:"before"`
	After  int            `json:"after"`
	Runs   int            `json:"runs"`
	Class  map[string]int `json:"class"` // exit class -> count (ok, error, panic, compile, gopanic)
	Note   string         `json:"note"`
	Stacks string         `json:"stacks"`
}

// settled goroutine count: goroutines that have been released need a moment to actually return.
func verifC09Settle() int {
	best := runtime.NumGoroutine()

	for i := 0; i < 40; i++ {
		runtime.Gosched()
		time.Sleep(5 * time.Millisecond)

		n := runtime.NumGoroutine()
		if n < best {
			best = n
		}

		if i >= 4 && n == best {
			// stable for one more round?
			time.Sleep(10 * time.Millisecond)

			if runtime.NumGoroutine() == n {
				return n
			}
		}
	}

	return runtime.NumGoroutine()
}

func verifC09Classify(err error) string {
	switch {
	case err == nil, errors.Equals(err, errors.ErrStop):
		return "ok"
	case strings.Contains(strings.ToLower(err.Error()), "panic"):
		return "panic"
	default:
		return "error"
	}
}

// one `ego run file.ego` style execution in this process
func verifC09RunProgram(src string) (class string) {
	defer func() {
		if r := recover(); r != nil {
			class = "gopanic"
		}
	}()

	symbolTable := symbols.NewSymbolTable("file verif.ego").Shared(true)
	symbolTable.SetAlways(defs.ModeVariable, "run")
	symbolTable.SetAlways(defs.TypeCheckingVariable, defs.NoTypeEnforcement)
	builtins.AddBuiltins(symbolTable.Root())

	comp := compiler.New("run").SetRoot(&symbols.RootSymbolTable).SetExtensionsEnabled(true)
	_ = comp.AutoImport(true, symbolTable)
	comp.Fragment(true)

	tk := tokenizer.New(src+"\n@entrypoint main", true)

	bc, err := comp.Compile("main 'verif.ego'", tk)
	if err != nil {
		return "compile"
	}

	tk.Close()

	ctx := bytecode.NewContext(symbolTable, bc)
	err = ctx.Run()
	_, _ = comp.Close()

	return verifC09Classify(err)
}

func verifC09RunService(dir string, id int, rep int, src string) (class string) {
	defer func() {
		if r := recover(); r != nil {
			class = "gopanic"
		}
	}()

	file := filepath.Join(dir, fmt.Sprintf("svc%d.ego", id))
	if _, statErr := os.Stat(file); statErr != nil {
		if err := os.WriteFile(file, []byte(src), 0o644); err != nil {
			return "setup"
		}
	}

	path := fmt.Sprintf("/services/verif%d", id)
	req := httptest.NewRequest(http.MethodGet, path, strings.NewReader(""))
	rec := httptest.NewRecorder()
	session := &router.Session{
		Path:     path,
		URL:      req.URL,
		Filename: file,
		ID:       1000*id + rep,
		URLParts: map[string]any{},
	}

	status := ServiceHandler(session, rec, req)

	switch {
	case status >= 200 && status < 300:
		return "ok"
	default:
		return fmt.Sprintf("http%d", status)
	}
}

func verifC09ChildProc(mode string) string {
	var cmd *exec.Cmd

	timeout := time.Duration(0)

	switch mode {
	case "ok":
		cmd = exec.Command("/bin/sh", "-c", "echo line")
	case "fail":
		cmd = exec.Command("/bin/sh", "-c", "echo 'Error: bad' 1>&2; exit 3")
	case "timeout":
		cmd = exec.Command("/bin/sh", "-c", "exec sleep 30")
		timeout = 30 * time.Millisecond
	case "oktimeout":
		cmd = exec.Command("/bin/sh", "-c", "echo quick")
		timeout = 5 * time.Second
	default:
		cmd = exec.Command("/nonexistent/verif-c09-binary")
	}

	_, err := runChildProcess(cmd, timeout)
	if err != nil {
		return "error"
	}

	return "ok"
}

func verifC09ChildPipe(id int) string {
	_, _, err := runChildViaPipe(id, ChildServiceRequest{}, 2*time.Second)
	if err != nil {
		return "error"
	}

	return "ok"
}

func TestVerifC09(t *testing.T) {
	raw, err := os.ReadFile(os.Getenv("VERIF_IN"))
	if err != nil {
		t.Fatal(err)
	}

	var cases []verifC09Case
	if err := json.Unmarshal(raw, &cases); err != nil {
		t.Fatal(err)
	}

	// When this binary is started by runChildViaPipe as a pretend child it must simply exit.
	dir := t.TempDir()

	// stdout of the programs is noise here
	devnull, _ := os.OpenFile(os.DevNull, os.O_WRONLY, 0)
	saved, _ := syscall.Dup(1)
	_ = syscall.Dup2(int(devnull.Fd()), 1)

	defer func() {
		_ = syscall.Dup2(saved, 1)
		_ = syscall.Close(saved)
	}()

	settings.SetDefault(defs.ChildServicesSetting, "false")

	// loopback server for the rest cases (its accept loop is a process-wide worker of the harness and
	// exists before any baseline is taken); every response closes its connection so that no client
	// keep-alive goroutine outlives the request.
	srv := httptest.NewServer(http.HandlerFunc(func(w http.ResponseWriter, r *http.Request) {
		w.Header().Set("Connection", "close")
		w.Header().Set("Content-Type", "application/json")

		if strings.Contains(r.URL.Path, "slow") {
			time.Sleep(1200 * time.Millisecond)
		}

		_, _ = io.WriteString(w, `{"msg":"hello"}`)
	}))
	defer srv.Close()

	deadLn, _ := net.Listen("tcp", "127.0.0.1:0")
	deadAddr := deadLn.Addr().String()
	deadLn.Close()

	// warm up one-time process-wide workers (signal delivery loop, caches, ...) before any baseline
	_ = verifC09RunProgram("func main() { fmt.Println(1) }")
	_ = verifC09ChildProc("ok")

	results := make([]verifC09Result, 0, len(cases))

	runOne := func(cs verifC09Case, rep int) string {
		switch cs.Kind {
		case "prog":
			return verifC09RunProgram(cs.Src)
		case "service":
			return verifC09RunService(dir, cs.ID, rep, cs.Src)
		case "childproc":
			return verifC09ChildProc(cs.Mode)
		case "childpipe":
			return verifC09ChildPipe(cs.ID)
		case "rest":
			symbols.RootSymbolTable.SetAlways(defs.UserCodeRunningVariable, false)

			url := srv.URL + "/ok"
			if cs.Mode == "slow" {
				url = srv.URL + "/slow"
			} else if cs.Mode == "down" {
				url = "http://" + deadAddr + "/x"
			}

			var resp map[string]any

			if e := rest.Exchange(url, http.MethodGet, nil, &resp, "verif"); e != nil {
				return "error"
			}

			return "ok"
		}

		return "unknown-kind"
	}

	grown := 0

	for _, cs := range cases {
		r := verifC09Result{ID: cs.ID, Class: map[string]int{}}

		// three cases with growth are enough for a report: the rest is skipped (runs = 0)
		if grown >= 3 {
			r.Note = "skipped"
			results = append(results, r)

			continue
		}

		// one unmeasured execution first: one-time process-wide workers (caches, package
		// initialisation) may legitimately start on the first execution of a kind
		if cs.Kind != "rest" || cs.Mode != "slow" {
			_ = runOne(cs, 0)
		}

		r.Before = verifC09Settle()

		for rep := 0; rep < cs.Reps; rep++ {
			r.Class[runOne(cs, rep+1)]++
			r.Runs++
		}

		r.After = verifC09Settle()

		// give slow finishers (user goroutines that end on their own, a loaded machine) up to 3 s
		for i := 0; i < 30 && r.After > r.Before; i++ {
			time.Sleep(100 * time.Millisecond)
			r.After = verifC09Settle()
		}

		if r.After > r.Before {
			grown++

			buf := make([]byte, 1<<17)
			n := runtime.Stack(buf, true)
			r.Stacks = string(buf[:n])
		}

		results = append(results, r)
	}

	out, _ := json.Marshal(results)
	if err := os.WriteFile(os.Getenv("VERIF_OUT"), out, 0o644); err != nil {
		t.Fatal(err)
	}
}
