From JsMin Require Import Model.
