(* Cache/Model.v — executable model of /repo/internal/caches (cache.go add.go find.go delete.go purge.go).
   Time is in whole seconds (Z); ids, keys and values are Z.  Definitions only, no proofs. *)
From Coq Require Export List ZArith Lia Bool.
Export ListNotations.
Open Scope Z_scope.

(* ---------- association lists keyed by Z (Go maps; iteration order is never observed) *)
Section Assoc.
  Context {V : Type}.
  Fixpoint lookup (k : Z) (m : list (Z * V)) : option V :=
    match m with
    | [] => None
    | (k', v) :: r => if k' =? k then Some v else lookup k r
    end.
  Fixpoint remove (k : Z) (m : list (Z * V)) : list (Z * V) :=
    match m with
    | [] => []
    | (k', v) :: r => if k' =? k then remove k r else (k', v) :: remove k r
    end.
  Definition insert (k : Z) (v : V) (m : list (Z * V)) : list (Z * V) := (k, v) :: remove k m.
End Assoc.

(* ---------- state *)
Record item := mkItem { idata : Z; iexp : Z }.                       (* Item{Data, Expires} *)
Record cache := mkCache { cmax : Z; cttl : Z; citems : list (Z * item) }.  (* Cache{MaxSize, Expiration, Items} *)
Record st := mkSt {
  now : Z;                       (* the clock *)
  caches : list (Z * cache);     (* cacheList *)
  cfg : list (Z * Z);            (* configured lifetimes (repaired code: survives purge) *)
  dttl : Z;                      (* expireTime, the default lifetime *)
  dmax : Z                       (* MaxCacheSize *)
}.

Inductive op :=
| Add (id k v : Z) | Find (id k : Z) | Delete (id k : Z)
| Purge (id : Z) | PurgeLocal (id : Z)
| SetExp (id d : Z) | SetExpBad (id : Z)       (* SetExpiration with a valid / an unparsable duration *)
| Sweep (id : Z) | Advance (d : Z).

Record out := mkOut {
  ofound : option Z;            (* Find: the value returned *)
  oflag : bool;                 (* Find: found; Delete: deleted; Sweep: cache still exists; SetExp: no error *)
  oevict : list (Z * Z * Z);    (* eviction listener calls (id, key, value) made by this operation *)
  opurge : option Z             (* OnPurge hook call *)
}.
Definition out0 (b : bool) := mkOut None b [] None.

Definition set_caches (s : st) (cs : list (Z * cache)) : st := mkSt (now s) cs (cfg s) (dttl s) (dmax s).

(* newCache: MaxSize from the global default; lifetime = default, or (keep = true, the repaired code)
   the lifetime configured for this class earlier *)
Definition new_cache (keep : bool) (s : st) (id : Z) : cache :=
  mkCache (dmax s)
          (if keep then match lookup id (cfg s) with Some d => d | None => dttl s end else dttl s)
          [].

(* time.Now().After(item.Expires) *)
Definition expired (t : Z) (it : item) : bool := iexp it <? t.

Definition step (keep : bool) (s : st) (o : op) : st * out :=
  match o with
  | Add id k v =>
      let c := match lookup id (caches s) with
               | Some c => mkCache (cmax c) (cttl c) (remove k (citems c))
               | None => new_cache keep s id
               end in
      if cmax c <=? Z.of_nat (length (citems c))
      then (set_caches s (insert id c (caches s)), out0 false)
      else (set_caches s (insert id (mkCache (cmax c) (cttl c)
                                      (insert k (mkItem v (now s + cttl c)) (citems c))) (caches s)),
            out0 true)
  | Find id k =>
      match lookup id (caches s) with
      | Some c =>
          match lookup k (citems c) with
          | Some it =>
              (set_caches s (insert id (mkCache (cmax c) (cttl c)
                                          (insert k (mkItem (idata it) (now s + cttl c)) (citems c))) (caches s)),
               mkOut (Some (idata it)) true [] None)
          | None => (s, out0 false)
          end
      | None => (s, out0 false)
      end
  | Delete id k =>
      match lookup id (caches s) with
      | Some c =>
          match lookup k (citems c) with
          | Some it =>
              (set_caches s (insert id (mkCache (cmax c) (cttl c) (remove k (citems c))) (caches s)),
               mkOut None true [(id, k, idata it)] None)
          | None => (s, out0 false)
          end
      | None => (s, out0 false)
      end
  | Purge id => (set_caches s (remove id (caches s)), mkOut None true [] (Some id))
  | PurgeLocal id => (set_caches s (remove id (caches s)), out0 true)
  | SetExp id d =>
      let c := match lookup id (caches s) with Some c => c | None => new_cache keep s id end in
      (mkSt (now s) (insert id (mkCache (cmax c) d (citems c)) (caches s))
            (if keep then insert id d (cfg s) else cfg s) (dttl s) (dmax s),
       out0 true)
  | SetExpBad id => (s, out0 false)
  | Sweep id =>
      match lookup id (caches s) with
      | None => (s, out0 false)
      | Some c =>
          let dead := filter (fun kv => expired (now s) (snd kv)) (citems c) in
          let live := filter (fun kv => negb (expired (now s) (snd kv))) (citems c) in
          (set_caches s (insert id (mkCache (cmax c) (cttl c) live) (caches s)),
           mkOut None true (map (fun kv => (id, fst kv, idata (snd kv))) dead) None)
      end
  | Advance d => (mkSt (now s + Z.max 0 d) (caches s) (cfg s) (dttl s) (dmax s), out0 true)
  end.

Definition init (default_ttl default_max : Z) : st := mkSt 0 [] [] default_ttl default_max.

Definition exec (keep : bool) (s : st) (h : list op) : st :=
  fold_left (fun s o => fst (step keep s o)) h s.
Fixpoint trace (keep : bool) (s : st) (h : list op) : list out :=
  match h with
  | [] => []
  | o :: r => snd (step keep s o) :: trace keep (fst (step keep s o)) r
  end.

(* ---------- observations *)
Definition item_of (s : st) (id k : Z) : option item :=
  match lookup id (caches s) with Some c => lookup k (citems c) | None => None end.
Definition peek (s : st) (id k : Z) : option Z := option_map idata (item_of s id k).
Definition find_result (keep : bool) (s : st) (id k : Z) : option Z := ofound (snd (step keep s (Find id k))).
Definition size (s : st) (id : Z) : Z :=
  match lookup id (caches s) with Some c => Z.of_nat (length (citems c)) | None => 0 end.

(* ---------- history-level specification vocabulary *)
Definition same (i k id key : Z) : bool := (i =? id) && (k =? key).

(* the value most recently stored under (id,key) and not deleted / purged since *)
Definition upd_store (id key : Z) (acc : option Z) (o : op) : option Z :=
  match o with
  | Add i k v => if same i k id key then Some v else acc
  | Delete i k => if same i k id key then None else acc
  | Purge i | PurgeLocal i => if i =? id then None else acc
  | _ => acc
  end.
Definition last_store (id key : Z) (h : list op) : option Z := fold_left (upd_store id key) h None.

Definition is_add_of (id key : Z) (o : op) : bool :=
  match o with Add i k _ => same i k id key | _ => false end.

(* room for key k in cache id (Add is accepted) *)
Definition room (s : st) (id k : Z) : bool :=
  match lookup id (caches s) with
  | Some c => Z.of_nat (length (remove k (citems c))) <? cmax c
  | None => 0 <? dmax s
  end.
Definition ttl_of (keep : bool) (s : st) (id : Z) : Z :=
  match lookup id (caches s) with Some c => cttl c | None => cttl (new_cache keep s id) end.

(* the entry stored under (id,key) with lifetime ttl survives the history h: not overwritten, deleted, purged,
   its class not re-configured, and at every sweep it has been idle (since the last add/find) for at most ttl *)
Fixpoint survives (id key ttl idle : Z) (h : list op) : bool :=
  match h with
  | [] => true
  | o :: r =>
      match o with
      | Add i k _ => if same i k id key then false else survives id key ttl idle r
      | Delete i k => if same i k id key then false else survives id key ttl idle r
      | Find i k => if same i k id key then survives id key ttl 0 r else survives id key ttl idle r
      | Purge i | PurgeLocal i | SetExp i _ => if i =? id then false else survives id key ttl idle r
      | Sweep i => if (i =? id) && (ttl <? idle) then false else survives id key ttl idle r
      | Advance d => survives id key ttl (idle + Z.max 0 d) r
      | SetExpBad _ => survives id key ttl idle r
      end
  end.

Definition no_setexp (id : Z) (h : list op) : bool :=
  forallb (fun o => match o with SetExp i _ => negb (i =? id) | _ => true end) h.

Definition notif_count (id k : Z) (l : list (Z * Z * Z)) : nat :=
  length (filter (fun e => same (fst (fst e)) (snd (fst e)) id k) l).

(* the operation removes the entry (id,k) of state s by deletion or by expiry *)
Definition removed_by (s : st) (o : op) (id k : Z) : bool :=
  match o, item_of s id k with
  | Delete i k', Some _ => same i k' id k
  | Sweep i, Some it => (i =? id) && expired (now s) it
  | _, _ => false
  end.

(* ---------- encodings used by the correspondence run (ids / keys: the universe of the generated history) *)
Definition oz (o : option Z) : Z := match o with Some v => v | None => -1 end.
Definition bz (b : bool) : Z := if b then 1 else 0.
Definition enc_out (ids keys : list Z) (x : out) : list Z :=
  [oz (ofound x); bz (oflag x); oz (opurge x); Z.of_nat (length (oevict x))]
  ++ flat_map (fun id => flat_map (fun k =>
        let l := filter (fun e => same (fst (fst e)) (snd (fst e)) id k) (oevict x) in
        [Z.of_nat (length l); fold_left (fun a e => a + snd e) l 0]) keys) ids.
Definition enc_state (ids keys : list Z) (s : st) : list Z :=
  now s :: flat_map (fun id =>
    match lookup id (caches s) with
    | None => [-1]
    | Some c => [cttl c; cmax c; Z.of_nat (length (citems c))]
                ++ flat_map (fun k => match lookup k (citems c) with
                                      | Some it => [idata it; iexp it]
                                      | None => [-1] end) keys
    end) ids.

Fixpoint zs_eqb (a b : list Z) : bool :=
  match a, b with
  | [], [] => true
  | x :: a', y :: b' => (x =? y) && zs_eqb a' b'
  | _, _ => false
  end.

(* first step of a history whose observation differs from the expected one (None = all agree) *)
Fixpoint first_bad (keep : bool) (ids keys : list Z) (s : st) (h : list (op * list Z)) (i : nat) : option nat :=
  match h with
  | [] => None
  | (o, want) :: r =>
      let (s', x) := step keep s o in
      if zs_eqb (enc_out ids keys x ++ enc_state ids keys s') want
      then first_bad keep ids keys s' r (S i) else Some i
  end.

(* concurrent batches: some order of the batch explains the per-operation results and the final state *)
Fixpoint inserts {A} (x : A) (l : list A) : list (list A) :=
  match l with
  | [] => [[x]]
  | y :: r => (x :: l) :: map (cons y) (inserts x r)
  end.
Fixpoint perms {A} (l : list A) : list (list A) :=
  match l with
  | [] => [[]]
  | x :: r => flat_map (inserts x) (perms r)
  end.
(* one batch element: operation, expected [found; flag; purge] *)
(* whether a concurrent Add was accepted is not observable atomically: reported as -2 by the harness *)
Definition res3 (o : op) (x : out) : list Z :=
  [oz (ofound x); match o with Add _ _ _ => -2 | _ => bz (oflag x) end; oz (opurge x)].
Fixpoint seq_ok (keep : bool) (s : st) (l : list (op * list Z)) : option (st * list (Z * Z * Z)) :=
  match l with
  | [] => Some (s, [])
  | (o, want) :: r =>
      let (s', x) := step keep s o in
      if zs_eqb (res3 o x) want
      then match seq_ok keep s' r with Some (s'', ev) => Some (s'', oevict x ++ ev) | None => None end
      else None
  end.
Definition explains (keep : bool) (ids keys : list Z) (s : st) (final : list Z) (evs : list Z)
           (l : list (op * list Z)) : bool :=
  match seq_ok keep s l with
  | Some (s', ev) => zs_eqb (enc_state ids keys s') final
                     && zs_eqb (enc_out ids keys (mkOut None false ev None)) evs
  | None => false
  end.
Definition linearizable (keep : bool) (ids keys : list Z) (s : st) (final evs : list Z)
           (batch : list (op * list Z)) : bool :=
  existsb (explains keep ids keys s final evs) (perms batch).
