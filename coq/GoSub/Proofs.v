From Coq Require Import List ZArith NArith Bool Lia.
From Common Require Import Base.
From Arith Require Import Model Spec Proofs.
From Opt Require Import Generic Model Proofs.
From GoSub Require Import Model.
Import ListNotations.
Open Scope Z_scope.

Lemma gblock_app fx m a b s :
  gblock fx m (a ++ b) s = match gblock fx m a s with Some (inl s') => gblock fx m b s' | r => r end.
Proof.
  revert s. induction a as [|i r IH]; intros s; [reflexivity|].
  unfold gblock in *. cbn [app run_block]. destruct (gexec fx m i s) as [s' [j|]|x]; try reflexivity. apply IH.
Qed.

Lemma str_eqb_refl_ x : str_eqb x x = true.
Proof. induction x as [|c r IH]; [reflexivity|]. cbn. rewrite N.eqb_refl. exact IH. Qed.

Lemma var_get_vars_of k en x :
  var_get (vars_of k en) x = match GoSub.Model.env_get en x with Some v => Some (SVal (VInt k v)) | None => None end.
Proof.
  induction en as [|[n v] r IH]; [reflexivity|]. cbn [vars_of map var_get GoSub.Model.env_get fst snd].
  destruct (str_eqb n x); [reflexivity|]. exact IH.
Qed.

Lemma env_get_range k en x v : env_ok k en = true -> GoSub.Model.env_get en x = Some v -> in_range k v.
Proof.
  induction en as [|[n w] r IH]; intros Hok Hg; [discriminate Hg|].
  cbn [env_ok forallb snd] in Hok. apply andb_true_iff in Hok. destruct Hok as [H1 H2].
  cbn [GoSub.Model.env_get] in Hg. destruct (str_eqb n x).
  - inversion Hg; subst. now apply in_rangeb_spec.
  - now apply IH.
Qed.

(* binop on two operands as the compiled code presents them: a typed value of kind k or an int literal in k's range *)
Definition item_ok (k : ikind) (it : item) (z : Z) : Prop :=
  in_range k z /\ (it = IV (VInt k z) false \/ it = IV (VInt Int z) true).

Lemma binop_go m k (o : op) a b ca cb ka kb :
  in_range k a -> in_range k b ->
  ((ka = k /\ ca = false) \/ (ka = Int /\ ca = true /\ in_range Int a)) ->
  ((kb = k /\ cb = false) \/ (kb = Int /\ cb = true /\ in_range Int b)) ->
  (ca && cb = false) ->
  binop m o (VInt ka a, ca) (VInt kb b, cb) = doc_arith o k a b.
Proof.
  intros Ra Rb Ha Hb Hc.
  destruct Ha as [[-> ->]|[-> [-> Ra']]], Hb as [[-> ->]|[-> [-> Rb']]]; try discriminate Hc.
  - rewrite binop_matches_doc by assumption. unfold doc_binop. now rewrite ikind_eqb_refl.
  - rewrite binop_matches_doc by assumption. unfold doc_binop.
    destruct (ikind_eqb k Int) eqn:E; [apply ikind_eqb_eq in E; now subst|].
    cbn [andb negb]. pose proof Rb as Rbb. apply in_rangeb_spec in Rbb.
    destruct m; rewrite ?Rbb; rewrite ?wrap_id by assumption; reflexivity.
  - rewrite binop_matches_doc by assumption. unfold doc_binop.
    destruct (ikind_eqb Int k) eqn:E; [apply ikind_eqb_eq in E; now subst|].
    cbn [andb negb]. pose proof Ra as Raa. apply in_rangeb_spec in Raa.
    destruct m; rewrite ?Raa; rewrite ?wrap_id by assumption; reflexivity.
Qed.

Definition aop (o : bop) : op := match o with BAdd => Add | BSub => Sub | BMul => Mul | BDiv => Div end.

Lemma const_info k en e z :
  well_typed k en e = true -> go_eval k en e = GOk z -> is_const e = true -> in_range Int z.
Proof.
  destruct e; try discriminate. cbn. intros H E _. inversion E; subst.
  apply andb_true_iff in H. destruct H as [_ H]. now apply in_rangeb_spec.
Qed.

Lemma exec_bin m o s v1 c1 v2 c2 r :
  stk s = IV v2 c2 :: IV v1 c1 :: r ->
  gexec fx_now m (opc o, ONil) s =
  match binop m (aop o) (v1, c1) (v2, c2) with
  | Ok v => Cont st fail (set_stk s (IV v false :: r)) None
  | Err e => Fail st fail (RArith e, line s, out s)
  | OOM => Fail st fail (ROOM, line s, out s)
  end.
Proof.
  intros Hs. unfold gexec. destruct o; cbn [opc exec arith_of cmp_of aop]; rewrite Hs;
    destruct (binop m _ (v1, c1) (v2, c2)); reflexivity.
Qed.

Lemma compile_correct m k en : env_ok k en = true ->
  forall e s, vars s = vars_of k en -> well_typed k en e = true ->
  match go_eval k en e with
  | GOk z => in_range k z /\ gblock fx_now m (compile e) s = Some (inl (set_stk s (top_of k e z :: stk s)))
  | GPanic => gblock fx_now m (compile e) s = Some (inr (RArith EDivZero, line s, out s))
  | GStuck => False
  end.
Proof.
  intros Hen. induction e as [z|x|o a IHa b IHb]; intros s Hv Hwt.
  - cbn [go_eval]. cbn [well_typed] in Hwt. apply andb_true_iff in Hwt. destruct Hwt as [H1 _].
    split; [now apply in_rangeb_spec|]. reflexivity.
  - cbn [go_eval]. cbn [well_typed] in Hwt. apply andb_true_iff in Hwt. destruct Hwt as [Hu Hg].
    apply negb_true_iff in Hu.
    destruct (GoSub.Model.env_get en x) as [v|] eqn:E; [|discriminate Hg].
    split; [eapply env_get_range; eauto|].
    unfold gblock. cbn [compile run_block]. unfold gexec, nm. cbn [exec]. rewrite Hu, Hv, var_get_vars_of, E.
    reflexivity.
  - cbn [well_typed] in Hwt. apply andb_true_iff in Hwt. destruct Hwt as [Hwt Hcc].
    apply andb_true_iff in Hwt. destruct Hwt as [Hwa Hwb]. apply negb_true_iff in Hcc.
    cbn [go_eval compile]. rewrite gblock_app.
    specialize (IHa s Hv Hwa).
    destruct (go_eval k en a) as [va| |] eqn:Ea; [|rewrite IHa; reflexivity|contradiction].
    destruct IHa as [Ra IHa]. rewrite IHa. rewrite gblock_app.
    set (s1 := set_stk s (top_of k a va :: stk s)).
    specialize (IHb s1 Hv Hwb).
    destruct (go_eval k en b) as [vb| |] eqn:Eb; [|rewrite IHb; reflexivity|contradiction].
    destruct IHb as [Rb IHb]. rewrite IHb.
    unfold gblock. cbn [run_block].
    assert (Hbin : binop m (aop o) (match top_of k a va with IV v c => (v, c) | _ => (VBool false, false) end)
                                  (match top_of k b vb with IV v c => (v, c) | _ => (VBool false, false) end)
                   = doc_arith (aop o) k va vb).
    { unfold top_of.
      destruct (is_const a) eqn:Ca, (is_const b) eqn:Cb; try discriminate Hcc.
      - apply binop_go; [exact Ra|exact Rb|right; split; [reflexivity|split; [reflexivity|exact (const_info k en a va Hwa Ea Ca)]]|left; auto|reflexivity].
      - apply binop_go; [exact Ra|exact Rb|left; auto|right; split; [reflexivity|split; [reflexivity|exact (const_info k en b vb Hwb Eb Cb)]]|reflexivity].
      - apply binop_go; [exact Ra|exact Rb|left; auto|left; auto|reflexivity]. }
    unfold top_of in *.
    destruct (is_const a), (is_const b);
      (erewrite exec_bin by (cbn [set_stk stk s1]; reflexivity));
      cbn [fst snd] in Hbin; rewrite Hbin;
      destruct o; cbn [aop doc_arith];
      try (split; [apply wrap_in_range|destruct s; reflexivity]);
      (destruct (vb =? 0); [destruct s; reflexivity|split; [apply wrap_in_range|destruct s; reflexivity]]).
Qed.
