"""C44 Stored secrets never appear in responses — configuration endpoints (internal/server/admin/config.go)."""
import os
import vf

GROUP = "Secrets"
META = {
    "group": GROUP,
    "technique": "Coq proof that the shared elision decision covers every secret-bearing setting name for any store + vm_compute correspondence and canary scan against both real /admin/config handlers",
    "text": "Theorems C44_config / C44_response_named_clean / C44_response_all_clean: for every settings store and every request, a setting whose name is secret-bearing (the names defined in internal/defs, compared case-insensitively, or any name mentioning a password) is returned as the elided placeholder by both configuration handlers; C44_current_names discharges the side condition for the names of this tree (re-read from the code on every run). The decision function of the model is compared with both real handlers on generated names, and the raw response bodies are scanned for canary values. partial: the /admin/users handlers are only observed (created/updated/listed/deleted users with canary passwords; every response body scanned for the plaintext and the stored credential) and so are the /dsns handlers (sqlite and postgres DSNs with canary passwords); OAuth-client endpoints are read, not driven.",
    "note": "Trusted: Coq kernel; the hand-written model of isSecretSetting / the two handlers (ASCII names; strings.EqualFold and ToLower modelled on ASCII) tied to the code by the correspondence run; the reading of the property that fixes which settings are secret-bearing (token key, logon and refresh tokens, userdata key, default credential, OAuth client secret, any *password* name).",
}
ALPHA = "abcdefghijklmnopqrstuvwxyz.ABCDEFGHIJKLMNOPQRSTUVWXYZ_0123456789"
PATS = ["password", "credential", "credentials", "secret", "token", "key"]


def gen_names(rng, n, defs_names):
    out = []
    for d in defs_names:
        out += [d, d.upper(), d.title(), d + ".x", "x." + d, d[:-1],
                " " + d, d + " ", "\t" + d, " " + d.upper() + " "]   # a handler that normalises the name it looks up must also normalise the name it tests
    out += ["ego.server.token", "EGO.SERVER.TOKEN", "my.password", "my.PASSWORD", "x.credentials", "x.Credential",
            "ego.server.plaintext.passwords", "ego.compiler.optimize", "a", "passwor", "secre", "credentia",
            "SECRET", "pass.word", "********", "ego.server.default.credentials"]
    while len(out) < n:
        ln = rng.randint(1, 24)
        s = "".join(rng.choice(ALPHA) for _ in range(ln))
        r = rng.random()
        if r < 0.45:
            p = rng.choice(PATS)
            if rng.random() < 0.3:
                p = "".join(c.upper() if rng.random() < 0.5 else c for c in p)
            if rng.random() < 0.25:
                p = p[:-1] if rng.random() < 0.5 else p[1:]     # near miss
            k = rng.randint(0, len(s))
            s = s[:k] + p + s[k:]
        out.append(s)
    seen, res = set(), []
    for s in out:
        if s not in seen:
            seen.add(s)
            res.append(s)
    return res


def run(ck):
    quick = ck.tier == "quick"
    ck.cov["rule"] = ("setting names: the secret-bearing names read from internal/defs with case variants, prefixes, "
                      "suffixes and truncations; names with password/credential/secret/token/key (also mixed case, near "
                      "misses) spliced into random names; random names. Each gets a unique canary value; both handlers "
                      "are called. distinct_nontrivial = distinct names on which at least one handler elides")
    ck.assume("names are ASCII; strings.EqualFold/ToLower modelled on ASCII",
              "which settings are secret-bearing is fixed by the property text: token key, logon/refresh tokens, userdata key, default credential, OAuth client secret, any name mentioning a password")
    ck.trusted("harness/C44/c44_test.go (in-package overlay in internal/server/admin), props/C44.py")
    ck.coq_stage(GROUP, theorems=["C44_config", "C44_response_named_clean", "C44_response_all_clean",
                                  "C44_current_names", "C44_old_named_refuted", "C44_old_all_refuted"])
    ok, binp = vf.go_test_build(ck.work, "internal/server/admin",
                                {"internal/server/admin/zz_verif_c44_test.go": os.path.join(vf.HARNESS, "C44", "c44_test.go")},
                                "c44.test")
    if not ok:
        ck.violation("harness-build", "harness for internal/server/admin does not build:\n" + binp[-1500:],
                     replay={"log": binp[-3000:]}, found_input=False)
        return
    inp, outp = os.path.join(ck.work, "in.txt"), os.path.join(ck.work, "out.txt")

    def drive(names):
        with open(inp, "w") as f:
            f.write("\n".join(n.encode().hex() for n in names) + "\n")
        rc, log = vf.run_bin(binp, "^TestVerifC44$", {"VERIF_IN": inp, "VERIF_OUT": outp}, cwd=ck.work)
        if rc != 0:
            return None, log
        D, A, O, L = {}, {}, {}, set()
        for line in open(outp):
            f = line.split()
            if f[0] == "D":
                D[f[1]] = bytes.fromhex(f[2]).decode()
            elif f[0] == "A":
                A[bytes.fromhex(f[1]).decode()] = f[2]
            elif f[0] == "O":
                O[bytes.fromhex(f[1]).decode()] = f[2]
            elif f[0] in ("LA", "LO"):
                L.add((f[0][1], bytes.fromhex(f[1]).decode()))
        return (D, A, O, L), ""

    res, log = drive(["probe"])
    if res is None:
        ck.violation("harness-run", "harness failed:\n" + log[-1500:], replay={"log": log[-3000:]}, found_input=False)
        return
    defs_names = sorted(res[0].values())
    if ck.replay_file:
        import json
        names = json.load(open(ck.replay_file))["replay"].get("names", [])
    else:
        names = gen_names(ck.rng, 400 if quick else 4000, defs_names)
    res, log = drive(names)
    if res is None:
        ck.violation("harness-run", "harness failed:\n" + log[-1500:], replay={"log": log[-3000:]}, found_input=False)
        return
    D, A, O, L = res

    def spec_secret(n):
        return any(n.lower() == d.lower() for d in defs_names) or "password" in n.lower()

    # ---- property oracle on the real handlers
    for n in names:
        if not spec_secret(n):
            continue
        for tag, obs in (("all-settings GET /admin/config", A), ("named-settings POST /admin/config", O)):
            if obs.get(n) != "elided":
                ck.violation("config-leak:" + n.lower(), "%s returns the stored value of secret-bearing setting %r (%s)" % (tag, n, obs.get(n)),
                             replay={"names": [n], "handler": tag})
        for tag in "AO":
            if (tag, n) in L:
                ck.violation("config-leak:" + n.lower(), "response body of handler %s contains the canary stored under secret-bearing setting %r" % (tag, n),
                             replay={"names": [n], "handler": tag})
    ck.cov["evaluations"] = 2 * len(names)
    ck.cov["distinct_nontrivial"] = sum(1 for n in names if A.get(n) == "elided" or O.get(n) == "elided")
    ck.cov["input_distribution"] = {"names": len(names), "secret_by_spec": sum(1 for n in names if spec_secret(n)),
                                    "elided_all": sum(1 for n in names if A.get(n) == "elided"),
                                    "elided_named": sum(1 for n in names if O.get(n) == "elided"),
                                    "secret_names_in_defs": defs_names}
    for n in names[:4] + names[-3:]:
        ck.sample({"name": n, "GET_all": A.get(n), "POST_named": O.get(n), "secret_by_spec": spec_secret(n)})

    # ---- observed remainder: the /admin/users handlers with canary passwords
    ok2, bin2 = vf.go_test_build(ck.work, "internal/server/admin/users",
                                 {"internal/server/admin/users/zz_verif_c44u_test.go": os.path.join(vf.HARNESS, "C44", "users_canary_test.go")},
                                 "c44u.test")
    if not ok2:
        ck.violation("harness-build-users", "users harness does not build:\n" + bin2[-1500:], replay={"log": bin2[-3000:]}, found_input=False)
    else:
        out2 = os.path.join(ck.work, "out_users.txt")
        rc, log = vf.run_bin(bin2, "^TestVerifC44Users$", {"VERIF_OUT": out2, "VERIF_N": "4" if quick else "25"}, cwd=ck.work)
        calls, leaks = 0, []
        if rc != 0 or not os.path.exists(out2):
            ck.violation("harness-run-users", "users harness failed:\n" + log[-1500:], replay={"log": log[-3000:]}, found_input=False)
        else:
            for line in open(out2):
                f = line.split()
                if f[0] == "C":
                    calls += 1
                elif f[0] == "L":
                    leaks.append(f[1:])
            for lk in leaks[:5]:
                ck.violation("users-leak:" + lk[0], "/admin/users handler %r put the %s password of user %s into its response body" % (lk[0], lk[1], lk[2]),
                             replay={"handler": lk[0], "kind": lk[1], "user": lk[2]})
            ck.cov["evaluations"] += calls
            ck.cov["input_distribution"]["user_handler_calls_scanned"] = calls
    # ---- observed remainder: the /dsns handlers with canary passwords (sqlite and postgres providers)
    ok3, bin3 = vf.go_test_build(ck.work, "internal/server/dsns",
                                 {"internal/server/dsns/zz_verif_c44d_test.go": os.path.join(vf.HARNESS, "C44", "dsns_canary_test.go")},
                                 "c44d.test")
    if not ok3:
        ck.violation("harness-build-dsns", "dsns harness does not build:\n" + bin3[-1500:], replay={"log": bin3[-3000:]}, found_input=False)
    else:
        out3 = os.path.join(ck.work, "out_dsns.txt")
        rc, log = vf.run_bin(bin3, "^TestVerifC44DSNs$", {"VERIF_OUT": out3, "VERIF_N": "2" if quick else "10"}, cwd=ck.work)
        calls, leaks = 0, []
        if rc != 0 or not os.path.exists(out3):
            ck.violation("harness-run-dsns", "dsns harness failed:\n" + log[-1500:], replay={"log": log[-3000:]}, found_input=False)
        else:
            for line in open(out3):
                f = line.split()
                if f[0] == "C":
                    calls += 1
                elif f[0] == "L":
                    leaks.append(f[1:])
            for lk in leaks[:5]:
                ck.violation("dsns-leak:" + lk[0], "/dsns handler %r put the %s password of DSN %s into its response body" % (lk[0], lk[1], lk[2]),
                             replay={"handler": lk[0], "kind": lk[1], "dsn": lk[2]})
            ck.cov["evaluations"] += calls
            ck.cov["input_distribution"]["dsn_handler_calls_scanned"] = calls
    # ---- correspondence + regenerated obligation
    if getattr(ck, "coq_broken", None):
        return
    prelude = "\n".join([
        "From Secrets Require Import Model.", "Open Scope N_scope.",
        "Definition defs_names : list str := [%s]." % ";".join(vf.vstr(d) for d in defs_names),
        "Definition cases : list (str * bool * bool) := [%s]." % ";\n".join(
            "(%s, %s, %s)" % (vf.vstr(n), "true" if A.get(n) == "elided" else "false", "true" if O.get(n) == "elided" else "false")
            for n in names),
        "Fixpoint idx (i : nat) (l : list (str * bool * bool)) : list nat := match l with [] => [] | (n, a, o) :: r => "
        "(if Bool.eqb (elides_fixed n) a && Bool.eqb (elides_fixed n) o then [] else [i]) ++ idx (S i) r end.",
        "Definition subset (a b : list str) : bool := forallb (fun x => existsb (str_eqb x) b) a."])
    ok, r = vf.coq_eval(GROUP, ck.work, "cases", prelude, {
        "MISM": "idx 0 cases",
        "OBL": "if forallb elides_fixed defs_names then [1%nat] else [0%nat]",
        "SAME": "if subset defs_names secret_names_here && subset secret_names_here defs_names then [1%nat] else [0%nat]"})
    if not ok:
        ck.violation("correspondence-eval", "model evaluation failed:\n" + r[-1500:], replay={"log": r[-3000:]}, found_input=False)
        return
    ck.add_obligations(2, (1 if r["OBL"] == [1] else 0) + (1 if r["SAME"] == [1] else 0))
    ck.cov["traces_validated_against_impl"] = len(names)
    found = bool(ck.viol)
    if r["OBL"] != [1] and not found:
        ck.violation("obligation-names", "generated obligation 'forallb elides_fixed <secret-bearing names read from internal/defs>' is false: %s" % defs_names,
                     replay={"obligation": "C44_current_names on regenerated names", "names": defs_names}, found_input=False)
    if r["SAME"] != [1] and not found:
        ck.violation("names-drift", "the secret-bearing setting names in internal/defs %s differ from the model's secret_names_here" % defs_names,
                     replay={"correspondence": "secret_names_here vs defs", "names": defs_names}, found_input=False)
    for i in r["MISM"][:5]:
        if not found:
            ck.violation("corr-elide", "model and implementation disagree on eliding %r: GET-all %s, POST-named %s" % (names[i], A.get(names[i]), O.get(names[i])),
                         replay={"names": [names[i]], "correspondence": "elides_fixed vs handlers"}, found_input=False)
