(* GoSub/Loop.v — the three-clause for loop on top of the core statements: `for x := e0; e1 c e2; x++|x-- { body }` at the
   top level of a program.  go_exec_l is Go's semantics with an iteration bound (fuel); compile_l is the Ego compiler's
   emission (internal/language/compiler/for.go) as the real dumps show it: the loop variable lives in a scope of its own
   (PushScope 2 ... PopScope), every iteration runs in a fresh scope holding a copy of the loop variable that is copied
   back before the post statement (Go 1.22 per-iteration semantics), an extra `let` marker pushed before the condition
   is removed by the final DropToMarker.  Definitions only: the loop is tied to the real compiler (bytecode, instruction
   for instruction) and to the real Go / ego outputs by the correspondence; its simulation proof is not part of this
   development. *)
From Coq Require Import List ZArith NArith Bool Arith.
From Common Require Import Base.
From Arith Require Import Model.
From Opt Require Import Generic Model.
From GoSub Require Import Model Stmt.
Import ListNotations.
Open Scope nat_scope.

Inductive lstmt :=
| LBase (p : stmt)
| LFor (x : str) (e0 : expr) (c : cmp) (e1 e2 : expr) (inc : bool) (body : stmt)
| LSeq (a b : lstmt).

(* ---- Go ---- *)
Fixpoint go_loop (k : ikind) (fuel : nat) (x : str) (c : cmp) (e1 e2 : expr) (inc : bool) (body : stmt)
                 (en : env) (out : list Z) (j : nat) : sres :=
  match fuel with
  | O => SStuck
  | S f =>
      match go_eval k en e1 with
      | GOk v1 =>
          match go_eval k en e2 with
          | GOk v2 =>
              if cmp_go c v1 v2 then
                match go_exec k body en out with
                | SNormal en1 out1 jb =>
                    match go_eval k en1 (incdec_expr inc x) with
                    | GOk v => go_loop k f x c e1 e2 inc body (env_set en1 x v) out1 (j + jb + 1)
                    | GPanic => SPanic out1 | GStuck => SStuck end
                | r => r end
              else SNormal (tl en) out (j + 1)          (* the loop variable goes out of scope *)
          | GPanic => SPanic out | GStuck => SStuck end
      | GPanic => SPanic out | GStuck => SStuck end
  end.

Fixpoint go_exec_l (k : ikind) (fuel : nat) (p : lstmt) (en : env) (out : list Z) : sres :=
  match p with
  | LBase q => go_exec k q en out
  | LFor x e0 c e1 e2 inc body =>
      match go_eval k en e0 with
      | GOk v0 => go_loop k fuel x c e1 e2 inc body ((x, v0) :: en) out 0
      | GPanic => SPanic out | GStuck => SStuck end
  | LSeq a b =>
      match go_exec_l k fuel a en out with
      | SNormal en1 out1 j1 =>
          match go_exec_l k fuel b en1 out1 with
          | SNormal en2 out2 j2 => SNormal en2 out2 (j1 + j2)
          | r => r end
      | r => r end
  end.

(* ---- Ego ---- *)
Fixpoint compile_l (base : nat) (p : lstmt) : list instr :=
  match p with
  | LBase q => compile_stmt base q
  | LSeq a b => let ca := compile_l base a in ca ++ compile_l (base + length ca) b
  | LFor x e0 c e1 e2 inc body =>
      let init := [(PushScope, int_op 2); (Push, OM L_let)] ++ compile e0 ++
                  [(SymbolCreate, nm x); (Store, nm x); (DropToMarker, OM L_let); (Push, OM L_let)] in
      let lc := base + length init in
      let cond := compile e1 ++ compile e2 ++ [(cmp_opc c, ONil)] in
      let enter := [(PushScope, ONil); (Load, nm x); (SymbolCreate, nm x); (Store, nm x)] in
      let bstart := lc + length cond + 1 + length enter in
      let cbody := compile_stmt bstart body in
      let leave := [(Load, nm x); (PopScope, ONil); (Store, nm x)] in
      let incr := let_store x (compile (incdec_expr inc x)) in
      let lexit := bstart + length cbody + length leave + length incr + 1 in
      init ++ cond ++ [(BranchFalse, int_op lexit)] ++ enter ++ cbody ++ leave ++ incr ++
      [(Branch, int_op lc)] ++ [(PopScope, ONil); (DropToMarker, ONil)]
  end.

Definition vm_exec_l (m : mode) (k : ikind) (fuel : nat) (en : env) (p : lstmt) : list Z :=
  let code := compile_l 0 p in
  let s := {| stk := []; vars := vars_of k en; line := 0; out := [] |} in
  match run instr st fail (fun i s => match exec fx_now m i s with XCont s' j => Cont st fail s' j | XFail f => Fail st fail f end)
            fuel code code s with
  | Done _ _ s' => rev (map val_z (out s')) ++ [0%Z; Z.of_nat (length (stk s'))]
  | Failed _ _ (RArith EDivZero, _, o) => rev (map val_z o) ++ [1%Z]
  | Failed _ _ (_, _, o) => rev (map val_z o) ++ [2%Z]
  | OutOfFuel _ _ => [3%Z]
  end.
Definition go_result_l (k : ikind) (fuel : nat) (en : env) (p : lstmt) : list Z :=
  match go_exec_l k fuel p en [] with
  | SNormal _ o _ => rev o ++ [0%Z; 0%Z] | SPanic o => rev o ++ [1%Z] | SStuck => [2%Z] end.
