(* NoPanicReq/Model.v — C40: the index / slice arithmetic of the parsers of request pieces, with Go's
   run-time panics as the explicit outcome [Panic].  Executable definitions only.

   Kernels (Go source -> model):
     router/serve.go validatePaging + server/admin/users/list.go, server/admin/tokens.go,
       server/dsns/handler.go (the paging block)                    -> validate_paging, page_slice, paging
     router/serve.go Route.partsMap                                     -> parts_map
     router/serve.go requestWantsBrowserHTML                         -> accept_first
     router/auth.go Authenticate (bearer branch), server/cluster/auth.go -> bearer_token, cluster_token
     server/tables/security.go validPermissions + GrantPermissions loop -> valid_permissions, grant_flags
     server/tables/describe.go (parts[0], parts[len(parts)-1])       -> name_parts
   The Range header parser of the asset handler is modelled and proved in coq/Assets (C39_no_panic). *)
From Common Require Import Base.
From Coq Require Import ZArith List Bool.
Import ListNotations.
Open Scope Z_scope.

Inductive res (A : Type) : Type := Ok (a : A) | Panic.
Arguments Ok {A} a.
Arguments Panic {A}.
Definition bind {A B} (r : res A) (f : A -> res B) : res B :=
  match r with Ok a => f a | Panic => Panic end.
Notation "'do' x <- r ; k" := (bind r (fun x => k)) (at level 200, x name, r at level 100, k at level 200).

Definition len {A} (l : list A) : Z := Z.of_nat (length l).
Definition idx {A} (l : list A) (i : Z) : res A :=
  if (i <? 0) || (len l <=? i) then Panic
  else match nth_error l (Z.to_nat i) with Some x => Ok x | None => Panic end.
Definition slice {A} (l : list A) (lo hi : Z) : res (list A) :=
  if (lo <? 0) || (hi <? lo) || (len l <? hi) then Panic
  else Ok (firstn (Z.to_nat (hi - lo)) (skipn (Z.to_nat lo) l)).

(* strings.Split(s, sep) for a one-byte separator: never an empty list *)
Fixpoint split_on (sep : N) (s : str) : list str :=
  match s with
  | [] => [[]]
  | c :: r => if (c =? sep)%N then [] :: split_on sep r
              else match split_on sep r with f :: fs => (c :: f) :: fs | [] => [[c]] end
  end.

(* ------------------------------------------------------------------ paging *)
(* a query parameter as validatePaging sees it: absent (None) or the result of strconv.Atoi on the
   first value (Some None = not an integer) *)
Inductive pv := PBad | POk (start limit : Z).

Definition validate_paging (has_start has_limit : bool) (sv lv : option (option Z)) (maxl : Z) : pv :=
  if negb has_start && negb has_limit then POk 0 0 else
  let maxl := if maxl <=? 0 then 1000 else maxl in
  let s := if has_start then match sv with
                             | None => Some 0
                             | Some None => None
                             | Some (Some n) => if n <? 0 then None else Some n
                             end else Some 0 in
  match s with
  | None => PBad
  | Some st =>
    let l := if has_limit then match lv with
                               | None => Some 0
                               | Some None => None
                               | Some (Some n) => if (n <=? 0) || (maxl <? n) then None else Some n
                               end else Some 0 in
    match l with None => PBad | Some li => POk st li end
  end.

(* the paging block of the list handlers: items[start:] then [:limit] *)
Definition page_slice {A} (items : list A) (start limit maxsetting : Z) : res (list A) :=
  let limit := if limit =? 0 then (if 0 <? maxsetting then maxsetting else limit) else limit in
  let start := if len items <? start then len items else start in
  do paged <- slice items start (len items);
  if (0 <? limit) && (limit <? len paged) then slice paged 0 limit else Ok paged.

Definition paging {A} (items : list A) has_start has_limit sv lv maxl maxsetting : res (option (list A)) :=
  match validate_paging has_start has_limit sv lv maxl with
  | PBad => Ok None
  | POk s l => do r <- page_slice items s l maxsetting; Ok (Some r)
  end.

(* ------------------------------------------------------------------ partsMap *)
Definition trim_slashes (s : str) : str :=
  let s := match rev s with 47%N :: r => rev r | _ => s end in        (* TrimSuffix "/" *)
  match s with 47%N :: r => r | _ => s end.                           (* TrimPrefix "/" *)

Definition is_var (p : str) : bool :=
  match p with 123%N :: 123%N :: _ => match rev p with 125%N :: 125%N :: _ => true | _ => false end | _ => false end.
Definition is_glob (p : str) : bool :=
  match p with 123%N :: 123%N :: _ => match rev p with 125%N :: 125%N :: 46%N :: 46%N :: 46%N :: _ => true | _ => false end | _ => false end.

(* strings.TrimPrefix(p, "{{") / strings.TrimSuffix(p, "}}") / strings.TrimSuffix(p, "...}}") *)
Definition trim_open (p : str) : str := match p with 123%N :: 123%N :: r => r | _ => p end.
Definition trim_close (p : str) : str := match rev p with 125%N :: 125%N :: r => rev r | _ => p end.
Definition trim_glob (p : str) : str := match rev p with 125%N :: 125%N :: 46%N :: 46%N :: 46%N :: r => rev r | _ => p end.
Definition glob_key (p : str) : str := trim_glob (trim_open p).
Definition var_key (p : str) : str := trim_open (trim_close p).

Inductive part_val := PStr (s : list str) | PBool (b : bool).

Fixpoint parts_loop (pattern : list str) (path_parts : list str) (index : Z) : res (list (str * part_val)) :=
  match pattern with
  | [] => Ok []
  | part :: r =>
    if is_glob part then
      if index <? len path_parts then do rest <- slice path_parts index (len path_parts); Ok [(glob_key part, PStr rest)]
      else Ok [(glob_key part, PStr [])]
    else
      do v <- (if is_var part then
                 if index <? len path_parts then do p <- idx path_parts index; Ok (PStr [p]) else Ok (PStr [])
               else if len path_parts <=? index then Ok (PBool false)
                    else do p <- idx path_parts index; Ok (PBool (str_eqb part p)));
      do more <- parts_loop r path_parts (index + 1);
      Ok ((if is_var part then var_key part else part, v) :: more)
  end.

Definition parts_map (endpoint path : str) : res (list (str * part_val)) :=
  let path := trim_slashes path in
  let segments := split_on 63 path in                                  (* strings.Split(path, "?") *)
  do seg0 <- idx segments 0;
  let path_parts := split_on 47 (trim_slashes seg0) in
  parts_loop (split_on 47 (trim_slashes endpoint)) path_parts 0.

(* requestWantsBrowserHTML: strings.SplitN(token, ";", 2)[0] *)
Definition accept_first (token : str) : res str := idx (split_on 59 token) 0.

(* ------------------------------------------------------------------ Authorization header *)
Definition lower_byte (c : N) : N := if (65 <=? c)%N && (c <=? 90)%N then (c + 32)%N else c.
Fixpoint has_prefix (s p : str) : bool :=
  match p, s with [], _ => true | a :: p', b :: s' => (a =? b)%N && has_prefix s' p' | _, [] => false end.
Definition auth_scheme : str := [98;101;97;114;101;114;32]%N.       (* "bearer " *)

(* Authenticate: else if strings.HasPrefix(strings.ToLower(h), AuthScheme) { token = h[len(AuthScheme):] } *)
Definition bearer_token (h : str) : res (option str) :=
  if len h =? 0 then Ok None else
  if has_prefix (map lower_byte h) auth_scheme then do t <- slice h (len auth_scheme) (len h); Ok (Some t)
  else Ok None.

(* cluster/auth.go: if len(h) <= len(prefix) { return false }; provided := h[len(prefix):] *)
Definition cluster_token (prefix h : str) : res (option str) :=
  if len h <=? len prefix then Ok None else do t <- slice h (len prefix) (len h); Ok (Some t).

(* ------------------------------------------------------------------ table permissions *)
Definition is_space (c : N) : bool := existsb (N.eqb c) [32;9;10;13;11;12]%N.
Fixpoint ltrim (s : str) : str := match s with c :: r => if is_space c then ltrim r else s | [] => [] end.
Definition trim (s : str) : str := rev (ltrim (rev (ltrim s))).

(* validPermissions: true/false; names = accepted lower-case permission names *)
Fixpoint valid_permissions (known : str -> bool) (perms : list str) : res bool :=
  match perms with
  | [] => Ok true
  | p :: r =>
    let p := trim p in
    if len p =? 0 then valid_permissions known r else
    do c <- idx p 0;
    do p' <- (if (c =? 43)%N || (c =? 45)%N then slice p 1 (len p) else Ok p);
    if known p' then valid_permissions known r else Ok false
  end.

(* the grant loop: result = list of (name, setting); None = 400 invalid name.  fx = the repaired code *)
Fixpoint grant_loop (fx : bool) (known : str -> bool) (perms : list str) : res (option (list (str * bool))) :=
  match perms with
  | [] => Ok (Some [])
  | k :: r =>
    let k := if fx then trim k else k in
    if fx && (len k =? 0) then grant_loop fx known r else
    do c <- idx k 0;
    do ks <- (if (c =? 45)%N then do k' <- slice k 1 (len k); Ok (k', false)
              else do c2 <- idx k 0;
                   if (c2 =? 43)%N then do k' <- slice k 1 (len k); Ok (k', true) else Ok (k, true));
    if known (fst ks) then
      do more <- grant_loop fx known r;
      Ok (match more with Some m => Some (ks :: m) | None => None end)
    else Ok None
  end.

Definition grant_flags (fx : bool) (known : str -> bool) (perms : list str) : res (option (list (str * bool))) :=
  do v <- valid_permissions known perms;
  if v then grant_loop fx known perms else Ok None.

(* describe.go: parts := TableNameParts(...) = strings.Split(full, "."), then parts[0] / parts[len-1] *)
Definition name_parts (full : str) : res (str * str) :=
  let parts := split_on 46 full in
  if 2 <=? len parts then do a <- idx parts 0; do b <- idx parts (len parts - 1); Ok (a, b)
  else do b <- idx parts 0; Ok ([], b).

(* ------------------------------------------------------------------ admin/users/update.go *)
(* UpdateUserHandler's validation loop over the permissions of the body: blank entries (after trimming)
   are skipped, then perm[0] is inspected.  early_trim = true: only the literally empty entry is skipped
   and the entry is trimmed before perm[0] (a whitespace-only entry then indexes an empty string).
   ok = the name check of the remaining text; result false = 400. *)
Fixpoint user_perms (early_trim : bool) (ok : str -> bool) (perms : list str) : res bool :=
  match perms with
  | [] => Ok true
  | p :: r =>
    if (if early_trim then len p =? 0 else len (trim p) =? 0) then user_perms early_trim ok r else
    let p := if early_trim then trim p else p in
    do c <- idx p 0;
    do p' <- (if (c =? 43)%N || (c =? 45)%N then slice p 1 (len p) else Ok p);
    if ok p' then user_perms early_trim ok r else Ok false
  end.
