//go:build verif

package services

// Overlaid into /repo/internal/server/services by /verif/check C42.
// VERIF_IN lines:   B <n>                     start a batch of the next n requests, run concurrently (n=1: alone)
//                   R <id> <q> <user> <body> [svc]  one request to echo service svc (0: /services/verif/<id>, 1: /services/verif2/<id>/<user>) (hex fields)
// VERIF_OUT lines:  R <index> <status> <hex response body>
//                   N <svc> <hex name> <hex value>   scalar symbols of the table cached with service svc (after all requests)

import (
	"bufio"
	"encoding/hex"
	"fmt"
	"net/http"
	"net/http/httptest"
	"os"
	"path/filepath"
	"strconv"
	"strings"
	"sync"
	"testing"

	"github.com/tucats/ego/internal/router"
)

const verifEchoService = `@endpoint get path="/services/verif/{{id}}"

import "http"
import "fmt"

func handler(req http.Request, w *http.ResponseWriter) {
    mine := req.URL.Parts["id"]
    count := 0
    for i := 0; i < 200; i = i + 1 {
        count = count + 1
    }
    w.WriteHeader(200)
    w.Write(fmt.Sprintf("parts=%v|bare=%v|q=%v|user=%v|body=%v|mine=%v|count=%v", req.URL.Parts["id"], id, req.Parameters["q"], req.Username, req.Body, mine, count))
}
`

const verifEchoService2 = `@endpoint get path="/services/verif2/{{id}}/{{sub}}"

import "http"
import "fmt"

func handler(req http.Request, w *http.ResponseWriter) {
    mine := req.URL.Parts["sub"]
    w.WriteHeader(200)
    w.Write(fmt.Sprintf("parts=%v|bare=%v|q=%v|user=%v|body=%v|mine=%v|sub=%v", req.URL.Parts["id"], id, req.Parameters["q"], req.Username, req.Body, mine, sub))
}
`

const verifPkgSource = `package verifpkg

func Echo(tag string, n int) string {
    defer func() { }()
    label := "<" + tag + ">"
    sum := 0
    for i := 0; i < n; i = i + 1 {
        sum = sum + i
    }
    return label + tag
}
`

const verifEchoService3 = `@endpoint get path="/services/verif3/{{id}}"

import "http"
import "fmt"
import "%s"

func handler(req http.Request, w *http.ResponseWriter) {
    mine := req.URL.Parts["id"]
    w.WriteHeader(200)
    w.Write(fmt.Sprintf("parts=%%v|bare=%%v|q=%%v|user=%%v|body=%%v|mine=%%v|pk=%%v", req.URL.Parts["id"], id, req.Parameters["q"], req.Username, req.Body, mine, verifpkg.Echo(req.Username, 400)))
}
`

type verifReq struct {
	id, q, user, body string
	svc             int
}

func unhex(s string) string {
	if s == "-" {
		return ""
	}

	b, _ := hex.DecodeString(s)

	return string(b)
}

func TestVerifC42(t *testing.T) {
	dir := t.TempDir()
	name := filepath.Join(dir, "verif.ego")

	src := verifEchoService
	if alt := os.Getenv("VERIF_SERVICE"); alt != "" {
		b, _ := os.ReadFile(alt)
		src = string(b)
	}

	if err := os.WriteFile(name, []byte(src), 0o644); err != nil {
		t.Fatal(err)
	}

	name2 := filepath.Join(dir, "verif2.ego")
	if err := os.WriteFile(name2, []byte(verifEchoService2), 0o644); err != nil {
		t.Fatal(err)
	}

	pkgdir := filepath.Join(dir, "verifpkg")
	if err := os.MkdirAll(pkgdir, 0o755); err != nil {
		t.Fatal(err)
	}

	if err := os.WriteFile(filepath.Join(pkgdir, "verifpkg.ego"), []byte(verifPkgSource), 0o644); err != nil {
		t.Fatal(err)
	}

	name3 := filepath.Join(dir, "verif3.ego")
	if err := os.WriteFile(name3, []byte(fmt.Sprintf(verifEchoService3, pkgdir)), 0o644); err != nil {
		t.Fatal(err)
	}

	in, err := os.Open(os.Getenv("VERIF_IN"))
	if err != nil {
		t.Fatal(err)
	}
	defer in.Close()

	out, err := os.Create(os.Getenv("VERIF_OUT"))
	if err != nil {
		t.Fatal(err)
	}
	defer out.Close()

	var (
		batches [][]verifReq
		want    int
	)

	sc := bufio.NewScanner(in)
	sc.Buffer(make([]byte, 1<<20), 1<<20)

	for sc.Scan() {
		f := strings.Fields(sc.Text())
		if len(f) == 0 {
			continue
		}

		switch f[0] {
		case "B":
			want, _ = strconv.Atoi(f[1])
			batches = append(batches, nil)
		case "R":
			if want > 0 {
				rq := verifReq{id: unhex(f[1]), q: unhex(f[2]), user: unhex(f[3]), body: unhex(f[4])}
				if len(f) > 5 && f[5] == "1" {
					rq.svc = 1
				} else if len(f) > 5 && f[5] == "2" {
					rq.svc = 2
				}

				batches[len(batches)-1] = append(batches[len(batches)-1], rq)
			}
		}
	}

	var mu sync.Mutex

	index := 0
	sessionID := 100

	for _, batch := range batches {
		var wg sync.WaitGroup

		for _, rq := range batch {
			myIndex := index
			index++
			sessionID++

			run := func(rq verifReq, myIndex, sid int) {
				defer wg.Done()

				req := httptest.NewRequest(http.MethodGet, "/services/verif/"+rq.id+"?q="+rq.q, strings.NewReader(rq.body))
				req.Header.Set("Accept", "text/plain")

				session := &router.Session{
					ID:         sid,
					Path:       "/services/verif/{{id}}",
					Filename:   name,
					User:       rq.user,
					URLParts:   map[string]any{"services": true, "verif": true, "id": rq.id},
					Parameters: map[string][]string{"q": {rq.q}},
				}

				if rq.svc == 1 {
					req = httptest.NewRequest(http.MethodGet, "/services/verif2/"+rq.id+"/"+rq.user+"?q="+rq.q, strings.NewReader(rq.body))
					req.Header.Set("Accept", "text/plain")

					session.Path = "/services/verif2/{{id}}/{{sub}}"
					session.Filename = name2
					session.URLParts = map[string]any{"services": true, "verif2": true, "id": rq.id, "sub": rq.user}
				}

				if rq.svc == 2 {
					req = httptest.NewRequest(http.MethodGet, "/services/verif3/"+rq.id+"?q="+rq.q, strings.NewReader(rq.body))
					req.Header.Set("Accept", "text/plain")

					session.Path = "/services/verif3/{{id}}"
					session.Filename = name3
					session.URLParts = map[string]any{"services": true, "verif3": true, "id": rq.id}
				}

				w := httptest.NewRecorder()
				status := ServiceHandler(session, w, req)

				mu.Lock()
				fmt.Fprintf(out, "R %d %d %s\n", myIndex, status, hex.EncodeToString(w.Body.Bytes()))
				mu.Unlock()
			}

			wg.Add(1)

			if len(batch) == 1 {
				run(rq, myIndex, sessionID)
			} else {
				go run(rq, myIndex, sessionID)
			}
		}

		wg.Wait()
	}

	for svc, ep := range []string{"/services/verif/{{id}}", "/services/verif2/{{id}}/{{sub}}", "/services/verif3/{{id}}"} {
		serviceCacheMutex.Lock()
		item := ServiceCache[ep]
		serviceCacheMutex.Unlock()

		if item == nil || item.s == nil {
			continue
		}

		for _, k := range item.s.Names() {
			v, _ := item.s.GetLocal(k)

			switch v.(type) {
			case string, int, int32, int64, bool, float64:
				fmt.Fprintf(out, "N %d %s %s\n", svc, hex.EncodeToString([]byte(k)), hex.EncodeToString([]byte(fmt.Sprintf("%v", v))))
			}
		}
	}
}
