(* RtConv/Proofs.v — lemmas for C11. *)
From RtConv Require Import Model.
Open Scope Z_scope.

Lemma coerce_all_id k l : forallb (has_kind k) l = true -> coerce_all k l = Ok l.
Proof.
  induction l as [|v r IH]; cbn [forallb coerce_all]; intros H; [reflexivity|].
  apply andb_true_iff in H as [H1 H2]. unfold coerce. rewrite H1, (IH H2). reflexivity.
Qed.

Lemma to_from_kinds k : kmem k to_native_kinds = true -> kmem k from_native_kinds = true.
Proof. destruct k; cbn; intros H; try reflexivity; discriminate. Qed.

Lemma conv_roundtrip v :
  match v with
  | EScalar _ => True
  | EArray k elems => kmem k to_native_kinds = true /\ forallb (has_kind k) elems = true
  end ->
  exists g, to_native v = Ok g /\ from_native g = Ok v.
Proof.
  destruct v as [s|k elems]; intros H.
  - exists (GScalar s). split; reflexivity.
  - destruct H as [Hk He]. exists (GSlice k elems). cbn [to_native from_native].
    rewrite Hk, (coerce_all_id k elems He), (to_from_kinds k Hk). split; reflexivity.
Qed.

Lemma args_new_ok : forall params args l,
  args_new params args = Ok l ->
  forall i k a, nth_error params i = Some k -> nth_error args i = Some a -> coerce k a = Ok a /\ nth_error l i = Some a.
Proof.
  induction params as [|k0 ps IH]; intros args l H i k a Hp Ha.
  - destruct i; discriminate.
  - destruct args as [|a0 r]; [destruct i; discriminate|].
    cbn [args_new] in H. destruct (coerce k0 a0) as [v|] eqn:Ec; [|discriminate].
    destruct (args_new ps r) as [l'|] eqn:En; [|discriminate]. inversion H; subst.
    assert (Hv : v = a0). { unfold coerce in Ec. destruct (has_kind k0 a0); [inversion Ec; reflexivity|discriminate]. }
    subst v. destruct i as [|i].
    + cbn in Hp, Ha. inversion Hp; inversion Ha; subst. split; [exact Ec|reflexivity].
    + cbn [nth_error] in *. eapply IH; eauto.
Qed.

Lemma push_multi_order {A} (l st : list A) : push_multi l st = l ++ st.
Proof.
  unfold push_multi. revert st. induction l as [|x r IH]; intros st; [reflexivity|].
  cbn [rev]. rewrite fold_left_app. cbn [fold_left]. rewrite IH. reflexivity.
Qed.

(* Roman numerals: finite domain by reflection *)
Open Scope N_scope.
Definition roman_ok (n : nat) : bool :=
  match itor (Z.of_nat n) with
  | Some s => match rtoi s with Some m => m =? N.of_nat n | None => false end
  | None => false
  end.
Lemma roman_all : forallb roman_ok (seq 1 3999) = true.
Proof. vm_compute. reflexivity. Qed.

Lemma roman_roundtrip (n : Z) : (1 <= n <= 3999)%Z -> exists s, itor n = Some s /\ rtoi s = Some (Z.to_N n).
Proof.
  intros Hn. pose proof roman_all as H. rewrite forallb_forall in H.
  specialize (H (Z.to_nat n)). assert (Hin : In (Z.to_nat n) (seq 1 3999)) by (apply in_seq; lia).
  specialize (H Hin). unfold roman_ok in H. rewrite Z2Nat.id in H by lia.
  destruct (itor n) as [s|]; [|discriminate]. exists s. split; [reflexivity|].
  destruct (rtoi s) as [m|]; [|discriminate]. apply N.eqb_eq in H. subst m. f_equal. lia.
Qed.
