From JsMin Require Import Model Proofs.
