(* Shared/Properties.v — property theorems of C08 only; proofs live in Proofs.v. *)
From Coq Require Import List Arith Bool ZArith Permutation.
Import ListNotations.
From Shared Require Import Model Proofs.

(* No schedule of the launcher's and the new goroutine's table operations races, provided what the code
   establishes: (1) every table both can reach is marked shared at the fork (goByteCode marks the captured
   chain before `go`; the child parents its own table at the first SHARED ancestor), (2) each goroutine
   otherwise touches only tables below roots it created itself.  Any number of operations, any
   interleaving (the list il is arbitrary), further Shared(true) calls (nested go statements) included. *)
Theorem C08_marked_before_conflict :
  forall (sc : scopes) (U : list table) (S0 : flags) (il : list (tid * act)),
    disjoint_scopes sc U = true ->
    (forall e, In e il -> In (act_tbl (snd e)) U) ->
    well_scoped sc il = true ->
    (forall t, In t (common sc) -> is_shared S0 t = true) ->
    raced (run S0 il) = false.
Proof. exact run_no_race. Qed.

(* The statement for the child's real action list.  Repaired code (7d20e5f5): the start-up touches no table
   of the launcher, so every schedule of well-scoped bodies is race free. *)
Theorem C08_no_race_all_schedules : C08_statement.
Proof. exact statement_holds. Qed.

(* Before the repair GoRoutine's start-up read the next-scope cache of the launcher's current scope table,
   which only the launcher may touch and which is not marked shared: the statement fails (schedule: the
   launcher fills the cache in a Get while the new goroutine consults it).  Confirmed by the race detector. *)
Theorem C08_startup_old_refuted : ~ statement_with child_startup_old.
Proof. exact statement_old_refuted. Qed.

Theorem C08_startup_old_schedule :
  raced (run (fork_state_new [[0]] cap0) startup_schedule) = true /\ well_scoped sc0 startup_schedule = false.
Proof. exact startup_races. Qed.

(* The next-scope cache: a Get that falls through a boundary table holds only that table's read lock, so it
   must not store into a shared table.  As coded (cache skipped for shared tables) it never does ... *)
Theorem C08_read_locked_lookup_writes_nothing_shared :
  forall B S t u, In u (lookup_dirty false B S t) -> is_shared S u = false.
Proof. exact lookup_dirty_unshared. Qed.

(* ... and the variant that caches on shared tables too races (two goroutines resolving a global through
   the captured function scope, both under its read lock), while the code as it is does not *)
Theorem C08_cache_on_shared_refuted :
  raced (run_pol true (fork_state_new [[0]] [1; 0]) cache_schedule) = true /\
  raced (run_pol false (fork_state_new [[0]] [1; 0]) cache_schedule) = false.
Proof. exact cache_on_shared_races. Qed.

(* hypothesis (1) is what the repaired goByteCode establishes for a closure: the whole captured chain *)
Theorem C08_fork_marks_captured_chain :
  forall S cap t, In t (suffixes cap) -> is_shared (fork_state_new S cap) t = true.
Proof. exact fork_marks. Qed.

(* BUG-94 (marking done by the new goroutine): there is a schedule with a race, and one without *)
Theorem C08_old_refuted :
  raced (run [[0]] old_schedule) = true /\ well_scoped sc0 old_schedule = true.
Proof. exact old_races. Qed.

(* fully synchronized programs: whatever the order in which the critical sections / hand-offs of the
   goroutines are serialised, every shared variable ends with the same value *)
Theorem C08_sync_deterministic :
  forall (a b il1 il2 : list section) (s : store) (v : nat),
    interleave a b il1 -> interleave a b il2 ->
    get v (run_sections il1 s) = get v (run_sections il2 s).
Proof.
  intros a b il1 il2 s v H1 H2. apply sections_deterministic.
  eapply Permutation_trans; [apply Permutation_sym, interleave_perm; eassumption|apply interleave_perm; assumption].
Qed.

Theorem C08_sync_deterministic_any_threads :
  forall (l1 l2 : list section) (s : store) (v : nat),
    Permutation l1 l2 -> get v (run_sections l1 s) = get v (run_sections l2 s).
Proof. intros. apply sections_deterministic. assumption. Qed.

(* non-vacuity: closure goroutine; launcher keeps writing the captured scope and a new block scope, the
   child reads/writes the captured scope, its frame table, and marks its own frame for a nested go *)
Example C08_nonvacuous :
  let S0 := fork_state_new [[0]] cap0 in
  let il := [(P, Write cap0); (C, Read cap0); (P, Write [7; 1; 0]); (C, Write [8; 1; 0]); (C, Write cap0);
             (C, Mark [8; 1; 0]); (P, Read [0]); (C, Read [8; 1; 0]); (P, Write cap0);
             (P, Lookup cap0); (C, Lookup cap0); (C, Lookup [8; 1; 0]); (P, Lookup [7; 1; 0])] in
  let U := [cap0; [0]; [7; 1; 0]; [8; 1; 0]; []] in
  disjoint_scopes sc0 U = true /\ well_scoped sc0 il = true /\
  forallb (is_shared S0) (common sc0) = true /\ raced (run S0 il) = false /\
  raced (run [[0]] il) = true.
Proof. vm_compute. repeat split; reflexivity. Qed.
