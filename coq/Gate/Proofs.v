(* Gate/Proofs.v — lemmas for C20 *)
From Common Require Import Base.
From Gate Require Import Model.
Open Scope N_scope.

(* the gate of the repaired ServeHTTP: no guard on the flags, no assumption on the credential *)
Lemma gate f c lookup0 m p body :
  serve f c lookup0 m p body = Invoked ->
  (must_auth f = true -> authed c = true) /\
  (forall ps, perms f = Some ps ->
     authed c = true /\ (admin c = true \/ forallb (granted c) ps = true)).
Proof.
  unfold serve, needs_auth.
  destruct f as [ma ca lw pm vd]; cbn [must_auth can_auth lightweight perms valid].
  intros H.
  destruct (ma || match pm with Some _ => true | None => false end) eqn:NA.
  - (* something to enforce: the authentication step runs, lightweight or not *)
    rewrite andb_false_r in H. cbn [negb andb] in H.
    destruct (locked c); [discriminate|].
    destruct (authed c) eqn:A; [|discriminate].
    split; [reflexivity|]. intros ps E. split; [reflexivity|]. subst pm.
    destruct (admin c); [left; reflexivity|]. right.
    destruct (find (fun p0 => negb (granted c p0)) ps) as [x|] eqn:F.
    { exfalso. destruct m, p, vd, body as [[|]|], ca, (has_user c); cbn in H; discriminate. }
    apply forallb_forall. intros x Hx.
    pose proof (find_none _ _ F _ Hx) as N0. cbn beta in N0. destruct (granted c x); [reflexivity|discriminate].
  - (* nothing declared *)
    destruct ma; [discriminate|]. destruct pm; [discriminate|].
    split; [discriminate|]. intros ps E. discriminate.
Qed.

(* a failed authentication or permission check is final: no body brings the handler back *)
Lemma rejected_not_invoked f c lookup0 m p body :
  (must_auth f = true /\ authed c = false) \/
  (exists ps x, perms f = Some ps /\ admin c = false /\ In x ps /\ granted c x = false) ->
  serve f c lookup0 m p body <> Invoked.
Proof.
  intros R H. destruct (gate _ _ _ _ _ _ H) as [G1 G2].
  destruct R as [[M A]|(ps & x & E & Ad & Hx & G)].
  - rewrite (G1 M) in A. discriminate.
  - destruct (G2 _ E) as [_ [Ad'|All]]; [congruence|].
    rewrite forallb_forall in All. rewrite (All _ Hx) in G. discriminate.
Qed.

(* ---- permission changes over time *)
Lemma run_store_app h1 : forall s h2, run_store s (h1 ++ h2) = run_store s h1 ++ run_store (store_after s h1) h2.
Proof.
  induction h1 as [|o h1 IH]; intros s h2; cbn; [reflexivity|].
  destruct o as [u ps|f u tk]; cbn; rewrite IH; reflexivity.
Qed.

Lemma granted_now s u tk p : granted (cred_now s u tk) p = memN p (perms_of s u).
Proof.
  unfold granted, cred_now; cbn. destruct tk; [|reflexivity].
  destruct (perms_of s u); reflexivity.
Qed.

Lemma revoked_not_invoked s0 h f u tk ps p :
  perms f = Some ps -> In p ps ->
  memN p (perms_of (store_after s0 h) u) = false ->
  memN ROOT (perms_of (store_after s0 h) u) = false ->
  exists r, run_store s0 (h ++ [Request f u tk]) = run_store s0 h ++ [r] /\ r <> Invoked.
Proof.
  intros E Hp G R. rewrite run_store_app. cbn [run_store]. eexists. split; [reflexivity|].
  apply rejected_not_invoked. right. exists ps, p. repeat split; try assumption.
  - cbn. rewrite R. apply andb_false_r.
  - rewrite granted_now. exact G.
Qed.

(* ---- builder *)
Lemma build_snoc cs c : build (cs ++ [c]) = apply1 (build cs) c.
Proof. unfold build. rewrite fold_left_app. reflexivity. Qed.

Lemma builder_safe cs :
  forallb (fun c => negb (withdraws c)) cs = true ->
  safe_flags (build cs) = true /\ lightweight (build cs) = false /\
  (existsb requests_auth cs = true -> must_auth (build cs) = true).
Proof.
  induction cs as [|c cs IH] using rev_ind; intros H.
  - cbn. repeat split; discriminate.
  - rewrite forallb_app in H. apply andb_prop in H as [H1 H2]. cbn in H2.
    destruct (IH H1) as (S & L & R). rewrite build_snoc, existsb_app. cbn [existsb].
    unfold safe_flags in *. destruct (build cs) as [ma ca lw pm vd]; cbn in *. subst lw.
    destruct c as [[|]|[|]|ps|b|]; cbn in *; try discriminate; repeat split; auto.
    all: try (destruct pm; reflexivity).
    all: intros E; rewrite ?orb_false_r in E; auto.
Qed.

(* ---- builder monotonicity, every call order *)
Definition auth_false (c : call) : bool := match c with Authentication false => true | _ => false end.
Definition is_perms (c : call) : bool := match c with Permissions _ => true | _ => false end.

Lemma must_kept cs : forall f, must_auth f = true ->
  forallb (fun c => negb (auth_false c)) cs = true -> must_auth (fold_left apply1 cs f) = true.
Proof.
  induction cs as [|c cs IH]; intros f M H; [exact M|]. cbn in H. apply andb_prop in H as [H1 H2].
  cbn [fold_left]. apply IH; [|exact H2].
  destruct c as [[|]|[|]|ps|b|]; cbn in *; try reflexivity; try exact M; discriminate.
Qed.

Lemma requested_kept cs1 c cs2 :
  requests_auth c = true -> forallb (fun c => negb (auth_false c)) cs2 = true ->
  must_auth (build (cs1 ++ c :: cs2)) = true.
Proof.
  intros R H. unfold build. rewrite fold_left_app. cbn [fold_left]. apply must_kept; [|exact H].
  destruct c as [[|]|[|]|ps|b|]; cbn in *; try discriminate; reflexivity.
Qed.

Lemma perms_kept cs : forall f, (exists l, perms f = Some l) -> exists l, perms (fold_left apply1 cs f) = Some l.
Proof.
  induction cs as [|c cs IH]; intros f H; [exact H|]. cbn [fold_left]. apply IH.
  destruct H as [l E]. destruct c as [b|b|ps|b|]; cbn; rewrite ?E; eauto.
Qed.

Lemma perms_imply_auth cs : existsb is_perms cs = true -> needs_auth (build cs) = true.
Proof.
  intros H. apply existsb_exists in H as (c & Hc & P). apply in_split in Hc as (cs1 & cs2 & ->).
  unfold build. rewrite fold_left_app. cbn [fold_left].
  destruct c as [b|b|ps|b|]; try discriminate.
  destruct (perms_kept cs2 (apply1 (fold_left apply1 cs1 new_route) (Permissions ps))) as [l E]; [cbn; eauto|].
  unfold needs_auth. rewrite E. apply orb_true_r.
Qed.

(* ---- the gate and the builder before the repairs *)
Definition gate_statement_old : Prop :=
  forall f c lookup0 m p body, wf_cred c -> serve_old f c lookup0 m p body = Invoked ->
  (must_auth f = true -> authed c = true) /\
  (forall ps, perms f = Some ps -> authed c = true /\ (admin c = true \/ forallb (granted c) ps = true)).

Definition nobody : cred := mkCred false false false false [] (fun _ => false).
(* wrong password for a user who holds permission 1 *)
Definition impostor : cred := mkCred false false false true [] (fun p => p =? 1).

Lemma gate_old_refuted_lightweight :
  let f := build [LightWeight true; Authentication true] in
  must_auth f = true /\ wf_cred nobody /\ serve_old f nobody (fun _ => false) true true None = Invoked /\
  authed nobody = false /\ serve f nobody (fun _ => false) true true None = Status 403.
Proof. cbn. repeat split. intros H; discriminate. Qed.

Lemma gate_old_refuted_perms_unauth :
  let f := build [Permissions [1]; Authentication false] in
  perms f = Some [1] /\ wf_cred impostor /\ serve_old f impostor (fun _ => false) true true None = Invoked /\
  authed impostor = false /\ serve f impostor (fun _ => false) true true None = Status 403.
Proof. cbn. repeat split. intros H; discriminate. Qed.

Lemma builder_old_refuted :
  existsb requests_auth [Authentication true; LightWeight true] = true /\
  must_auth (build_old [Authentication true; LightWeight true]) = false /\
  must_auth (build [Authentication true; LightWeight true]) = true.
Proof. repeat split; reflexivity. Qed.
