//go:build verif

package bytecode

// Overlaid into /repo/internal/language/bytecode by /verif/check C03 and C04. Drives the real opcode
// functions on a fresh Context per case and prints what they did.
//
// Values are written  <kind>:<const 0|1>:<payload>  with kind one of
//   bool byte int8 int16 uint16 int32 uint32 int uint int64 uint64 float32 float64 string
// payload: decimal integer, 0/1 for bool, hex bytes for string, strconv 'g' text for floats.
//
// Line protocol (VERIF_IN -> VERIF_OUT), mode = strict|relaxed|dynamic, every output line echoes the id:
//   B <id> <mode> <op add|sub|mul|div|mod> <v1> <v2>     -> <id> ok <value> | <id> err <class> | <id> panic
//   N <id> <v>                                           -> same (Negate with operand false)
//   I <id> <mode> <var value> <step value>               -> same (Increment ["x", step]; result = x afterwards)
//   S <id> <mode> <existing value> <new value>           -> same (Store "x"; result = x afterwards)
//   A <id> <mode> <declared kind> <value>                -> same (push value; requiredTypeByteCodeWithConst + Coerce as fetchArgValue does)
//   R <id> <mode> <declared kind> <value>                -> same (Coerce opcode = return-value coercion)
//   C <id> <mode> <op eq|ne|lt|le|gt|ge> <v1> <v2> [k]   -> same (comparison opcodes; with k the right operand is the
//                                                           instruction operand []any{v2}, the form the optimizer produces)

import (
	"bufio"
	"encoding/hex"
	"fmt"
	"os"
	"strconv"
	"strings"
	"testing"

	"github.com/tucats/ego/internal/defs"
	"github.com/tucats/ego/internal/errors"
	"github.com/tucats/ego/internal/language/data"
	"github.com/tucats/ego/internal/language/symbols"
)

func c03Parse(s string) (any, error) {
	f := strings.SplitN(s, ":", 3)
	if len(f) != 3 {
		return nil, fmt.Errorf("bad value %q", s)
	}

	var v any

	switch f[0] {
	case "bool":
		v = f[2] == "1"
	case "string":
		b, err := hex.DecodeString(f[2])
		if err != nil {
			return nil, err
		}

		v = string(b)
	case "float32":
		x, err := strconv.ParseFloat(f[2], 32)
		if err != nil {
			return nil, err
		}

		v = float32(x)
	case "float64":
		x, err := strconv.ParseFloat(f[2], 64)
		if err != nil {
			return nil, err
		}

		v = x
	case "uint", "uint64", "uint32", "uint16", "byte":
		x, err := strconv.ParseUint(f[2], 10, 64)
		if err != nil {
			return nil, err
		}

		switch f[0] {
		case "uint":
			v = uint(x)
		case "uint64":
			v = x
		case "uint32":
			v = uint32(x)
		case "uint16":
			v = uint16(x)
		case "byte":
			v = byte(x)
		}
	default:
		x, err := strconv.ParseInt(f[2], 10, 64)
		if err != nil {
			return nil, err
		}

		switch f[0] {
		case "int":
			v = int(x)
		case "int64":
			v = x
		case "int32":
			v = int32(x)
		case "int16":
			v = int16(x)
		case "int8":
			v = int8(x)
		default:
			return nil, fmt.Errorf("bad kind %q", f[0])
		}
	}

	if f[1] == "1" {
		return data.Constant(v), nil
	}

	return v, nil
}

func c03Format(v any) string {
	c := "0"

	if imm, ok := v.(data.Immutable); ok {
		v = imm.Value
		c = "1"
	}

	switch x := v.(type) {
	case bool:
		if x {
			return "bool:" + c + ":1"
		}

		return "bool:" + c + ":0"
	case byte:
		return fmt.Sprintf("byte:%s:%d", c, x)
	case int8:
		return fmt.Sprintf("int8:%s:%d", c, x)
	case int16:
		return fmt.Sprintf("int16:%s:%d", c, x)
	case uint16:
		return fmt.Sprintf("uint16:%s:%d", c, x)
	case int32:
		return fmt.Sprintf("int32:%s:%d", c, x)
	case uint32:
		return fmt.Sprintf("uint32:%s:%d", c, x)
	case int:
		return fmt.Sprintf("int:%s:%d", c, x)
	case uint:
		return fmt.Sprintf("uint:%s:%d", c, x)
	case int64:
		return fmt.Sprintf("int64:%s:%d", c, x)
	case uint64:
		return fmt.Sprintf("uint64:%s:%d", c, x)
	case float32:
		return "float32:" + c + ":" + strconv.FormatFloat(float64(x), 'g', -1, 32)
	case float64:
		return "float64:" + c + ":" + strconv.FormatFloat(x, 'g', -1, 64)
	case string:
		return "string:" + c + ":" + hex.EncodeToString([]byte(x))
	}

	return fmt.Sprintf("other:%s:%T", c, v)
}

func c03Class(err error) string {
	switch {
	case errors.Equals(err, errors.ErrTypeMismatch):
		return "mismatch"
	case errors.Equals(err, errors.ErrInvalidType):
		return "invalidtype"
	case errors.Equals(err, errors.ErrDivisionByZero):
		return "divzero"
	case errors.Equals(err, errors.ErrLossOfPrecision):
		return "lossy"
	case errors.Equals(err, errors.ErrInvalidVarType):
		return "vartype"
	case errors.Equals(err, errors.ErrArgumentType):
		return "argtype"
	}

	return "other"
}

func c03Mode(s string) int {
	switch s {
	case "strict":
		return defs.StrictTypeEnforcement
	case "relaxed":
		return defs.RelaxedTypeEnforcement
	}

	return defs.NoTypeEnforcement
}

func c03Type(kind string) *data.Type {
	switch kind {
	case "bool":
		return data.BoolType
	case "byte":
		return data.ByteType
	case "int8":
		return data.Int8Type
	case "int16":
		return data.Int16Type
	case "uint16":
		return data.UInt16Type
	case "int32":
		return data.Int32Type
	case "uint32":
		return data.UInt32Type
	case "int":
		return data.IntType
	case "uint":
		return data.UIntType
	case "int64":
		return data.Int64Type
	case "uint64":
		return data.UInt64Type
	case "float32":
		return data.Float32Type
	case "float64":
		return data.Float64Type
	case "string":
		return data.StringType
	}

	return nil
}

func c03Context(mode string) *Context {
	root := symbols.NewRootSymbolTable("verif root")
	local := symbols.NewChildSymbolTable("verif local", root)
	c := NewContext(local, &ByteCode{})
	c.typeStrictness = c03Mode(mode)

	return c
}

// c03Run executes one case; a Go panic inside the opcode is reported as "panic".
func c03Run(f []string) (out string) {
	defer func() {
		if r := recover(); r != nil {
			out = "panic"
		}
	}()

	var (
		err error
		c   *Context
		res any
	)

	switch f[0] {
	case "B":
		c = c03Context(f[2])

		v1, e1 := c03Parse(f[4])
		v2, e2 := c03Parse(f[5])

		if e1 != nil || e2 != nil {
			return "badinput"
		}

		_ = c.push(v1)
		_ = c.push(v2)

		switch f[3] {
		case "add":
			err = addByteCode(c, nil)
		case "sub":
			err = subtractByteCode(c, nil)
		case "mul":
			err = multiplyByteCode(c, nil)
		case "div":
			err = divideByteCode(c, nil)
		case "mod":
			err = moduloByteCode(c, nil)
		default:
			return "badinput"
		}

		if err == nil {
			res, err = c.PopWithoutUnwrapping()
		}

	case "C":
		c = c03Context(f[2])

		v1, e1 := c03Parse(f[4])
		v2, e2 := c03Parse(f[5])

		if e1 != nil || e2 != nil {
			return "badinput"
		}

		var operand any

		_ = c.push(v1)

		if len(f) > 6 && f[6] == "k" {
			operand = []any{v2}
		} else {
			_ = c.push(v2)
		}

		switch f[3] {
		case "eq":
			err = equalByteCode(c, operand)
		case "ne":
			err = notEqualByteCode(c, operand)
		case "lt":
			err = lessThanByteCode(c, operand)
		case "le":
			err = lessThanOrEqualByteCode(c, operand)
		case "gt":
			err = greaterThanByteCode(c, operand)
		case "ge":
			err = greaterThanOrEqualByteCode(c, operand)
		default:
			return "badinput"
		}

		if err == nil {
			res, err = c.PopWithoutUnwrapping()
		}

	case "N":
		c = c03Context("dynamic")

		v, e := c03Parse(f[2])
		if e != nil {
			return "badinput"
		}

		_ = c.push(v)

		err = negateByteCode(c, false)
		if err == nil {
			res, err = c.PopWithoutUnwrapping()
		}

	case "I":
		c = c03Context(f[2])

		v, e1 := c03Parse(f[3])
		step, e2 := c03Parse(f[4])

		if e1 != nil || e2 != nil {
			return "badinput"
		}

		c.symbols.SetAlways("x", v)

		err = incrementByteCode(c, []any{"x", step})
		if err == nil {
			res, _ = c.get("x")
		}

	case "S":
		c = c03Context(f[2])

		old, e1 := c03Parse(f[3])
		v, e2 := c03Parse(f[4])

		if e1 != nil || e2 != nil {
			return "badinput"
		}

		c.symbols.SetAlways("x", old)
		_ = c.push(v)

		err = storeByteCode(c, "x")
		if err == nil {
			res, _ = c.get("x")
		}

	case "A":
		c = c03Context(f[2])
		t := c03Type(f[3])

		v, e := c03Parse(f[4])
		if e != nil || t == nil {
			return "badinput"
		}

		isConst := false
		if imm, ok := v.(data.Immutable); ok {
			v = imm.Value
			isConst = true
		}

		// what fetchArgValue does with one argument once it has been taken from __args
		_ = c.push(v)

		err = requiredTypeByteCodeWithConst(c, t, isConst)
		if err == nil {
			res, err = c.Pop()
		}

		if err == nil && data.IsCoercible(t) && !data.TypeOf(res).IsType(t) {
			res, err = data.Coerce(res, data.InstanceOfType(t))
		}

	case "R":
		c = c03Context(f[2])
		t := c03Type(f[3])

		v, e := c03Parse(f[4])
		if e != nil || t == nil {
			return "badinput"
		}

		_ = c.push(v)

		err = coerceByteCode(c, t)
		if err == nil {
			res, err = c.PopWithoutUnwrapping()
		}

	default:
		return "badinput"
	}

	if err != nil {
		return "err " + c03Class(err)
	}

	return "ok " + c03Format(res)
}

func TestVerifC03(t *testing.T) {
	in, err := os.Open(os.Getenv("VERIF_IN"))
	if err != nil {
		t.Fatal(err)
	}
	defer in.Close()

	out, err := os.Create(os.Getenv("VERIF_OUT"))
	if err != nil {
		t.Fatal(err)
	}
	defer out.Close()

	w := bufio.NewWriter(out)
	defer w.Flush()

	sc := bufio.NewScanner(in)
	sc.Buffer(make([]byte, 1<<20), 1<<20)

	for sc.Scan() {
		f := strings.Fields(sc.Text())
		if len(f) < 3 {
			continue
		}

		fmt.Fprintf(w, "%s %s\n", f[1], c03Run(f))
	}
}
