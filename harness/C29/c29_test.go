//go:build verif

package cluster

// Overlaid into /repo/internal/server/cluster by /verif/check C29 (never written into /repo).
//
// One process plays every node of a simulated cluster, one node at a time: before a node acts, the package
// globals (NodeID, ThisMember) are set to that node and the real caches package is loaded with that node's
// cache contents; afterwards they are read back. The cluster table is a real (in-memory SQLite) system
// database, so BroadcastCacheFlush -> ListActiveMembers -> SendCacheFlush run unmodified; the requests they
// emit are caught by replacing http.DefaultTransport (no sockets), which either refuses (node down) or accepts
// and queues them. A queued request is later handed, byte for byte, to the real FlushCacheHandler of its
// target node. Everything runs inside a testing/synctest bubble so that "go OnPurge(id)" has finished when
// the step is observed.
//
// VERIF_IN lines:  <n nodes> <cache class id> <cache class id> ... ; act ; act ...     acts: PU n c | ST n c | DE i | DR i | SS n 0/1 |
//                                                                 SD n 0/1 | FO to c hops from
// VERIF_OUT: one JSON object per line.

import (
	"bufio"
	"bytes"
	"database/sql"
	"encoding/json"
	"errors"
	"fmt"
	"io"
	"net/http"
	"net/http/httptest"
	"os"
	"strconv"
	"strings"
	"sync"
	"testing"
	"testing/synctest"
	"time"

	"github.com/tucats/ego/internal/caches"
	"github.com/tucats/ego/internal/defs"
	"github.com/tucats/ego/internal/router"
)

type c29Msg struct {
	To, Cache, Hops, From int
	body                  []byte
	header                http.Header
}

type c29Step struct {
	Sent    [][4]int `json:"sent"`    // requests attempted during the step: to, cache, hops, from
	Net     [][4]int `json:"net"`     // requests in flight afterwards
	Present [][2]int `json:"present"` // (node, cache) pairs that hold the cache afterwards
	Status  int      `json:"status"`  // HTTP status of the handler (deliveries / forged requests)
	Hook    int      `json:"hook"`    // OnPurge invocations during the step
}

type c29Result struct {
	Index int       `json:"index"`
	Steps []c29Step `json:"steps"`
	Error string    `json:"error,omitempty"`
}

type c29World struct {
	mu      sync.Mutex
	db      *sql.DB
	classes []int
	maxNode int
	present map[[2]int]bool
	down    map[int]bool
	net     []c29Msg
	sent    [][4]int
	hook    int
}

func c29NodeName(n int) string { return "n" + strconv.Itoa(n) }

func c29NodeOf(name string) int {
	v, err := strconv.Atoi(strings.TrimPrefix(name, "n"))
	if err != nil {
		return -1
	}

	return v
}

// RoundTrip stands in for the network.
func (w *c29World) RoundTrip(req *http.Request) (*http.Response, error) {
	body, _ := io.ReadAll(req.Body)

	var payload defs.ClusterFlushRequest

	host := req.URL.Hostname()
	to := c29NodeOf(strings.TrimSuffix(host, ".test"))
	m := c29Msg{To: to, Cache: -1, Hops: -1, From: -1, body: body, header: req.Header.Clone()}

	if req.Method == http.MethodPost && req.URL.Path == defs.ServicesClusterFlushPath && json.Unmarshal(body, &payload) == nil {
		m.Cache, m.Hops, m.From = payload.CacheID, payload.Hops, c29NodeOf(payload.SenderID)
	}

	w.mu.Lock()
	defer w.mu.Unlock()

	w.sent = append(w.sent, [4]int{m.To, m.Cache, m.Hops, m.From})

	if w.down[to] {
		return nil, errors.New("connection refused")
	}

	w.net = append(w.net, m)

	return &http.Response{StatusCode: http.StatusOK, Status: "200 OK", Body: io.NopCloser(bytes.NewReader([]byte("{}"))),
		Header: http.Header{}, Request: req}, nil
}

func (w *c29World) member(n int, active bool) defs.ClusterMember {
	state := ActiveState
	if !active {
		state = RemovedState
	}

	stamp := fmt.Sprintf("2000-01-01T00:%02d:%02dZ", n/60, n%60)

	return defs.ClusterMember{Name: ClusterName, NodeID: c29NodeName(n), Host: c29NodeName(n) + ".test", Port: 8000 + n,
		Scheme: "http", JoinedAt: stamp, LastSeen: stamp, State: state}
}

// become node n: identity and cache contents
func (w *c29World) play(n int) {
	NodeID = c29NodeName(n)
	ThisMember = w.member(n, true)

	for _, c := range w.classes {
		caches.PurgeLocal(c)

		if w.present[[2]int{n, c}] {
			caches.Add(c, "k", n)
		}
	}
}

func (w *c29World) readBack(n int) {
	for _, c := range w.classes {
		_, found := caches.Find(c, "k")
		w.present[[2]int{n, c}] = found
	}
}

func (w *c29World) handle(m c29Msg) int {
	w.play(m.To)

	req := httptest.NewRequest(http.MethodPost, "/services/cluster/flush", bytes.NewReader(m.body))
	for k, v := range m.header {
		req.Header[k] = v
	}

	status := FlushCacheHandler(&router.Session{ID: 1, Language: "en"}, httptest.NewRecorder(), req)

	synctest.Wait()
	w.readBack(m.To)

	return status
}

func (w *c29World) observe(status int) c29Step {
	w.mu.Lock()
	defer w.mu.Unlock()

	st := c29Step{Sent: w.sent, Net: [][4]int{}, Present: [][2]int{}, Status: status, Hook: w.hook}
	if st.Sent == nil {
		st.Sent = [][4]int{}
	}

	w.sent, w.hook = nil, 0

	for _, m := range w.net {
		st.Net = append(st.Net, [4]int{m.To, m.Cache, m.Hops, m.From})
	}

	for n := 0; n <= w.maxNode; n++ {
		for _, c := range w.classes {
			if w.present[[2]int{n, c}] {
				st.Present = append(st.Present, [2]int{n, c})
			}
		}
	}

	return st
}

func c29Run(t *testing.T, idx int, line string) c29Result {
	res := c29Result{Index: idx, Steps: []c29Step{}}
	head, rest, _ := strings.Cut(line, ";")
	hf := strings.Fields(head)

	if len(hf) < 2 {
		res.Error = "bad header"

		return res
	}

	nnodes, _ := strconv.Atoi(hf[0])

	// the cache classes of this run: any ints (predefined classes 0..11, classes without a cluster name, user classes)
	classes := []int{}

	for _, f := range hf[1:] {
		c, err := strconv.Atoi(f)
		if err != nil {
			res.Error = "bad header"

			return res
		}

		classes = append(classes, c)
	}

	synctest.Test(t, func(t *testing.T) {
		db, err := sql.Open("sqlite", ":memory:")
		if err != nil {
			res.Error = err.Error()

			return
		}

		db.SetMaxOpenConns(1)

		defer db.Close()

		w := &c29World{db: db, classes: classes, maxNode: nnodes + 2, present: map[[2]int]bool{}, down: map[int]bool{}}

		savedName, savedNode, savedDB, savedProvider, savedMember := ClusterName, NodeID, systemDB, dbProvider, ThisMember
		savedTransport, savedHook := http.DefaultTransport, caches.OnPurge

		defer func() {
			ClusterName, NodeID, systemDB, dbProvider, ThisMember = savedName, savedNode, savedDB, savedProvider, savedMember
			http.DefaultTransport, caches.OnPurge = savedTransport, savedHook

			for _, c := range classes {
				caches.PurgeLocal(c)
			}

			// the caches package started a sweeper goroutine per class; each ends at its next wake-up now that
			// its cache is gone (virtual time), and the bubble can only finish once they have
			time.Sleep(61 * time.Second)
			synctest.Wait()
		}()

		ClusterName = "verif-c29"
		systemDB, dbProvider = db, "sqlite"
		http.DefaultTransport = w

		// what Initialize does in cluster mode, wrapped only to count invocations
		caches.OnPurge = func(id int) {
			w.mu.Lock()
			w.hook++
			w.mu.Unlock()

			BroadcastCacheFlush(id)
		}

		if err := createClusterTable(db); err != nil {
			res.Error = err.Error()

			return
		}

		for n := 1; n <= nnodes; n++ {
			if err := upsertMember(db, w.member(n, true)); err != nil {
				res.Error = err.Error()

				return
			}
		}

		for _, part := range strings.Split(rest, ";") {
			f := strings.Fields(part)
			if len(f) == 0 {
				continue
			}

			a := make([]int, 4)
			for i := 1; i < len(f) && i <= 4; i++ {
				a[i-1], _ = strconv.Atoi(f[i])
			}

			status := 0

			switch f[0] {
			case "PU":
				w.play(a[0])
				caches.Purge(a[1])
				synctest.Wait()
				w.readBack(a[0])
			case "ST":
				w.present[[2]int{a[0], a[1]}] = true
			case "DE":
				if a[0] < len(w.net) {
					m := w.net[a[0]]
					w.net = append(append([]c29Msg{}, w.net[:a[0]]...), w.net[a[0]+1:]...)
					status = w.handle(m)
				}
			case "DR":
				if a[0] < len(w.net) {
					w.net = append(append([]c29Msg{}, w.net[:a[0]]...), w.net[a[0]+1:]...)
				}
			case "SS":
				// join / re-activate: upsert; leave / evict: RemoveMember (as Shutdown and the health checker do)
				var err error
				if a[1] == 1 {
					err = upsertMember(db, w.member(a[0], true))
				} else {
					err = RemoveMember(db, c29NodeName(a[0]))
				}

				if err != nil {
					res.Error = err.Error()

					return
				}
			case "SD":
				w.down[a[0]] = a[1] == 1
			case "FO":
				// built the way SendCacheFlush builds it, but with arbitrary content
				body, _ := json.Marshal(defs.ClusterFlushRequest{CacheID: a[1], SenderID: c29NodeName(a[3]), Hops: a[2]})
				h := http.Header{}
				h.Set("Content-Type", "application/json")
				h.Set("Authorization", ClusterAuthHeader())
				status = w.handle(c29Msg{To: a[0], Cache: a[1], Hops: a[2], From: a[3], body: body, header: h})
			default:
				res.Error = "unknown action " + f[0]

				return
			}

			res.Steps = append(res.Steps, w.observe(status))
		}
	})

	return res
}

func TestVerifC29(t *testing.T) {
	in, err := os.Open(os.Getenv("VERIF_IN"))
	if err != nil {
		t.Fatal(err)
	}
	defer in.Close()

	out, err := os.Create(os.Getenv("VERIF_OUT"))
	if err != nil {
		t.Fatal(err)
	}
	defer out.Close()

	wr := bufio.NewWriter(out)
	defer wr.Flush()

	sc := bufio.NewScanner(in)
	sc.Buffer(make([]byte, 1<<20), 1<<20)

	idx := 0

	for sc.Scan() {
		line := strings.TrimSpace(sc.Text())
		if line == "" {
			continue
		}

		b, _ := json.Marshal(c29Run(t, idx, line))
		fmt.Fprintf(wr, "%s\n", b)

		idx++
	}
}
