"""C05 `ego fmt` keeps programs and comments intact (internal/language/parse + parse/format, real binary)."""
import glob
import hashlib
import json
import os
import re
import shutil
import vf

GROUP = "Fmt"
META = {
    "group": "Fmt",
    "technique": "Coq proof of parse/print round trip for the formatter's expression grammar as an instance of the generic precedence-tier development (coq/SqlFmt/PrecClimb*), theorem on the comment cursor of print_comment.go, precedence table regenerated from tables.go on every run, vm_compute correspondence of model parser/printer with `ego fmt --ast` / `ego fmt`; oracle through the real binary on generated programs and the repository's .ego corpus (format succeeds, same run/test outcome, idempotent, comments kept)",
    "text": "Theorems C05_expr_roundtrip / C05_reparse / C05_idempotent (every expression tree nested as the precedence table allows - in particular every tree the formatter's parser returns - is read back from its print as the same tree; any table without a repeated operator), C05_comments_kept (for every comment list and every sequence of leading/trailing emission requests the written comments are the comment list itself, in order), C05_if_ladder_roundtrip (an if / else-if ladder is read back with every rung's own init, condition and block), C05_old_minus_refuted ('- -x' was written '--x') are proved for all inputs over the model of identifiers, integer and string literals, prefix - !, the five binary levels and parentheses, and of ladder headers with opaque items. partial: calls, selectors, index/slice, composite literals, function literals, types, all statement forms and headers (incl. the repaired composite-literal-in-header rule), directives and the tokenizer are checked through the real binary only (generated programs and the .ego corpus: formatting succeeds, outcome of ego test/run equal, fmt(fmt(x)) = fmt(x), comment multiset equal, `ego fmt --ast` tree equal, identifier/literal sequence equal, ladder skeleton equal to the model's), not proved",
    "note": "Trusted: Coq kernel; hand-written model of parseBinary/parseUnary as a tier chain (extensionally compared with the real Pratt loop on every run); regex translator for binaryPrecedence; Python comment scanner and outcome normaliser (line numbers, paths, durations removed); the ego binary built from the working tree.",
}

BIN = ["||", "&&", "==", "!=", "<", "<=", ">", ">=", "+", "-", "|", "<<", ">>", "*", "/", "%", "^", "&"]


def read_table(repo):
    src = open(os.path.join(repo, "internal/language/parse/tables.go")).read()
    m = re.search(r"var binaryPrecedence = map\[string\]int\{(.*?)\n\}", src, re.S)
    if not m:
        raise RuntimeError("binaryPrecedence not found in tables.go")
    prec = {}
    for op, p in re.findall(r'"([^"]+)":\s*(\d+)', m.group(1)):
        prec.setdefault(int(p), []).append(op)
    esrc = open(os.path.join(repo, "internal/language/parse/expression.go")).read()
    um = re.search(r"func \(p \*Parser\) parseUnary\(\).*?\n\}", esrc, re.S)
    if not um or "p.parseUnary()" not in um.group(0) or "parseBinary(prec + 1)" not in esrc:
        raise RuntimeError("parseUnary / parseBinary(prec + 1) anchors not found in expression.go")
    pre = []
    names = {"SubtractToken": "-", "NotToken": "!", "AddToken": "+", "NegateToken": "-"}
    for t in re.findall(r"tok\.Is\(tokenizer\.(\w+)\)", um.group(0)):
        if t not in names:
            raise RuntimeError("unknown prefix operator token %s in parseUnary" % t)
        pre.append(names[t])
    if not prec or not pre:
        raise RuntimeError("empty precedence table")
    return [("bin", prec[k]) for k in sorted(prec)] + [("pre", pre)]


def cstr(s):
    return vf.vstr(s)


def coq_tbl(tiers):
    return "[" + "; ".join("%s [%s]" % ("LBin" if k == "bin" else "LPre", "; ".join(cstr(o) for o in ops))
                           for k, ops in tiers) + "]"


# ----------------------------------------------------------------------------- generated expressions (token lists)
def gen_etoks(rng, depth):
    """returns list of (kind, text): kind in id,int,str,sp,lp,rp"""
    if depth <= 0 or rng.random() < 0.2:
        r = rng.random()
        if r < 0.5:
            return [("id", rng.choice(["a", "b", "c", "n1", "_x", "flag"]))]
        if r < 0.85:
            return [("int", rng.choice(["0", "1", "2", "7", "42", "100"]))]
        return [("str", rng.choice(["s", "", "a b", "x-y"]))]
    r = rng.random()
    if r < 0.55:
        return gen_etoks(rng, depth - 1) + [("sp", rng.choice(BIN))] + gen_etoks(rng, depth - 1)
    if r < 0.78:
        return [("sp", rng.choice(["-", "-", "!"]))] + gen_etoks(rng, depth - 1)
    return [("lp", "(")] + gen_etoks(rng, depth - 1) + [("rp", ")")]


def toks_text(rng, toks):
    out, prev = [], None
    for k, t in toks:
        s = '"%s"' % t if k == "str" else t
        sep = rng.choice(["", " ", " ", "  "])
        if prev is not None and not sep:
            a, b = prev, s
            if (a[-1].isalnum() or a[-1] in '_"') and (b[0].isalnum() or b[0] in '_"'):
                sep = " "
            elif not a[-1].isalnum() and not b[0].isalnum() and a[-1] not in '()_"' and b[0] not in '()_"':
                sep = " "            # never glue two operator characters in the generated source
        out.append(sep + s if prev is not None else s)
        prev = s
    return "".join(out)


def toks_coq(toks):
    m = {"id": "TIdent", "int": "TInt", "str": "TStr", "sp": "TSp"}
    return "[" + "; ".join("TLP" if k == "lp" else "TRP" if k == "rp" else "%s %s" % (m[k], cstr(t)) for k, t in toks) + "]"


def parse_dump(text):
    """`ego fmt --ast` dump -> nested [label, children]"""
    root, stack = None, []
    for line in text.split("\n"):
        if not line.strip():
            continue
        ind = (len(line) - len(line.lstrip(" "))) // 2
        label = re.sub(r"\s+@\d+:\d+\s*$", "", line.strip())
        node = [label, []]
        if ind == 0:
            root = node
            stack = [node]
        else:
            stack = stack[:ind]
            stack[-1][1].append(node)
            stack.append(node)
    return root


def dump_to_coq(n):
    lab, ch = n
    m = re.match(r"^(\w+)(?:\((.*)\))?$", lab, re.S)
    if not m:
        return None
    kind, arg = m.group(1), m.group(2)
    if kind == "BinaryExpr" and len(ch) == 2:
        x, y = dump_to_coq(ch[0]), dump_to_coq(ch[1])
        return None if x is None or y is None else "(EBin %s %s %s)" % (cstr(arg), x, y)
    if kind == "UnaryExpr" and len(ch) == 1:
        x = dump_to_coq(ch[0])
        return None if x is None else "(EUn %s %s)" % (cstr(arg), x)
    if kind == "ParenExpr" and len(ch) == 1:
        x = dump_to_coq(ch[0])
        return None if x is None else "(EParen %s)" % x
    if kind == "Ident" and not ch:
        return "(EAtom (AId %s))" % cstr(arg)
    if kind == "BasicLit" and not ch and arg is not None:
        if arg.startswith("int:"):
            return "(EAtom (AInt %s))" % cstr(arg[4:])
        if arg.startswith("string:"):
            return "(EAtom (AStr %s))" % cstr(arg[7:])
    return None


# ----------------------------------------------------------------------------- generated programs
def gen_int_expr(rng, depth):
    if depth <= 0 or rng.random() < 0.25:
        return rng.choice(["x", "y", "1", "2", "3", "7", "10"])
    r = rng.random()
    if r < 0.6:
        return "%s %s %s" % (gen_int_expr(rng, depth - 1), rng.choice(["+", "-", "*", "+", "-", "|", "&", "^", "%"]),
                             gen_int_expr(rng, depth - 1))
    if r < 0.8:
        u = rng.choice(["-", "- -", "- - -", "-(", "- (-"])
        inner = gen_int_expr(rng, depth - 1)
        gap = " " if inner.startswith("-") and not u.endswith("(") else ""
        return u + gap + inner + (")" if "(" in u else "")
    return "(" + gen_int_expr(rng, depth - 1) + ")"


FORMS_TEMPLATE = 'import "fmt"\nimport "strings"\n\ntype Pt struct {\n    x int\n    y int\n}\n\nfunc pair(a int) (int, string) {\n    return a * 2, "p"\n}\n\nfunc sum(nums ...int) int {\n    t := 0\n    for _, n := range nums {\n        t = t + n\n    }\n    return t\n}\n\n%(ladder)s\n@test "form: switch with init and tag"\n{\n    r := 0\n    switch k := %(k1)d * 2; k {\n    case 1, 2:\n        r = 1\n    case 6:\n        r = 6\n    default:\n        r = -1\n    }\n    fmt.Println("switch", r)\n    q := "?"\n    x := %(k2)d\n    switch {\n    case x > 5:\n        q = "big"\n    case x > 2:\n        q = "mid"\n    default:\n        q = "small"\n    }\n    fmt.Println(q)\n}\n\n@test "form: for init cond post, cond only, infinite with break, range index"\n{\n    t := 0\n    for i := %(k3)d; i <= 4; i = i + %(k4)d {\n        t = t + i\n    }\n    j := %(k5)d\n    for j > 7 {\n        j = j - 1\n        t = t + 100\n    }\n    n := 0\n    for {\n        n++\n        if n >= 3 {\n            break\n        }\n    }\n    for i := range []int{5, 6, 7} {\n        t = t + i * 1000\n    }\n    fmt.Println(t, j, n)\n}\n\n@test "form: labelled continue and break"\n{\n    c := 0\nouter:\n    for i := 0; i < 3; i = i + 1 {\n        for k := 0; k < 3; k = k + 1 {\n            if k == %(k6)d {\n                continue outer\n            }\n            if i == 2 {\n                break outer\n            }\n            c = c + 10 * i + k + 1\n        }\n    }\n    fmt.Println("labels", c)\n}\n\n@test "form: defer order and function literal"\n{\n    func run() string {\n        out := ""\n        defer func() {\n            out = out + "d1"\n        }()\n        defer func() {\n            out = out + "d2"\n        }()\n        out = "body"\n        return out\n    }\n    fmt.Println(run())\n}\n\n@test "form: multi-value assignment, op-assign, inc dec"\n{\n    a, b := %(k7)d, %(k8)d\n    a, b = b, a + b\n    v, s := pair(a)\n    v += 5\n    v -= 1\n    v *= 3\n    v /= 2\n    a++\n    b--\n    fmt.Println(a, b, v, s)\n}\n\n@test "form: variadic call, spread, index, slice, selector, struct literal"\n{\n    xs := []int{4, 5, 6, 7}\n    p := Pt{x: 3, y: 4}\n    m := map[string]int{"a": 1, "b": 2}\n    fmt.Println(sum(1, 2, 3), sum(xs...), xs[1], xs[1:3], p.x * p.y, m["b"], len(xs[:2]), strings.ToUpper("ab"))\n}\n\n@test "form: try catch and var const declarations"\n{\n    const k = 4\n    var w int = %(k9)d\n    var u, z = 1, "zz"\n    r := 0\n    try {\n        r = w / (k - 4)\n    } catch (e) {\n        r = -7\n        fmt.Println("caught", e != nil)\n    }\n    fmt.Println(r, u, z, k + w)\n}\n\n@test "form: go statement and channel send receive"\n{\n    ch := make(chan, 2)\n    go func(n int) {\n        ch <- n * 2\n    }(%(k10)d)\n    got := <-ch\n    fmt.Println("chan", got)\n}\n\n@test "form: nested if in else block, unary not, type assertion"\n{\n    var i interface{} = %(k11)d\n    n, ok := i.(int)\n    r := "x"\n    if !ok {\n        r = "no"\n    } else {\n        if q := n - 5; q == 0 {\n            r = "zero"\n        } else {\n            r = "nz"\n        }\n    }\n    fmt.Println(r)\n}\n'


def gen_ladder(rng, i):
    """an if / else-if ladder in which every rung can carry an init statement that shadows an outer variable; which
    rung fires, and the value it prints, depend on each init being kept with its own rung"""
    x = rng.choice([3, 8, 20, 50, 90])
    rungs = rng.randint(2, 5)
    lines = ['@test "form: else-if ladder %d"' % i, "{", "    x := %d" % x, "    y := %d" % rng.randint(0, 60), "    z := 1", '    r := ""']
    for k in range(rungs):
        v = rng.choice(["y", "y", "z"])
        init = rng.choice(["%s := x %s %d; " % (v, rng.choice(["*", "+", "-", "/"]), rng.randint(1, 9)), ""]) if k or rng.random() < 0.7 else ""
        if k >= 1 and rng.random() < 0.6:
            init = "%s := x %s %d; " % (v, rng.choice(["*", "+", "-"]), rng.randint(1, 9))
        cond = "%s %s %d" % (v, rng.choice([">", "<", ">=", "=="]), rng.choice([0, 5, 30, 55, 100, x, 2 * x]))
        lines.append("    %sif %s%s {" % ("} else " if k else "", init, cond))
        lines.append('        r = fmt.Sprintf("rung %d %%d %%d", y, z)' % k)
    lines.append("    } else {")
    lines.append('        r = fmt.Sprintf("else %d %d", y, z)')
    lines += ["    }", "    fmt.Println(r, x, y, z)", "    @assert T.Equal(1, 1)", "}", ""]
    return "\n".join(lines)


def gen_forms(rng, i):
    """one test file exercising every statement form the printer re-synthesises; each test prints values that
    depend on the construct (init statements, labels, defers, multi-value assignment, ...) being preserved"""
    vals = {"ladder": "\n".join(gen_ladder(rng, 10 * i + k) for k in range(4))}
    for k, choices in enumerate([(1, 3, 5), (1, 4, 7), (0, 1, 2), (1, 2), (9, 10, 12), (0, 1, 2), (1, 2, 3), (2, 5), (3, 6), (21, 4), (5, 6)], 1):
        vals["k%d" % k] = rng.choice(choices)
    return re.sub(r"\b(pair|sum|Pt)\b", lambda m: "%s%d" % (m.group(1), i), FORMS_TEMPLATE % vals)   # one name space per directory


def gen_sig(rng, prefix):
    """a parameter list made of shared-type groups ("a, b, c, d float64, lo, hi int"): returns (params text,
    names in order, argument texts)"""
    types = ["int", "float64", "string"]
    lits = {"int": lambda k: str(k + 1), "float64": lambda k: "%d.5" % (k + 1), "string": lambda k: '"s%d"' % k}
    names, parts, args, k = [], [], [], 0
    last = None
    for g in range(rng.randint(2, 4)):
        t = rng.choice([x for x in types if x != last])
        last = t
        size = rng.choice([4, 4, 6, 7, 8, 1, 2, 3, 5]) if g == 0 else rng.choice([1, 2, 2, 3, 4, 5])
        group = ["%s%d" % (prefix, k + j) for j in range(size)]
        k += size
        names += group
        parts.append(", ".join(group) + " " + t)
        args += [lits[t](len(args) + j) for j in range(size)]
    return ", ".join(parts), names, args


def gen_forms2(rng, i):
    """signatures with shared-type parameter groups (function, method, literal), print statements with and without the
    trailing comma, and literal spellings (byte escapes, non-UTF-8 bytes, raw strings, runes, number bases); every test
    prints values that depend on the names/literals being written back exactly"""
    p1, n1, a1 = gen_sig(rng, "a")
    p2, n2, a2 = gen_sig(rng, "m")
    p3, n3, a3 = gen_sig(rng, "z")
    esc = ["\\xff", "\\xfe", "\\x80", "\\xc3", "\\t", "\\n", "\\r", "\\\\", "\\\"", "é", "a", "Z", " ", "\\x41", "世"]
    s1 = "".join(rng.choice(esc) for _ in range(rng.randint(1, 8)))
    s2 = "".join(rng.choice(esc) for _ in range(rng.randint(0, 6)))
    raw = "".join(rng.choice(['"', "\\", "n", " ", "x", "'", "é", "\\n"]) for _ in range(rng.randint(0, 6)))
    nums = rng.sample(["0x1F", "1e3", "0b101", "0o17", "1_000", "3.25", "007", "1.5e-3", "0", "42", "0xff", "2.5E2", "'x'", "'é'", "'\\n'", "'\\t'"], 8)
    prints = []
    for k in range(rng.randint(2, 5)):
        items = ", ".join(rng.choice(['"p%d"' % k, str(k), "x", '"a b"']) for _ in range(rng.randint(0, 3)))
        if items and rng.random() < 0.5:
            prints.append("    print %s, ; print \"|\"" % items)
        else:
            prints.append("    print %s" % items if items else "    print")
    text = """import "fmt"

type Acc struct {
    base int
}

func mix(%s) string {
    return fmt.Sprint(%s)
}

func (r Acc) join(%s) string {
    return fmt.Sprint(r.base, %s)
}

@test "form: shared-type parameter groups %d"
{
    lit := func(%s) string {
        return fmt.Sprint(%s)
    }
    k := Acc{base: %d}
    fmt.Println(mix(%s))
    fmt.Println(k.join(%s))
    fmt.Println(lit(%s))
}

@test "form: print with and without trailing comma %d"
{
    x := %d
%s
    print "end", x
}

@test "form: literal spellings %d"
{
    s := "%s"
    t := "%s"
    r := `%s`
    fmt.Println(len(s), []byte(s), len(t), []byte(t), len(r), r)
    fmt.Println(%s, "", ``, true, nil)
}
""" % (p1, ", ".join(n1), p2, ", ".join(n2), i, p3, ", ".join(n3), rng.randint(1, 9), ", ".join(a1), ", ".join(a2), ", ".join(a3),
       i, rng.randint(1, 9), "\n".join(prints), i, s1, s2, raw, ", ".join(nums))
    return re.sub(r"\b(mix|Acc)\b", lambda m: "%s%d" % (m.group(1), i), text)


def gen_program(rng, i):
    e = lambda: gen_int_expr(rng, rng.randint(1, 3)).replace("% 0", "% 7")
    lits = rng.choice(["[]int{1, 2, 3}", "[]int{%s, %s}" % (e(), e()), "[]string{\"a\", \"b\"}", "[]P{{a: 1}, {a: 2}}",
                       "map[string]int{\"k\": 1}", "[]int{}"])
    body = []
    body.append("    x := %d  // x is set" % rng.randint(1, 9))
    body.append("    y := %s" % rng.choice(["2", "x + 1", "- -x", "-x"]))
    body.append("    /* block %d */" % i)
    body.append("    fmt.Println(%s)" % e())
    if "P{" in lits:
        body.append("    for _, p := range %s {\n        fmt.Println(p.a) // in loop\n    }" % lits)
    elif "map" in lits:
        body.append("    for k, v := range %s {\n        fmt.Println(k, v)\n    }" % lits)
    else:
        body.append("    for i, v := range %s {\n        // leading in loop\n        fmt.Println(i, v)\n    }" % lits)
    body.append("    if %s %s %s {\n        fmt.Println(\"yes\")\n    } else {\n        fmt.Println(\"no\") /* tail */\n    }" % (
        e(), rng.choice(["<", "==", ">=", "!="]), e()))
    body.append("    switch %s {\n    case 1, 2:\n        fmt.Println(\"small\")\n    default:\n        fmt.Println(\"other\")\n    }" % rng.choice(["x", "y", "x + y"]))
    body.append("    for j := 0; j < %d; j = j + 1 {\n        y = y + j * %s\n    }" % (rng.randint(1, 4), rng.choice(["2", "- -1", "(x - 1)"])))
    body.append("    fmt.Println(x, y, !(x < y) || x == %s && true)" % e())
    rng.shuffle(body[3:])
    return ("// generated program %d\nimport \"fmt\"\n\ntype P struct {\n    a int\n}\n\nfunc main() {\n%s\n}\n// end of program\n"
            % (i, "\n".join(body)))


def as_test(prog, i):
    """a generated main program as an @test block (so that one `ego test` process runs them all)"""
    head, body = prog.split("func main() {\n", 1)
    body, tail = body.rsplit("\n}\n", 1)
    return "%s@test \"generated %d\"\n{\n%s\n    @assert T.Equal(1, 1)\n}\n%s" % (head, i, body, tail)


CORPUS_PROGRAMS = [
    "import \"fmt\"\nfunc main() {\n    for _, v := range []int{1, 2, 3} {\n        fmt.Println(v)\n    }\n}\n",
    "import \"fmt\"\ntype P struct { a int }\nfunc main() {\n    for _, p := range []P{{a: 1}, {a: 2}} {\n        fmt.Println(p.a)\n    }\n}\n",
    "import \"fmt\"\nfunc main() {\n    x := 3\n    y := - -x // two minus\n    fmt.Println(y, x - - -y)\n}\n",
    "import \"fmt\"\nfunc main() {\n    for k, v := range map[string]int{\"a\": 1} {\n        fmt.Println(k, v)\n    }\n    if len([]int{1, 2}) == 2 {\n        fmt.Println(\"two\")\n    }\n}\n",
]


# ----------------------------------------------------------------------------- comments / outcomes
def comments_of(src):
    """multiset (sorted list) of comments with whitespace normalised; aware of string, raw-string and rune literals"""
    out, i, n = [], 0, len(src)
    while i < n:
        c = src[i]
        if c == '"' or c == "'":
            j = i + 1
            while j < n and src[j] != c and src[j] != "\n":
                j += 2 if src[j] == "\\" else 1
            i = j + 1
        elif c == "`":
            j = src.find("`", i + 1)
            i = n if j < 0 else j + 1
        elif src.startswith("//", i):
            j = src.find("\n", i)
            j = n if j < 0 else j
            out.append(" ".join(src[i:j].split()))
            i = j
        elif src.startswith("/*", i):
            j = src.find("*/", i + 2)
            j = n if j < 0 else j + 2
            out.append(" ".join(src[i:j].split()))
            i = j
        else:
            i += 1
    return sorted(out)


def words_of(src):
    """the sequence of identifiers/keywords, numbers and literal placeholders of a source text (comments, layout,
    punctuation and operators left out): the formatter never renames, drops, duplicates or reorders them"""
    out, i, n = [], 0, len(src)
    while i < n:
        c = src[i]
        if c == '"' or c == "'":
            j = i + 1
            while j < n and src[j] != c and src[j] != "\n":
                j += 2 if src[j] == "\\" else 1
            out.append("<str>" if c == '"' else src[i:j + 1])
            i = j + 1
        elif c == "`":
            j = src.find("`", i + 1)
            out.append("<str>")
            i = n if j < 0 else j + 1
        elif src.startswith("//", i):
            j = src.find("\n", i)
            i = n if j < 0 else j
        elif src.startswith("/*", i):
            j = src.find("*/", i + 2)
            i = n if j < 0 else j + 2
        elif c.isalpha() or c == "_":
            j = i
            while j < n and (src[j].isalnum() or src[j] == "_"):
                j += 1
            out.append(src[i:j])
            i = j
        elif c.isdigit():
            j = i
            while j < n and (src[j].isalnum() or src[j] in "_."):
                j += 1
            out.append(src[i:j])
            i = j
        else:
            i += 1
    return out


def norm_outcome(rc, out, paths):
    for p in paths:
        out = out.replace(p, "<file>")
    out = re.sub(r"\b(at |line |:)\d+(:\d+)?", r"\1N", out)
    out = re.sub(r"\(\d+(\.\d+)?\s*(ns|µs|us|ms|s)\)|\b\d+(\.\d+)?\s*(ns|µs|us|ms|s)\b", "<dur>", out)
    out = re.sub(r"0x[0-9a-f]{6,}", "<addr>", out)
    return (0 if rc == 0 else 1), out.strip()


def known_cause(src):
    """signature of a recorded defect class that the source falls into, or None"""
    if re.search(r"^[ \t]*@\w+[^\n]*`[ \t]*$", src, re.M):
        return "directive-line-ends-in-raw-string"
    return None


def cause_of(msg):
    m = msg.lower()
    for key in ("missing term", "missing block", "unexpected token", "invalid", "expected", "missing"):
        if key in m:
            return key.replace(" ", "-")
    return "other"


def run(ck):
    quick = ck.tier == "quick"
    ck.cov["rule"] = ("expressions: token lists from atom | prefix e | e binop e | (e) over the real operator table, written "
                      "with random spacing; programs: generated main() with comments in leading/trailing/inner/footer "
                      "positions, composite literals in for/if headers, nested unary minus; corpus: .ego files under "
                      "/repo/tests (a seeded sample in the quick tier, all in the thorough tier). distinct_nontrivial = "
                      "distinct sources that the formatter accepts and that contain an operator or a comment")
    ck.assume("the model parser is a chain of precedence tiers; parseBinary is a precedence-climbing loop - the two are compared on every generated expression, not proved equal",
              "comments are compared as a multiset of whitespace-normalised texts found by a Python scanner")
    ck.trusted("props/C05.py generators, `ego fmt --ast` dump reader, comment scanner, outcome normaliser",
               "the ego binary built from the working tree by vf.build_ego", "correspondence evaluated by vm_compute in a generated cases file")
    okb, logb = vf.coq_build("SqlFmt")
    coq_ok = okb and ck.coq_stage(GROUP, theorems=["C05_expr_roundtrip", "C05_reparse", "C05_idempotent", "C05_comments_kept",
                                                    "C05_table_ok", "C05_old_minus_refuted", "C05_if_ladder_roundtrip"], extra_q=("SqlFmt",))
    if not okb:
        ck.coq_broken = ("SqlFmt", logb)
    ok, ego = vf.build_ego()
    if not ok:
        ck.violation("ego-build", "the ego binary does not build:\n" + ego[-1500:], replay={"log": ego[-3000:]}, found_input=False)
        return
    env = vf.ego_env(ck.work)
    rng = ck.rng
    src_dir = os.path.join(ck.work, "src")
    os.makedirs(src_dir, exist_ok=True)
    found = [False]

    def ego_run(args, inp=None, cwd=None, timeout=60):
        return vf.sh([ego] + args, cwd=cwd or src_dir, env=env, timeout=timeout, inp=inp)

    # ---------------- (1) expressions: real --ast / formatted text vs model
    ne = 150 if quick else 1500
    exprs = []
    corpus_e = [[("sp", "-"), ("sp", "-"), ("id", "x")], [("id", "a"), ("sp", "-"), ("sp", "-"), ("sp", "-"), ("int", "2")],
                [("sp", "!"), ("sp", "!"), ("id", "flag")], [("id", "a"), ("sp", "-"), ("id", "b"), ("sp", "-"), ("id", "c")],
                [("id", "a"), ("sp", "-"), ("lp", "("), ("id", "b"), ("sp", "-"), ("id", "c"), ("rp", ")")],
                [("id", "a"), ("sp", "||"), ("id", "b"), ("sp", "&&"), ("id", "c"), ("sp", "=="), ("int", "1"), ("sp", "+"), ("int", "2"), ("sp", "*"), ("int", "3")],
                [("id", "a"), ("sp", "&"), ("id", "b"), ("sp", "|"), ("id", "c"), ("sp", "^"), ("int", "1"), ("sp", "<<"), ("int", "2")],
                [("sp", "-"), ("lp", "("), ("sp", "-"), ("id", "x"), ("rp", ")")]]
    replay = json.load(open(ck.replay_file))["replay"] if ck.replay_file else None
    if replay is None:
        exprs = corpus_e + [gen_etoks(rng, rng.randint(1, 4)) for _ in range(ne)]
    else:
        exprs = [[tuple(t) for t in e] for e in replay.get("exprs", [])]
    frag = "\n".join("v%d := %s" % (i, toks_text(rng, e)) for i, e in enumerate(exprs)) + "\n"
    ecases = []
    if exprs:
        rc1, dump = ego_run(["fmt", "--fragment", "--ast"], inp=frag)
        rc2, text = ego_run(["fmt", "--fragment"], inp=frag)
        if rc1 != 0 or rc2 != 0:
            # find the single expression the formatter refuses
            for i, e in enumerate(exprs):
                one = "v := %s\n" % toks_text(rng, e)
                r, o = ego_run(["fmt", "--fragment"], inp=one)
                if r != 0:
                    ck.violation("expr-rejected", "ego fmt refuses the expression statement %r: %s" % (one, o.strip()[:200]),
                                 replay={"exprs": [e]})
                    found[0] = True
                    break
            else:
                ck.violation("expr-batch", "ego fmt fails on the generated expression batch: %s" % (dump + text)[-400:],
                             replay={"source": frag}, found_input=False)
        else:
            root = parse_dump(dump)
            stmts = root[1] if root else []
            lines = [l for l in text.split("\n") if l.strip()]
            if len(stmts) != len(exprs) or len(lines) != len(exprs):
                ck.violation("expr-count", "ego fmt --fragment returned %d statements / %d lines for %d expression statements" % (
                    len(stmts), len(lines), len(exprs)), replay={"source": frag}, found_input=False)
            else:
                for i, e in enumerate(exprs):
                    tree = dump_to_coq(stmts[i][1][1]) if len(stmts[i][1]) == 2 else None
                    rhs = lines[i].split(":= ", 1)[1] if ":= " in lines[i] else None
                    ecases.append((e, tree, rhs))
                # the formatted fragment must be a fixpoint and parse to the same trees
                rc3, dump2 = ego_run(["fmt", "--fragment", "--ast"], inp=text)
                rc4, text2 = ego_run(["fmt", "--fragment"], inp=text)
                strip = lambda d: re.sub(r"\s+@\d+:\d+", "", d)
                if rc3 != 0 or strip(dump2) != strip(dump):
                    bad = None
                    for i, e in enumerate(exprs):
                        r, o1 = ego_run(["fmt", "--fragment", "--ast"], inp=lines[i] + "\n")
                        r0, o0 = ego_run(["fmt", "--fragment", "--ast"], inp="v%d := %s\n" % (i, toks_text(rng, e)))
                        if r != 0 or strip(o1) != strip(o0):
                            bad = (e, lines[i])
                            break
                    ck.violation("expr-reparse", "the formatted expression statement %r does not parse back to the tree of its source" % (
                        bad[1] if bad else "?"), replay={"exprs": [bad[0]] if bad else [], "source": frag}, found_input=bad is not None)
                    found[0] = True
                elif rc4 != 0 or text2 != text:
                    ck.violation("expr-idempotent", "formatting the formatted expression batch again changes it", replay={"source": frag})
                    found[0] = True

    # ---------------- (1b) if / else-if ladders: the real tree of the source (`--ast`) printed by the model = the
    # keyword skeleton of the real formatted text
    lcases = []
    if replay is None or replay.get("ladders"):
        nl = 25 if quick else 250
        specs = replay["ladders"] if replay else [
            {"inits": [rng.random() < 0.6 for _ in range(rng.randint(1, 5))], "else": rng.random() < 0.6} for _ in range(nl)]
        srcs = []
        for sp in specs:
            t = ""
            for k, has in enumerate(sp["inits"]):
                t += "%sif %sc%d > %d {\n    r = %d\n}" % (" else " if k else "", "q%d := x + %d; " % (k, k) if has else "", k, k, k)
            if sp["else"]:
                t += " else {\n    r = -1\n}"
            srcs.append(t + "\n")
        lfrag = "".join(srcs)
        rcl, ldump = ego_run(["fmt", "--fragment", "--ast"], inp=lfrag)
        rct, ltext = ego_run(["fmt", "--fragment"], inp=lfrag)
        lroot = parse_dump(ldump) if rcl == 0 else None
        # split the formatted text into top-level statements: a ladder ends with a line that is exactly "}"
        chunks, cur = [], []
        for line in (ltext if rct == 0 else "").split("\n"):
            if line.strip():
                cur.append(line)
                if line == "}":
                    chunks.append(cur)
                    cur = []
        if rcl != 0 or rct != 0 or lroot is None or len(lroot[1]) != len(specs) or len(chunks) != len(specs):
            ck.violation("ladder-batch", "ego fmt fails on generated if/else-if ladders or returns another number of statements: %s" % (
                (ldump + ltext)[-300:]), replay={"ladders": specs[:3]}, found_input=False)
        else:
            def rungs_of(node):
                """IfStmt dump node -> ([has_init...], has_else)"""
                res = []
                while True:
                    ch = node[1]
                    bi = next(i for i, c in enumerate(ch) if c[0] == "Block")
                    res.append(bi == 2)
                    rest = ch[bi + 1:]
                    if not rest:
                        return res, False
                    if rest[0][0] == "IfStmt":
                        node = rest[0]
                        continue
                    return res, True
            for sp, node, chunk in zip(specs, lroot[1], chunks):
                inits, els = rungs_of(node)
                codes = []
                for line in chunk:
                    st = line.strip()
                    m1 = re.match(r"^(\} else )?if (.*) \{$", st)
                    if m1 and not line.startswith(" "):
                        codes += ([2] if m1.group(1) else []) + [1] + ([4, 3] if ";" in m1.group(2) else []) + [5, 6]
                    elif st == "} else {" and not line.startswith(" "):
                        codes += [2, 6]
                lcases.append((sp, inits, els, codes))
                if inits != sp["inits"] or els != sp["else"]:
                    ck.violation("ladder-parse", "the formatter's parser reads the ladder %r as inits=%r else=%r" % (sp, inits, els),
                                 replay={"ladders": [sp]})
                    found[0] = True

    # ---------------- (2) programs and corpus through the real binary (few processes: the machine is shared)
    files = []
    if replay is None or not replay.get("files"):
        if replay is None:
            for i, p in enumerate(CORPUS_PROGRAMS + [gen_program(rng, i) for i in range(12 if quick else 120)]):
                files.append(("gen/gen%03d.ego" % i, as_test(p, i)))
            for i in range(2 if quick else 25):
                files.append(("gen/forms%03d.ego" % i, gen_forms(rng, i)))
            for i in range(3 if quick else 40):
                files.append(("gen/lits%03d.ego" % i, gen_forms2(rng, i)))
            corpus = sorted(glob.glob(os.path.join(vf.REPO, "tests", "**", "*.ego"), recursive=True))
            pick = corpus if not quick else rng.sample(corpus, min(len(corpus), 40))
            for p in sorted(pick):
                files.append((os.path.relpath(p, os.path.join(vf.REPO, "tests")), open(p, encoding="utf8", errors="replace", newline="").read()))
    else:
        for f in replay["files"]:
            src = f.get("source")
            if src is None:
                src = open(os.path.join(vf.REPO, "tests", f["name"]), encoding="utf8", errors="replace", newline="").read()
            files.append((f["name"], src))
    dirs = {k: os.path.join(src_dir, k) for k in "ofg"}

    def put(root, rel, text):
        path = os.path.join(root, rel)
        os.makedirs(os.path.dirname(path), exist_ok=True)
        open(path, "w", encoding="utf8", newline="").write(text)
        return path

    def rep_of(name):
        src = dict(files)[name]
        return {"files": [{"name": name, "source": src if name.startswith("gen/") else None}]}

    def fmt_all(root, names):
        """ego fmt -w over all files (the command line takes at most 99 files); {name: error text} for refused files"""
        bad = {}
        for k in range(0, len(names), 60):
            bad.update(fmt_chunk(root, names[k:k + 60]))
        return bad

    def fmt_chunk(root, names):
        bad, todo = {}, list(names)
        for _ in range(8):
            if not todo:
                break
            rc, out = ego_run(["fmt", "-w"] + [os.path.join(root, n) for n in todo], timeout=600)
            if rc == 0:
                break
            hit = [n for n in todo if os.path.join(root, n) in out]
            if not hit:                       # cannot tell which file: format one by one
                for n in todo:
                    r1, o1 = ego_run(["fmt", "-w", os.path.join(root, n)])
                    if r1 != 0:
                        bad[n] = o1
                break
            bad[hit[0]] = out
            todo = todo[todo.index(hit[0]) + 1:]      # files before it were written already
        return bad

    for name, src in files:
        put(dirs["o"], name, src)
        put(dirs["f"], name, src)
    names = [n for n, _ in files]
    bad = fmt_all(dirs["f"], names)
    nontriv, nfmt = set(), 0
    ntrees = [0]

    def test_lines(root):
        rc, out = ego_run(["test", "."], cwd=root, timeout=900)
        out = out.replace(root, "<dir>")
        res = []
        for line in out.split("\n"):
            line = re.sub(r"\b\d+(\.\d+)?\s*(ns|µs|us|ms|s|m)\b", "<dur>", line)
            line = re.sub(r"\b(at |line |:)\d+(:\d+)?", r"\1N", line)
            line = re.sub(r"0x[0-9a-f]{6,}", "<addr>", line)
            line = " ".join(line.split())
            if line:
                res.append(line)
        return (0 if rc == 0 else 1), res

    ro = test_lines(dirs["o"]) if names else (0, [])
    for n, msg in bad.items():
        # the compiler's verdict on the original: its tests appear in the run of the originals without a compile error
        cause = cause_of(msg)
        ck.violation(known_cause(dict(files)[n]) or "fmt-fails-" + cause, "ego fmt fails on %s: %s" % (n, " ".join(msg.split())[-200:]), replay=rep_of(n))
        found[0] = True
        for k in "of":
            os.remove(os.path.join(dirs[k], n))
    good = [n for n in names if n not in bad]
    if bad:
        ro = test_lines(dirs["o"])
    for n in good:
        out = open(os.path.join(dirs["f"], n), encoding="utf8", errors="replace", newline="").read()
        put(dirs["g"], n, out)
    bad2 = fmt_all(dirs["g"], good)
    for n in good:
        src = dict(files)[n]
        out = open(os.path.join(dirs["f"], n), encoding="utf8", errors="replace", newline="").read()
        nfmt += 1
        if comments_of(src) or re.search(r"[-+*/<>=!|&]", src):
            nontriv.add(n)
        out2 = open(os.path.join(dirs["g"], n), encoding="utf8", errors="replace", newline="").read()
        if n in bad2 or out2 != out:
            ck.violation(known_cause(src) or "not-idempotent", "ego fmt of its own output for %s %s" % (
                n, "fails: " + " ".join(bad2[n].split())[-160:] if n in bad2 else "differs"), replay=rep_of(n))
            found[0] = True
        wa, wb = words_of(src), words_of(out)
        if "".join(wa) != "".join(wb):          # joined: the Ego tokenizer reads "5abc" as 5 abc
            k = 0
            while k < min(len(wa), len(wb)) and wa[k] == wb[k]:
                k += 1
            ck.violation(known_cause(src) or "words-differ", "ego fmt changes the identifiers/literals of %s: %r becomes %r" % (
                n, wa[max(0, k - 3):k + 4], wb[max(0, k - 3):k + 4]), replay=rep_of(n))
            found[0] = True
        ca, cb = comments_of(src), comments_of(out)
        if ca != cb:
            lost = [c for c in ca if c not in cb][:3]
            ck.violation("comment-lost", "comments of %s change under ego fmt; missing/changed: %r" % (n, lost), replay=rep_of(n))
            found[0] = True
    # the syntax tree of the formatted copy equals the tree of the original (positions aside): `ego fmt --ast`
    def dumps(root):
        rc, out = 0, ""
        for k in range(0, len(good), 60):
            r1, o1 = ego_run(["fmt", "--ast"] + [os.path.join(root, n) for n in good[k:k + 60]], timeout=900)
            rc, out = rc or r1, out + o1 + ("" if o1.endswith("\n") else "\n")
        parts = re.split(r"(?m)^(?=File$)", re.sub(r"[ \t]+@\d+:\d+[ \t]*$", "", out, flags=re.M))
        return rc, [x for x in parts if x.strip()]
    if good:
        d_o, d_f = dumps(dirs["o"]), dumps(dirs["f"])
        if d_o[0] == 0 and len(d_o[1]) == len(good):
            if d_f[0] != 0 or len(d_f[1]) != len(good):
                ck.violation("tree-dump", "ego fmt --ast fails on the formatted copies", replay={"files": [{"name": n, "source": None} for n in good if not n.startswith("gen/")][:5]}, found_input=False)
            else:
                for n, a, b in zip(good, d_o[1], d_f[1]):
                    if a != b:
                        la, lb = a.split("\n"), b.split("\n")
                        k = 0
                        while k < min(len(la), len(lb)) and la[k] == lb[k]:
                            k += 1
                        ck.violation(known_cause(dict(files)[n]) or "tree-differs", "the syntax tree of %s changes under ego fmt: %r becomes %r" % (
                            n, [x.strip() for x in la[k:k + 3]], [x.strip() for x in lb[k:k + 3]]), replay=rep_of(n))
                        found[0] = True
                ntrees[0] = len(good)
        else:
            ck.violation("tree-dump", "ego fmt --ast of the original files fails or returns %d trees for %d files" % (len(d_o[1]), len(good)),
                         replay={"log": "rc %d" % d_o[0]}, found_input=False)
    rf = test_lines(dirs["f"]) if good else (0, [])
    nrun = len(good)
    if ro != rf:
        k = 0
        while k < min(len(ro[1]), len(rf[1])) and ro[1][k] == rf[1][k]:
            k += 1
        culprit = None
        if len(good) > 1 and replay is None:      # find one file that alone shows the difference
            for n in good:
                for kk in "of":
                    shutil.rmtree(os.path.join(src_dir, "one" + kk), ignore_errors=True)
                put(os.path.join(src_dir, "oneo"), n, dict(files)[n])
                put(os.path.join(src_dir, "onef"), n, open(os.path.join(dirs["f"], n), encoding="utf8", errors="replace", newline="").read())
                if test_lines(os.path.join(src_dir, "oneo")) != test_lines(os.path.join(src_dir, "onef")):
                    culprit = n
                    break
        ck.violation((known_cause(dict(files)[culprit]) if culprit else None) or "behaviour-differs", "ego test outcome changes after ego fmt%s: original rc %d %r; formatted rc %d %r" % (
            " of " + culprit if culprit else "", ro[0], ro[1][k:k + 3], rf[0], rf[1][k:k + 3]),
            replay=rep_of(culprit) if culprit else {"files": [{"name": n, "source": dict(files)[n] if n.startswith("gen/") else None} for n in good]},
            found_input=True)
        found[0] = True
    ck.cov["evaluations"] = len(exprs) + len(files)
    ck.cov["distinct_nontrivial"] = len(nontriv) + sum(1 for e in exprs if any(k == "sp" for k, _ in e))
    ck.cov["input_distribution"] = {"expressions": len(exprs), "programs_generated": sum(1 for f in files if f[0].startswith("gen/")),
                                    "corpus_files": sum(1 for f in files if not f[0].startswith("gen/")),
                                    "tests_run_original": sum(1 for l in ro[1] if l.startswith("TEST:")),
                                    "trees_compared": ntrees[0], "ladders": len(lcases),
                                    "formatted_ok": nfmt, "outcome_compared": nrun,
                                    "with_comments": sum(1 for f in files if comments_of(f[1]))}
    for e, t, rhs in ecases[8:11]:
        ck.sample({"expr_tokens": [t for _, t in e], "formatted": rhs})
    for name, src in files[4:7]:
        ck.sample({"file": name, "comments": len(comments_of(src)), "formatted_ok": name not in bad})

    # ---------------- (3) translator + correspondence with the model
    try:
        tiers = read_table(vf.REPO)
    except Exception as ex:
        ck.violation("translator", "cannot re-read the precedence table: %s" % ex, replay={"error": str(ex)}, found_input=found[0])
        return
    ck.cov["input_distribution"]["tiers_from_source"] = ["%s:%s" % (k, " ".join(o)) for k, o in tiers]
    if getattr(ck, "coq_broken", None):
        if not found[0]:
            grp, log = ck.coq_broken
            ck.violation("proof-broken", "Coq development %s no longer checks:\n%s" % (grp, log[-1200:]),
                         replay={"broken": "coq/%s" % grp, "log": log[-3000:]}, found_input=False)
        return
    usable = [(e, t, r) for e, t, r in ecases if t is not None and r is not None]
    if ecases and len(usable) < len(ecases):
        ck.violation("corr-dump", "an expression of the modelled fragment is dumped by ego fmt --ast with a node outside it",
                     replay={"exprs": [e for e, t, r in ecases if t is None][:1]}, found_input=found[0])
    lines = ["From Common Require Import Base.", "From SqlFmt Require Import PrecClimb.", "From Fmt Require Import Model.",
             "Open Scope N_scope.", "Definition gen_tbl : list (level sym) := %s." % coq_tbl(tiers),
             "Definition cases : list (list etok * eexpr * str) := ["]
    lines.append(";\n".join("(%s, %s, %s)" % (toks_coq(e), t, cstr(r)) for e, t, r in usable))
    lines.append("].\nDefinition lcases : list (ladder * list N) := [")
    def coq_ladder(inits, els):
        rs = ["(mkRung %s %d %d)" % ("(Some %d)" % (3 * k) if h else "None", 3 * k + 1, 3 * k + 2) for k, h in enumerate(inits)]
        return "(mkLadder %s [%s] %s)" % (rs[0], "; ".join(rs[1:]), "(Some 999)" if els else "None")
    lines.append(";\n".join("(%s, %s)" % (coq_ladder(i, e), vf.vN(c)) for _, i, e, c in lcases))
    lines.append("""].
Definition ladderbad (i : nat) (c : ladder * list N) : list nat :=
  one (forallb (fun p : N * N => N.eqb (fst p) (snd p)) (combine (List.map htok_code (print_ladder (fst c))) (snd c)) &&
       Nat.eqb (List.length (print_ladder (fst c))) (List.length (snd c)) &&
       match parse_ladder (print_ladder (fst c)) with Some (l, []) => true | _ => false end) i.
""")
    lines.insert(lines.index("Open Scope N_scope.") + 1, """Fixpoint idx {A} (f : nat -> A -> list nat) (i : nat) (l : list A) : list nat :=
  match l with [] => [] | x :: r => f i x ++ idx f (S i) r end.
Definition one (b : bool) (i : nat) : list nat := if b then [] else [i].""")
    lines.append("""
Definition parsebad (i : nat) (c : list etok * eexpr * str) : list nat :=
  match eparse gen_tbl (fst (fst c)) with Some a => one (eexpr_eqb a (snd (fst c))) i | None => [i] end.
Definition printbad (i : nat) (c : list etok * eexpr * str) : list nat :=
  one (str_eqb (etext true (snd (fst c))) (snd c)) i.
Definition modelbad (i : nat) (c : list etok * eexpr * str) : list nat :=
  let a := snd (fst c) in
  one (etoks_eqb (relex (eprint_sp true a)) (eprint a) &&
       match eparse gen_tbl (eprint a) with Some b => eexpr_eqb a b | None => false end) i.
""")
    okc, out = vf.coq_eval(GROUP, ck.work, "cases", "\n".join(lines),
                           {"obl": "one (wf_table str_eqb gen_tbl) 1%nat", "parsebad": "idx parsebad 0 cases",
                            "printbad": "idx printbad 0 cases", "modelbad": "idx modelbad 0 cases",
                            "ladderbad": "idx ladderbad 0 lcases"}, extra_q=("SqlFmt",))
    ck.add_obligations(1, 0)
    if not okc:
        ck.violation("correspondence-eval", "model evaluation failed:\n" + str(out)[-1500:], replay={"log": str(out)[-3000:]},
                     found_input=found[0])
        return
    ck.cov["traces_validated_against_impl"] = len(usable)
    if out["obl"]:
        ck.violation("precedence-table", "binaryPrecedence lists an operator on two levels (wf_table fails): %s" % tiers,
                     replay={"tiers": tiers}, found_input=found[0])
    else:
        ck.cov["discharged"] += 1
    for key, what in (("parsebad", "expression parser (tree of `ego fmt --ast`)"), ("printbad", "printer (text of `ego fmt`)"),
                      ("modelbad", "model round trip")):
        for i in out[key][:3]:
            e, t, r = usable[i]
            ck.violation("corr-" + key, "model and implementation disagree (%s) on %r: real prints %r" % (
                what, " ".join(x for _, x in e), r), replay={"exprs": [e]}, found_input=found[0])
    for i in out["ladderbad"][:3]:
        sp, inits, els, codes = lcases[i]
        ck.violation("corr-ladder", "the printer's if/else-if skeleton differs from the model's for a ladder with inits=%r else=%r "
                     "(1 if, 2 else, 3 ';', 4 init, 5 cond, 6 block): real %r" % (inits, els, codes), replay={"ladders": [sp]})
    ck.cov["input_distribution"]["ladders"] = len(lcases)
    shutil.rmtree(src_dir, ignore_errors=True)
