"""Shared helpers of the Arith group (C03, C04): kinds, value encodings for the Go harness and for Coq,
an independent Python statement of the documented typing rules, case generators, harness/Coq drivers."""
import os
import re
import vf

GROUP = "Arith"
IK = ["byte", "int8", "int16", "uint16", "int32", "uint32", "int", "uint", "int64", "uint64"]
COQK = {"byte": "Byte", "int8": "I8", "int16": "I16", "uint16": "U16", "int32": "I32", "uint32": "U32",
        "int": "Int", "uint": "UInt", "int64": "I64", "uint64": "U64"}
BITS = {"byte": 8, "int8": 8, "int16": 16, "uint16": 16, "int32": 32, "uint32": 32, "int": 64, "uint": 64,
        "int64": 64, "uint64": 64}
SIGNED = {"int8", "int16", "int32", "int", "int64"}
RANK = {k: i + 2 for i, k in enumerate(IK)}
MODES = ["strict", "relaxed", "dynamic"]
COQM = {"strict": "Strict", "relaxed": "Relaxed", "dynamic": "Dynamic"}
OPS = ["add", "sub", "mul", "div", "mod"]
COQOP = {"add": "Add", "sub": "Sub", "mul": "Mul", "div": "Div", "mod": "Mod"}
ERR = {"mismatch": "ETypeMismatch", "invalidtype": "EInvalidType", "divzero": "EDivZero", "lossy": "ELossy",
       "vartype": "EVarType", "argtype": "EArgType", "other": "EOther"}


def kmin(k):
    return -(1 << (BITS[k] - 1)) if k in SIGNED else 0


def kmax(k):
    return (1 << (BITS[k] - 1)) - 1 if k in SIGNED else (1 << BITS[k]) - 1


def wrap(k, z):
    m = 1 << BITS[k]
    z %= m
    if k in SIGNED and z >= m >> 1:
        z -= m
    return z


def in_range(k, z):
    return kmin(k) <= z <= kmax(k)


def boundary(k, rng, n_random=1):
    lo, hi = kmin(k), kmax(k)
    vals = {lo, lo + 1, 0, 1, hi - 1, hi, 2, 7}
    if k in SIGNED:
        vals |= {-1, -2}
    for _ in range(n_random):
        vals.add(rng.randint(lo, hi))
        b = rng.randint(1, BITS[k] - 1)
        vals.add(max(lo, min(hi, rng.randint(-(1 << b), 1 << b))))
    return sorted(vals)


# ------------------------------------------------------------------ values: (kind, const, payload)
def hv(v):
    k, c, p = v
    if k == "string":
        return "string:%d:%s" % (c, p.encode().hex())
    if k == "bool":
        return "bool:%d:%d" % (c, 1 if p else 0)
    if k in ("float32", "float64"):
        return "%s:%d:%s" % (k, c, p)
    return "%s:%d:%d" % (k, c, p)


def parse_hv(s):
    k, c, p = s.split(":", 2)
    if k == "string":
        return (k, int(c), bytes.fromhex(p).decode("utf8", "replace"))
    if k == "bool":
        return (k, int(c), p == "1")
    if k in BITS:
        return (k, int(c), int(p))
    if k == "float64":               # modelled only when the value is an integer (VFlt z); -0 and the rest stay opaque text
        try:
            x = float(p)
            if x.is_integer() and abs(x) < 1e300 and not (x == 0 and p.strip().startswith("-")):
                return (k, int(c), int(x))
        except ValueError:
            pass
    return (k, int(c), p)            # floats / other: opaque text


def coq_val(v):
    k, _, p = v
    if k == "string":
        return "(VStr %s)" % vf.vrunes(p)
    if k == "bool":
        return "(VBool %s)" % ("true" if p else "false")
    if k == "float64":
        return "(VFlt (%d))" % p
    return "(VInt %s (%d))" % (COQK[k], p)


def coq_vc(v):
    return "(%s, %s)" % (coq_val(v), "true" if v[1] else "false")


def coq_kind(k):
    return "KBool" if k == "bool" else "KStr" if k == "string" else "KF64" if k == "float64" else "(KI %s)" % COQK[k]


def modelled(v):
    return v[0] in BITS or v[0] in ("bool", "string") or (v[0] == "float64" and isinstance(v[2], int))


def coq_obs(o, with_const=False):
    """observed harness result ('ok', value) | ('err', class) -> Coq term of type res value (or res (value*bool))"""
    if o[0] == "ok":
        return "(Ok %s)" % (coq_vc(o[1]) if with_const else coq_val(o[1]))
    return "(Err %s)" % ERR.get(o[1], "EOther")


def parse_out(line):
    f = line.split()
    if len(f) < 2:
        return None, None
    if f[1] == "ok":
        return f[0], ("ok", parse_hv(f[2]))
    if f[1] == "err":
        return f[0], ("err", f[2])
    return f[0], (f[1],)            # panic / badinput


# ------------------------------------------------------------------ the documented rules, in Python
def doc_arith(op, k, a, b):
    if op == "add":
        return ("ok", (k, 0, wrap(k, a + b)))
    if op == "sub":
        return ("ok", (k, 0, wrap(k, a - b)))
    if op == "mul":
        return ("ok", (k, 0, wrap(k, a * b)))
    if b == 0:
        return ("err", "divzero")
    q = abs(a) // abs(b)
    if (a < 0) != (b < 0):
        q = -q
    if op == "div":
        return ("ok", (k, 0, wrap(k, q)))
    return ("ok", (k, 0, wrap(k, a - q * b)))


def doc_binop(mode, op, v1, v2):
    """docs/LANGUAGE.md, 'Combining values in an expression', integer operands only"""
    (k1, c1, a), (k2, c2, b) = v1, v2
    if k1 == k2:
        return doc_arith(op, k1, a, b)
    if c1 != c2:
        if c1:
            if mode == "strict" and not in_range(k2, a):
                return ("err", "lossy")
            return doc_arith(op, k2, wrap(k2, a), b)
        if mode == "strict" and not in_range(k1, b):
            return ("err", "lossy")
        return doc_arith(op, k1, a, wrap(k1, b))
    if mode == "strict" and not c1:
        return ("err", "mismatch")
    k = k2 if RANK[k1] < RANK[k2] else k1
    return doc_arith(op, k, wrap(k, a), wrap(k, b))


def doc_assign(mode, dest_kind, v):
    """assignment / argument / return of an integer value to an integer destination; strict error class is
    boundary specific, so only 'err' is returned"""
    k, c, p = v
    if mode == "dynamic":
        return None
    if k == dest_kind:
        return ("ok", (k, 0, p))
    if mode == "relaxed":
        return ("ok", (dest_kind, 0, wrap(dest_kind, p)))
    if c and in_range(dest_kind, p):
        return ("ok", (dest_kind, 0, p))
    return ("err",)


def same(obs, want):
    if want is None:
        return True
    if want[0] == "err":
        return obs[0] == "err" and (len(want) == 1 or obs[1] == want[1])
    return obs[0] == "ok" and obs[1][0] == want[1][0] and obs[1][2] == want[1][2]


# ------------------------------------------------------------------ drivers
def build_harness(ck):
    return vf.go_test_build(ck.work, "internal/language/bytecode",
                            {"internal/language/bytecode/zz_verif_c03_test.go": os.path.join(vf.HARNESS, "C03", "c03_test.go")},
                            "c03.test")


def run_harness(ck, binp, lines, tag="cases"):
    inp = os.path.join(ck.work, tag + ".in")
    outp = os.path.join(ck.work, tag + ".out")
    with open(inp, "w") as f:
        f.write("\n".join(lines) + "\n")
    rc, log = vf.run_bin(binp, "^TestVerifC03$", {"VERIF_IN": inp, "VERIF_OUT": outp})
    if rc != 0:
        return None, log
    res = {}
    for line in open(outp):
        i, o = parse_out(line)
        if i is not None:
            res[i] = o
    return res, log


def _coq_compare_one(ck, name, exprs, timeout):
    chunks = []
    for i in range(0, len(exprs), 400):
        chunks.append("Definition c%d : list Z := [\n%s\n]." % (i // 400, ";\n".join(exprs[i:i + 400]) or ""))
    allc = " ++ ".join("c%d" % i for i in range(len(chunks))) or "[]"
    prelude = ("From Coq Require Import ZArith List.\nFrom Common Require Import Base.\nFrom Arith Require Import Model Prog.\n"
               "Import ListNotations.\nOpen Scope Z_scope.\n" + "\n".join(chunks) +
               "\nDefinition allc : list Z := Eval vm_compute in (%s).\n" % allc)
    ok, res = vf.coq_eval(GROUP, ck.work, name, prelude,
                          {"bad": "idx_where 1 0 allc", "oom": "idx_where 2 0 allc", "n": "[Z.of_nat (length allc)]"},
                          timeout=timeout)
    if not ok:
        return False, res, None
    if res["n"] != [len(exprs)]:
        return False, "case count mismatch %r vs %d" % (res["n"], len(exprs)), None
    return True, res["bad"], res["oom"]


SHARD_ABOVE = 20000      # the quick tier (< 20000 cells) keeps its single generated file
SHARD_SIZE = 3000        # larger runs: several generated files, 4 coqc at a time (big list literals overflow coqc's stack)


def coq_compare(ck, name, exprs, timeout=900):
    """exprs: list of Coq terms of type Z (cmp_res ...). Returns (ok, disagree idx list, oom idx list | log)."""
    if len(exprs) <= SHARD_ABOVE:
        return _coq_compare_one(ck, name, exprs, timeout)
    from concurrent.futures import ThreadPoolExecutor
    offs = list(range(0, len(exprs), SHARD_SIZE))
    with ThreadPoolExecutor(max_workers=4) as ex:
        parts = list(ex.map(lambda o: _coq_compare_one(ck, "%s_%d" % (name, o // SHARD_SIZE), exprs[o:o + SHARD_SIZE], timeout), offs))
    bad, oom = [], []
    for o, (ok, b, m) in zip(offs, parts):
        if not ok:
            return False, b, None
        bad += [o + i for i in b]
        oom += [o + i for i in m]
    return True, bad, oom


def strictness_sites(repo):
    """Every read of the type-strictness setting in bytecode/*.go (non-test): [(file, enclosing func)] sorted."""
    d = os.path.join(repo, "internal/language/bytecode")
    sites = []
    for fn in sorted(os.listdir(d)):
        if not fn.endswith(".go") or fn.endswith("_test.go"):
            continue
        func = "?"
        for line in open(os.path.join(d, fn), errors="replace"):
            m = re.match(r"func\s+(?:\([^)]*\)\s*)?([A-Za-z0-9_]+)", line)
            if m:
                func = m.group(1)
            code = line.split("//")[0]
            if re.search(r"\.typeStrictness\b", code) and not re.search(r"\.typeStrictness\s*=[^=]", code):
                sites.append((fn, func))
    return sorted(set(sites))
