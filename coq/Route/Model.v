(* Route/Model.v — executable model of Router.FindRoute (internal/router/router.go).
   Definitions only.  Strings are lists of bytes (str = list N).

   The router keeps its routes in a Go map, so the loop "for selector, route := range m.routes"
   visits them in an arbitrary order.  The model is therefore a function of the route LIST in
   iteration order: find T m p.

   Transliteration notes (see docs/C32.md):
   - the path is normalised (one trailing "/" trimmed, then "/" appended, when len > 1), split at "/";
     an endpoint likewise.  Matching is segment by segment exactly as the masked-endpoint
     construction of the Go code decides it (segments of the endpoint that lie beyond the end of
     the path are accepted; extra path segments are ignored; a glob route compares the segments
     before the glob LITERALLY, also "{{x}}" ones, and needs len(path parts) >= glob index).
   - the route whose endpoint is exactly "/" is always a candidate (no method check).
   - "candidate.endpoint == path" is expressed on the segment lists (strings.Split is injective),
     strings.Count(path,"/") as (number of segments - 1).
   - the minCount/fewestVariables/maxCount loop is expressed by its result: min (start 100) and max
     (start 0) of the variable counts and the FIRST candidate attaining the minimum when it is
     below 100; "longest" is the FIRST candidate of maximal length.  A nil fewestVariables returned
     with status 200 is the explicit outcome FoundNil. *)
From Common Require Import Base.
Open Scope N_scope.

Definition SLASH : N := 47.
Definition LBR : N := 123.
Definition RBR : N := 125.
Definition DOT : N := 46.

Record route := mkRoute { ep : str; meth : str }.

Definition route_eqb (a b : route) : bool := str_eqb (ep a) (ep b) && str_eqb (meth a) (meth b).

(* ---------------------------------------------------------------- string helpers *)
(* strings.Split(s, "/") : never empty *)
Fixpoint split (s : str) : list str :=
  match s with
  | [] => [[]]
  | c :: r => if c =? SLASH then [] :: split r
              else match split r with h :: t => (c :: h) :: t | [] => [[c]] end
  end.

Fixpoint has_prefix (pre s : str) : bool :=
  match pre, s with
  | [], _ => true
  | a :: pre', b :: s' => (a =? b) && has_prefix pre' s'
  | _ :: _, [] => false
  end.
Definition has_suffix (suf s : str) : bool := has_prefix (rev suf) (rev s).

(* strings.Contains(s, "cc") and strings.Count(s, "cc") (non-overlapping) for a doubled byte c *)
Fixpoint count2 (c : N) (s : str) : N :=
  match s with
  | a :: ((b :: r) as t) => if (a =? c) && (b =? c) then 1 + count2 c r else count2 c t
  | _ => 0
  end.
Definition count1 (c : N) (s : str) : N := N.of_nat (length (filter (N.eqb c) s)).
Definition slen (s : str) : N := N.of_nat (length s).

(* strings.TrimSuffix(s,"/") + "/" when len(s) > 1 *)
Definition norm (s : str) : str :=
  match s with
  | [] | [_] => s
  | _ => (if has_suffix [SLASH] s then removelast s else s) ++ [SLASH]
  end.

(* ASCII strings.ToUpper *)
Definition upc (c : N) : N := if (97 <=? c) && (c <=? 122) then c - 32 else c.
Definition upper (s : str) : str := map upc s.

Definition ANY : str := [65;78;89].

(* ---------------------------------------------------------------- matching *)
Definition is_var (e : str) : bool := has_prefix [LBR;LBR] e.
Definition is_glob (e : str) : bool := has_prefix [LBR;LBR] e && has_suffix [DOT;DOT;DOT;RBR;RBR] e.

Fixpoint nonglob_ok (eps ps : list str) : bool :=
  match eps with
  | [] => true
  | e :: eps' => match ps with
                 | [] => true
                 | p :: ps' => (is_var e || str_eqb e p) && nonglob_ok eps' ps'
                 end
  end.

Fixpoint glob_ok (eps ps : list str) : bool :=
  match eps with
  | [] => true
  | e :: eps' => if is_glob e then true
                 else match ps with
                      | [] => false
                      | p :: ps' => str_eqb e p && glob_ok eps' ps'
                      end
  end.

Definition ep_parts (e : str) : list str := split (norm e).

Definition pattern_ok (e : str) (ps : list str) : bool :=
  let eps := ep_parts e in
  if existsb is_glob eps then glob_ok eps ps else nonglob_ok eps ps.

Definition meth_ok (r : route) (m : str) : bool := str_eqb (meth r) ANY || str_eqb (meth r) m.

Definition is_root (r : route) : bool := str_eqb (ep r) [SLASH].

(* m is the upper-cased request method, ps the segments of the normalised path *)
Definition is_cand (m : str) (ps : list str) (r : route) : bool :=
  is_root r || (pattern_ok (ep r) ps && meth_ok r m).

Definition cands (T : list route) (m : str) (ps : list str) : list route := filter (is_cand m ps) T.

(* ---------------------------------------------------------------- the tie-break cascade *)
Inductive outcome := NotFound | NotAllowed | Found (r : route) | FoundNil.

Fixpoint parts_eqb (a b : list str) : bool :=
  match a, b with
  | [], [] => true
  | x :: a', y :: b' => str_eqb x y && parts_eqb a' b'
  | _, _ => false
  end.

Definition exact (ps : list str) (r : route) : bool := parts_eqb (split (ep r)) ps.
Definition novar (r : route) : bool := (count2 LBR (ep r) =? 0) && (count2 RBR (ep r) =? 0).
Definition nvars (r : route) : N := count2 LBR (ep r).
Definition rpc (r : route) : N :=
  count1 SLASH (ep r) + (if has_suffix [SLASH] (ep r) then 0 else 1).
Definition ppc (ps : list str) : N := N.of_nat (length ps) - 1.
Definition pc_eq (ps : list str) (r : route) : bool := ppc ps =? rpc r.
Definition rlen (r : route) : N := slen (ep r).

Definition minc (cs : list route) : N := fold_left N.min (map nvars cs) 100.
Definition maxc (cs : list route) : N := fold_left N.max (map nvars cs) 0.
Definition maxlen (cs : list route) : N := fold_left N.max (map rlen cs) 0.

Definition of_opt (o : option route) : outcome := match o with Some r => Found r | None => FoundNil end.

Definition cascade (cs : list route) (ps : list str) : outcome :=
  match find (exact ps) cs with
  | Some r => Found r
  | None =>
    match find novar cs with
    | Some r => Found r
    | None =>
      if minc cs <? maxc cs
      then (if minc cs <? 100 then of_opt (find (fun c => nvars c =? minc cs) cs) else FoundNil)
      else match find (pc_eq ps) cs with
           | Some r => Found r
           | None => of_opt (find (fun c => rlen c =? maxlen cs) cs)
           end
    end
  end.

Definition choose (cs : list route) (m : str) (ps : list str) : outcome :=
  match cs with
  | [] => NotFound
  | [r] => if meth_ok r m then Found r else NotAllowed
  | _ => cascade cs ps
  end.

Definition find_parts (T : list route) (m : str) (ps : list str) : outcome := choose (cands T m ps) m ps.

(* the repaired FindRoute starts with: if path == "" { path = "/" } *)
Definition norm_path (p : str) : str := norm (match p with [] => [SLASH] | _ => p end).

(* FindRoute(method, path) with the routes visited in the order of T *)
Definition find_route (T : list route) (method path : str) : outcome :=
  find_parts T (upper method) (split (norm_path path)).

(* FindRoute before the repair: the empty path was split into the single segment "", which every
   endpoint pattern accepts (endpoint segments beyond the end of the path are copied into the mask) *)
Definition find_route_old (T : list route) (method path : str) : outcome :=
  find_parts T (upper method) (split (norm path)).

(* ---------------------------------------------------------------- decidable determinism *)
Definition uniq (f : route -> bool) (cs : list route) : bool := (length (filter f cs) <=? 1)%nat.

(* at the stage of the cascade that decides, exactly one candidate qualifies *)
Definition det_body (cs : list route) (ps : list str) : bool :=
  if existsb (exact ps) cs then uniq (exact ps) cs
  else if existsb novar cs then uniq novar cs
  else if minc cs <? maxc cs then (if minc cs <? 100 then uniq (fun c => nvars c =? minc cs) cs else true)
  else if existsb (pc_eq ps) cs then uniq (pc_eq ps) cs
  else uniq (fun c => rlen c =? maxlen cs) cs.

(* the candidate list cs decides the same route whatever its order *)
Definition det (cs : list route) (ps : list str) : bool :=
  match cs with
  | [] | [_] => true
  | _ => det_body cs ps
  end.

(* un-ambiguity of a table: every request (upper-cased method m, path segments ps) is decided
   at a stage where exactly one candidate qualifies *)
Definition unambiguous (T : list route) : Prop :=
  forall m ps, det (cands T m ps) ps = true.

(* which stage decides (for reports): 0 none/single, 1 exact, 2 no-variable, 3 fewest, 4 nil, 5 part count, 6 longest *)
Definition stage (cs : list route) (ps : list str) : N :=
  match cs with
  | [] | [_] => 0
  | _ => if existsb (exact ps) cs then 1 else if existsb novar cs then 2
         else if minc cs <? maxc cs then (if minc cs <? 100 then 3 else 4)
         else if existsb (pc_eq ps) cs then 5 else 6
  end.

(* ---------------------------------------------------------------- histories on one router *)
(* Router.New and FindRoute interleaved on the same router: FindRoute reads nothing but the route map
   as it is at the time of the call (no memory of earlier lookups).  T = routes registered so far. *)
Inductive op := Reg (r : route) | Look (method path : str).

Fixpoint run (T : list route) (ops : list op) : list outcome :=
  match ops with
  | [] => []
  | Reg r :: t => run (T ++ [r]) t
  | Look m p :: t => find_route T m p :: run T t
  end.

Definition regs (ops : list op) : list route :=
  flat_map (fun o => match o with Reg r => [r] | Look _ _ => [] end) ops.
