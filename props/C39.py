"""C39 Static assets are served exactly and only from the asset root (internal/server/assets/handler.go)."""
import json
import os
import re
import vf

GROUP = "Assets"
META = {
    "group": "Assets",
    "technique": "Coq proof over a Gallina model of the Range parser, the range arithmetic (Go panics explicit), the "
                 "Content-Range text and normalizeAssetPath on path segments + vm_compute correspondence with the real "
                 "AssetsHandler on a temporary asset root (panics recovered and reported)",
    "text": "Theorems C39_no_panic (no Range header and no file size makes the handler panic), C39_range_exact (every answer "
            "is 400, 416, the whole file, or 206 with body = file[start..min(stop,size-1)] and the matching Content-Range, "
            "0 <= start <= last < size), C39_contained (for every path spelling the file name used is root + at least one "
            "segment with no '', '.', '..' segment), C39_conditional (ETag/If-None-Match: a 304 is sent only without a Range "
            "header, only if a trimmed comma-piece of the presented validator equals the tag of the content served now; a 200 "
            "carries the tag of its own body and the body is the file; with a Range header no validator is consulted) and "
            "C39_304_current (collision-free hash: a 304 means the client holds the current content) are proved for all inputs "
            "over the model of the repaired code; C39_symlink_refuted refutes the resolved-confinement statement over the C26 tree "
            "file-system model (a link under the root pointing outside is followed: known finding symlink-inside-root-followed, "
            "re-confirmed on the real handler every run); C39_old_refuted keeps the witnesses of the four repaired defects. Model "
            "and property are compared with the real handler on every run (paths x Range headers x If-None-Match x GET/HEAD x "
            "cached/uncached). partial: resolved confinement fails for links under the root (finding; no positive theorem for "
            "link-free trees), the OS file system, Markdown rendering / JS+CSS minification of the body, non-ASCII white space in "
            "If-None-Match, cache staleness after a file changes on disk and the debugging-only smartRangeLoading=false branch "
            "are not proved",
    "note": "Trusted: Coq kernel; strings.Split/ReplaceAll, strconv.ParseInt, filepath.Clean/Join as transliterated (tied by the "
            "correspondence run); harness/C39; props/C39.py.",
}
FILES = {
    "a.txt": b"0123456789",
    "e.txt": b"",
    "one.txt": b"Z",
    "sub/c.txt": b"The quick brown fox jumps over the dog",
    "assets/b.bin": bytes((i * 37 + 11) % 251 for i in range(300)),
}
SECRET = b"TOPSECRET-OUTSIDE-THE-ASSET-ROOT"
MAXI = 9223372036854775807


def hx(b):
    if isinstance(b, str):
        b = b.encode("latin1")
    return b.hex() if b else "-"


def pk(b):
    """bytes -> Coq term: the byte list, written as one hex numeral (base 256, leading 1) and unpacked by U."""
    return "U %s" % hex(int.from_bytes(b"\x01" + bytes(b), "big"))


def unpk(n):
    nb = (n.bit_length() - 1) // 8
    return (n - (1 << (8 * nb))).to_bytes(nb, "big") if nb else b""


def unhx(s):
    return b"" if s == "-" else bytes.fromhex(s)


def gen_ranges(rng, size, n):
    """(header text) list: structured around the size boundaries + malformed + random garbage."""
    pts = sorted(set([0, 1, 2, max(size - 2, 0), max(size - 1, 0), size, size + 1, 2 * size + 3, 20, MAXI, MAXI - 1]))
    out = []
    for a in pts[:9]:
        out += ["bytes=%d" % a, "bytes=%d-" % a]
        for b in pts:
            out.append("bytes=%d-%d" % (a, b))
    out += ["", "bytes=", "-", "--", "bytes=-", "bytes=-5", "bytes=--5", "5", "5-", "2-4", "items=0-5", "bytes=0-5,7-9", "bytes=1-3-5",
            "bytes=+1-+3", "bytes= 1-3", "bytes=1 -3", "bytes=1-3 ", "bytes=bytes=2-4", "bytes=2-bytes=4", "bybytes=tes=1-2",
            "bytes=01-003", "bytes=1_0-2", "bytes=0x1-2", "bytes=%d-" % (MAXI + 1), "bytes=0-%d" % (MAXI + 1), "bytes=0-%d" % MAXI,
            "bytes=%d-%d" % (MAXI, MAXI), "bytes=18446744073709551616-", "bytes=a-b", "bytes=1-b", "bytes=é-1", "BYTES=1-2",
            "bytes=9", "bytes=+9", "bytes=3-2", "bytes=0-0", "bytes=-0", "bytes=0--1"]
    alpha = "0123456789-=bytes+, "
    while len(out) < n:
        r = rng.random()
        if r < 0.5:
            a = rng.choice([rng.randint(0, size + 3), rng.randint(0, 3 * size + 5)])
            b = rng.choice(["", str(rng.randint(0, 2 * size + 3))])
            out.append(rng.choice(["bytes=", "bytes=", "", "bytes=bytes="]) + str(a) + rng.choice(["-", "-", "-", "", "--"]) + b)
        else:
            out.append("".join(rng.choice(alpha) for _ in range(rng.randint(0, 12))))
    return out


PATHS = ["/a.txt", "a.txt", "/sub/c.txt", "//a.txt", "/./a.txt", "/sub/./c.txt", "/sub//c.txt", "/sub/../a.txt", "/sub/..", "/sub/../",
         "/../secret.txt", "../secret.txt", "/..", "..", "/sub/", "", "/", "/nonexistent.txt", "/sub", "/a.txt/..", "/a.txt/.",
         "/etc/passwd", "/link/inner.txt", "/linkfile.txt", "/%2e%2e/secret.txt", "/..%2fsecret.txt", "/sub/.../c.txt",
         "/assets/b.bin", "/assets/../a.txt", "assets/..", "/sub/c.txt/../../a.txt", "/.../a.txt", "/..a.txt", "/a.txt..",
         "..//secret.txt", "/.//..//secret.txt", "./../secret.txt", "/sub/..\\..\\secret.txt", "/__invalid__", "/e.txt", "/one.txt"]


def lexical(path):
    """independent oracle: where a path may lead (None = must not be served)."""
    if path == "" or path.endswith("/") or "/../" in path:
        return None
    segs = []
    for s in path.split("/"):
        if s in ("", "."):
            continue
        if s == "..":
            if not segs:
                return None          # climbs above the root
            segs.pop()
        else:
            segs.append(s)
    return "/".join(segs) if segs else None


WS = " \t\n\v\f\r"
KNOWN_SIG = "symlink-inside-root-followed"


def new_viol(ck):
    """violations other than the recorded known finding (which is re-confirmed on every run)."""
    return [v for v in ck.viol if v["signature"] != KNOWN_SIG]


def run_conditional(ck, binp, root, base, quick):
    """ETag / If-None-Match: real handler vs oracle vs model (handle_cond). Returns number of cases."""
    import hashlib
    rng = ck.rng
    names = list(FILES)
    tags = {n: '"' + hashlib.sha256(FILES[n]).hexdigest() + '"' for n in names}
    cases = []          # (method, name, range|None, inm|None, cached)
    if ck.replay_file:
        for x in json.load(open(ck.replay_file))["replay"].get("cond", []):
            cases.append((x["method"], x["name"], x["range"], x["inm"], bool(x.get("cached"))))
        if not cases:
            return 0
    else:
        for n in names:
            t = tags[n]
            other = tags[names[(names.index(n) + 1) % len(names)]]
            vs = [None, "", t, " " + t + " ", "\t" + t, 'W/"abc", ' + t, t + ',"zzz"', '"zzz",' + t + ' , "yyy"', other, t.upper(),
                  t.strip('"'), "W/" + t, "*", t + "x", "," + t, t + ",", ",", " ", t[:-1], other + "," + other, t + t, t + " " + t,
                  "\r\n" + t + "\x0b\x0c", t.replace('"', "'"), '""', '"' + "0" * 64 + '"']
            for _ in range(6 if quick else 60):
                k = rng.randint(1, 4)
                parts = [rng.choice([t, other, '"x"', "W/" + t, t[1:], "", "*"]) for _ in range(k)]
                vs.append(",".join(rng.choice(["", " ", "  ", "\t"]) + q + rng.choice(["", " ", "\n"]) for q in parts))
            for v in vs:
                cases.append((rng.choice(["GET", "GET", "HEAD"]), n, None, v, rng.random() < 0.4))
            cases.append(("GET", n, "bytes=1-3", t, False))
            cases.append(("GET", n, "bytes=0-", t, True))
            cases.append(("GET", n, "bytes=5", t, False))
    lines = []
    for m, n, h, v, cached in cases:
        if cached:
            lines.append("R GET %s none 1" % hx("/" + n))
        lines.append("C %s %s %s %s %d" % (m, hx("/" + n), "none" if h is None else hx(h), "none" if v is None else hx(v), 0 if cached else 1))
    inp, outp = os.path.join(ck.work, "cin.txt"), os.path.join(ck.work, "cout.txt")
    with open(inp, "w") as f:
        f.write("\n".join(lines) + "\n")
    rc, log = vf.run_bin(binp, "^TestVerifC39$", {"VERIF_IN": inp, "VERIF_OUT": outp, "VERIF_ROOT": root,
                                                    "HOME": os.path.join(ck.work, "home"), "EGO_PATH": base})
    res = [l.split() for l in open(outp).read().splitlines() if l.startswith("C ")] if os.path.exists(outp) else []
    if rc != 0 or len(res) != len(cases):
        ck.violation("harness-run", "harness (conditional requests) failed (%d of %d):\n%s" % (len(res), len(cases), log[-1500:]),
                     replay={"log": log[-3000:]}, found_input=False)
        return 0
    real = [(int(r[1]), unhx(r[2]).decode("latin1"), unhx(r[3]).decode("latin1"), unhx(r[4])) for r in res]

    def rep(i):
        m, n, h, v, cached = cases[i]
        return {"cond": [{"method": m, "name": n, "range": h, "inm": v, "cached": cached}]}

    n304 = 0
    for i, (m, n, h, v, cached) in enumerate(cases):
        st, et, cr, body = real[i]
        content, t = FILES[n], tags[n]
        desc = "%s /%s Range=%r If-None-Match=%r cached=%s -> status %d ETag %r len(body)=%d" % (m, n, h, v, cached, st, et, len(body))
        if st == -1:
            ck.violation("panic", "AssetsHandler panicked: " + desc, replay=rep(i))
        elif h is None:
            presented = v is not None and v != "" and any(q.strip(WS) == t for q in v.split(","))
            if st == 304:
                n304 += 1
                if not presented or body or et != t:
                    ck.violation("wrong-304", "304 although the presented validators do not name the current content (or ETag/body wrong): " + desc,
                                 replay=rep(i))
            elif st == 200:
                if et != t or (m == "GET" and body != content):
                    ck.violation("wrong-etag", "200 whose ETag is not the tag of the content or whose body is not the file: " + desc, replay=rep(i))
            else:
                ck.violation("refused", "a plain request for an existing asset was refused: " + desc, replay=rep(i))
    ck.cov["input_distribution"]["conditional_requests"] = len(cases)
    ck.cov["input_distribution"]["conditional_304"] = n304
    if getattr(ck, "coq_broken", None):
        return len(cases)
    pre = ["From Common Require Import Base.", "From Coq Require Import ZArith.", "From Assets Require Import Model.", "Open Scope Z_scope.",
           """Definition pack (b : list N) : N := fold_left (fun a x => a * 256 + x)%N b 1%N.
Fixpoint unpack_fuel (fuel : nat) (n : N) (acc : list N) : list N :=
  match fuel with O => acc | S f => if (n <=? 1)%N then acc else unpack_fuel f (n / 256)%N ((n mod 256)%N :: acc) end.
Definition U (n : N) : list N := unpack_fuel (N.size_nat n) n [].""",
           "Definition files : list (list N) := [%s]." % ";".join(pk(FILES[n]) for n in names),
           "Definition hashes : list (N * str) := [%s]." % ";".join(
               "(pack (%s), %s)" % (pk(FILES[n]), pk(hashlib.sha256(FILES[n]).hexdigest().encode())) for n in names),
           """Fixpoint look (l : list (N * str)) (k : N) : str := match l with [] => [] | (k', v) :: r => if N.eqb k' k then v else look r k end.
Definition hash (d : list N) : str := look hashes (pack d).
Definition ccases : list (option str * option str * nat * bool * (Z * N * Z)) := ["""]
    rows = []
    for i, (m, n, h, v, cached) in enumerate(cases):
        st, et, cr, body = real[i]
        rows.append("(%s, %s, %d%%nat, %s, (%d, %s%%N, %d))" % (
            "None" if h is None else "Some (%s)" % pk(h.encode("latin1")), "None" if v is None else "Some (%s)" % pk(v.encode("latin1")),
            names.index(n), "true" if cached else "false", st, hex(int.from_bytes(b"\x01" + et.encode("latin1"), "big")),
            -1 if m == "HEAD" else len(body)))
    pre.append(";\n".join(rows))
    pre.append("""].
Definition cbad (i : nat) (c : option str * option str * nat * bool * (Z * N * Z)) : list nat :=
  let '(h, inm, f, cached, (st, et, bl)) := c in
  let file := nth f files [] in
  let ok := match handle_cond hash true cached h inm file with
            | NotModified t => (st =? 304) && N.eqb (pack t) et && ((bl =? 0) || (bl =? -1))
            | FullTag t b => (st =? 200) && N.eqb (pack t) et && ((bl =? zlen b) || (bl =? -1))
            | Plain o => (st =? hd 0 (outcome_code o)) && N.eqb et 1
            end in
  if ok then [] else [i].
Fixpoint idx {A} (f : nat -> A -> list nat) (i : nat) (l : list A) : list nat :=
  match l with [] => [] | x :: r => f i x ++ idx f (S i) r end.""")
    ok, res = vf.coq_eval(GROUP, ck.work, "ccases", "\n".join(pre), {"c": "idx cbad 0 ccases"})
    if not ok:
        ck.violation("correspondence-eval", "model evaluation (conditional requests) failed:\n" + res[-1500:], replay={"log": res[-3000:]},
                     found_input=False)
        return len(cases)
    if res["c"] and not new_viol(ck):
        i = res["c"][0]
        ck.violation("corr-conditional", "model handle_cond and AssetsHandler disagree: %s /%s Range=%r If-None-Match=%r cached=%s: real status %d "
                     "ETag %r (the property oracle found no failing input among %d conditional requests)" % (
                         cases[i][0], cases[i][1], cases[i][2], cases[i][3], cases[i][4], real[i][0], real[i][1], len(cases)),
                     replay=rep(i), found_input=False)
    ck.cov["traces_validated_against_impl"] = ck.cov.get("traces_validated_against_impl", 0) + len(cases)
    return len(cases)


def run(ck):
    quick = ck.tier == "quick"
    rng = ck.rng
    ck.cov["rule"] = ("files of 0, 1, 10, 38 and 300 bytes x Range headers (all pairs of boundary values around the size incl. "
                      "MaxInt64, missing dash, open ended, inverted, multiple ranges, signs, spaces, repeated 'bytes=', random "
                      "garbage) x GET/HEAD x asset cached or not; path spellings ('..', '.', '//', relative, absolute, encoded, "
                      "directories, symlinks) with and without a range. distinct_nontrivial = distinct (file, header, method, cached) "
                      "cases answered 206 by the real handler")
    ck.assume("hash stands for hex(sha256) (any function for C39_conditional; collision-free for C39_304_current)",
              "If-None-Match values are ASCII (strings.TrimSpace modelled for space, \\t \\n \\v \\f \\r only)",
              "file sizes fit int64 (zlen file <= MaxInt64)",
              "the asset root is a clean absolute path (no '', '.', '..' segments), so HasPrefix(fn, root+'/') is the segment-wise proper-prefix test",
              "smartRangeLoading stays true (it is never assigned outside tests)")
    ck.trusted("harness/C39/c39_test.go (in-package overlay, httptest, recover around AssetsHandler)", "props/C39.py generators, oracle, comparison",
               "correspondence evaluated by vm_compute in a generated cases file")
    okb, logb = vf.coq_build("Sandbox")      # Assets/Resolved.v imports the tree file-system model of C26 read-only
    if not okb:
        ck.coq_broken = ("Sandbox", logb)
    else:
        ck.coq_stage(GROUP, theorems=["C39_no_panic", "C39_range_exact", "C39_contained", "C39_conditional", "C39_304_current",
                                      "C39_symlink_refuted", "C39_old_refuted"], extra_q=("Sandbox",))

    base = os.path.realpath(os.path.join(ck.work, "r"))
    root = os.path.join(base, "lib")
    for name, content in FILES.items():
        p = os.path.join(root, name)
        os.makedirs(os.path.dirname(p), exist_ok=True)
        with open(p, "wb") as f:
            f.write(content)
    with open(os.path.join(base, "secret.txt"), "wb") as f:
        f.write(SECRET)
    os.makedirs(os.path.join(base, "outside"), exist_ok=True)
    with open(os.path.join(base, "outside", "inner.txt"), "wb") as f:
        f.write(SECRET)
    os.symlink(os.path.join(base, "outside"), os.path.join(root, "link"))
    os.symlink(os.path.join(base, "secret.txt"), os.path.join(root, "linkfile.txt"))
    if not all(s not in ("", ".", "..") for s in root.split("/")[1:]):
        ck.violation("check-setup", "asset root is not clean: " + root, found_input=False)
        return

    ok, binp = vf.go_test_build(ck.work, "internal/server/assets", {"internal/server/assets/zz_verif_c39_test.go":
                                os.path.join(vf.HARNESS, "C39", "c39_test.go")}, "c39.test")
    if not ok:
        ck.violation("harness-build", "harness for internal/server/assets does not build:\n" + binp[-1500:], replay={"log": binp[-3000:]},
                     found_input=False)
        return

    # ---- cases: (method, path, header|None, cached, fileidx|None)
    names = list(FILES)
    cases = []
    if ck.replay_file:
        for x in json.load(open(ck.replay_file))["replay"].get("cases", []):
            cases.append((x["method"], x["path"], x["range"], bool(x.get("cached")), None))
    else:
        # regression corpus first (witnesses of C39_old_refuted)
        for h, c in (("bytes=5", False), ("bytes=20-", False), ("bytes=10-", False), ("bytes=0-", True), ("bytes=0-", False)):
            cases.append(("GET", "/a.txt", h, c, None))
        nper = 110 if quick else 600
        for name in names:
            for h in gen_ranges(rng, len(FILES[name]), nper):
                cases.append((rng.choice(["GET", "GET", "HEAD"]), "/" + name, h, rng.random() < 0.3, None))
        for p in PATHS:
            cases.append(("GET", p, None, False, None))
            cases.append((rng.choice(["GET", "HEAD"]), p, rng.choice(["bytes=1-3", "bytes=0-", "bytes=2-", "bytes=5"]), rng.random() < 0.5, None))
        for _ in range(60 if quick else 600):
            segs = [rng.choice(["..", ".", "", "sub", "assets", "a.txt", "c.txt", "b.bin", "link", "x", "...", "secret.txt"])
                    for _ in range(rng.randint(1, 5))]
            cases.append(("GET", rng.choice(["/", "", "/"]) + "/".join(segs), None, False, None))
    lines = []
    for m, p, h, cached, _ in cases:
        if cached:      # a whole-file GET first puts the asset into the cache (if it can be served at all)
            lines.append("R GET %s none 1" % hx(p))
            lines.append("R %s %s %s 0" % (m, hx(p), "none" if h is None else hx(h)))
        else:
            lines.append("R %s %s %s 1" % (m, hx(p), "none" if h is None else hx(h)))
        lines.append("N %s" % hx(p))
    inp, outp = os.path.join(ck.work, "in.txt"), os.path.join(ck.work, "out.txt")
    with open(inp, "w") as f:
        f.write("\n".join(lines) + "\n")
    rc, log = vf.run_bin(binp, "^TestVerifC39$", {"VERIF_IN": inp, "VERIF_OUT": outp, "VERIF_ROOT": root,
                                                    "HOME": os.path.join(ck.work, "home"), "EGO_PATH": base})
    res = [l.split() for l in open(outp).read().splitlines()] if os.path.exists(outp) else []
    if rc != 0 or len(res) != len(lines):
        ck.violation("harness-run", "harness failed (%d of %d lines):\n%s" % (len(res), len(lines), log[-1500:]), replay={"log": log[-3000:]},
                     found_input=False)
        return
    real, norm, k = [], [], 0
    for m, p, h, cached, _ in cases:
        if cached:
            k += 1
        r = res[k]
        real.append((int(r[1]), unhx(r[2]).decode("latin1"), r[3], unhx(r[4])))
        norm.append(unhx(res[k + 1][1]).decode("latin1"))
        k += 2

    def rep(i):
        m, p, h, cached, _ = cases[i]
        return {"cases": [{"method": m, "path": p, "range": h, "cached": cached}]}

    # ---- property oracle on the real answers (independent of the model)
    nontriv = set()
    symlink_served = 0
    for i, (m, p, h, cached, _) in enumerate(cases):
        st, cr, cl, body = real[i]
        desc = "%s %r Range=%r cached=%s -> status %d Content-Range %r len(body)=%d" % (m, p, h, cached, st, cr, len(body))
        if st == -1:
            ck.violation("panic", "AssetsHandler panicked: %s: %s" % (desc, body[:120]), replay=rep(i))
            continue
        lex = lexical(p)
        content = FILES.get(lex) if lex is not None else None
        if lex is not None and lex.split("/")[0] in ("link", "linkfile.txt"):
            if st in (200, 206) and (m == "HEAD" or (body and body in SECRET)):
                symlink_served += 1
                # the witness of C39_symlink_refuted on the real handler: recorded as a known finding
                ck.violation("symlink-inside-root-followed", "a symbolic link under the asset root that points outside is followed: " + desc,
                             replay=rep(i))
            continue
        if SECRET in body or (st in (200, 206) and body and content is None and body in SECRET):
            ck.violation("escape", "content from outside the asset root was served: " + desc, replay=rep(i))
            continue
        if st >= 400:
            # strictly well-formed, satisfiable ranges on existing files must be served
            mm = re.fullmatch(r"bytes=(\d+)-(\d*)", h) if h is not None else None
            if content is not None and (h is None or (mm and int(mm.group(1)) < len(content) and
                                                       (mm.group(2) == "" or MAXI >= int(mm.group(2)) >= int(mm.group(1))))):
                ck.violation("refused", "a satisfiable request was refused: " + desc, replay=rep(i))
            continue
        if content is None:
            ck.violation("served-unknown", "status %d for a path that names no asset under the root: %s" % (st, desc), replay=rep(i))
            continue
        if st == 200:
            good = h is None and (m == "HEAD" or body == content) and (m != "HEAD" or cl == str(len(content)))
        elif st == 206:
            mm = re.fullmatch(r"bytes (\d+)-(\d+)/(\d+)", cr)
            good = False
            if mm and h is not None:
                a, b, t = (int(x) for x in mm.groups())
                good = t == len(content) and 0 <= a <= b < t and cl == str(b - a + 1) and (m == "HEAD" or body == content[a:b + 1])
                hm = re.fullmatch(r"bytes=(\d+)-(\d*)", h)
                if good and hm:      # the range actually asked for
                    good = a == int(hm.group(1)) and b == (t - 1 if hm.group(2) == "" else min(int(hm.group(2)), t - 1))
            if good:
                nontriv.add((p, h, m, cached))
        else:
            good = False
        if not good:
            ck.violation("wrong-range" if st == 206 else "wrong-body", "answer is not the exact file / requested range: " + desc, replay=rep(i))

    ck.cov["evaluations"] = len(cases)
    ck.cov["distinct_nontrivial"] = len(nontriv)
    ck.cov["input_distribution"] = {"cases": len(cases), "with_range": sum(1 for c in cases if c[2] is not None),
                                    "cached": sum(1 for c in cases if c[3]), "HEAD": sum(1 for c in cases if c[0] == "HEAD"),
                                    "status": {str(s): sum(1 for r in real if r[0] == s) for s in sorted(set(r[0] for r in real))},
                                    "symlink_under_root_served_outside_content(known finding)": symlink_served}
    for i in range(0, len(cases), max(1, len(cases) // 6)):
        ck.sample({"method": cases[i][0], "path": cases[i][1], "range": cases[i][2], "status": real[i][0], "content_range": real[i][1]})

    ncond = run_conditional(ck, binp, root, base, quick)
    ck.cov["evaluations"] += ncond

    # ---- correspondence with the model
    if getattr(ck, "coq_broken", None):
        if not new_viol(ck):
            grp, log = ck.coq_broken
            ck.violation("proof-broken", "Coq development %s no longer checks (C39_no_panic / C39_range_exact / C39_contained); the "
                         "property oracle found no failing input among %d requests:\n%s" % (grp, len(cases), log[-1200:]),
                         replay={"broken": "coq/" + grp, "log": log[-3000:]}, found_input=False)
        return
    rootsegs = root.split("/")[1:]
    pre = ["From Common Require Import Base.", "From Coq Require Import ZArith.", "From Assets Require Import Model.", "Open Scope Z_scope.",
           """Definition pack (b : list N) : N := fold_left (fun a x => a * 256 + x)%N b 1%N.
Fixpoint unpack_fuel (fuel : nat) (n : N) (acc : list N) : list N :=
  match fuel with O => acc | S f => if (n <=? 1)%N then acc else unpack_fuel f (n / 256)%N ((n mod 256)%N :: acc) end.
Definition U (n : N) : list N := unpack_fuel (N.size_nat n) n [].""",
           "Definition root : list seg := [%s]." % ";".join(pk(s.encode("latin1")) for s in rootsegs),
           "Definition files : list (list N) := [%s]." % ";".join(pk(FILES[n]) for n in names),
           "Definition rcases : list (option str * nat * bool) := ["]
    ridx = []          # cases whose lexical target is a known file and are not forbidden: the range model applies
    rl = []
    for i, (m, p, h, cached, _) in enumerate(cases):
        lex = lexical(p)
        if lex in FILES:
            ridx.append(i)
            rl.append("(%s, %d%%nat, %s)" % ("None" if h is None else "Some (%s)" % pk(h.encode("latin1")), names.index(lex), "true" if cached else "false"))
    pre.append(";\n".join(rl))
    pre.append("].\nDefinition pcases : list (str * N * bool) := [")
    pre.append(";\n".join("(%s, %s, %s)" % (pk(c[1].encode("latin1")), hex(int.from_bytes(b"\x01" + norm[i].encode("latin1"), "big")) + "%N",
                                            "true" if real[i][0] == 403 else "false") for i, c in enumerate(cases)))
    pre.append("""].
Definition rcode (c : option str * nat * bool) : list Z :=
  let '(h, f, cached) := c in
  let file := nth f files [] in
  let o := handle true cached h file in
  let code := outcome_code o ++ match o with Partial a b t _ => [Z.of_N (pack (content_range a b t))] | _ => [] end in
  Z.of_nat (length code) :: code.
Definition pbad (i : nat) (c : str * N * bool) : list nat :=
  let '(p, rn, r403) := c in
  let text := flat_map (fun s => 47%N :: s) (normalize root p) in
  if N.eqb (pack text) rn && Bool.eqb (forbidden p) r403 then [] else [i].
Fixpoint idx {A} (f : nat -> A -> list nat) (i : nat) (l : list A) : list nat :=
  match l with [] => [] | x :: r => f i x ++ idx f (S i) r end.""")
    import time
    t0 = time.time()
    ok, res = vf.coq_eval(GROUP, ck.work, "cases", "\n".join(pre), {"r": "flat_map rcode rcases", "p": "idx pbad 0 pcases"})
    ck.cov["model_eval_s"] = round(time.time() - t0, 1)
    if os.environ.get("C39_KEEP"):
        import shutil
        shutil.copy(os.path.join(ck.work, "cases.v"), os.environ["C39_KEEP"])
    if not ok:
        ck.violation("correspondence-eval", "model evaluation failed:\n" + res[-1500:], replay={"log": res[-3000:]}, found_input=False)
        return
    found = bool(new_viol(ck))
    flat, k, nval = res["r"], 0, 0
    for i in ridx:
        n = flat[k]
        code = flat[k + 1:k + 1 + n]
        k += 1 + n
        st, cr, cl, body = real[i]
        m = cases[i][0]
        content = FILES[lexical(cases[i][1])]
        if code[0] == -1:
            agree = st == -1
        elif code[0] in (400, 416):
            agree = st == code[0]
        elif code[0] == 200:
            agree = st == 200 and (m == "HEAD" or body == content)
        else:
            a, b, t, ln = code[1:5]
            text = unpk(code[7]).decode("latin1")
            agree = st == 206 and cr == text and cl == str(ln) and (m == "HEAD" or body == content[a:a + ln])
        nval += 1
        if not agree and not found:
            ck.violation("corr-range", "model and AssetsHandler disagree: %s %r Range=%r cached=%s: model %s, real status %d Content-Range %r "
                         "(the property oracle found no failing input among %d requests)" % (
                             m, cases[i][1], cases[i][2], cases[i][3], code[:5], st, cr, len(cases)), replay=rep(i), found_input=False)
            found = True
    nval += len(cases)
    for i in res["p"]:
        if not found:
            ck.violation("corr-path", "model and implementation disagree on path %r: real normalizeAssetPath=%r status %d (model: see "
                         "Assets.Model.normalize / forbidden)" % (cases[i][1], norm[i], real[i][0]), replay=rep(i), found_input=False)
            found = True
    ck.cov["traces_validated_against_impl"] = ck.cov.get("traces_validated_against_impl", 0) + nval
