"""C17 Transactions are all-or-nothing (internal/server/tables/scripting/handler.go, database/transaction.go, open.go)."""
import json
import os
import vf

GROUP = "Txn"
META = {
    "group": "Txn",
    "technique": "Coq proof over a Gallina model of the @transaction handler's exits and the Database wrapper, "
                 "parameterised by an exit table that a go/ast translator regenerates from handler.go / transaction.go / "
                 "open.go on every run (obligation exits_match), + vm_compute correspondence and a direct all-or-nothing "
                 "oracle on the real Handler against SQLite files",
    "text": "Theorem C17_exits_closed: for every source shape in which each failure exit of the Begin...Commit region is "
            "preceded by a rollback, the commit-error exit does not reuse the last operation's status and a failed commit "
            "clears the wrapper's Transaction pointer and every operation statement goes through the Database shim that uses the "
            "open transaction (no handler touches db.Handle itself), and for all SQLite state spaces, task lists, operation outcomes, "
            "error-condition outcomes (blank/malformed/eval error/true/false) and commit outcomes: after return no "
            "transaction is open, nothing is pending, the handle is closed, the status is 200 exactly when everything "
            "ran clean and the commit worked, and the durable state is then all operations applied and otherwise the "
            "initial state. C17_all_or_nothing instantiates it for the repaired tree; the shape of the current source is "
            "re-extracted and re-checked (exits_match, C17_current_source) on every run; C17_old_refuted_open / "
            "C17_old_refuted_commit are the two defects of the pinned tree (repaired by fix ea0fbf1e); C17_bypass_refuted shows a "
            "statement sent to the bare handle survives the rollback. SQLite's own "
            "commit/rollback atomicity is assumed. full",
    "note": "Trusted: Coq kernel; the go/ast translator in harness/C17/c17_test.go (anchors: db.Begin(), db.Rollback(), "
            "db.Commit(), d.Transaction = nil, d.Transaction != nil, d.Transaction.Exec/Query in the shim, any .Handle/.Transaction "
            "selector in scripting/*.go) and its mapping to the model's shape in props/C17.py; "
            "SQLite/modernc driver semantics as modelled (failed COMMIT is rolled back by the driver); the guards that "
            "operation handlers never pair an error with status 200 (observed on every run) and that the client does not "
            "itself request status 200 for a tripped condition.",
}

INIT_T = {1: "a", 2: "b", 3: "c"}

COND = {
    "blank": {"condition": "   "},
    "false": {"condition": "LT(_all_rows_,0)"},
    "malformed": {"condition": "EQ("},
    "evalerr": {"condition": "EQ(nosuchsymbol,1)"},
}
COND_COQ = {"blank": "CBlank", "false": "CFalse", "malformed": "CMalformed", "evalerr": "CEvalErr"}


class Sim:
    """What the database would contain with every operation applied."""

    def __init__(self):
        self.t = dict(INIT_T)
        self.tables = {"child", "d1", "d2", "parent", "probe", "t"}
        self.child = {}
        self.indexes = set()
        self.views = set()
        self.tcols = ["id", "v"]
        self.parents = {1}
        self.next_id = 10
        self.syms = False
        self.wrote = False

    def snap(self):
        return {"t": ["%d=%s" % (k, self.t[k]) for k in sorted(self.t)],
                "child": ["%d>%d" % (k, self.child[k]) for k in sorted(self.child)],
                "tables": sorted(self.tables), "indexes": sorted(self.indexes), "views": sorted(self.views),
                "tcols": list(self.tcols)}


def ddl_op(rng, s):
    """A schema-changing statement through the raw sql opcode (succeeds on the simulated state)."""
    for _ in range(10):
        k = rng.choice(["create-table", "create-index", "alter-add", "create-view", "drop-table", "drop-index", "drop-view"])
        n = s.next_id
        if k == "create-table":
            s.next_id += 1
            s.tables.add("nt%d" % n)
            s.wrote = True
            return {"operation": "sql", "sql": "CREATE TABLE nt%d (id INTEGER, note TEXT)" % n}, "sql-" + k
        if k == "create-index":
            s.next_id += 1
            s.indexes.add("ix%d" % n)
            s.wrote = True
            return {"operation": "sql", "sql": "CREATE INDEX ix%d ON t (v)" % n}, "sql-" + k
        if k == "alter-add":
            s.next_id += 1
            s.tcols.append("c%d" % n)
            s.wrote = True
            return {"operation": "sql", "sql": "ALTER TABLE t ADD COLUMN c%d INTEGER" % n}, "sql-" + k
        if k == "create-view":
            s.next_id += 1
            s.views.add("vw%d" % n)
            s.wrote = True
            return {"operation": "sql", "sql": "CREATE VIEW vw%d AS SELECT id FROM t" % n}, "sql-" + k
        if k == "drop-table":
            d = [x for x in ("d1", "d2") if x in s.tables]
            if d:
                x = rng.choice(d)
                s.tables.discard(x)
                s.wrote = True
                return {"operation": "sql", "sql": "DROP TABLE %s" % x}, "sql-" + k
        if k == "drop-index" and s.indexes:
            x = rng.choice(sorted(s.indexes))
            s.indexes.discard(x)
            return {"operation": "sql", "sql": "DROP INDEX %s" % x}, "sql-" + k
        if k == "drop-view" and s.views:
            x = rng.choice(sorted(s.views))
            s.views.discard(x)
            return {"operation": "sql", "sql": "DROP VIEW %s" % x}, "sql-" + k
    s.next_id += 1
    s.tables.add("nt%d" % n)
    s.wrote = True
    return {"operation": "sql", "sql": "CREATE TABLE nt%d (id INTEGER, note TEXT)" % n}, "sql-create-table"


def good_op(rng, s):
    """One operation that succeeds on the simulated state; returns (json, kind)."""
    kinds = ["insert", "update", "delete", "select", "readrows", "symbols", "drop", "sql-insert", "sql-update",
             "sql-delete", "sql-select", "sql-child"]
    if rng.random() < 0.15:
        return ddl_op(rng, s)
    for _ in range(20):
        k = rng.choice(kinds)
        ids = sorted(s.t)
        if k == "insert":
            i = s.next_id
            s.next_id += 1
            v = "n%d" % i
            s.t[i] = v
            s.wrote = True
            return {"operation": "insert", "table": "t", "data": {"id": i, "v": v}}, k
        if k == "update" and ids:
            i = rng.choice(ids)
            v = "u%d" % rng.randint(0, 99)
            s.t[i] = v
            s.wrote = True
            return {"operation": "update", "table": "t", "filters": ["EQ(id,%d)" % i], "data": {"v": v}}, k
        if k == "delete" and len(ids) > 1:
            i = rng.choice(ids)
            del s.t[i]
            s.wrote = True
            return {"operation": "delete", "table": "t", "filters": ["EQ(id,%d)" % i]}, k
        if k == "select" and ids:
            i = rng.choice(ids)
            s.syms = True
            return {"operation": "select", "table": "t", "filters": ["EQ(id,%d)" % i], "columns": ["v"]}, k
        if k == "readrows":
            s.syms = True
            return {"operation": "readrows", "table": "t"}, k
        if k == "symbols":
            s.syms = True
            return {"operation": "symbols", "data": {"s%d" % rng.randint(0, 9): rng.randint(0, 99)}}, k
        if k == "drop":
            d = [x for x in ("d1", "d2") if x in s.tables]
            if d:
                x = rng.choice(d)
                s.tables.discard(x)
                s.wrote = True
                return {"operation": "drop", "table": x}, k
        if k == "sql-insert":
            i = s.next_id
            s.next_id += 1
            s.t[i] = "q%d" % i
            s.wrote = True
            return {"operation": "sql", "sql": "INSERT INTO t (id, v) VALUES (%d, 'q%d')" % (i, i)}, k
        if k == "sql-update" and ids:
            i = rng.choice(ids)
            s.t[i] = "w%d" % i
            s.wrote = True
            return {"operation": "sql", "sql": "UPDATE t SET v = 'w%d' WHERE id = %d" % (i, i)}, k
        if k == "sql-delete" and len(ids) > 1:
            i = rng.choice(ids)
            del s.t[i]
            s.wrote = True
            return {"operation": "sql", "sql": "DELETE FROM t WHERE id = %d" % i}, k
        if k == "sql-select":
            s.syms = True
            return {"operation": "", "sql": "SELECT id, v FROM t"}, k      # bare SQL: opcode defaulted by the handler
        if k == "sql-child":
            i = s.next_id
            s.next_id += 1
            s.child[i] = 1
            s.wrote = True
            return {"operation": "sql", "sql": "INSERT INTO child (id, pid) VALUES (%d, 1)" % i}, k
    return {"operation": "readrows", "table": "t"}, "readrows"


BAD_OPS = {
    "insert-dup": {"operation": "insert", "table": "t", "data": {"id": 1, "v": "dup"}},
    "insert-notable": {"operation": "insert", "table": "nosuch", "data": {"id": 1}},
    "insert-filters": {"operation": "insert", "table": "t", "filters": ["EQ(id,1)"], "data": {"id": 77, "v": "x"}},
    "insert-notnull": {"operation": "insert", "table": "t", "data": {"id": 78}},
    "insert-coerce": {"operation": "insert", "table": "t", "data": {"id": "zz", "v": "x"}},
    "update-badcol": {"operation": "update", "table": "t", "filters": ["EQ(id,1)"], "data": {"nosuchcol": 1}},
    "update-empty": {"operation": "update", "table": "t", "filters": ["EQ(id,999)"], "data": {"v": "x"}, "emptyError": True},
    "update-dup": {"operation": "sql", "sql": "UPDATE t SET id = 1 WHERE id <> 1"},
    "delete-empty": {"operation": "delete", "table": "t", "filters": ["EQ(id,999)"], "emptyError": True},
    "delete-columns": {"operation": "delete", "table": "t", "columns": ["v"], "filters": ["EQ(id,1)"]},
    "delete-notable": {"operation": "delete", "table": "nosuch", "filters": ["EQ(id,1)"]},
    "select-notable": {"operation": "select", "table": "nosuch"},
    "select-empty": {"operation": "select", "table": "t", "filters": ["EQ(id,999)"], "emptyError": True},
    "readrows-notable": {"operation": "readrows", "table": "nosuch"},
    "readrows-empty": {"operation": "readrows", "table": "t", "filters": ["EQ(id,999)"], "emptyError": True},
    "symbols-table": {"operation": "symbols", "table": "t", "data": {"a": 1}},
    "drop-notable": {"operation": "drop", "table": "nosuch"},
    "drop-filters": {"operation": "drop", "table": "d1", "filters": ["EQ(x,1)"]},
    "sql-syntax": {"operation": "sql", "sql": "UPDATE t SET WHERE"},
    "sql-notable": {"operation": "sql", "sql": "DELETE FROM nosuch WHERE id = 1"},
    "sql-table": {"operation": "sql", "table": "t", "sql": "DELETE FROM t"},
    "sql-empty": {"operation": "sql", "sql": "DELETE FROM t WHERE id = 999", "emptyError": True},
}
SELF_ROLLBACK = {"insert-coerce"}     # doInsert's FormInsertQuery path rolls back itself before returning the error


def make_case(rng, cid, n_ops, fault, ddl_first=False):
    """fault: None | ("op", i, kind) | ("cond", i, kind, pos, status) | ("commit", i) | ("pre", kind).
    ddl_first: operation 0 is a schema-changing raw-SQL statement (before the request holds any write lock)."""
    s = Sim()
    ops, model, kinds = [], [], []
    case = {"id": cid, "fault": list(fault) if fault else None}
    if fault and fault[0] == "pre":
        k = fault[1]
        if k == "decode":
            case["raw"] = rng.choice(["{", "   ", "[{\"operation\": 5}]", "x", "[1,2", "{\"operation\": \"insert\"}"])
        elif k == "badop":
            op, _ = good_op(rng, s)
            ops = [op, {"operation": rng.choice(["bogus", "truncate", ""])}]
        elif k == "nodsn":
            op, _ = good_op(rng, s)
            ops = [op]
            case["dsn"] = "nosuchdsn"
        elif k == "nosqlperm":
            ops = [{"operation": "sql", "sql": "DELETE FROM t"}]
            case["nonadmin"] = True
        elif k == "empty":
            case["raw"] = "[]"
        case["ops"] = ops
        case["pre"] = k
        case["model"] = []
        case["expect_all"] = Sim().snap()
        case["kinds"] = [k]
        case["wrote_before"] = False
        return case
    for i in range(n_ops):
        wrote_before = s.wrote
        if fault and fault[0] == "op" and fault[1] == i:
            op = json.loads(json.dumps(BAD_OPS[fault[2]]))
            ids = sorted(s.t)                       # never empty: deletes keep at least one row
            if fault[2] == "insert-dup":
                op["data"]["id"] = rng.choice(ids)
            if fault[2] == "update-dup":
                if len(ids) >= 2:
                    a, b = rng.sample(ids, 2)
                    op["sql"] = "UPDATE t SET id = %d WHERE id = %d" % (a, b)
                else:
                    op["sql"] = "INSERT INTO t (id, v) VALUES (%d, 'dup')" % ids[0]
            ops.append(op)
            kinds.append("!" + fault[2])
            model.append({"res": "OpFailRB 500" if fault[2] in SELF_ROLLBACK else "OpFail 500", "conds": []})
            case["wrote_before"] = wrote_before
            # later operations are never reached but are part of the request
            continue
        if fault and fault[0] == "commit" and fault[1] == i:
            j = s.next_id
            s.next_id += 1
            s.child[j] = 99            # deferred foreign key: fails at COMMIT only
            s.wrote = True
            ops.append({"operation": "sql", "sql": "INSERT INTO child (id, pid) VALUES (%d, 99)" % j})
            kinds.append("sql-child-dangling")
            model.append({"res": "OpOk", "conds": []})
            continue
        op, k = ddl_op(rng, s) if (ddl_first and i == 0) else good_op(rng, s)
        conds, mconds = [], []
        nb = rng.choice([0, 0, 1, 2])
        for _ in range(nb):
            c = rng.choice(["blank", "false"])
            conds.append(dict(COND[c]))
            mconds.append(COND_COQ[c])
        if fault and fault[0] == "cond" and fault[1] == i:
            ck_, st = fault[2], fault[3]
            if ck_ == "true":
                conds.append({"condition": rng.choice(["GE(_all_rows_,0)", "EQ(1,1)"]), "status": st,
                              "msg": rng.choice(["", "stop here"])})
                mconds.append("CTrue (%d)" % st)
            else:
                conds.append(dict(COND[ck_]))
                mconds.append(COND_COQ[ck_])
            # conditions after the tripping one are never looked at
            if rng.random() < 0.5:
                conds.append(dict(COND["evalerr"]))
                mconds.append("CEvalErr")
            case["wrote_before"] = s.wrote
        if conds:
            op["errors"] = conds
        ops.append(op)
        kinds.append(k)
        model.append({"res": "OpOk", "conds": mconds})
    case["ops"] = ops
    case["model"] = model
    case["pre"] = "ok"
    case["expect_all"] = s.snap()
    case["kinds"] = kinds
    case.setdefault("wrote_before", s.wrote)
    return case


def corpus(rng):
    """Regression cases first: every exit site after at least one write, the two old defects."""
    cs = []
    cid = [0]

    def add(n, fault):
        cid[0] += 1
        cs.append(make_case(rng, cid[0], n, fault))

    wr = vf.random.Random("C17-corpus")
    for site in ("evalerr", "malformed"):
        for i in (0, 2):
            cid[0] += 1
            cs.append(make_case(wr, cid[0], i + 2, ("cond", i, site, 0)))
    for st in (0, 418, 404, 700, 99, 500):
        cid[0] += 1
        cs.append(make_case(wr, cid[0], 3, ("cond", 1, "true", st)))
    for k in sorted(BAD_OPS):
        cid[0] += 1
        cs.append(make_case(wr, cid[0], 3, ("op", 2, k)))
    for i in (0, 1, 3):
        cid[0] += 1
        cs.append(make_case(wr, cid[0], 4, ("commit", i)))
    for k in ("decode", "badop", "nodsn", "nosqlperm", "empty"):
        cid[0] += 1
        cs.append(make_case(wr, cid[0], 1, ("pre", k)))
    for n in (1, 2, 5, 9):
        cid[0] += 1
        cs.append(make_case(wr, cid[0], n, None))
    # schema-changing raw SQL as the first operation, then each kind of failure (and success)
    for rep in range(7):
        for f in (("op", 1, "select-notable"), ("op", 2, "insert-dup"), ("cond", 1, "true", 409), ("cond", 0, "evalerr", 0),
                  ("commit", 2), None):
            cid[0] += 1
            cs.append(make_case(wr, cid[0], 3, f, ddl_first=True))
    return cs, cid[0]


def gen_cases(rng, n, start):
    out = []
    for j in range(n):
        n_ops = rng.randint(1, 8)
        r = rng.random()
        if r < 0.22:
            f = None
        elif r < 0.50:
            f = ("op", rng.randrange(n_ops), rng.choice(sorted(BAD_OPS)))
        elif r < 0.80:
            kind = rng.choice(["evalerr", "malformed", "true", "true"])
            f = ("cond", rng.randrange(n_ops), kind, rng.choice([0, 0, 400, 404, 409, 418, 500, 503, 599, 600, 99, 100, -1]))
        elif r < 0.93:
            f = ("commit", rng.randrange(n_ops))
        else:
            f = ("pre", rng.choice(["decode", "badop", "nodsn", "nosqlperm", "empty"]))
        out.append(make_case(rng, start + 1 + j, n_ops, f, ddl_first=(f is None or f[0] != "pre") and rng.random() < 0.25))
    return out


PRE_COQ = {"ok": "PreOk", "decode": "PreDecodeErr", "badop": "PreBadOpcode", "nodsn": "PreOpenFail 404",
           "nosqlperm": "PreNoSQLPerm", "empty": "PreOk"}


def coq_tasks(model):
    return "[" + "; ".join("mkTask %d (%s) [%s]" % (i, m["res"], "; ".join(m["conds"])) for i, m in enumerate(model)) + "]"


def shape_from(sh):
    """Map the translator's exit list to the model's shape; returns (coq term, problems, dict)."""
    problems = []
    ex = sh["exits"]

    def rb(site):
        es = [e for e in ex if e["site"] == site]
        return all(e["rollback"] for e in es)      # an absent exit cannot be taken

    for e in ex:
        if e["site"] == "other" and not e["rollback"] and not e["after_commit"]:
            problems.append("return at handler.go:%d (guard `%s`) leaves the Begin...Commit region without Rollback/Commit"
                            % (e["line"], e["guard"]))
        if e["site"] == "success" and e["status"] != "http.StatusOK":
            problems.append("success return at handler.go:%d reports %s" % (e["line"], e["status"]))
    if not any(e["site"] == "success" for e in ex):
        problems.append("no return after db.Commit() found")
    stale = any(e["site"] == "commiterr" and e["status"] in ("httpStatus", "http.StatusOK") for e in ex)
    d = {"rb_formcond": rb("formcond"), "rb_eval": rb("eval"), "rb_condtrue": rb("condtrue"), "rb_operr": rb("operr"),
         "commit_stale_status": stale, "commit_clears_on_err": sh["commit_clears_on_err"],
         "close_skips_open_tx": sh["close_skips_open_tx"], "defer_close": sh["defer_close"] and sh["close_closes_handle"],
         "ops_in_tx": bool(sh.get("shim_uses_tx")) and not sh.get("bypass")}
    order = ["rb_formcond", "rb_eval", "rb_condtrue", "rb_operr", "commit_stale_status", "commit_clears_on_err",
             "close_skips_open_tx", "defer_close", "ops_in_tx"]
    term = "(mkShape " + " ".join("true" if d[k] else "false" for k in order) + ")"
    return term, problems, d


def classify(case):
    f = case.get("fault")
    if not f:
        return "success"
    if f[0] == "cond":
        return "exit-" + f[2]
    if f[0] == "op":
        return "exit-operr"
    if f[0] == "commit":
        return "exit-commiterr"
    return "pre-" + f[1]


def run(ck):
    quick = ck.tier == "quick"
    ck.cov["rule"] = ("requests of 1-8 operations (insert/update/delete/select/readrows/symbols/drop/sql incl. bare SQL) over a "
                      "fresh SQLite file each (25%% start with a schema-changing raw-SQL statement: CREATE TABLE/INDEX/VIEW, ALTER TABLE ADD "
                      "COLUMN, DROP TABLE/INDEX/VIEW; tables, indexes, views and t's columns are compared), with one fault: an operation failing (22 kinds), an error condition "
                      "malformed / failing to evaluate / true with a status from {0,99,100,400..600,-1}, a commit failing on a "
                      "deferred foreign key, or a pre-transaction refusal; distinct_nontrivial = distinct (operation kinds, "
                      "fault) tuples among requests in which a write was executed before the fault or that commit >= 2 operations")
    ck.assume("SQLite: statements since BEGIN become durable exactly at a successful COMMIT; ROLLBACK, a failed COMMIT (rolled "
              "back by the modernc driver) and closing the connection discard them",
              "Database.Rollback on an active transaction succeeds",
              "operation handlers and database.Open never return an error together with status 200 (observed every run)",
              "the client does not itself ask for status 200 on a tripped error condition (errors[i].status = 200)")
    ck.trusted("harness/C17/c17_test.go: in-package driver of the real Handler on SQLite files and go/ast translator of "
               "handler.go / transaction.go / open.go", "props/C17.py: generator, simulated expected state, shape mapping, comparison")
    coq_ok = ck.coq_stage(GROUP, theorems=["C17_exits_closed", "C17_all_or_nothing", "C17_old_refuted_open",
                                           "C17_old_refuted_commit", "C17_bypass_refuted"])

    ok, binp = vf.go_test_build(ck.work, "internal/server/tables/scripting",
                                {"internal/server/tables/scripting/zz_verif_c17_test.go":
                                 os.path.join(vf.HARNESS, "C17", "c17_test.go")}, "c17.test")
    if not ok:
        ck.violation("harness-build", "harness for internal/server/tables/scripting does not build:\n" + binp[-1500:],
                     replay={"log": binp[-3000:]}, found_input=False)
        return

    # ---- translator: the exits of the current source
    shp = os.path.join(ck.work, "shape.json")
    rc, log = vf.run_bin(binp, "^TestVerifC17Exits$", {"VERIF_SRC": vf.REPO, "VERIF_OUT": shp})
    shape_term, problems, shape_d, sh = None, [], {}, None
    if rc != 0 or not os.path.exists(shp):
        problems = ["translator failed (anchors not found?):\n" + log[-1200:]]
    else:
        sh = json.load(open(shp))
        shape_term, problems, shape_d = shape_from(sh)
        ck.cov["exit_table"] = [{k: e[k] for k in ("line", "site", "rollback", "after_commit", "status")} for e in sh["exits"]]
        ck.cov["shape"] = shape_d
        ck.cov["handle_bypass_sites"] = sh.get("bypass")

    # ---- cases
    cases, last = corpus(ck.rng)
    cases += gen_cases(ck.rng, 90 if quick else 1500, last)
    if ck.replay_file:
        rp = json.load(open(ck.replay_file))["replay"]
        if rp.get("cases"):
            cases = rp["cases"]
    inp = os.path.join(ck.work, "in.json")
    outp = os.path.join(ck.work, "out.json")
    with open(inp, "w") as f:
        json.dump([{k: c[k] for k in ("id", "ops", "raw", "dsn", "nonadmin") if k in c} for c in cases], f)
    rc, log = vf.run_bin(binp, "^TestVerifC17$", {"VERIF_IN": inp, "VERIF_OUT": outp}, timeout=900)
    if rc != 0 or not os.path.exists(outp):
        ck.violation("harness-run", "harness failed:\n" + log[-1500:], replay={"log": log[-3000:]}, found_input=False)
        return
    outs = {o["id"]: o for o in json.load(open(outp))}
    init = Sim().snap()

    # ---- property oracle on the implementation itself
    found = False
    nontriv = set()
    dist = {}
    obs = {}
    for c in cases:
        o = outs.get(c["id"])
        cl = classify(c)
        dist[cl] = dist.get(cl, 0) + 1
        if o is None:
            ck.violation("harness-missing", "no output for case %s" % c["id"], replay={"cases": [c]}, found_input=False)
            continue
        state = {"t": o["t"], "child": o["child"], "tables": o["tables"], "indexes": o.get("indexes"), "views": o.get("views"),
                 "tcols": o.get("tcols")}
        what = None
        if o.get("panic"):
            what, sig = "Handler panicked: %s" % o["panic"], "panic:" + cl
        elif o["ret"] != o["code"]:
            what, sig = "Handler returned %d but wrote status %d" % (o["ret"], o["code"]), "status-mismatch:" + cl
        elif o["code"] == 200 and state != c["expect_all"]:
            what, sig = ("status 200 but the database does not hold every operation's effect: rows %s, expected %s"
                         % (state, c["expect_all"])), "reported-success-not-applied:" + cl
        elif o["code"] != 200 and state != init:
            what, sig = ("status %d (failure) but the database changed: %s, initially %s" % (o["code"], state, init)), \
                "reported-failure-but-applied:" + cl
        elif not o["probe_ok"]:
            what, sig = ("after the request returned (status %d) a following write fails: %s - a transaction/lock is still held"
                         % (o["code"], o.get("probe_err"))), "lock-held:" + cl
        elif o["leaked"] > 0:
            what, sig = ("after the request returned (status %d) %d descriptors on the database file remain open: the "
                         "transaction was not finished / the handle not closed" % (o["code"], o["leaked"])), "handle-left-open:" + cl
        if what:
            found = True
            ck.violation(sig, what + "  [request: %s]" % json.dumps(c.get("raw") or c["ops"])[:600], replay={"cases": [c]})
        applied = len(c["model"]) if state == c["expect_all"] else (0 if state == init else -1)
        ambiguous = c["expect_all"] == init
        obs[c["id"]] = (o["code"], 1 if (o["leaked"] == 0 and o["probe_ok"]) else 0, applied, ambiguous)
        if (c.get("fault") and c["pre"] == "ok" and c.get("wrote_before")) or (not c.get("fault") and len(c["ops"]) >= 2):
            nontriv.add((tuple(c["kinds"]), json.dumps(c.get("fault"))))
    ck.cov["evaluations"] = len(cases)
    ck.cov["distinct_nontrivial"] = len(nontriv)
    ck.cov["input_distribution"] = dist
    for c in cases[:2] + cases[-2:]:
        o = outs.get(c["id"], {})
        ck.sample({"ops": c.get("raw") or c["ops"], "fault": c.get("fault"), "status": o.get("code"), "t_rows": o.get("t"),
                   "following_write_ok": o.get("probe_ok"), "descriptors_left": o.get("leaked")})

    # ---- obligations over the generated shape + correspondence
    if problems:
        if not found:
            ck.violation("exits-match", "exit table of handler.go no longer matches the model's exits: " + "; ".join(problems),
                         replay={"problems": problems, "shape": sh}, found_input=False)
        return
    if getattr(ck, "coq_broken", None):
        if not found:
            grp, log = ck.coq_broken
            ck.violation("proof-broken", "Coq development %s no longer checks (C17_exits_closed):\n%s" % (grp, log[-1200:]),
                         replay={"broken": "coq/" + grp, "log": log[-3000:]}, found_input=False)
        return
    pre = ["From Txn Require Import Model Proofs Properties.", "Open Scope Z_scope.",
           "Definition cur : shape := %s." % shape_term,
           "Definition cases : list (pre * list task * bool * list Z) := ["]
    rows = []
    for c in cases:
        code, closed, applied, amb = obs.get(c["id"], (0, 0, 0, False))
        commit_ok = "false" if (c.get("fault") and c["fault"][0] == "commit") else "true"
        is_empty = c["pre"] == "empty"
        rows.append("(%s, %s, %s, [%d; %d; %d; %d; %d])" % (
            PRE_COQ[c["pre"]], "[]" if is_empty else coq_tasks(c["model"]) if c["pre"] == "ok" else "[mkTask 0 OpOk []]",
            commit_ok, code, closed, applied, 1 if amb else 0,
            1 if (c.get("fault") and c["fault"][0] == "cond") or not c.get("fault")
            or c["pre"] in ("decode", "badop", "nosqlperm", "empty") else 0))
    pre.append(";\n".join(rows))
    pre.append("""].
(* observed = [status; closed&unlocked; durable effects (-1 = neither none nor all); ambiguous; exact-status] *)
Definition bad (i : nat) (c : pre * list task * bool * list Z) : list nat :=
  let '(p, ts, cok, o) := c in
  let m := observe cur p ts cok 409 in
  match m, o with
  | [mst; mtx; mcl; mn], [st; cl; n; amb; exact] =>
    let st_ok := if exact =? 1 then mst =? st else Bool.eqb (mst =? 200) (st =? 200) in
    let n_ok := if amb =? 1 then true else mn =? n in
    if st_ok && (mcl =? cl) && n_ok && (negb (mtx =? 1) || (mcl =? 0)) then [] else [i]
  | _, _ => [i]
  end.
Fixpoint idx {A} (f : nat -> A -> list nat) (i : nat) (l : list A) : list nat :=
  match l with [] => [] | x :: r => f i x ++ idx f (S i) r end.
""")
    okc, res = vf.coq_eval(GROUP, ck.work, "cases", "\n".join(pre),
                           {"BAD": "idx bad 0 cases", "CLOSED": "[if shape_closed cur then 1%nat else 0%nat]"})
    if not okc:
        if not found:
            ck.violation("correspondence-eval", "model evaluation failed:\n" + res[-1500:], replay={"log": res[-3000:]},
                         found_input=False)
        return
    ck.cov["traces_validated_against_impl"] = len(cases) - len(res["BAD"])
    ck.add_obligations(2, 0)
    if res["CLOSED"] == [1]:
        oblig = "\n".join(["From Txn Require Import Model Proofs Properties.",
                           "Definition cur : shape := %s." % shape_term,
                           "Lemma exits_match : shape_closed cur = true. Proof. vm_compute. reflexivity. Qed.",
                           "Theorem C17_current_source : C17_statement cur. Proof. exact (C17_exits_closed cur exits_match). Qed.",
                           "Print Assumptions C17_current_source."])
        rc, out = vf.coq_run(GROUP, ck.work, "current", oblig)
        if rc == 0 and "Closed under the global context" in out:
            ck.cov["discharged"] += 2
            ck.cov.setdefault("property_theorems", []).append("Gen.current.C17_current_source (regenerated from the Go source)")
        elif not found:
            ck.violation("exits-match", "generated obligation C17_current_source failed:\n" + out[-1200:],
                         replay={"shape": shape_d, "log": out[-2000:]}, found_input=False)
    elif not found:
        ck.violation("exits-match", "the exits extracted from the current source are not all closed (shape_closed = false): %s"
                     % json.dumps(shape_d), replay={"shape": shape_d, "exits": sh["exits"]}, found_input=False)
    if not found:
        for i in res["BAD"][:5]:
            c = cases[i]
            ck.violation("corr:" + classify(c), "model and implementation disagree: observed (status, closed, durable effects) = %s "
                         "for request %s with fault %s" % (obs.get(c["id"]), json.dumps(c.get("raw") or c["ops"])[:500], c.get("fault")),
                         replay={"cases": [c]}, found_input=False)
