//go:build verif

package commands

// Overlaid into /repo/internal/commands by /verif/check C32 / C20. Runs the REAL route declarations
// (defineStaticRoutes + defineNativeAdminHandlers, the same calls setupServerRouter makes) and dumps
// endpoint, method and gate flags of every route, one per line:
//   ROUTE <hex endpoint> <method> <mustAuth> <canAuth> <lightweight> <n perms> <hex perm>... V<number of validations>

import (
	"bufio"
	"encoding/hex"
	"encoding/json"
	"fmt"
	"net/http/httptest"
	"os"
	"path/filepath"
	"sort"
	"strings"
	"testing"
	"time"

	"github.com/google/uuid"
	"github.com/tucats/ego/internal/caches"
	"github.com/tucats/ego/internal/language/tokens"
	"github.com/tucats/ego/internal/server/auth"
	"github.com/tucats/ego/internal/util/validate"

	"github.com/tucats/ego/internal/cli/settings"
	"github.com/tucats/ego/internal/defs"
)

func b2i(b bool) int {
	if b {
		return 1
	}

	return 0
}

func TestVerifRouteTable(t *testing.T) {
	// optional OAuth authorization-server routes are part of the table when enabled
	if os.Getenv("VERIF_OAUTH_AS") == "1" {
		settings.SetDefault(defs.OAuthASEnabledSetting, "true")
	}

	r := defineStaticRoutes()
	defineNativeAdminHandlers(r)

	out, err := os.Create(os.Getenv("VERIF_OUT"))
	if err != nil {
		t.Fatal(err)
	}
	defer out.Close()

	w := bufio.NewWriter(out)
	defer w.Flush()

	for _, x := range r.VerifRoutes() {
		fmt.Fprintf(w, "ROUTE %s %s %d %d %d %d", hex.EncodeToString([]byte(x.Endpoint)), x.Method,
			b2i(x.MustAuth), b2i(x.CanAuth), b2i(x.Lightweight), len(x.Perms))
		for _, p := range x.Perms {
			fmt.Fprintf(w, " %s", hex.EncodeToString([]byte(p)))
		}

		fmt.Fprintf(w, " V%d\n", len(x.Validations))
	}
}

// TestVerifRealFind: VERIF_IN JSON {"builds":k,"calls":c,"reqs":[[method,path],...]} ->
// VERIF_OUT JSON [[[status,endpoint,method],...distinct...],...per request] on the real table,
// rebuilt `builds` times, `calls` FindRoute calls each.
func TestVerifRealFind(t *testing.T) {
	b, err := os.ReadFile(os.Getenv("VERIF_IN"))
	if err != nil {
		t.Fatal(err)
	}

	in := struct {
		Builds, Calls int
		Reqs          [][2]string
	}{}
	if err := json.Unmarshal(b, &in); err != nil {
		t.Fatal(err)
	}

	seen := make([]map[[3]string]bool, len(in.Reqs))
	for i := range seen {
		seen[i] = map[[3]string]bool{}
	}

	for k := 0; k < in.Builds; k++ {
		r := defineStaticRoutes()
		defineNativeAdminHandlers(r)

		for qi, q := range in.Reqs {
			for c := 0; c < in.Calls; c++ {
				rt, status := r.FindRoute(q[0], q[1], false)
				id := rt.VerifID()
				seen[qi][[3]string{fmt.Sprint(status), id[0], id[1]}] = true
			}
		}
	}

	out := [][][3]string{}

	for qi := range in.Reqs {
		l := [][3]string{}
		for k := range seen[qi] {
			l = append(l, k)
		}

		sort.Slice(l, func(i, j int) bool { return fmt.Sprint(l[i]) < fmt.Sprint(l[j]) })
		out = append(out, l)
	}

	ob, _ := json.Marshal(out)
	if err := os.WriteFile(os.Getenv("VERIF_OUT"), ob, 0o644); err != nil {
		t.Fatal(err)
	}
}

// TestVerifRealGate drives EVERY route of the real table through the real ServeHTTP with recording handlers:
// credential forms none / norm (valid password, holds only ego.logon) / root, bodies valid (for routes that
// have payload validations: the first candidate body one of the route's validations accepts) / invalid.
// VERIF_OUT JSON [{"endpoint","method","must","light","perms","nvalid","cred","body","bodyvalid","invoked","status"}]
func TestVerifRealGate(t *testing.T) {
	svc, err := auth.NewFileService(filepath.Join(t.TempDir(), "users.json"), "verifadmin", "verif-admin-pw")
	if err != nil {
		t.Fatal(err)
	}

	auth.AuthService = svc

	for _, u := range []struct {
		name, pw string
		perms    []string
	}{{"norm", "pw-norm", []string{defs.LogonPermission}}, {"rootie", "pw-root", []string{defs.RootPermission}}} {
		h, err := auth.HashPassword(u.pw)
		if err != nil {
			t.Fatal(err)
		}

		if err := auth.AuthService.WriteUser(0, defs.User{Name: u.name, ID: uuid.New(), Password: h, Permissions: u.perms}); err != nil {
			t.Fatal(err)
		}
	}

	caches.Add(caches.TokenCache, "verif-real-norm", &tokens.Token{Name: "norm", TokenID: uuid.New(), Expires: time.Now().Add(time.Hour)})
	caches.Add(caches.TokenCache, "verif-real-root", &tokens.Token{Name: "rootie", TokenID: uuid.New(), Expires: time.Now().Add(time.Hour)})

	r := defineStaticRoutes()
	defineNativeAdminHandlers(r)

	invoked := false
	r.VerifWrapHandlers(func(string, string) { invoked = true })

	candidates := []string{}

	for _, v := range []any{
		defs.User{Name: "someone", Password: "pw", Permissions: []string{"ego.logon"}},
		defs.LoggingItem{RetainCount: 3, Loggers: map[string]bool{"auth": true}},
		defs.DSN{Name: "d1", Provider: "sqlite", Database: "x.db"},
		defs.DSNPermissionItem{DSN: "d1", User: "someone", Actions: []string{"read"}},
		defs.Credentials{Username: "someone", Password: "something"},
		[]defs.TXOperation{},
	} {
		b, _ := json.Marshal(v)
		candidates = append(candidates, string(b))
	}

	type row struct {
		Endpoint  string   `json:"endpoint"`
		Method    string   `json:"method"`
		Must      bool     `json:"must"`
		Can       bool     `json:"can"`
		Light     bool     `json:"light"`
		Perms     []string `json:"perms"`
		NValid    int      `json:"nvalid"`
		Cred      string   `json:"cred"`
		Body      string   `json:"body"`
		BodyValid bool     `json:"bodyvalid"`
		Invoked   bool     `json:"invoked"`
		Status    int      `json:"status"`
	}

	rows := []row{}

	for _, x := range r.VerifRoutes() {
		path := x.Endpoint
		for strings.Contains(path, "{{") {
			i, j := strings.Index(path, "{{"), strings.Index(path, "}}")
			if j < i {
				break
			}

			path = path[:i] + "zz" + path[j+2:]
		}

		accepts := func(body string) bool {
			for _, v := range x.Validations {
				if validate.Validate([]byte(body), v) == nil {
					return true
				}
			}

			return false
		}

		bodies := map[string]string{"invalid": `{"name":17,"username":17,"provider":3,"keep":"x"}`}

		for _, c := range candidates {
			if accepts(c) {
				bodies["valid"] = c

				break
			}
		}

		if len(x.Validations) == 0 {
			bodies = map[string]string{"none": ""}
		}

		for bname, body := range bodies {
			for _, cred := range []string{"none", "norm", "root"} {
				var req = httptest.NewRequest(x.Method, path, strings.NewReader(body))
				req.Header.Set("Accept", "*/*")

				// cached tokens (no bcrypt): Authenticate takes the token-cache hit path
				switch cred {
				case "norm":
					req.Header.Set("Authorization", "Bearer verif-real-norm")
				case "root":
					req.Header.Set("Authorization", "Bearer verif-real-root")
				}

				invoked = false
				w := httptest.NewRecorder()
				r.ServeHTTP(w, req)

				rows = append(rows, row{Endpoint: x.Endpoint, Method: x.Method, Must: x.MustAuth, Can: x.CanAuth, Light: x.Lightweight,
					Perms: x.Perms, NValid: len(x.Validations), Cred: cred, Body: bname, BodyValid: len(x.Validations) > 0 && accepts(body),
					Invoked: invoked, Status: w.Code})
			}
		}
	}

	ob, _ := json.Marshal(rows)
	if err := os.WriteFile(os.Getenv("VERIF_OUT"), ob, 0o644); err != nil {
		t.Fatal(err)
	}
}
