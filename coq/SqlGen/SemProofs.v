(* SqlGen/SemProofs.v — the generated WHERE clause means what the filter is documented to mean
   (where the generator's missing parentheses do not matter), and the text of gen_filter is confined. *)
From Coq Require Import String Ascii.
From Common Require Import Base.
From SqlGen Require Import Model Proofs Sem.
Open Scope list_scope.
Open Scope N_scope.

(* ---------------------------------------------------------------- induction over filters *)
Section FilterInd.
  Variable P : filter -> Prop.
  Hypothesis Hcmp : forall o a b, P (FCmp o a b).
  Hypothesis Hnull : forall c, P (FIsNull c).
  Hypothesis Hand : forall l, Forall P l -> P (FAnd l).
  Hypothesis Hor : forall l, Forall P l -> P (FOr l).
  Hypothesis Hnot : forall g, P g -> P (FNot g).
  Hypothesis Hhas : forall all c vs, P (FHas all c vs).
  Fixpoint filter_ind' (f : filter) : P f :=
    match f with
    | FCmp o a b => Hcmp o a b
    | FIsNull c => Hnull c
    | FAnd l => Hand l ((fix go (l : list filter) : Forall P l :=
                           match l with [] => Forall_nil P | x :: r => Forall_cons x (filter_ind' x) (go r) end) l)
    | FOr l => Hor l ((fix go (l : list filter) : Forall P l :=
                         match l with [] => Forall_nil P | x :: r => Forall_cons x (filter_ind' x) (go r) end) l)
    | FNot g => Hnot g (filter_ind' g)
    | FHas all c vs => Hhas all c vs
    end.
End FilterInd.

(* ---------------------------------------------------------------- three-valued logic *)
Lemma and3_assoc a b c : and3 a (and3 b c) = and3 (and3 a b) c.
Proof. destruct a as [[|]|], b as [[|]|], c as [[|]|]; reflexivity. Qed.
Lemma or3_assoc a b c : or3 a (or3 b c) = or3 (or3 a b) c.
Proof. destruct a as [[|]|], b as [[|]|], c as [[|]|]; reflexivity. Qed.
Lemma and3_true_r a : and3 a (Some true) = a.
Proof. destruct a as [[|]|]; reflexivity. Qed.
Lemma and3_true_l a : and3 (Some true) a = a.
Proof. destruct a as [[|]|]; reflexivity. Qed.
Lemma or3_false_r a : or3 a (Some false) = a.
Proof. destruct a as [[|]|]; reflexivity. Qed.
Lemma or3_false_l a : or3 (Some false) a = a.
Proof. destruct a as [[|]|]; reflexivity. Qed.
Lemma truth_of3 x : truth (of3 x) = x.
Proof. destruct x as [[|]|]; reflexivity. Qed.

Definition tv (r : trow) (e : sexpr) : option bool := truth (eval_sql r e).
Definition ev_conj (r : trow) (c : list sexpr) : option bool := fold_right and3 (Some true) (List.map (tv r) c).
Definition ev_flat (r : trow) (d : flat) : option bool := fold_right or3 (Some false) (List.map (ev_conj r) d).

Lemma fold_left_and r : forall rest e,
  tv r (fold_left SAnd rest e) = and3 (tv r e) (ev_conj r rest).
Proof.
  induction rest as [|a rest IH]; intros e; cbn [fold_left].
  - unfold ev_conj. cbn. now rewrite and3_true_r.
  - rewrite IH. unfold tv at 1. cbn [eval_sql]. rewrite truth_of3. fold (tv r e) (tv r a).
    unfold ev_conj. cbn [List.map fold_right]. now rewrite and3_assoc.
Qed.
Lemma tv_conj r c : tv r (conj_expr c) = ev_conj r c.
Proof.
  destruct c as [|a rest]; [reflexivity|]. cbn [conj_expr]. rewrite fold_left_and. reflexivity.
Qed.
Lemma fold_left_or r : forall rest e,
  tv r (fold_left (fun e c' => SOr e (conj_expr c')) rest e) = or3 (tv r e) (ev_flat r rest).
Proof.
  induction rest as [|c rest IH]; intros e; cbn [fold_left].
  - unfold ev_flat. cbn. now rewrite or3_false_r.
  - rewrite IH. unfold tv at 1. cbn [eval_sql]. rewrite truth_of3. fold (tv r e) (tv r (conj_expr c)).
    rewrite tv_conj. unfold ev_flat. cbn [List.map fold_right]. now rewrite or3_assoc.
Qed.
Lemma tv_flat r d : tv r (flat_expr d) = ev_flat r d.
Proof.
  destruct d as [|c rest]; [reflexivity|]. cbn [flat_expr]. rewrite fold_left_or, tv_conj. reflexivity.
Qed.

Lemma ev_conj_app r c1 c2 : ev_conj r (c1 ++ c2) = and3 (ev_conj r c1) (ev_conj r c2).
Proof.
  unfold ev_conj. induction c1 as [|a c1 IH]; cbn [app List.map fold_right]; [now rewrite and3_true_l|].
  rewrite IH. apply and3_assoc.
Qed.
Lemma ev_flat_app r d1 d2 : ev_flat r (d1 ++ d2) = or3 (ev_flat r d1) (ev_flat r d2).
Proof.
  unfold ev_flat. induction d1 as [|a d1 IH]; cbn [app List.map fold_right]; [now rewrite or3_false_l|].
  rewrite IH. apply or3_assoc.
Qed.
Lemma ev_flat_single r c : ev_flat r [c] = ev_conj r c.
Proof. unfold ev_flat. cbn. apply or3_false_r. Qed.
Lemma ev_conj_single r a : ev_conj r [a] = tv r a.
Proof. unfold ev_conj. cbn. apply and3_true_r. Qed.

Lemma single_conj_inv d : single_conj d = true -> exists a c, d = [a :: c].
Proof. destruct d as [|[|a c] [|]]; try discriminate. intros _. exists a, c. reflexivity. Qed.
Lemma single_atom_inv d : single_atom d = true -> exists a, d = [[a]].
Proof. destruct d as [|[|a [|]] [|]]; try discriminate. intros _. exists a. reflexivity. Qed.

(* a list of texts joined with AND, every one a single conjunction: one conjunction with the meaning of all *)
Lemma join_and_list r (ef : filter -> option bool) : forall l,
  l <> [] ->
  Forall (fun g => single_conj (flat_of g) = true /\ ev_flat r (flat_of g) = ef g) l ->
  exists c, fold_right (fun g acc => join_and (flat_of g) acc) [] l = [c]
            /\ ev_conj r c = fold_right and3 (Some true) (List.map ef l).
Proof.
  induction l as [|g l IH]; intros Hne Hall; [congruence|]. inversion Hall as [|? ? [Hs He] Hrest]; subst.
  destruct (single_conj_inv _ Hs) as (a & c & Hd). cbn [fold_right List.map]. rewrite Hd in *.
  rewrite ev_flat_single in He. destruct l as [|g2 l].
  - cbn [fold_right List.map join_and]. exists (a :: c). split; [reflexivity|]. now rewrite and3_true_r.
  - destruct (IH ltac:(discriminate) Hrest) as (c2 & Hf & Hc2). rewrite Hf. cbn [join_and].
    exists ((a :: c) ++ c2). split; [reflexivity|]. rewrite ev_conj_app, He, Hc2. reflexivity.
Qed.

Lemma eval_sop r a : eval_sql r (sop a) = opval r a.
Proof. destruct a; reflexivity. Qed.

Lemma tv_pos r c v : tv r (pos_gt0 c v) = has3 (col r c) v.
Proof.
  unfold tv, pos_gt0. cbn [eval_sql]. destruct (col r c) as [|z|s]; cbn [has3]; try reflexivity.
  unfold contains. destruct (find_sub v s) as [k|]; [|reflexivity].
  unfold cmp3. destruct (Z.of_nat (S k)) eqn:E; try lia. reflexivity.
Qed.

(* ---------------------------------------------------------------- the meaning theorem *)
Lemma flat_meaning r : forall f, safe f = true -> ev_flat r (flat_of f) = eval_filter r f.
Proof.
  induction f as [o a b|c|l IH|l IH|g IH|all c vs] using filter_ind'; intros Hs; cbn [flat_of eval_filter].
  - rewrite ev_flat_single, ev_conj_single. unfold tv. cbn [eval_sql]. now rewrite truth_of3, !eval_sop.
  - rewrite ev_flat_single, ev_conj_single. unfold tv. cbn [eval_sql]. now rewrite truth_of3.
  - cbn [safe] in Hs. apply andb_true_iff in Hs as [Hall Hlen].
    assert (Hne : l <> []) by (destruct l; [discriminate|discriminate]).
    assert (HF : Forall (fun g => single_conj (flat_of g) = true /\ ev_flat r (flat_of g) = eval_filter r g) l).
    { rewrite forallb_forall in Hall. rewrite Forall_forall in *. intros g Hg. specialize (Hall g Hg).
      apply andb_true_iff in Hall as [H1 H2]. split; [exact H2|exact (IH g Hg H1)]. }
    destruct (join_and_list r (eval_filter r) l Hne HF) as (c & Hf & Hc). rewrite Hf.
    rewrite ev_flat_single, ev_conj_single, tv_flat, ev_flat_single. exact Hc.
  - cbn [safe] in Hs. apply andb_true_iff in Hs as [Hall _].
    rewrite ev_flat_single, ev_conj_single, tv_flat.
    rewrite forallb_forall in Hall. clear -Hall IH. induction l as [|g l IHl]; [reflexivity|].
    inversion IH as [|? ? Hg Hrest]; subst. cbn [fold_right List.map]. rewrite ev_flat_app.
    rewrite (Hg (Hall g (or_introl eq_refl))). f_equal. apply IHl; [exact Hrest|]. intros x Hx. apply Hall. right. exact Hx.
  - cbn [safe] in Hs. apply andb_true_iff in Hs as [Hg Ha]. destruct (single_atom_inv _ Ha) as (a & Hd).
    specialize (IH Hg). rewrite Hd in *. cbn [not_flat]. rewrite ev_flat_single, ev_conj_single in *.
    unfold tv in *. cbn [eval_sql]. now rewrite truth_of3, IH.
  - assert (Hd : ev_flat r (if all then [List.map (pos_gt0 c) vs] else List.map (fun v => [pos_gt0 c v]) vs)
                 = if all then fold_right and3 (Some true) (List.map (has3 (col r c)) vs)
                   else fold_right or3 (Some false) (List.map (has3 (col r c)) vs)).
    { destruct all.
      + rewrite ev_flat_single. unfold ev_conj. rewrite map_map. f_equal.
        apply map_ext. intros v. apply tv_pos.
      + unfold ev_flat. rewrite map_map. f_equal. apply map_ext. intros v. rewrite ev_conj_single. apply tv_pos. }
    destruct (Nat.leb 2 (length vs)); [|exact Hd].
    rewrite ev_flat_single, ev_conj_single, tv_flat. exact Hd.
Qed.

Lemma join_and_nil : forall d, join_and d [] = d.
Proof. induction d as [|c [|c2 r] IH]; [reflexivity|reflexivity|]. cbn [join_and] in *. now rewrite IH. Qed.

Lemma and_all_true l : fold_right and3 (Some true) l = Some true <-> Forall (fun x => x = Some true) l.
Proof.
  induction l as [|x l IH]; cbn [fold_right]; [split; [constructor|reflexivity]|].
  split.
  - intros H. destruct x as [[|]|], (fold_right and3 (Some true) l) as [[|]|] eqn:E; try discriminate.
    constructor; [reflexivity|apply IH; reflexivity].
  - intros H. inversion H; subst. apply IH in H3. rewrite H3. reflexivity.
Qed.

Lemma where_meaning r fs : safe_where fs = true ->
  tv r (where_ast fs) = fold_right and3 (Some true) (List.map (eval_filter r) fs).
Proof.
  unfold where_ast, where_flat, safe_where. rewrite tv_flat. destruct fs as [|f [|f2 fs]]; [discriminate| |].
  - intros Hs. cbn [fold_right List.map]. rewrite join_and_nil, and3_true_r. apply flat_meaning, Hs.
  - intros Hall.
    assert (HF : Forall (fun g => single_conj (flat_of g) = true /\ ev_flat r (flat_of g) = eval_filter r g) (f :: f2 :: fs)).
    { rewrite forallb_forall in Hall. rewrite Forall_forall. intros g Hg. specialize (Hall g Hg).
      apply andb_true_iff in Hall as [H1 H2]. split; [exact H2|exact (flat_meaning r g H1)]. }
    assert (Hne : f :: f2 :: fs <> []) by discriminate.
    destruct (join_and_list r (eval_filter r) (f :: f2 :: fs) Hne HF) as (c & Hf & Hc). rewrite Hf, ev_flat_single. exact Hc.
Qed.

(* the rows the SQL expression selects are exactly the rows every filter selects *)
Lemma where_selects r fs : safe_where fs = true -> sql_selects r (where_ast fs) = forallb (selects r) fs.
Proof.
  intros Hs. unfold sql_selects. fold (tv r (where_ast fs)). rewrite (where_meaning r fs Hs).
  destruct (forallb (selects r) fs) eqn:E.
  - assert (H : fold_right and3 (Some true) (List.map (eval_filter r) fs) = Some true).
    { apply and_all_true. rewrite Forall_forall. intros x Hx. apply in_map_iff in Hx as (g & <- & Hg).
      rewrite forallb_forall in E. specialize (E g Hg). unfold selects in E.
      destruct (eval_filter r g) as [[|]|]; try discriminate. reflexivity. }
    rewrite H. reflexivity.
  - destruct (fold_right and3 (Some true) (List.map (eval_filter r) fs)) as [[|]|] eqn:H; try reflexivity.
    apply and_all_true in H. rewrite Forall_forall in H.
    assert (forallb (selects r) fs = true); [|congruence].
    apply forallb_forall. intros g Hg. unfold selects. rewrite (H (eval_filter r g)); [reflexivity|].
    apply in_map. exact Hg.
Qed.

(* ---------------------------------------------------------------- the missing parentheses *)
Definition bad_filter : filter :=
  FAnd [FCmp CEq (OCol (s2l "a")) (OInt 1); FHas false (s2l "foo") [s2l "x"; s2l "y"]].
Definition bad_row : trow := [(s2l "id", VInt 7); (s2l "a", VInt 2); (s2l "foo", VText (s2l "zzy"))].
Lemma meaning_old_refuted :
  wf bad_filter = true /\
  selects bad_row bad_filter = false /\ sql_selects bad_row (where_ast_old [bad_filter]) = true /\
  parse_where (sql_lex (fst (gen_where_old [bad_filter]))) = Some (where_ast_old [bad_filter]) /\
  sql_selects bad_row (where_ast [bad_filter]) = false /\
  parse_where (sql_lex (fst (gen_where [bad_filter]))) = Some (where_ast [bad_filter]).
Proof. vm_compute. repeat split. Qed.

(* ---------------------------------------------------------------- with the repaired generator every well formed filter is safe *)
Lemma single_atom_conj d : single_atom d = true -> single_conj d = true.
Proof. intros H. destruct (single_atom_inv d H) as (a & ->). reflexivity. Qed.

Lemma wf_safe : forall f, wf f = true -> safe f = true /\ single_atom (flat_of f) = true.
Proof.
  induction f as [o a b|c|l IH|l IH|g IH|all c vs] using filter_ind'; intros Hw; cbn [wf safe] in *; try (split; reflexivity).
  - apply andb_true_iff in Hw as [Hall Hlen]. split; [|reflexivity]. rewrite Hlen, andb_true_r.
    rewrite forallb_forall in *. rewrite Forall_forall in IH. intros x Hx. destruct (IH x Hx (Hall x Hx)) as [H1 H2].
    now rewrite H1, (single_atom_conj _ H2).
  - apply andb_true_iff in Hw as [Hall Hlen]. split; [|reflexivity]. rewrite Hlen, andb_true_r.
    rewrite forallb_forall in *. rewrite Forall_forall in IH. intros x Hx. apply (IH x Hx (Hall x Hx)).
  - destruct (IH Hw) as [H1 H2]. rewrite H1, H2. split; [reflexivity|].
    destruct (single_atom_inv _ H2) as (a & Ha). cbn [flat_of]. rewrite Ha. reflexivity.
  - split; [exact Hw|]. cbn [flat_of]. destruct vs as [|v [|v2 vs]]; [discriminate| |reflexivity]. destruct all; reflexivity.
Qed.

Lemma wf_safe_where fs : fs <> [] -> forallb wf fs = true -> safe_where fs = true.
Proof.
  intros Hne Hw. unfold safe_where. destruct fs as [|g [|g2 l]]; [congruence| |].
  - cbn [forallb] in Hw. apply andb_true_iff in Hw as [Hg _]. apply (wf_safe g Hg).
  - rewrite forallb_forall in *. intros x Hx. destruct (wf_safe x (Hw x Hx)) as [H1 H2]. now rewrite H1, (single_atom_conj _ H2).
Qed.

Lemma filter_meaning fs r : fs <> [] -> forallb wf fs = true ->
  truth (eval_sql r (where_ast fs)) = fold_right and3 (Some true) (List.map (eval_filter r) fs).
Proof. intros Hne Hw. exact (where_meaning r fs (wf_safe_where fs Hne Hw)). Qed.
Lemma filter_rows fs r : fs <> [] -> forallb wf fs = true -> sql_selects r (where_ast fs) = forallb (selects r) fs.
Proof. intros Hne Hw. exact (where_selects r fs (wf_safe_where fs Hne Hw)). Qed.

(* ---------------------------------------------------------------- the text of gen_filter is confined *)
Definition operand_ok (a : operand) : Prop := match a with OCol c => no_nul c | OStr s => no_nul s | OInt _ => True end.
Fixpoint filter_ok (f : filter) : Prop :=
  match f with
  | FCmp _ a b => operand_ok a /\ operand_ok b
  | FIsNull c => no_nul c
  | FAnd l | FOr l => (fix all (l : list filter) : Prop := match l with [] => True | x :: r => filter_ok x /\ all r end) l
  | FNot g => filter_ok g
  | FHas _ c vs => no_nul c /\ Forall no_nul vs
  end.
Lemma filter_ok_list l :
  (fix all (l : list filter) : Prop := match l with [] => True | x :: r => filter_ok x /\ all r end) l -> Forall filter_ok l.
Proof. induction l as [|x l IH]; intros H; [constructor|]. destruct H as [H1 H2]. constructor; [exact H1|apply IH, H2]. Qed.

Lemma Seg_operand a : operand_ok a -> Seg (gen_operand a).
Proof. destruct a as [c|z|s]; cbn [gen_operand operand_ok]; intros H; [apply Seg_ident, H|apply (itoa_seg z)|apply Seg_strlit, H]. Qed.

Lemma Lex0_infix_cmp o : Lex0 (infix_sep (cmp_out o)).
Proof. destruct o; lex0_fixed. Qed.
Lemma starts_sep_infix s : starts_sep (fst (infix_sep s)) = true.
Proof. reflexivity. Qed.

Lemma Seg_pos c v : no_nul c -> no_nul v -> Seg (gen_pos c v).
Proof.
  intros Hc Hv. unfold gen_pos. apply Lex0_Seg_app; [apply Lex0_position|].
  apply Seg_Seg_app; [apply Seg_strlit, Hv|reflexivity|]. apply Lex0_Seg_app; [apply Lex0_in|].
  apply Seg_Seg_app; [apply Seg_ident, Hc|reflexivity|apply Seg_gt0].
Qed.

Lemma gen_filter_seg : forall f, filter_ok f -> Seg (gen_filter f).
Proof.
  induction f as [o a b|c|l IH|l IH|g IH|all c vs] using filter_ind'; intros Hok; cbn [gen_filter].
  - destruct Hok as [Ha Hb]. apply Lex0_Seg_app; [apply Lex0_lp|]. apply Lex0_Seg.
    apply Seg_Lex0_app; [apply Seg_operand, Ha|reflexivity|].
    apply Lex0_app; [apply Lex0_infix_cmp|]. apply Seg_Lex0_app; [apply Seg_operand, Hb|reflexivity|apply Lex0_rp].
  - apply Lex0_Seg_app; [apply Lex0_lp|]. apply Lex0_Seg.
    apply Seg_Lex0_app; [apply Seg_ident, Hok|reflexivity|]. apply Lex0_app; [apply Lex0_isnull|apply Lex0_rp].
  - apply filter_ok_list in Hok. apply Lex0_Seg_app; [apply Lex0_lp|]. apply Lex0_Seg.
    assert (HS : Seg (ojoin (infix_sep (fx " AND " [Wd "AND"])) (List.map gen_filter l))).
    { apply ojoin_seg; [lex0_fixed|reflexivity|]. apply Forall_map. rewrite Forall_forall in *. intros g Hg. apply (IH g Hg), Hok, Hg. }
    destruct (List.map gen_filter l) eqn:E.
    + cbn [ojoin]. apply Lex0_app; [apply Lex0_onil|apply Lex0_rp].
    + apply Seg_Lex0_app; [exact HS| |apply Lex0_rp]. reflexivity.
  - apply filter_ok_list in Hok. apply Lex0_Seg_app; [apply Lex0_lp|]. apply Lex0_Seg.
    assert (HS : Seg (ojoin (infix_sep (fx " OR " [Wd "OR"])) (List.map gen_filter l))).
    { apply ojoin_seg; [lex0_fixed|reflexivity|]. apply Forall_map. rewrite Forall_forall in *. intros g Hg. apply (IH g Hg), Hok, Hg. }
    destruct (List.map gen_filter l) eqn:E.
    + cbn [ojoin]. apply Lex0_app; [apply Lex0_onil|apply Lex0_rp].
    + apply Seg_Lex0_app; [exact HS| |apply Lex0_rp]. reflexivity.
  - apply Lex0_Seg_app; [lex0_fixed|]. apply Lex0_Seg_app; [apply Lex0_space|apply IH, Hok].
  - destruct Hok as [Hc Hvs].
    assert (HB : Seg (ojoin (if all then fx " AND " [Wd "AND"] else fx " OR " [Wd "OR"]) (List.map (gen_pos c) vs))).
    { apply ojoin_seg; [destruct all; lex0_fixed|destruct all; reflexivity|].
      apply Forall_map. eapply Forall_impl; [|exact Hvs]. intros v Hv. apply Seg_pos; assumption. }
    destruct (Nat.leb 2 (length vs)); [|exact HB].
    apply Lex0_Seg_app; [apply Lex0_lp|]. apply Lex0_Seg.
    destruct vs as [|v vs]; [cbn [List.map ojoin]; apply Lex0_app; [apply Lex0_onil|apply Lex0_rp]|].
    apply Seg_Lex0_app; [exact HB| |apply Lex0_rp]. reflexivity.
Qed.

Lemma gen_where_confined fs : Forall filter_ok fs -> sql_lex (fst (gen_where fs)) = snd (gen_where fs).
Proof.
  intros Hok. apply sql_lex_seg. unfold gen_where. destruct fs as [|f fs]; [apply Seg_onil|].
  apply Lex0_Seg_app; [apply Lex0_where|]. apply ojoin_seg; [apply Lex0_and|reflexivity|].
  apply Forall_map. eapply Forall_impl; [|exact Hok]. intros g Hg. apply gen_filter_seg, Hg.
Qed.
