(* Store/Properties.v — property theorems of C30 only; proofs live in Proofs.v. *)
From Store Require Import Model Proofs.
From Common Require Import Base.
From Coq Require Import String.
Open Scope list_scope.
Open Scope N_scope.

(* The property as stated: for EVERY history the handle returns what the keyed in-memory table returns. *)
Definition C30_statement (wsem : list wtok -> option (list cond)) (cols : list column) : Prop :=
  forall h, history_wf cols h = true -> results (run wsem cols h) = results (spec_run cols h).

(* For every schema, every reading [wsem] of the generated where clause that parses "where c (and c)*" as
   the conjunction of its conditions (and the empty clause as no condition), and every history of
   create / create-if / insert / read / update / delete with equality and comparison filters - including
   nil filters and filters on unknown columns - the handle (tree with fix 1e0c750d) returns exactly the
   results of the keyed in-memory table.  history_wf only says that written rows have one value per column. *)
Theorem C30_refines_table :
  forall (wsem : list wtok -> option (list cond)) (cols : list column),
    wsem [] = Some [] ->
    (forall ci o k r cs, chain r = Some cs -> wsem (TWhere :: TCond ci o k :: r) = Some ((ci, o, k) :: cs)) ->
    forall h, history_wf cols h = true -> results (run wsem cols h) = results (spec_run cols h).
Proof. exact refines_table. Qed.

(* ... and leaves the same table behind *)
Theorem C30_refines_table_state :
  forall (wsem : list wtok -> option (list cond)) (cols : list column),
    wsem [] = Some [] ->
    (forall ci o k r cs, chain r = Some cs -> wsem (TWhere :: TCond ci o k :: r) = Some ((ci, o, k) :: cs)) ->
    forall h, history_wf cols h = true -> run wsem cols h = spec_run cols h.
Proof. exact refines_table_state. Qed.

(* The pinned code (value-receiver constructors returning nil for an unknown column; where/and chosen by
   argument position) is refuted, each defect with its own replayable witness. *)
Theorem C30_old_refuted_badcol :
  exists h, history_wf demo_cols h = true /\
            results (run_old wsem_ref demo_cols h) <> results (spec_run demo_cols h).
Proof. exists witness_badcol. exact old_refuted_badcol. Qed.

Theorem C30_old_refuted_nilfirst :
  exists h, history_wf demo_cols h = true /\ forallb (op_valid demo_cols) h = true /\
            results (run_old wsem_ref demo_cols h) <> results (spec_run demo_cols h).
Proof. exists witness_nilfirst. exact old_refuted_nilfirst. Qed.

(* non-vacuity: the reference reading satisfies both hypotheses, and a concrete history with a nil filter,
   an unknown column, a key collision and a two-filter update has non-trivial results *)
Example C30_hypotheses_satisfiable :
  wsem_ref [] = Some [] /\
  (forall ci o k r cs, chain r = Some cs -> wsem_ref (TWhere :: TCond ci o k :: r) = Some ((ci, o, k) :: cs)).
Proof. split; [exact wsem_ref_empty | exact wsem_ref_where]. Qed.

Example C30_nonvacuous :
  let h := [OCreateIf; OInsert rec1; OInsert rec2; OInsert rec1;
            ORead [FNil; FBy (L "NAME") OpGt (VS (L "N"))];
            OUpdate [VS u2; VS (L "Zed"); VI 1; VB true; VS (L "[]"); VS (L "{}")] [FBy (L "age") OpLt (VI 63); FNil; FBy (L "Active") OpEq (VB false)];
            ODelete [FBy (L "Nmae") OpEq (VS (L "Tom"))];
            ORead []] in
  history_wf demo_cols h = true /\
  results (run wsem_ref demo_cols h) =
    [ROk; ROk; ROk; RErr; RRows [rec1];
     ROk; RErr; RRows [rec1; [VS u2; VS (L "Zed"); VI 1; VB true; VS (L "[]"); VS (L "{}")]]].
Proof. vm_compute. split; reflexivity. Qed.
