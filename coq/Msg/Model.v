(* Msg/Model.v — executable model of internal/i18n: the lookup with English fallback (strings.go translate)
   over the compiled message table, and NegotiateLanguage (negotiate.go) over the parsed candidate list.
   Keys, languages and placeholder names are interned as numbers by the translator (harness/C38);
   a table entry keeps what the property talks about: the length of the text and its set of placeholders.
   Definitions only. *)
From Common Require Export Base.
Open Scope N_scope.

Definition entry := (N * list N)%type.              (* text length in bytes, sorted distinct placeholder ids *)
Definition row := (N * list (N * entry))%type.      (* key id, [(language id, entry)] *)
Definition table := list row.

Fixpoint assoc {A : Type} (k : N) (l : list (N * A)) : option A :=
  match l with
  | [] => None
  | (k', v) :: r => if k =? k' then Some v else assoc k r
  end.

(* messages[key][lang] *)
Definition lookup (t : table) (k l : N) : option entry :=
  match assoc k t with Some r => assoc l r | None => None end.

Definition en : N := 0.     (* the translator gives English the id 0 *)

(* translate(lang, key): the language's text, else the English text, else the key itself *)
Inductive tr := TLang (e : entry) | TEnglish (e : entry) | TKey.
Definition translate (t : table) (k l : N) : tr :=
  match lookup t k l with
  | Some e => TLang e
  | None => match lookup t k en with Some e => TEnglish e | None => TKey end
  end.

Definition nonempty (e : entry) : bool := 0 <? fst e.

(* the key resolves to non-empty localized text, directly or by the English fallback *)
Definition resolves (t : table) (k l : N) : bool :=
  match translate t k l with TLang e => nonempty e | TEnglish e => nonempty e | TKey => false end.

(* a translation uses the same placeholders as the English text *)
Definition same_placeholders (t : table) (k l : N) : bool :=
  match lookup t k l, lookup t k en with
  | Some a, Some b => str_eqb (snd a) (snd b)
  | _, _ => true
  end.

Definition ok_pair (t : table) (k l : N) : bool := resolves t k l && same_placeholders t k l.

Definition pair_eqb (a b : N * N) : bool := (fst a =? fst b) && (snd a =? snd b).
Definition excepted (exc : list (N * N)) (k l : N) : bool := existsb (pair_eqb (k, l)) exc.

Definition check_all (t : table) (keys langs : list N) (exc : list (N * N)) : bool :=
  forallb (fun k => forallb (fun l => excepted exc k l || ok_pair t k l) langs) keys.

Definition failing_pairs (t : table) (keys langs : list N) : list (N * N) :=
  flat_map (fun k => flat_map (fun l => if ok_pair t k l then [] else [(k, l)]) langs) keys.

(* ---------------------------------------------------------------- NegotiateLanguage *)
Definition cand := (str * Z)%type.   (* lower-cased primary subtag, quality (thousandths) *)

(* sort.SliceStable by quality, descending: c was before every element of l *)
Fixpoint insert_desc (c : cand) (l : list cand) : list cand :=
  match l with
  | [] => [c]
  | x :: r => if (snd x <=? snd c)%Z then c :: l else x :: insert_desc c r
  end.
Definition sort_desc (l : list cand) : list cand := fold_right insert_desc [] l.

Definition is_supported (supported : list str) (lang : str) : bool := existsb (str_eqb lang) supported.

(* result "" (= []) when no candidate is supported *)
Definition negotiate (supported : list str) (cands : list cand) : str :=
  match find (fun c => is_supported supported (fst c)) (sort_desc cands) with
  | Some c => fst c
  | None => []
  end.
