(* Crypto/Properties.v — property theorems of C27 only; proofs live in Proofs.v.
   seal/open (AES-GCM), argon/pbkdf/md5k/shak (key derivations) and rawdec/b64enc (encoding/base64)
   are universally quantified; their assumed laws (Model.v, Section Laws) are explicit premises. *)
From Common Require Import Base.
From Crypto Require Import Model Proofs Token.
Open Scope N_scope.

Section C27.
  Variable argon pbkdf : bytes -> bytes -> bytes.
  Variable md5k shak : bytes -> bytes.
  Variable seal : bytes -> bytes -> bytes -> bytes.
  Variable open : bytes -> bytes -> bytes -> option bytes.
  Variable rawdec : bytes -> option bytes.
  Variable b64enc : bytes -> bytes.

  Notation util_decrypt := (util_decrypt argon pbkdf md5k shak open).
  Notation util_encrypt := (util_encrypt argon pbkdf md5k shak seal).
  Notation settings_decrypt := (settings_decrypt argon pbkdf md5k shak open rawdec b64enc).
  Notation settings_encrypt := (settings_encrypt argon pbkdf md5k shak seal b64enc).
  Notation derive := (derive argon pbkdf md5k shak).

  (* Decrypting the output of encryption with the same passphrase returns the original text:
     tokens (util) and profile settings, for every passphrase, salt, nonce and plaintext. *)
  Theorem C27_roundtrip :
    aead_correct seal open -> b64_correct rawdec b64enc ->
    forall pw salt nonce pt, length salt = salt_len -> length nonce = nonce_len ->
      util_decrypt true pw (util_encrypt pw salt nonce pt) = Ok pt /\
      settings_decrypt true true pw (settings_encrypt pw salt nonce pt) = Ok pt.
  Proof.
    intros Hc Hb pw salt nonce pt Hs Hn. split.
    - exact (util_roundtrip argon pbkdf md5k shak seal open true pw salt nonce pt Hc Hs Hn).
    - exact (settings_roundtrip argon pbkdf md5k shak seal open rawdec b64enc true true pw salt nonce pt Hc Hb Hs Hn).
  Qed.

  (* The framing layer never returns text on its own: relative to ANY log [sealed] of honest Seal
     calls, every byte string accepted under passphrase pw is exactly the frame (magic/prefix, salt,
     nonce, base64 spelling included) of a logged sealing under a key derived from pw. *)
  Theorem C27_only_honest :
    forall sealed, aead_exact seal open -> aead_int_ctxt open sealed ->
    forall pw d p,
      (util_decrypt true pw d = Ok p ->
         exists k s n, sealed (derive k pw s) n p /\ d = util_frame k s n (seal (derive k pw s) n p) /\
                       length n = nonce_len /\ (if uses_salt k then length s = salt_len else s = [])) /\
      (settings_decrypt true true pw d = Ok p ->
         exists k s n, sealed (derive k pw s) n p /\
                       d = settings_frame b64enc k s n (seal (derive k pw s) n p) /\ k <> KPbkdf /\
                       length n = nonce_len /\ (if uses_salt k then length s = salt_len else s = [])).
  Proof.
    intros sealed Hex Hint pw d p. split.
    - exact (fun H => util_only_honest argon pbkdf md5k shak seal open sealed pw d p Hex Hint H).
    - exact (fun H => settings_only_honest argon pbkdf md5k shak seal open rawdec b64enc sealed pw d p Hex Hint H).
  Qed.

  (* In a world where exactly one message (pw0, salt0, nonce0, pt0) was sealed, with idealised AEAD
     and key derivation: every single-byte change, every truncation (to any length, 0 included),
     every extension of the ciphertext is an error under the right passphrase, the right ciphertext
     is an error under any other passphrase — and so is anything else at all. *)
  Theorem C27_reject :
    forall pw0 salt0 nonce0 pt0,
      aead_exact seal open ->
      aead_int_ctxt open (one_sealed argon pbkdf md5k shak pw0 salt0 nonce0 pt0) ->
      kdf_ideal argon pbkdf md5k shak ->
      let cu := util_encrypt pw0 salt0 nonce0 pt0 in
      let cs := settings_encrypt pw0 salt0 nonce0 pt0 in
      (forall c', edit cu c' -> util_decrypt true pw0 c' = Error) /\
      (forall c', edit cs c' -> settings_decrypt true true pw0 c' = Error) /\
      (forall pw c', pw <> pw0 -> util_decrypt true pw c' = Error /\ settings_decrypt true true pw c' = Error) /\
      (forall pw c', c' <> cu -> util_decrypt true pw c' = Error) /\
      (forall pw c', c' <> cs -> settings_decrypt true true pw c' = Error).
  Proof.
    intros pw0 salt0 nonce0 pt0 Hex Hint Hkdf cu cs.
    pose proof (util_reject argon pbkdf md5k shak seal open pw0 salt0 nonce0 pt0 Hex Hint Hkdf) as HU.
    pose proof (settings_reject argon pbkdf md5k shak seal open rawdec b64enc pw0 salt0 nonce0 pt0 Hex Hint Hkdf) as HS.
    repeat split.
    - intros c' He. apply HU. intros _ E. exact (edit_neq _ _ He (eq_sym E)).
    - intros c' He. apply HS. intros _ E. exact (edit_neq _ _ He (eq_sym E)).
    - apply HU. intros E. contradiction.
    - apply HS. intros E. contradiction.
    - intros pw c' Hne. apply HU. intros _. exact Hne.
    - intros pw c' Hne. apply HS. intros _. exact Hne.
  Qed.

  (* The code before the repairs (flags false) — replayable witnesses:
     "\xffEG3abc" is no ciphertext yet Decrypt returned ("", nil) for every passphrase; the settings
     variant did the same for "v3:" + any short payload, and accepted every other base64 spelling
     that the library decodes to the genuine bytes. *)
  Theorem C27_old_refuted :
    (forall pw, util_decrypt false pw witness_short = Ok [] /\
        forall pw' salt nonce pt, witness_short <> util_encrypt pw' salt nonce pt \/ length salt <> salt_len) /\
    (forall pw t src, rawdec t = Some src -> (length src < salt_len)%nat ->
        settings_decrypt false false pw (pref3 ++ t) = Ok []) /\
    (aead_correct seal open ->
     forall pw salt nonce pt t, length salt = salt_len -> length nonce = nonce_len ->
        rawdec t = Some (salt ++ nonce ++ seal (derive KArgon pw salt) nonce pt) ->
        settings_decrypt true false pw (pref3 ++ t) = Ok pt).
  Proof.
    split; [|split].
    - exact (old_util_accepts_short argon pbkdf md5k shak seal open).
    - exact (old_settings_accepts_short argon pbkdf md5k shak open rawdec b64enc).
    - intros Hc pw salt nonce pt t Hs Hn Hd.
      exact (old_settings_accepts_respelling argon pbkdf md5k shak seal open rawdec b64enc true pw salt nonce pt t Hc Hs Hn Hd).
  Qed.
End C27.

(* the name used in the design notes for the same witness *)
Definition C27_refuted_current := C27_old_refuted.

(* ---- non-vacuity: the premises are satisfiable by concrete components, on non-trivial states *)
Example C27_roundtrip_nonvacuous :
  aead_correct Toy.seal_id Toy.open_id /\ b64_correct Toy.id_dec Toy.id_enc /\
  length Toy.salt0 = salt_len /\ length Toy.nonce0 = nonce_len /\
  util_decrypt Toy.argon Toy.pbkdf Toy.md5k Toy.shak Toy.open_id true Toy.pw0
    (util_encrypt Toy.argon Toy.pbkdf Toy.md5k Toy.shak Toy.seal_id Toy.pw0 Toy.salt0 Toy.nonce0 Toy.pt0) = Ok Toy.pt0.
Proof. repeat split. Qed.

Example C27_reject_nonvacuous :
  aead_exact Toy.seal Toy.open1 /\
  aead_int_ctxt Toy.open1 (one_sealed Toy.argon Toy.pbkdf Toy.md5k Toy.shak Toy.pw0 Toy.salt0 Toy.nonce0 Toy.pt0) /\
  kdf_ideal Toy.argon Toy.pbkdf Toy.md5k Toy.shak /\
  let c := util_encrypt Toy.argon Toy.pbkdf Toy.md5k Toy.shak Toy.seal Toy.pw0 Toy.salt0 Toy.nonce0 Toy.pt0 in
  (* the genuine ciphertext is accepted, so [open] is not the function that rejects everything *)
  util_decrypt Toy.argon Toy.pbkdf Toy.md5k Toy.shak Toy.open1 true Toy.pw0 c = Ok Toy.pt0 /\
  util_decrypt Toy.argon Toy.pbkdf Toy.md5k Toy.shak Toy.open1 true Toy.pw0 (firstn 40 c) = Error /\
  util_decrypt Toy.argon Toy.pbkdf Toy.md5k Toy.shak Toy.open1 true Toy.pw0 (firstn 7 c) = Error /\
  util_decrypt Toy.argon Toy.pbkdf Toy.md5k Toy.shak Toy.open1 false Toy.pw0 (firstn 7 c) = Ok [].
Proof.
  split; [exact Toy.exact_toy|]. split; [exact Toy.int_ctxt_toy|]. split; [exact Toy.kdf_ideal_toy|].
  vm_compute. repeat split.
Qed.

(* ======================================================================================
   Token STRINGS end to end: hex.DecodeString + util.Decrypt + the empty-plaintext test of
   tokens.Unwrap / tokens.Validate (Token.v). *)
Section C27_tokens.
  Variable argon pbkdf : bytes -> bytes -> bytes.
  Variable md5k shak : bytes -> bytes.
  Variable seal : bytes -> bytes -> bytes -> bytes.
  Variable open : bytes -> bytes -> bytes -> option bytes.
  Notation token_decrypt := (token_decrypt argon pbkdf md5k shak open).
  Notation token_encrypt := (token_encrypt argon pbkdf md5k shak seal).
  Notation util_decrypt := (util_decrypt argon pbkdf md5k shak open).
  Notation util_encrypt := (util_encrypt argon pbkdf md5k shak seal).

  (* the issued token string decrypts to the token text (non-empty JSON) under the same key *)
  Theorem C27_token_roundtrip :
    aead_correct seal open ->
    forall pw salt nonce pt, length salt = salt_len -> length nonce = nonce_len -> pt <> [] ->
      byte_ok (util_encrypt pw salt nonce pt) ->
      token_decrypt true pw (token_encrypt pw salt nonce pt) = Ok pt.
  Proof.
    intros Hc pw salt nonce pt Hs Hn Hp Hb.
    exact (token_roundtrip argon pbkdf md5k shak seal open true pw salt nonce pt Hc Hs Hn Hp Hb).
  Qed.

  (* One-message world: every token STRING that is not, up to the letter case of its hex digits, the
     issued string is rejected (odd length, non-hex byte, any changed, dropped or added digit), and so
     is every string under another key.  What is accepted decodes to exactly the issued ciphertext. *)
  Theorem C27_token_reject :
    forall pw0 salt0 nonce0 pt0,
      aead_exact seal open ->
      aead_int_ctxt open (one_sealed argon pbkdf md5k shak pw0 salt0 nonce0 pt0) ->
      kdf_ideal argon pbkdf md5k shak ->
      (forall pw s, (pw = pw0 -> map lower s <> token_encrypt pw0 salt0 nonce0 pt0) ->
                    token_decrypt true pw s = Error) /\
      (forall pw s, token_decrypt true pw s <> Error ->
                    pw = pw0 /\ hexdecode s = Some (util_encrypt pw0 salt0 nonce0 pt0) /\
                    map lower s = token_encrypt pw0 salt0 nonce0 pt0 /\ token_decrypt true pw s = Ok pt0 /\ pt0 <> []).
  Proof.
    intros pw0 salt0 nonce0 pt0 Hex Hint Hkdf. split.
    - intros pw s H. exact (token_reject argon pbkdf md5k shak seal open pw0 salt0 nonce0 pt0 pw s Hex Hint Hkdf H).
    - intros pw s H. exact (token_accept_only argon pbkdf md5k shak seal open pw0 salt0 nonce0 pt0 pw s Hex Hint Hkdf H).
  Qed.

  (* The premise C21_altered_rejected assumes about decryption ("decrypt c = Some n -> c = ciphertext_of n"),
     as a theorem: under the key pw0 only the issued ciphertext decrypts, and it decrypts to the issued text. *)
  Theorem C27_decrypt_exact :
    forall pw0 salt0 nonce0 pt0,
      aead_exact seal open ->
      aead_int_ctxt open (one_sealed argon pbkdf md5k shak pw0 salt0 nonce0 pt0) ->
      kdf_ideal argon pbkdf md5k shak ->
      forall c p, util_decrypt true pw0 c = Ok p -> c = util_encrypt pw0 salt0 nonce0 pt0.
  Proof.
    intros pw0 salt0 nonce0 pt0 Hex Hint Hkdf c p H.
    assert (Hne : util_decrypt true pw0 c <> Error) by (rewrite H; discriminate).
    exact (proj2 (util_accept_only argon pbkdf md5k shak seal open pw0 salt0 nonce0 pt0 Hex Hint Hkdf pw0 c Hne)).
  Qed.
End C27_tokens.

Example C27_token_nonvacuous :
  let tok := token_encrypt Toy.argon Toy.pbkdf Toy.md5k Toy.shak Toy.seal Toy.pw0 Toy.salt0 Toy.nonce0 Toy.pt0 in
  let dec := token_decrypt Toy.argon Toy.pbkdf Toy.md5k Toy.shak Toy.open1 true Toy.pw0 in
  byte_ok (util_encrypt Toy.argon Toy.pbkdf Toy.md5k Toy.shak Toy.seal Toy.pw0 Toy.salt0 Toy.nonce0 Toy.pt0) /\
  firstn 8 tok = [102;102;52;53;52;55;51;51]%N (* "ff454733" *) /\
  dec tok = Ok Toy.pt0 /\
  dec (70 :: 102 :: skipn 2 tok)%N = Ok Toy.pt0 (* "Ff..." : letter case only *) /\
  dec (102 :: 101 :: skipn 2 tok)%N = Error (* "fe..." *) /\
  dec (removelast tok) = Error (* odd length *) /\
  dec (103 :: skipn 1 tok)%N = Error (* 'g' *) /\
  dec (tok ++ [48;48])%N = Error /\
  token_decrypt Toy.argon Toy.pbkdf Toy.md5k Toy.shak Toy.open1 true [112]%N tok = Error.
Proof.
  cbv zeta. split; [repeat constructor|]. vm_compute. repeat split.
Qed.
