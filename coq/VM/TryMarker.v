(* VM/TryMarker.v — the try-marker premise of C10_catch_once for the compiled shape of a try block
   (Try L; Push marker<try>; body ...) whose body is made of value-level instructions (no nested try, no other
   marker, no call): while control is inside the body the innermost try entry is live and its marker is the
   first non-value item below the top of the stack. *)
From Coq Require Import ZArith NArith List Bool Lia.
Import ListNotations.
From VM Require Import Model Proofs.
Open Scope nat_scope.

(* skipping the values on top, the first other item is the try marker *)
Fixpoint marker_next (st : list item) : bool :=
  match st with
  | ItV _ :: r => marker_next r
  | ItM l :: _ => N.eqb l L_try
  | _ => false
  end.

Lemma marker_next_split : forall st, marker_next st = true ->
  exists above below, st = above ++ ItM L_try :: below /\ Forall no_try_marker above.
Proof.
  induction st as [|x r IH]; intros H; [discriminate|]. destruct x as [v|l|fr]; cbn in H; [| |discriminate].
  - destruct (IH H) as [a [b [He Hn]]]. exists (ItV v :: a), b. split; [cbn; f_equal; exact He|].
    constructor; [unfold no_try_marker; discriminate|exact Hn].
  - apply N.eqb_eq in H. subst l. exists [], r. split; [reflexivity|constructor].
Qed.

Lemma pop_values_marker_next : forall n st vs r, pop_values n st = Some (vs, r) -> marker_next r = marker_next st.
Proof.
  induction n as [|k IH]; intros st vs r H; cbn in H.
  - injection H as <- <-. reflexivity.
  - destruct st as [|[v|l|fr] st']; try discriminate.
    destruct (pop_values k st') as [[vs' r']|] eqn:E; [|discriminate]. injection H as <- <-.
    cbn. eapply IH; eauto.
Qed.

(* instructions of a try body that work on values only *)
Definition value_instr (i : instr) : bool :=
  match i with
  | IAtLine _ | IPushV _ | IPushFun _ | IStoreGlobal _ | IImport | ISymbolCreate _ | IStore _ | IStoreAlways _
  | ILoad _ | IPushScope | IPopScope _ | INop | IDeferStart _ | IDefer _ | IBranch _ | IBranchFalse _ | IBranchTrue _
  | IBin _ | IPrint _ | INewline => true
  | _ => false
  end.

Lemma value_instr_keeps_marker : forall child p g c i g' c',
  value_instr i = true -> marker_next (c_stack c) = true ->
  exec child p g c i = (g', c', None) ->
  marker_next (c_stack c') = true /\ c_trys c' = c_trys c.
Proof.
  intros child p g c i g' c' Hv Hm H.
  destruct i; try discriminate Hv; cbn [exec] in H.
  all: unfold pop, push in H.
  all: repeat match type of H with
       | context [match ?x with _ => _ end] =>
           match x with
           | context [match _ with _ => _ end] => fail 1
           | _ => destruct x eqn:?
           end
       end; try discriminate H.
  all: try (injection H as <- <-).
  all: cbn [c_stack c_trys set_stack set_pc set_syms set_dsyms set_defers].
  all: try (split; [exact Hm|reflexivity]; fail).
  all: try match goal with E : c_stack ?c1 = _, Hm' : marker_next (c_stack ?c1) = true |- _ => rewrite E in Hm'; cbn [marker_next] in Hm' end.
  all: try (split; [exact Hm|reflexivity]; fail).
  all: try match goal with E : pop_values _ (c_stack ?c1) = Some _, Hm' : marker_next (c_stack ?c1) = true |- _ =>
         pose proof (pop_values_marker_next _ _ _ _ E) as Hp; rewrite Hm' in Hp; cbn [marker_next] in Hp end.
  all: try (split; [assumption|reflexivity]; fail).
Qed.

(* entering the try block as compiled: Try a; Push marker<try> *)
Lemma try_entry : forall child p g c a,
  exists c2, exec child p g c (ITry a) = (g, set_trys c (a :: c_trys c), None) /\
             exec child p g (set_trys c (a :: c_trys c)) (IPushMark L_try) = (g, c2, None) /\
             marker_next (c_stack c2) = true /\ c_trys c2 = a :: c_trys c.
Proof. intros. eexists. repeat split. Qed.

(* what C10_catch_once needs about the try stack and the marker, from the invariant of the try body *)
Lemma marker_next_premises : forall c a t,
  marker_next (c_stack c) = true -> c_trys c = a :: t -> a <> 0 ->
  find_live (c_trys c) = Some 0 /\
  exists above below, c_stack c = above ++ ItM L_try :: below /\ Forall no_try_marker above.
Proof.
  intros c a t Hm Ht Ha. split.
  - rewrite Ht. cbn. destruct (Nat.eqb_spec a 0); [contradiction|reflexivity].
  - apply marker_next_split. exact Hm.
Qed.
