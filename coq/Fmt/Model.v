(* Fmt/Model.v — executable model for C05 (`ego fmt`): the expression sub-language of the formatter's own parser
   (internal/language/parse/expression.go: parseBinary / parseUnary / parenthesised atoms over identifiers, integer
   and string literals) as an instance of the generic tier parser SqlFmt.PrecClimb, the printer of
   format/print_expr.go as a token list with the spacing it writes, the tokenizer's merging of adjacent operator
   characters, and the comment interleaving of format/print_comment.go.  Definitions only. *)
From Common Require Import Base.
From Coq Require Import Ascii String.
From SqlFmt Require Import PrecClimb.
Open Scope N_scope.

Definition L (s : string) : str := List.map N_of_ascii (list_ascii_of_string s).

(* ---- tokens: identifier, integer literal, string literal (value), special (operator / punctuation) *)
(* the two parentheses are kept apart from the other special tokens: they are never operators *)
Inductive etok := TIdent (s : str) | TInt (s : str) | TStr (s : str) | TSp (s : str) | TLP | TRP.
Inductive eatom := AId (s : str) | AInt (s : str) | AStr (s : str).
Definition sym := str.

(* parseBinary: the operator must be a special-class token whose spelling is in binaryPrecedence;
   parseUnary: "-" and "!" *)
Definition is_lp (t : etok) : bool := match t with TLP => true | _ => false end.
Definition is_rp (t : etok) : bool := match t with TRP => true | _ => false end.
Definition binop_of (t : etok) : option sym := match t with TSp s => Some s | _ => None end.
Definition preop_of (t : etok) : option sym := match t with TSp s => Some s | _ => None end.
Definition atom_of (t : etok) : option eatom :=
  match t with TIdent s => Some (AId s) | TInt s => Some (AInt s) | TStr s => Some (AStr s) | _ => None end.
(* binaryPrecedence of tables.go as tiers, loosest first, then the prefix tier of parseUnary
   (regenerated from the source on every run) *)
Definition ego_tbl : list (level sym) :=
  [ LBin [L "||"]; LBin [L "&&"];
    LBin [L "=="; L "!="; L "<"; L "<="; L ">"; L ">="];
    LBin [L "+"; L "-"; L "|"; L "<<"; L ">>"];
    LBin [L "*"; L "/"; L "%"; L "^"; L "&"];
    LPre [L "-"; L "!"] ].

Notation eexpr := (expr sym eatom).

Definition eparse (tbl : list (level sym)) (ts : list etok) : option eexpr :=
  parse str_eqb binop_of preop_of atom_of is_lp is_rp tbl ts.

Definition tok_atom (a : eatom) : etok :=
  match a with AId s => TIdent s | AInt s => TInt s | AStr s => TStr s end.
Definition eprint (e : eexpr) : list etok :=
  print TSp TSp tok_atom TLP TRP e.

(* ---- the printer with its spacing: (token, separated from the previous token by a blank) *)
(* fixed = the tree after "fix: ego fmt keeps a minus applied to a minus apart" *)
Fixpoint eprint_sp (fixed : bool) (e : eexpr) : list (etok * bool) :=
  match e with
  | EAtom a => [(tok_atom a, false)]
  | EUn s x =>
      (TSp s, false) ::
      match eprint_sp fixed x, x with
      | (t, _) :: r, EUn s2 _ => (t, fixed && str_eqb s (L "-") && str_eqb s2 (L "-")) :: r
      | l, _ => l
      end
  | EBin s x y =>
      eprint_sp fixed x ++ (TSp s, true) ::
      match eprint_sp fixed y with (t, _) :: r => (t, true) :: r | [] => [] end
  | EParen x => (TLP, false) :: eprint_sp fixed x ++ [(TRP, false)]
  end.

(* the tokenizer joins operator characters written without a blank between them into one longer operator *)
Definition joined_ops : list str :=
  List.map L ["--"; "++"; "&&"; "||"; "=="; "!="; "<="; ">="; "<<"; ">>"; "<-"; ":="; "+="; "-="; "*="; "/="]%string.
Fixpoint relex (l : list (etok * bool)) : list etok :=
  match l with
  | [] => []
  | (t, _) :: r =>
      match t, r with
      | TSp a, (TSp b, false) :: r' =>
          if existsb (str_eqb (a ++ b)) joined_ops then TSp (a ++ b) :: relex r' else t :: relex r
      | _, _ => t :: relex r
      end
  end.

(* ---- comment interleaving (print_comment.go): a cursor over the comment list (line, text), moved only by
   emitting; events in the order the printer reaches them; the file printer flushes what is left *)
Definition comment := (N * str)%type.
Inductive cev := Lead (before_line : N) | Trail (line : N).
Definition cstate := (list comment * list comment)%type.      (* emitted so far, still pending *)

Fixpoint take_before (n : N) (pend : list comment) : list comment * list comment :=
  match pend with
  | c :: r => if fst c <? n then let (a, b) := take_before n r in (c :: a, b) else ([], pend)
  | [] => ([], [])
  end.

Definition cstep (st : cstate) (ev : cev) : cstate :=
  let (out, pend) := st in
  match ev with
  | Lead n => let (a, b) := take_before n pend in (out ++ a, b)
  | Trail n => match pend with
               | c :: r => if fst c =? n then (out ++ [c], r) else st
               | [] => st
               end
  end.

Definition emitted (evs : list cev) (cs : list comment) : list comment :=
  let (out, pend) := fold_left cstep evs ([], cs) in out ++ pend.     (* ++ pend: the final flush of printFile *)

(* ---- statement headers the printer re-synthesises: the if / else-if ladder (print_stmt.go printIf, statement_control.go
   parseIf).  Init statements, conditions and blocks are opaque items; what is modelled is which keyword and which item
   goes where: every rung has its own optional init. *)
Inductive htok := HIf | HElse | HSemi | HInit (i : N) | HCond (c : N) | HBody (b : N).
Record rung := mkRung { r_init : option N; r_cond : N; r_body : N }.
Record ladder := mkLadder { l_first : rung; l_rest : list rung; l_else : option N }.

Definition print_rung (r : rung) : list htok :=
  HIf :: (match r_init r with Some i => [HInit i; HSemi] | None => [] end) ++ [HCond (r_cond r); HBody (r_body r)].
Definition print_ladder (l : ladder) : list htok :=
  print_rung (l_first l) ++ flat_map (fun r => HElse :: print_rung r) (l_rest l) ++
  match l_else l with Some b => [HElse; HBody b] | None => [] end.

Definition parse_rung (ts : list htok) : option (rung * list htok) :=
  match ts with
  | HIf :: HInit i :: HSemi :: HCond c :: HBody b :: r => Some (mkRung (Some i) c b, r)
  | HIf :: HCond c :: HBody b :: r => Some (mkRung None c b, r)
  | _ => None
  end.
Fixpoint parse_tail (fuel : nat) (ts : list htok) : option (list rung * option N * list htok) :=
  match fuel with
  | O => None
  | S f =>
      match ts with
      | HElse :: HBody b :: r => Some ([], Some b, r)
      | HElse :: r =>
          match parse_rung r with
          | Some (rg, r') =>
              match parse_tail f r' with
              | Some (rs, e, r'') => Some (rg :: rs, e, r'')
              | None => None
              end
          | None => None
          end
      | _ => Some ([], None, ts)
      end
  end.
Definition parse_ladder (ts : list htok) : option (ladder * list htok) :=
  match parse_rung ts with
  | Some (r1, r) =>
      match parse_tail (S (List.length r)) r with
      | Some (rs, e, r') => Some (mkLadder r1 rs e, r')
      | None => None
      end
  | None => None
  end.
Definition htok_code (t : htok) : N :=
  match t with HIf => 1 | HElse => 2 | HSemi => 3 | HInit _ => 4 | HCond _ => 5 | HBody _ => 6 end.

(* ---- helpers for the correspondence run *)
Definition eatom_eqb (a b : eatom) : bool :=
  match a, b with
  | AId x, AId y | AInt x, AInt y | AStr x, AStr y => str_eqb x y
  | _, _ => false
  end.
Fixpoint eexpr_eqb (a b : eexpr) : bool :=
  match a, b with
  | EAtom x, EAtom y => eatom_eqb x y
  | EUn s x, EUn s' x' => str_eqb s s' && eexpr_eqb x x'
  | EBin s x y, EBin s' x' y' => str_eqb s s' && eexpr_eqb x x' && eexpr_eqb y y'
  | EParen x, EParen x' => eexpr_eqb x x'
  | _, _ => false
  end.
Definition etok_eqb (a b : etok) : bool :=
  match a, b with
  | TIdent x, TIdent y | TInt x, TInt y | TStr x, TStr y | TSp x, TSp y => str_eqb x y
  | TLP, TLP | TRP, TRP => true
  | _, _ => false
  end.
Fixpoint etoks_eqb (a b : list etok) : bool :=
  match a, b with
  | [], [] => true
  | x :: a', y :: b' => etok_eqb x y && etoks_eqb a' b'
  | _, _ => false
  end.
(* the text the printer writes for an expression *)
Definition tok_text (t : etok) : str :=
  match t with TIdent s | TInt s | TSp s => s | TStr s => [34] ++ s ++ [34] | TLP => [40] | TRP => [41] end.
Definition etext (fixed : bool) (e : eexpr) : str :=
  flat_map (fun p : etok * bool => (if snd p then [32] else []) ++ tok_text (fst p)) (eprint_sp fixed e).
