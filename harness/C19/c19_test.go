//go:build verif

package util

// Overlaid into /repo/internal/util by /verif/check C19.  Line protocol (VERIF_IN -> VERIF_OUT), every
// answer starts with the 0-based index of the request line:
//
//	M <hex text>                      -> <i> M <hex of egostrings.JSONMinify(text)>
//	W <gz 0|1> <thr> <J|R> <hex json> -> <i> W <status> <gzip|-> <hex payload on the wire> <hex payload after
//	                                      client decoding> <hex json.Marshal(value)> <hex returned indented text> <counted length>
//	                                     (J: the text is decoded with UseNumber into any; R: passed as json.RawMessage)
//	C <clients> <hex json array>      -> <i> C <n values> <n sent gzip> <comma list of indices whose decoded body != json.Marshal(value) | ->
//	                                     the values are written concurrently by <clients> goroutines (value k by goroutine k mod clients)
//	                                     through the real WriteJSON, AcceptsGzip on, threshold 4096, into a slow chunked ResponseWriter
//	S <repo root>                     -> <i> S <file> <func> <1 if the function also calls json.MarshalIndent>
//	                                     one line per call of JSONMinify outside tests, then <i> S end <n>

import (
	"bufio"
	"bytes"
	"compress/gzip"
	"encoding/hex"
	"encoding/json"
	"fmt"
	"go/ast"
	"go/parser"
	"go/token"
	"io"
	"io/fs"
	"net/http"
	"net/http/httptest"
	"os"
	"path/filepath"
	"strings"
	"sync"
	"testing"
	"time"

	"github.com/tucats/ego/internal/cli/settings"
	"github.com/tucats/ego/internal/defs"
	egostrings "github.com/tucats/ego/internal/util/strings"
)

func verifC19Sites(w io.Writer, idx int, root string) {
	n := 0
	fset := token.NewFileSet()

	_ = filepath.WalkDir(root, func(path string, d fs.DirEntry, err error) error {
		if err != nil {
			return nil
		}

		if d.IsDir() {
			name := d.Name()
			if path != root && (strings.HasPrefix(name, ".") || name == "testdata" || name == "node_modules") {
				return filepath.SkipDir
			}

			return nil
		}

		if !strings.HasSuffix(path, ".go") || strings.HasSuffix(path, "_test.go") {
			return nil
		}

		f, err := parser.ParseFile(fset, path, nil, 0)
		if err != nil {
			return nil
		}

		for _, decl := range f.Decls {
			fd, ok := decl.(*ast.FuncDecl)
			if !ok || fd.Body == nil {
				continue
			}

			calls, indent := 0, 0

			ast.Inspect(fd.Body, func(x ast.Node) bool {
				if ce, ok := x.(*ast.CallExpr); ok {
					name := ""

					switch fn := ce.Fun.(type) {
					case *ast.SelectorExpr:
						name = fn.Sel.Name
					case *ast.Ident:
						name = fn.Name
					}

					if name == "JSONMinify" {
						calls++
					}

					if name == "MarshalIndent" {
						indent++
					}
				}

				return true
			})

			rel, _ := filepath.Rel(root, path)

			for k := 0; k < calls; k++ {
				has := 0
				if indent > 0 {
					has = 1
				}

				fmt.Fprintf(w, "%d S %s %s %d\n", idx, rel, fd.Name.Name, has)

				n++
			}
		}

		return nil
	})

	fmt.Fprintf(w, "%d S end %d\n", idx, n)
}

func TestVerifC19(t *testing.T) {
	in, err := os.Open(os.Getenv("VERIF_IN"))
	if err != nil {
		t.Fatal(err)
	}
	defer in.Close()

	out, err := os.Create(os.Getenv("VERIF_OUT"))
	if err != nil {
		t.Fatal(err)
	}
	defer out.Close()

	w := bufio.NewWriter(out)
	defer w.Flush()

	sc := bufio.NewScanner(in)
	sc.Buffer(make([]byte, 1<<24), 1<<24)

	previous := settings.Get(defs.ServerCompressionThresholdSetting)
	defer settings.SetDefault(defs.ServerCompressionThresholdSetting, previous)

	idx := -1

	for sc.Scan() {
		f := strings.Fields(sc.Text())
		if len(f) < 1 {
			continue
		}

		idx++

		switch f[0] {
		case "M":
			arg := ""
			if len(f) > 1 && f[1] != "-" {
				arg = f[1]
			}

			b, _ := hex.DecodeString(arg)
			fmt.Fprintf(w, "%d M %s\n", idx, verifC19Hex([]byte(egostrings.JSONMinify(string(b)))))

		case "S":
			verifC19Sites(w, idx, f[1])

		case "C":
			if len(f) < 3 {
				fmt.Fprintf(w, "%d C err short\n", idx)

				continue
			}

			clients := 0
			fmt.Sscan(f[1], &clients)

			text, _ := hex.DecodeString(f[2])
			verifC19Concurrent(w, idx, clients, text)

		case "W":
			if len(f) < 5 {
				fmt.Fprintf(w, "%d W err short\n", idx)

				continue
			}

			text, _ := hex.DecodeString(f[4])

			var value any

			if f[3] == "R" {
				value = json.RawMessage(text)
			} else {
				dec := json.NewDecoder(bytes.NewReader(text))
				dec.UseNumber()

				if err := dec.Decode(&value); err != nil {
					fmt.Fprintf(w, "%d W err decode\n", idx)

					continue
				}
			}

			want, err := json.Marshal(value)
			if err != nil {
				fmt.Fprintf(w, "%d W err marshal\n", idx)

				continue
			}

			settings.SetDefault(defs.ServerCompressionThresholdSetting, f[2])

			req := httptest.NewRequest(http.MethodGet, "/x", nil)
			if f[1] == "1" {
				req.Header.Set("Accept-Encoding", "deflate, gzip;q=0.8")
			}

			length := 0
			rec := httptest.NewRecorder()
			indented := WriteJSON(rec, ResponseInfo{SessionID: 1, AcceptsGzip: AcceptsGzip(req), Length: &length}, http.StatusOK, value)
			res := rec.Result()
			wire, _ := io.ReadAll(res.Body)
			enc := res.Header.Get("Content-Encoding")
			decoded := wire

			if enc == "gzip" {
				zr, err := gzip.NewReader(bytes.NewReader(wire))
				if err != nil {
					fmt.Fprintf(w, "%d W err gunzip\n", idx)

					continue
				}

				decoded, err = io.ReadAll(zr)
				if err != nil {
					fmt.Fprintf(w, "%d W err gunzip\n", idx)

					continue
				}
			} else if enc == "" {
				enc = "-"
			}

			fmt.Fprintf(w, "%d W %d %s %s %s %s %s %d\n", idx, res.StatusCode, enc, verifC19Hex(wire), verifC19Hex(decoded),
				verifC19Hex(want), verifC19Hex(indented), length)
		}
	}
}

// verifC19SlowWriter behaves like a network connection: Write has not finished reading the caller's
// slice until the pieces have been handed over, one at a time, to a slow peer.
type verifC19SlowWriter struct {
	header http.Header
	status int
	body   bytes.Buffer
}

func (w *verifC19SlowWriter) Header() http.Header { return w.header }

func (w *verifC19SlowWriter) WriteHeader(status int) { w.status = status }

func (w *verifC19SlowWriter) Write(b []byte) (int, error) {
	const pieces = 4

	step := len(b)/pieces + 1

	for start := 0; start < len(b); start += step {
		time.Sleep(300 * time.Microsecond)

		end := min(start+step, len(b))
		w.body.Write(b[start:end])
	}

	return len(b), nil
}

func verifC19Concurrent(w io.Writer, idx int, clients int, text []byte) {
	var raws []json.RawMessage

	if err := json.Unmarshal(text, &raws); err != nil || clients < 1 {
		fmt.Fprintf(w, "%d C err decode\n", idx)

		return
	}

	values := make([]any, len(raws))
	wants := make([][]byte, len(raws))

	for k, raw := range raws {
		dec := json.NewDecoder(bytes.NewReader(raw))
		dec.UseNumber()

		if err := dec.Decode(&values[k]); err != nil {
			fmt.Fprintf(w, "%d C err decode\n", idx)

			return
		}

		wants[k], _ = json.Marshal(values[k])
	}

	settings.SetDefault(defs.ServerCompressionThresholdSetting, "4096")

	req := httptest.NewRequest(http.MethodGet, "/x", nil)
	req.Header.Set("Accept-Encoding", "gzip")
	accepts := AcceptsGzip(req)

	bad := make([]bool, len(values))
	zipped := make([]bool, len(values))

	var wg sync.WaitGroup

	for c := 0; c < clients; c++ {
		wg.Add(1)

		go func(c int) {
			defer wg.Done()

			for k := c; k < len(values); k += clients {
				length := 0
				sw := &verifC19SlowWriter{header: http.Header{}}
				WriteJSON(sw, ResponseInfo{SessionID: k, AcceptsGzip: accepts, Length: &length}, http.StatusOK, values[k])

				got := sw.body.Bytes()

				if strings.EqualFold(sw.header.Get("Content-Encoding"), "gzip") {
					zipped[k] = true

					zr, err := gzip.NewReader(bytes.NewReader(got))
					if err != nil {
						bad[k] = true

						continue
					}

					if got, err = io.ReadAll(zr); err != nil {
						bad[k] = true

						continue
					}
				}

				if !bytes.Equal(got, wants[k]) || sw.status != http.StatusOK || length != sw.body.Len() {
					bad[k] = true
				}
			}
		}(c)
	}

	wg.Wait()

	list, nz := []string{}, 0

	for k := range values {
		if bad[k] {
			list = append(list, fmt.Sprint(k))
		}

		if zipped[k] {
			nz++
		}
	}

	res := "-"
	if len(list) > 0 {
		res = strings.Join(list, ",")
	}

	fmt.Fprintf(w, "%d C %d %d %s\n", idx, len(values), nz, res)
}

func verifC19Hex(b []byte) string {
	if len(b) == 0 {
		return "-"
	}

	return hex.EncodeToString(b)
}
