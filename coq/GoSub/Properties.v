(* GoSub/Properties.v — C01 Go-compatible programs print what Go prints (core: typed integer expressions). *)
From Coq Require Import List ZArith NArith Bool.
From Common Require Import Base.
From Arith Require Import Model.
From Opt Require Import Generic Model Proofs.
From GoSub Require Import Model Proofs Stmt StmtProofs StmtMain StmtIf Loop.
Import ListNotations.
Open Scope Z_scope.

(* the full statement for the core: every Go-typed expression (no exclusion of constant subexpressions) *)
Fixpoint go_typed (k : ikind) (en : env) (e : expr) : bool :=
  match e with
  | EConst z => in_rangeb k z
  | EVar x => negb (str_eqb x underscore) && match env_get en x with Some _ => true | None => false end
  | EBin _ a b => go_typed k en a && go_typed k en b
  end.
Definition C01_statement : Prop :=
  forall m k en e, env_ok k en = true -> go_typed k en e = true -> is_const e = false ->
    vm_result m k en e = go_eval k en e.

(* For every integer kind, every type-checking mode, every environment of in-range variables and every
   expression that Go accepts at that kind and that stays clear of the excluded cell (an operator applied to
   two literals; literals above MaxInt64): the code the compiler emits, run on the VM model from any state
   holding those variables, pushes exactly Go's value with the expression's Go type, or fails with
   division by zero exactly when Go panics — output and line untouched. *)
Theorem C01_core_compile_correct_partial : forall m k en, env_ok k en = true ->
  forall e s, vars s = vars_of k en -> well_typed k en e = true ->
  match go_eval k en e with
  | GOk z => in_range k z /\ gblock fx_now m (compile e) s = Some (inl (set_stk s (top_of k e z :: stk s)))
  | GPanic => gblock fx_now m (compile e) s = Some (inr (RArith EDivZero, line s, out s))
  | GStuck => False
  end.
Proof. exact compile_correct. Qed.

(* the excluded cell is a real divergence: x + (1 + 2) on an int8 holding 127 is -126 in Go; Ego computes
   1 + 2 as a typed int, promotes (dynamic, relaxed: 130) or rejects the mix (strict) *)
Definition x_ : str := [120%N].
Definition e_cc : expr := EBin BAdd (EVar x_) (EBin BAdd (EConst 1) (EConst 2)).
Theorem C01_refuted_const_subexpression : ~ C01_statement.
Proof.
  intros H. specialize (H Dynamic I8 [(x_, 127)] e_cc eq_refl eq_refl eq_refl). vm_compute in H. discriminate H.
Qed.
Example C01_refuted_values :
  go_eval I8 [(x_, 127)] e_cc = GOk (-126) /\ vm_result Dynamic I8 [(x_, 127)] e_cc = GOk 130 /\
  vm_result Relaxed I8 [(x_, 127)] e_cc = GOk 130 /\ vm_result Strict I8 [(x_, 127)] e_cc = GStuck.
Proof. repeat split; vm_compute; reflexivity. Qed.

(* non-vacuity: nested int8 arithmetic with wrap-around and a division by a variable that is zero *)
Definition y_ : str := [121%N].
Definition e_demo : expr := EBin BSub (EBin BMul (EBin BAdd (EVar x_) (EConst 100)) (EConst 3)) (EBin BDiv (EConst 7) (EVar y_)).
Example C01_nonvacuous :
  well_typed I8 [(x_, 100); (y_, 2)] e_demo = true /\ go_eval I8 [(x_, 100); (y_, 2)] e_demo = GOk 85 /\
  vm_result Strict I8 [(x_, 100); (y_, 2)] e_demo = GOk 85 /\
  well_typed I8 [(x_, 100); (y_, 0)] e_demo = true /\ go_eval I8 [(x_, 100); (y_, 0)] e_demo = GPanic /\
  vm_result Dynamic I8 [(x_, 100); (y_, 0)] e_demo = GPanic.
Proof. repeat split; vm_compute; reflexivity. Qed.

(* ---------------- statements ---------------- *)
(* the full statement for core statements: every guarded program, if/else included *)
Definition C01_stmt_statement : Prop :=
  forall m k en p, guarded k en p = true -> whole_ok m k en p.

(* Core programs (x := e, x = e, x op= e, x++ / x--, fmt.Println(e), sequencing, if/else on a comparison, nested to any
   depth) over any integer kind, in every type mode, from any environment of in-range variables: the code the compiler emits
   (let markers, Load/arith/SymbolCreate/Store/DropToMarker, the native print, BranchFalse/Branch with absolute addresses),
   run by the VM model from its first instruction with enough fuel (one unit per branch taken), ends normally with exactly
   Go's final environment and Go's printed values, the stack empty again - or stops with division by zero, having printed
   what Go printed, exactly when Go panics.  Guard: Go's typing, no literal on the right of := / = (recorded finding: dynamic
   mode retypes the variable), declarations at top level only, names fresh / declared. *)
Theorem C01_stmt_compile_correct_partial : forall m k en p, guarded k en p = true -> whole_ok m k en p.
Proof. exact stmt_compile_correct. Qed.
Theorem C01_stmt_full : C01_stmt_statement.
Proof. exact stmt_compile_correct. Qed.
(* the earlier, weaker form (kept for reference) *)
Theorem C01_stmt_compile_correct_noif : forall m k en p,
  no_if p = true -> guarded k en p = true -> whole_ok m k en p.
Proof. exact stmt_compile_correct_noif. Qed.

Definition a_ : str := [97%N].
Definition p_demo : stmt :=
  SSeq (SDecl y_ (EBin BAdd (EVar x_) (EVar a_)))
  (SSeq (SOpAssign BMul y_ (EConst 3))
  (SSeq (SIncDec true y_)
  (SSeq (SPrint (EBin BSub (EVar y_) (EConst 1)))
  (SSeq (SOpAssign BDiv y_ (EVar a_)) (SPrint (EVar y_)))))).
Example C01_stmt_nonvacuous :
  no_if p_demo = true /\ guarded I8 [(x_, 100); (a_, 3)] p_demo = true /\
  go_result I8 [(x_, 100); (a_, 3)] p_demo = [53; 18; 0] /\ vm_exec Strict I8 [(x_, 100); (a_, 3)] p_demo = [53; 18; 0] /\
  guarded I8 [(x_, 100); (a_, 0)] p_demo = true /\
  go_result I8 [(x_, 100); (a_, 0)] p_demo = [44; 1] /\ vm_exec Dynamic I8 [(x_, 100); (a_, 0)] p_demo = [44; 1].
Proof. repeat split; vm_compute; reflexivity. Qed.

(* non-vacuity with nested if/else: both arms, an arm that panics *)
Definition p_if : stmt :=
  SSeq (SDecl y_ (EBin BMul (EVar x_) (EConst 2)))
  (SSeq (SIf CLt (EVar y_) (EBin BAdd (EVar a_) (EConst 1))
           (SSeq (SAssign y_ (EVar a_)) (SPrint (EVar y_)))
           (SIf CGe (EVar a_) (EConst 2) (SIncDec false y_) (SOpAssign BDiv y_ (EVar a_))))
        (SPrint (EVar y_))).
Example C01_stmt_if_nonvacuous :
  guarded I8 [(x_, 100); (a_, 3)] p_if = true /\
  go_result I8 [(x_, 100); (a_, 3)] p_if = [3; 3; 0] /\ vm_exec Strict I8 [(x_, 100); (a_, 3)] p_if = [3; 3; 0] /\
  go_result I8 [(x_, 50); (a_, 3)] p_if = [99; 0] /\ vm_exec Relaxed I8 [(x_, 50); (a_, 3)] p_if = [99; 0] /\
  go_result I8 [(x_, 50); (a_, 0)] p_if = [1] /\ vm_exec Dynamic I8 [(x_, 50); (a_, 0)] p_if = [1].
Proof. repeat split; vm_compute; reflexivity. Qed.

(* the three-clause for loop is modelled and tied (bytecode + outputs), not proved: an evaluation of the model *)
Definition i_ : str := [105%N].
Definition p_loop : lstmt :=
  LSeq (LFor i_ (EVar x_) CGt (EVar i_) (EBin BSub (EVar a_) (EConst 1)) false (SOpAssign BAdd y_ (EVar i_))) (LBase (SPrint (EVar y_))).
Example C01_loop_model_example :
  go_result_l I8 50 [(x_, 5); (a_, 3); (y_, 1)] p_loop = [13; 0; 0] /\
  vm_exec_l Strict I8 50 [(x_, 5); (a_, 3); (y_, 1)] p_loop = [13; 0; 0] /\ length (compile_l 0 p_loop) = 39%nat.
Proof. repeat split; vm_compute; reflexivity. Qed.
