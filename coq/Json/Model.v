(* Json/Model.v — executable model for C19 (definitions only).
   - step / scan / minify : transliteration of egostrings.JSONMinify (internal/util/strings/json.go)
     as a character automaton with state (inQuotes, escape), over the runes Go's `range` yields;
   - step_old / minify_old : the scanner as it was before the repair (escape flag reset wrongly);
   - jv / tokens / render / compact : JSON values, their token sequence, any whitespace layout
     (a whitespace run at every token boundary, which covers json.MarshalIndent), and the compact text
     (what json.Marshal prints);
   - write_maybe / client_decode : the compress-or-not decision of WriteMaybeCompressed with gzip abstract. *)
From Common Require Import Base.
Open Scope N_scope.

(* unicode.IsSpace *)
Definition is_space (c : N) : bool :=
  ((9 <=? c) && (c <=? 13)) || (c =? 32) || (c =? 133) || (c =? 160) || (c =? 5760)
  || ((8192 <=? c) && (c <=? 8202)) || (c =? 8232) || (c =? 8233) || (c =? 8239)
  || (c =? 8287) || (c =? 12288).

(* scanner state: (inQuotes, escape) *)
Definition st := (bool * bool)%type.
Definition st0 : st := (false, false).

(* one iteration of the loop of JSONMinify (repaired code): new state and the runes written *)
Definition step (s : st) (c : N) : st * str :=
  let '(inq, esc) := s in
  if esc then ((inq, false), [c])                       (* escaped character: copied, escape ends *)
  else if c =? 92 then ((inq, true), [c])               (* backslash: escape = true; not a quote, not a space *)
  else if c =? 34 then ((negb inq, false), [c])         (* quote toggles inQuotes *)
  else if negb inq && is_space c then ((inq, false), [])  (* continue *)
  else ((inq, false), [c]).

(* the loop before the repair *)
Definition step_old (s : st) (c : N) : st * str :=
  let '(inq, esc) := s in
  let esc1 := if c =? 92 then true else esc in
  if (c =? 34) && negb esc1 then ((negb inq, false), [c])
  else if negb inq && is_space c then ((inq, esc1), [])   (* continue: the reset below is skipped *)
  else ((inq, if c =? 92 then esc1 else false), [c]).

Section Scan.
  Variable stp : st -> N -> st * str.
  Fixpoint scan_with (s : st) (l : str) : st * str :=
    match l with
    | [] => (s, [])
    | c :: r => let '(s1, o1) := stp s c in let '(s2, o2) := scan_with s1 r in (s2, o1 ++ o2)
    end.
End Scan.

Definition scan := scan_with step.
Definition minify (l : str) : str := snd (scan st0 l).
Definition minify_old (l : str) : str := snd (scan_with step_old st0 l).

(* ---- JSON values.  A string is a list of items exactly as they are spelled in the text. *)
Inductive sitem := Plain (c : N) | Esc (c : N) | U4 (a b c d : N).
Inductive jv :=
| JNull | JBool (b : bool) | JNum (lit : str) | JStr (s : list sitem)
| JArr (l : list jv) | JObj (l : list (list sitem * jv)).

Definition item_text (i : sitem) : str :=
  match i with Plain c => [c] | Esc c => [92; c] | U4 a b c d => [92; 117; a; b; c; d] end.
Definition str_text (s : list sitem) : str := 34 :: concat (map item_text s) ++ [34].

Inductive tok := TP (c : N) | TLit (l : str) | TStr (s : list sitem).
Definition tok_text (t : tok) : str :=
  match t with TP c => [c] | TLit l => l | TStr s => str_text s end.

Fixpoint sep_concat (l : list (list tok)) : list tok :=
  match l with
  | [] => []
  | x :: r => match r with [] => x | _ => x ++ TP 44 :: sep_concat r end
  end.

Definition lit_null : str := [110;117;108;108].
Definition lit_true : str := [116;114;117;101].
Definition lit_false : str := [102;97;108;115;101].

Fixpoint tokens (v : jv) : list tok :=
  match v with
  | JNull => [TLit lit_null]
  | JBool b => [TLit (if b then lit_true else lit_false)]
  | JNum lit => [TLit lit]
  | JStr s => [TStr s]
  | JArr l => TP 91 :: sep_concat (map tokens l) ++ [TP 93]
  | JObj l => TP 123 :: sep_concat (map (fun kv => TStr (fst kv) :: TP 58 :: tokens (snd kv)) l) ++ [TP 125]
  end.

(* a layout gives the whitespace run before the first token, between consecutive tokens and after
   the last token *)
Definition layout := list str.
Fixpoint interleave (l : layout) (ts : list tok) : str :=
  match ts with
  | [] => hd [] l
  | t :: ts' => hd [] l ++ tok_text t ++ interleave (tl l) ts'
  end.
Definition render (l : layout) (v : jv) : str := interleave l (tokens v).
Definition compact (v : jv) : str := concat (map tok_text (tokens v)).

Definition fits_b (l : layout) (v : jv) : bool :=
  (N.of_nat (length l) =? N.of_nat (S (length (tokens v)))) && forallb (forallb is_space) l.
Definition fits (l : layout) (v : jv) : Prop := fits_b l v = true.

(* well-formed JSON spelling *)
Definition hexd (c : N) : bool :=
  is_digit c || ((97 <=? c) && (c <=? 102)) || ((65 <=? c) && (c <=? 70)).
Definition esc_char (c : N) : bool := existsb (N.eqb c) [34;92;47;98;102;110;114;116].
Definition wf_item (i : sitem) : bool :=
  match i with
  | Plain c => (32 <=? c) && negb (c =? 34) && negb (c =? 92)
  | Esc c => esc_char c
  | U4 a b c d => hexd a && hexd b && hexd c && hexd d
  end.
Definition num_char (c : N) : bool :=
  is_digit c || (c =? 45) || (c =? 43) || (c =? 46) || (c =? 101) || (c =? 69).
Definition wf_num (l : str) : bool :=
  match l with [] => false | _ => forallb num_char l end.
Fixpoint wf (v : jv) : bool :=
  match v with
  | JNull | JBool _ => true
  | JNum l => wf_num l
  | JStr s => forallb wf_item s
  | JArr l => forallb wf l
  | JObj l => forallb (fun kv => forallb wf_item (fst kv) && wf (snd kv)) l
  end.

(* the statement of the property, for a given whitespace remover *)
Definition statement (mini : str -> str) : Prop :=
  forall v l, wf v = true -> fits l v -> mini (render l v) = compact v.

(* the layout json.MarshalIndent(v, "", "   ") produces is one instance; the correspondence run
   reads the real text back into (layout, value) and re-renders it with [render]. *)

(* ---- WriteMaybeCompressed: gzip, gunzip and the byte size are external *)
Section Compress.
  Variable gzip gunzip : str -> str.
  Variable size : str -> N.
  Definition write_maybe (threshold : N) (accepts : bool) (body : str) : bool * str :=
    if (0 <? threshold) && (threshold <=? size body) && accepts
    then let z := gzip body in if size body <=? size z then (false, body) else (true, z)
    else (false, body).
  (* what a client does with (Content-Encoding: gzip?, payload) *)
  Definition client_decode (r : bool * str) : str := if fst r then gunzip (snd r) else snd r.
  Definition write_json (threshold : N) (accepts : bool) (l : layout) (v : jv) : bool * str :=
    write_maybe threshold accepts (minify (render l v)).
End Compress.
