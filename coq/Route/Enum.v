(* Route/Enum.v — a verified finite enumeration of request classes for a concrete route table.
   certificate T = true (closed by vm_compute for the real table) implies det for EVERY request. *)
From Coq Require Import Permutation.
From Common Require Import Base.
From Route Require Import Model Proofs.
Open Scope N_scope.

(* ------------------------------------------------------------------ definitions *)
Definition FRESH : str := [1].
Definition FRESHM : str := [63].
Definition memS (x : str) (l : list str) : bool := existsb (str_eqb x) l.
Definition dedupS (l : list str) : list str :=
  fold_right (fun x acc => if memS x acc then acc else x :: acc) [] l.
Definition opt {A} (o : option A) : list A := match o with Some x => [x] | None => [] end.

(* literal segments occurring at position i of some endpoint (normalised or raw) *)
Definition lit_at (T : list route) (i : nat) : list str :=
  flat_map (fun r => opt (nth_error (ep_parts (ep r)) i) ++ opt (nth_error (split (ep r)) i)) T.
Definition sigma (T : list route) (i : nat) : list str := [] :: FRESH :: dedupS (lit_at T i).
Definition fresh_ok (T : list route) : bool :=
  negb (memS FRESH (flat_map (fun r => ep_parts (ep r) ++ split (ep r)) T)).

(* a path segment is itself when it is empty or one of the literals of its position, else FRESH *)
Definition alpha (T : list route) (i : nat) (p : str) : str :=
  match p with [] => [] | _ => if memS p (lit_at T i) then p else FRESH end.
Fixpoint alphas (T : list route) (i : nat) (ps : list str) : list str :=
  match ps with [] => [] | p :: t => alpha T i p :: alphas T (S i) t end.

Definition mu (T : list route) (m : str) : str := if memS m (map meth T) then m else FRESHM.
Definition mclasses (T : list route) : list str := FRESHM :: dedupS (map meth T).

Fixpoint last_empty (ps : list str) : bool :=
  match ps with [] => false | [x] => str_eqb x [] | _ :: t => last_empty t end.
(* segment lists of normalised paths: one non-empty segment, or last segment empty *)
Definition shape (ps : list str) : bool :=
  match ps with [x] => negb (str_eqb x []) | _ => last_empty ps end.

Definition pat_set (T : list route) (ps : list str) : list route :=
  filter (fun r => is_root r || pattern_ok (ep r) ps) T.
Definition mfilter (m : str) (A : list route) : list route :=
  filter (fun r => is_root r || meth_ok r m) A.
Definition det_all (T : list route) (ps : list str) : bool :=
  let A := pat_set T ps in forallb (fun m => det (mfilter m A) ps) (mclasses T).
(* written with if: vm_compute is call-by-value, || would evaluate both sides *)
Definition ok (T : list route) (ps : list str) : bool := if shape ps then det_all T ps else true.

(* can some extension of ps still match? *)
Fixpoint glob_pre (eps ps : list str) : bool :=
  match eps with
  | [] => true
  | e :: eps' => if is_glob e then true
                 else match ps with [] => true | p :: ps' => str_eqb e p && glob_pre eps' ps' end
  end.
Definition may_match (e : str) (ps : list str) : bool :=
  let eps := ep_parts e in if existsb is_glob eps then glob_pre eps ps else nonglob_ok eps ps.
Definition quiet (T : list route) (ps : list str) : bool :=
  let A := filter (fun r => is_root r || may_match (ep r) ps) T in
  forallb (fun m => (length (mfilter m A) <=? 1)%nat) (mclasses T).

Definition bound (r : route) : N :=
  N.max (N.of_nat (length (ep_parts (ep r)))) (N.max (N.of_nat (length (split (ep r)))) (rpc r)).
Definition nsat (T : list route) : N := fold_left N.max (map bound T) 0 + 2.
Definition final (T : list route) (ps : list str) : bool :=
  if nsat T <=? N.of_nat (length ps) then det_all T ps else false.

Fixpoint explore (T : list route) (n : nat) (ps : list str) : bool :=
  if ok T ps then
    if quiet T ps then true
    else match n with
         | O => final T ps
         | S n' => forallb (fun a => explore T n' (ps ++ [a])) (sigma T (length ps))
         end
  else false.

Definition certificate (T : list route) : bool :=
  if fresh_ok T && negb (memS FRESHM (map meth T)) then explore T (N.to_nat (nsat T)) [] else false.

(* ------------------------------------------------------------------ small list facts *)
Lemma memS_In x l : memS x l = true <-> In x l.
Proof.
  unfold memS. rewrite existsb_exists. split.
  - intros (y & Hy & E). apply str_eqb_eq in E. subst. exact Hy.
  - intros H. exists x. split; [exact H|]. apply str_eqb_eq. reflexivity.
Qed.

Lemma dedupS_cons a l : dedupS (a :: l) = if memS a (dedupS l) then dedupS l else a :: dedupS l.
Proof. reflexivity. Qed.

Lemma dedupS_In x l : In x l -> In x (dedupS l).
Proof.
  induction l as [|a l IH]; [cbn; tauto|]. rewrite dedupS_cons. intros [->|H].
  - destruct (memS x (dedupS l)) eqn:E; [apply memS_In, E|left; reflexivity].
  - destruct (memS a (dedupS l)); [auto|right; auto].
Qed.

Lemma existsb_ext_in {A} (f g : A -> bool) l :
  (forall x, In x l -> f x = g x) -> existsb f l = existsb g l.
Proof.
  induction l as [|a l IH]; cbn; intros H; [reflexivity|].
  rewrite (H a (or_introl eq_refl)), IH; [reflexivity|]. intros x Hx. apply H. right. exact Hx.
Qed.

Lemma filter_filter {A} (f g : A -> bool) l : filter g (filter f l) = filter (fun x => f x && g x) l.
Proof.
  induction l as [|a l IH]; cbn; [reflexivity|].
  destruct (f a); cbn; [destruct (g a); rewrite IH; reflexivity|exact IH].
Qed.

Lemma filter_length_le {A} (f g : A -> bool) l :
  (forall x, In x l -> f x = true -> g x = true) -> (length (filter f l) <= length (filter g l))%nat.
Proof.
  induction l as [|a l IH]; cbn; intros H; [lia|].
  assert (IH' := IH (fun x Hx => H x (or_intror Hx))).
  destruct (f a) eqn:Fa.
  - rewrite (H a (or_introl eq_refl) Fa). cbn. lia.
  - destruct (g a); cbn; lia.
Qed.

Lemma det_short cs ps : (length cs <= 1)%nat -> det cs ps = true.
Proof. destruct cs as [|a [|b cs]]; cbn; intros H; try reflexivity. lia. Qed.

(* ------------------------------------------------------------------ candidates in two steps *)
Lemma cands_split T m ps : cands T m ps = mfilter m (pat_set T ps).
Proof.
  unfold cands, mfilter, pat_set. rewrite filter_filter. apply filter_ext. intros r.
  unfold is_cand. destruct (is_root r), (pattern_ok (ep r) ps), (meth_ok r m); reflexivity.
Qed.

(* det only looks at ps through exact and pc_eq *)
Lemma det_ext2 cs ps ps' :
  (forall r, In r cs -> exact ps r = exact ps' r) -> (forall r, In r cs -> pc_eq ps r = pc_eq ps' r) ->
  det cs ps = det cs ps'.
Proof.
  intros HE HP.
  destruct cs as [|a [|b cs]]; try reflexivity. cbn [det]. remember (a :: b :: cs) as l eqn:El. clear El.
  unfold det_body, uniq.
  rewrite (existsb_ext_in _ _ l HE), (filter_ext_in _ _ l HE).
  rewrite (existsb_ext_in _ _ l HP), (filter_ext_in _ _ l HP). reflexivity.
Qed.

Lemma det_ext cs ps ps' :
  (forall r, In r cs -> exact ps r = exact ps' r) -> length ps = length ps' -> det cs ps = det cs ps'.
Proof.
  intros HE HL. apply det_ext2; [exact HE|]. intros r _. unfold pc_eq, ppc. rewrite HL. reflexivity.
Qed.

(* ------------------------------------------------------------------ segment-wise abstraction *)
Fixpoint covered (T : list route) (i : nat) (l : list str) : Prop :=
  match l with [] => True | e :: t => In e (lit_at T i) /\ covered T (S i) t end.

Lemma covered_of_nth T l : forall k,
  (forall j e, nth_error l j = Some e -> In e (lit_at T (k + j))) -> covered T k l.
Proof.
  induction l as [|a l IH]; intros k H; cbn; [exact I|]. split.
  - specialize (H 0%nat a eq_refl). rewrite Nat.add_0_r in H. exact H.
  - apply IH. intros j e Hj. specialize (H (S j) e Hj). rewrite Nat.add_succ_r in H. exact H.
Qed.

Lemma covered_parts T r : In r T -> covered T 0 (ep_parts (ep r)).
Proof.
  intros Hr. apply covered_of_nth. intros j e Hj. cbn. unfold lit_at. apply in_flat_map.
  exists r. split; [exact Hr|]. apply in_or_app. left. rewrite Hj. left. reflexivity.
Qed.

Lemma covered_split T r : In r T -> covered T 0 (split (ep r)).
Proof.
  intros Hr. apply covered_of_nth. intros j e Hj. cbn. unfold lit_at. apply in_flat_map.
  exists r. split; [exact Hr|]. apply in_or_app. right. rewrite Hj. left. reflexivity.
Qed.

Lemma lit_at_all T i e :
  In e (lit_at T i) -> In e (flat_map (fun r => ep_parts (ep r) ++ split (ep r)) T).
Proof.
  unfold lit_at. rewrite !in_flat_map. intros (r & Hr & H). exists r. split; [exact Hr|].
  apply in_app_or in H. apply in_or_app. destruct H as [H|H]; [left|right].
  - destruct (nth_error (ep_parts (ep r)) i) eqn:E; cbn in H; [|contradiction].
    destruct H as [<-|[]]. eapply nth_error_In, E.
  - destruct (nth_error (split (ep r)) i) eqn:E; cbn in H; [|contradiction].
    destruct H as [<-|[]]. eapply nth_error_In, E.
Qed.

Lemma alpha_eqb T i e p :
  fresh_ok T = true -> In e (lit_at T i) -> str_eqb e p = str_eqb e (alpha T i p).
Proof.
  intros F He. unfold alpha. destruct p as [|c p']; [reflexivity|].
  destruct (memS (c :: p') (lit_at T i)) eqn:M; [reflexivity|].
  destruct (str_eqb e (c :: p')) eqn:E1.
  { apply str_eqb_eq in E1. subst e. apply memS_In in He. congruence. }
  destruct (str_eqb e FRESH) eqn:E2; [|reflexivity].
  apply str_eqb_eq in E2. subst e. apply lit_at_all, memS_In in He.
  unfold fresh_ok in F. rewrite He in F. discriminate.
Qed.

Lemma nonglob_abs T eps : forall i ps, fresh_ok T = true -> covered T i eps ->
  nonglob_ok eps ps = nonglob_ok eps (alphas T i ps).
Proof.
  induction eps as [|e eps IH]; intros i ps F C; [reflexivity|].
  destruct ps as [|p ps]; [reflexivity|]. cbn in C. destruct C as [Ce C].
  cbn [alphas nonglob_ok]. rewrite <- (alpha_eqb T i e p F Ce), <- (IH (S i) ps F C). reflexivity.
Qed.

Lemma glob_abs T eps : forall i ps, fresh_ok T = true -> covered T i eps ->
  glob_ok eps ps = glob_ok eps (alphas T i ps).
Proof.
  induction eps as [|e eps IH]; intros i ps F C; [reflexivity|].
  cbn in C. destruct C as [Ce C]. cbn [glob_ok]. destruct (is_glob e); [reflexivity|].
  destruct ps as [|p ps]; [reflexivity|].
  cbn [alphas]. rewrite <- (alpha_eqb T i e p F Ce), <- (IH (S i) ps F C). reflexivity.
Qed.

Lemma parts_abs T a : forall i ps, fresh_ok T = true -> covered T i a ->
  parts_eqb a ps = parts_eqb a (alphas T i ps).
Proof.
  induction a as [|e a IH]; intros i ps F C; destruct ps as [|p ps]; try reflexivity.
  cbn in C. destruct C as [Ce C].
  cbn [alphas parts_eqb]. rewrite <- (alpha_eqb T i e p F Ce), <- (IH (S i) ps F C). reflexivity.
Qed.

Lemma pattern_abs T r ps : fresh_ok T = true -> In r T ->
  pattern_ok (ep r) ps = pattern_ok (ep r) (alphas T 0 ps).
Proof.
  intros F Hr. unfold pattern_ok. cbv zeta. destruct (existsb is_glob (ep_parts (ep r))).
  - apply glob_abs; [exact F|apply covered_parts, Hr].
  - apply nonglob_abs; [exact F|apply covered_parts, Hr].
Qed.

Lemma exact_abs T r ps : fresh_ok T = true -> In r T -> exact ps r = exact (alphas T 0 ps) r.
Proof. intros F Hr. unfold exact. apply parts_abs; [exact F|apply covered_split, Hr]. Qed.

Lemma alphas_length T ps : forall i, length (alphas T i ps) = length ps.
Proof. induction ps as [|p ps IH]; intros i; cbn; [reflexivity|]. rewrite IH. reflexivity. Qed.

Lemma alpha_empty T i p : str_eqb (alpha T i p) [] = str_eqb p [].
Proof.
  unfold alpha. destruct p as [|c p']; [reflexivity|].
  destruct (memS (c :: p') (lit_at T i)); reflexivity.
Qed.

Lemma last_empty_abs T ps : forall i, last_empty (alphas T i ps) = last_empty ps.
Proof.
  induction ps as [|a t IH]; intros i; [reflexivity|].
  destruct t as [|b t'].
  - cbn. apply alpha_empty.
  - change (last_empty (alphas T (S i) (b :: t')) = last_empty (b :: t')). apply IH.
Qed.

Lemma shape_abs T ps : shape (alphas T 0 ps) = shape ps.
Proof.
  destruct ps as [|a [|b t]]; [reflexivity| |].
  - cbn. rewrite alpha_empty. reflexivity.
  - exact (last_empty_abs T (a :: b :: t) 0%nat).
Qed.

Fixpoint abs_list (T : list route) (i : nat) (l : list str) : Prop :=
  match l with [] => True | x :: t => In x (sigma T i) /\ abs_list T (S i) t end.

Lemma abs_alphas T ps : forall i, abs_list T i (alphas T i ps).
Proof.
  induction ps as [|p ps IH]; intros i; cbn [alphas abs_list]; [exact I|]. split; [|apply IH].
  unfold alpha, sigma. destruct p as [|c p']; [left; reflexivity|].
  destruct (memS (c :: p') (lit_at T i)) eqn:M.
  - right. right. apply dedupS_In, memS_In, M.
  - right. left. reflexivity.
Qed.

(* ------------------------------------------------------------------ method abstraction *)
Lemma meth_abs T r m : memS FRESHM (map meth T) = false -> In r T -> meth_ok r m = meth_ok r (mu T m).
Proof.
  intros F Hr. unfold meth_ok, mu. destruct (memS m (map meth T)) eqn:M; [reflexivity|]. f_equal.
  assert (Hin : In (meth r) (map meth T)) by (apply in_map, Hr).
  destruct (str_eqb (meth r) m) eqn:E1.
  { apply str_eqb_eq in E1. rewrite E1 in Hin. apply memS_In in Hin. congruence. }
  destruct (str_eqb (meth r) FRESHM) eqn:E2; [|reflexivity].
  apply str_eqb_eq in E2. rewrite E2 in Hin. apply memS_In in Hin. congruence.
Qed.

Lemma mu_in T m : In (mu T m) (mclasses T).
Proof.
  unfold mu, mclasses. destruct (memS m (map meth T)) eqn:M.
  - right. apply dedupS_In, memS_In, M.
  - left. reflexivity.
Qed.

Lemma pat_set_incl T ps r : In r (pat_set T ps) -> In r T.
Proof. unfold pat_set. intros H. apply filter_In in H. tauto. Qed.

(* det on the abstract path gives det on the concrete one *)
Lemma ok_abs T m ps :
  fresh_ok T = true -> memS FRESHM (map meth T) = false ->
  ok T (alphas T 0 ps) = true -> shape ps = true -> det (cands T m ps) ps = true.
Proof.
  intros F FM H Hs. unfold ok in H. rewrite shape_abs, Hs in H.
  unfold det_all in H. cbv zeta in H. rewrite forallb_forall in H. specialize (H _ (mu_in T m)).
  assert (EP : pat_set T (alphas T 0 ps) = pat_set T ps).
  { unfold pat_set. apply filter_ext_in. intros r Hr. rewrite <- (pattern_abs T r ps F Hr). reflexivity. }
  rewrite EP in H.
  assert (EM : mfilter (mu T m) (pat_set T ps) = mfilter m (pat_set T ps)).
  { unfold mfilter. apply filter_ext_in. intros r Hr. apply pat_set_incl in Hr.
    rewrite <- (meth_abs T r m FM Hr). reflexivity. }
  rewrite EM in H. rewrite cands_split.
  rewrite <- H. apply det_ext.
  - intros r Hr. unfold mfilter in Hr. apply filter_In in Hr. destruct Hr as [Hr _].
    apply pat_set_incl in Hr. apply exact_abs; assumption.
  - symmetry. apply alphas_length.
Qed.

(* ------------------------------------------------------------------ pruning: at most one route can still match *)
Lemma nonglob_prefix eps : forall ps ext, nonglob_ok eps (ps ++ ext) = true -> nonglob_ok eps ps = true.
Proof.
  induction eps as [|e eps IH]; intros ps ext H; [reflexivity|].
  destruct ps as [|p ps]; [reflexivity|]. cbn [app nonglob_ok] in *.
  apply andb_prop in H as [H1 H2]. rewrite H1, (IH _ _ H2). reflexivity.
Qed.

Lemma glob_prefix eps : forall ps ext, glob_ok eps (ps ++ ext) = true -> glob_pre eps ps = true.
Proof.
  induction eps as [|e eps IH]; intros ps ext H; [reflexivity|].
  cbn [glob_ok glob_pre] in *. destruct (is_glob e); [reflexivity|].
  destruct ps as [|p ps]; [reflexivity|]. cbn [app] in H.
  apply andb_prop in H as [H1 H2]. rewrite H1, (IH _ _ H2). reflexivity.
Qed.

Lemma may_match_ext e ps ext : pattern_ok e (ps ++ ext) = true -> may_match e ps = true.
Proof.
  unfold pattern_ok, may_match. cbv zeta. destruct (existsb is_glob (ep_parts e)).
  - apply glob_prefix.
  - apply nonglob_prefix.
Qed.

Lemma quiet_sound T ps : quiet T ps = true -> forall ext, ok T (ps ++ ext) = true.
Proof.
  intros Q ext. unfold ok. destruct (shape (ps ++ ext)); [|reflexivity]. unfold det_all. cbv zeta.
  apply forallb_forall. intros m Hm. apply det_short.
  unfold quiet in Q. cbv zeta in Q. rewrite forallb_forall in Q. specialize (Q m Hm).
  apply Nat.leb_le in Q. etransitivity; [|exact Q].
  unfold mfilter, pat_set. rewrite !filter_filter. apply filter_length_le.
  intros r _ H. apply andb_prop in H as [H1 H2]. rewrite H2, andb_true_r.
  destruct (is_root r); [reflexivity|]. cbn [orb] in *. eapply may_match_ext, H1.
Qed.

(* ------------------------------------------------------------------ saturation: beyond every route's length *)
Lemma nonglob_sat eps : forall ps ext, (length eps <= length ps)%nat ->
  nonglob_ok eps (ps ++ ext) = nonglob_ok eps ps.
Proof.
  induction eps as [|e eps IH]; intros ps ext L; [reflexivity|].
  destruct ps as [|p ps]; cbn in L; [lia|]. cbn [app nonglob_ok]. rewrite IH; [reflexivity|lia].
Qed.

Lemma glob_sat eps : forall ps ext, (length eps <= length ps)%nat ->
  glob_ok eps (ps ++ ext) = glob_ok eps ps.
Proof.
  induction eps as [|e eps IH]; intros ps ext L; [reflexivity|].
  cbn [glob_ok]. destruct (is_glob e); [reflexivity|].
  destruct ps as [|p ps]; cbn in L; [lia|]. cbn [app]. rewrite IH; [reflexivity|lia].
Qed.

Lemma parts_eqb_length a : forall b, parts_eqb a b = true -> length a = length b.
Proof.
  induction a as [|x a IH]; intros b H; destruct b as [|y b]; cbn in *; try discriminate; [reflexivity|].
  apply andb_prop in H as [_ H]. rewrite (IH _ H). reflexivity.
Qed.

Lemma exact_long ps r : (length (split (ep r)) < length ps)%nat -> exact ps r = false.
Proof.
  intros L. unfold exact. destruct (parts_eqb (split (ep r)) ps) eqn:E; [|reflexivity].
  apply parts_eqb_length in E. lia.
Qed.

Lemma pc_long ps r : rpc r + 1 < N.of_nat (length ps) -> pc_eq ps r = false.
Proof. intros L. unfold pc_eq, ppc. apply N.eqb_neq. lia. Qed.

Lemma bound_le T r : In r T -> bound r + 2 <= nsat T.
Proof.
  intros Hr. unfold nsat. assert (bound r <= fold_left N.max (map bound T) 0).
  { apply fold_max_ge_in, in_map, Hr. }
  lia.
Qed.

Lemma final_sound T ps : final T ps = true -> forall ext, ok T (ps ++ ext) = true.
Proof.
  intros Fn ext. unfold final in Fn. destruct (N.leb_spec (nsat T) (N.of_nat (length ps))) as [L|L]; [|discriminate].
  rename Fn into D.
  unfold ok. destruct (shape (ps ++ ext)); [|reflexivity]. unfold det_all in *. cbv zeta in *.
  assert (EP : pat_set T (ps ++ ext) = pat_set T ps).
  { unfold pat_set. apply filter_ext_in. intros r Hr. f_equal.
    pose proof (bound_le T r Hr) as B. unfold bound in B.
    assert (L1 : (length (ep_parts (ep r)) <= length ps)%nat) by lia.
    unfold pattern_ok. cbv zeta. destruct (existsb is_glob (ep_parts (ep r))).
    - apply glob_sat, L1.
    - apply nonglob_sat, L1. }
  rewrite EP. apply forallb_forall. intros m Hm. rewrite forallb_forall in D. rewrite <- (D m Hm).
  assert (LL : (length ps <= length (ps ++ ext))%nat) by (rewrite app_length; lia).
  apply det_ext2; intros r Hr; unfold mfilter in Hr; apply filter_In in Hr; destruct Hr as [Hr _];
    apply pat_set_incl in Hr; pose proof (bound_le T r Hr) as B; unfold bound in B.
  - rewrite !exact_long; [reflexivity| lia | lia].
  - rewrite !pc_long; [reflexivity| lia | lia].
Qed.

(* ------------------------------------------------------------------ the exploration covers every abstract path *)
Lemma explore_sound T : forall n ps, explore T n ps = true ->
  forall ext, abs_list T (length ps) ext -> ok T (ps ++ ext) = true.
Proof.
  induction n as [|n IH]; intros ps E ext A; cbn [explore] in E;
    destruct (ok T ps) eqn:E1; try discriminate; destruct (quiet T ps) eqn:Q.
  - apply quiet_sound, Q.
  - destruct ext as [|x t]; [rewrite app_nil_r; exact E1|]. apply final_sound, E.
  - apply quiet_sound, Q.
  - destruct ext as [|x t]; [rewrite app_nil_r; exact E1|]. rename E into Fa.
    cbn in A. destruct A as [Ax At]. rewrite forallb_forall in Fa. specialize (Fa x Ax).
    replace (ps ++ x :: t) with ((ps ++ [x]) ++ t) by (rewrite <- app_assoc; reflexivity).
    apply IH; [exact Fa|]. rewrite app_length. cbn. rewrite Nat.add_1_r. exact At.
Qed.

(* ------------------------------------------------------------------ segment lists of normalised paths *)
Lemma split_nonempty s : split s <> [].
Proof.
  destruct s as [|c r]; cbn; [discriminate|]. destruct (c =? SLASH); [discriminate|].
  destruct (split r); discriminate.
Qed.

Lemma split_app_sep s : split (s ++ [SLASH]) = split s ++ [[]].
Proof.
  induction s as [|c r IH]; [reflexivity|]. cbn [app split]. rewrite IH.
  destruct (c =? SLASH); [reflexivity|].
  pose proof (split_nonempty r). destruct (split r); [contradiction|reflexivity].
Qed.

Lemma last_empty_app l : l <> [] -> last_empty (l ++ [[]]) = true.
Proof.
  induction l as [|a l IH]; intros H; [contradiction|].
  destruct l as [|b l']; [reflexivity|].
  change (last_empty ((b :: l') ++ [[]]) = true). apply IH. discriminate.
Qed.

Lemma shape_app l : l <> [] -> shape (l ++ [[]]) = true.
Proof.
  intros H. destruct l as [|a l]; [contradiction|]. destruct l as [|b l']; [reflexivity|].
  exact (last_empty_app (a :: b :: l') H).
Qed.

Lemma shape_norm p : shape (split (norm_path p)) = true.
Proof.
  unfold norm_path. destruct p as [|c [|c2 r]].
  - reflexivity.
  - cbn [norm split]. destruct (c =? SLASH); reflexivity.
  - cbn [norm]. rewrite split_app_sep. apply shape_app, split_nonempty.
Qed.

(* ------------------------------------------------------------------ main result *)
Theorem certificate_sound T : certificate T = true ->
  forall m p, det (cands T (upper m) (split (norm_path p))) (split (norm_path p)) = true.
Proof.
  intros C m p. unfold certificate in C.
  destruct (fresh_ok T && negb (memS FRESHM (map meth T))) eqn:C0; [|discriminate]. rename C into E.
  apply andb_prop in C0 as [F FM].
  apply negb_true_iff in FM.
  apply ok_abs; [exact F|exact FM| |apply shape_norm].
  exact (explore_sound T _ [] E _ (abs_alphas T _ 0%nat)).
Qed.

Corollary certificate_deterministic T : certificate T = true ->
  forall T' method path, Permutation T T' -> find_route T' method path = find_route T method path.
Proof.
  intros C T' method path P. unfold find_route. apply perm_invariant_at; [|exact P].
  apply certificate_sound, C.
Qed.

(* ------------------------------------------------------------------ a fast evaluator, equal to explore *)
(* vm_compute is call-by-value: everything that depends on the table only (segment lists of the
   endpoints, method classes, alphabets per position, saturation depth) is computed once and passed
   along. *)
Record pr := mkPr { pr_r : route; pr_eps : list str; pr_glob : bool; pr_root : bool }.
Definition prep1 (r : route) : pr :=
  mkPr r (ep_parts (ep r)) (existsb is_glob (ep_parts (ep r))) (is_root r).
Definition prep (T : list route) : list pr := map prep1 T.
Definition pat_p (ps : list str) (x : pr) : bool :=
  pr_root x || (if pr_glob x then glob_ok (pr_eps x) ps else nonglob_ok (pr_eps x) ps).
Definition may_p (ps : list str) (x : pr) : bool :=
  pr_root x || (if pr_glob x then glob_pre (pr_eps x) ps else nonglob_ok (pr_eps x) ps).
Definition sel (f : pr -> bool) (P : list pr) : list route := map pr_r (filter f P).

Definition det_all_f (MC : list str) (P : list pr) (ps : list str) : bool :=
  let A := sel (pat_p ps) P in forallb (fun m => det (mfilter m A) ps) MC.
Definition ok_f MC P ps : bool := if shape ps then det_all_f MC P ps else true.
Definition quiet_f (MC : list str) (P : list pr) (ps : list str) : bool :=
  let A := sel (may_p ps) P in forallb (fun m => (length (mfilter m A) <=? 1)%nat) MC.
Definition final_f (NS : N) MC P ps : bool :=
  if NS <=? N.of_nat (length ps) then det_all_f MC P ps else false.

Fixpoint explore_f (NS : N) (MC : list str) (P : list pr) (sgs : list (list str)) (ps : list str) : bool :=
  if ok_f MC P ps then
    if quiet_f MC P ps then true
    else match sgs with
         | [] => final_f NS MC P ps
         | sg :: rest => forallb (fun a => explore_f NS MC P rest (ps ++ [a])) sg
         end
  else false.

Definition certificate_f (T : list route) : bool :=
  if fresh_ok T && negb (memS FRESHM (map meth T))
  then explore_f (nsat T) (mclasses T) (prep T) (map (sigma T) (seq 0 (N.to_nat (nsat T)))) []
  else false.

Lemma sel_pat T ps : sel (pat_p ps) (prep T) = pat_set T ps.
Proof.
  unfold sel, prep, pat_set. induction T as [|r T IH]; [reflexivity|]. cbn [map filter].
  unfold pat_p at 1. cbn [prep1 pr_root pr_glob pr_eps]. unfold pattern_ok. cbv zeta.
  destruct (is_root r || (if existsb is_glob (ep_parts (ep r)) then glob_ok (ep_parts (ep r)) ps
                          else nonglob_ok (ep_parts (ep r)) ps)); cbn [map pr_r prep1]; rewrite IH; reflexivity.
Qed.

Lemma sel_may T ps : sel (may_p ps) (prep T) = filter (fun r => is_root r || may_match (ep r) ps) T.
Proof.
  unfold sel, prep. induction T as [|r T IH]; [reflexivity|]. cbn [map filter].
  unfold may_p at 1. cbn [prep1 pr_root pr_glob pr_eps]. unfold may_match. cbv zeta.
  destruct (is_root r || (if existsb is_glob (ep_parts (ep r)) then glob_pre (ep_parts (ep r)) ps
                          else nonglob_ok (ep_parts (ep r)) ps)); cbn [map pr_r prep1]; rewrite IH; reflexivity.
Qed.

Lemma ok_f_eq T ps : ok_f (mclasses T) (prep T) ps = ok T ps.
Proof. unfold ok_f, ok, det_all_f, det_all. cbv zeta. rewrite sel_pat. reflexivity. Qed.
Lemma quiet_f_eq T ps : quiet_f (mclasses T) (prep T) ps = quiet T ps.
Proof. unfold quiet_f, quiet. cbv zeta. rewrite sel_may. reflexivity. Qed.
Lemma final_f_eq T ps : final_f (nsat T) (mclasses T) (prep T) ps = final T ps.
Proof. unfold final_f, final, det_all_f, det_all. cbv zeta. rewrite sel_pat. reflexivity. Qed.

Lemma forallb_ext_all {A} (f g : A -> bool) l : (forall x, f x = g x) -> forallb f l = forallb g l.
Proof. intros H. induction l as [|a l IH]; cbn; [reflexivity|]. rewrite H, IH. reflexivity. Qed.

Lemma explore_f_eq T : forall n ps,
  explore_f (nsat T) (mclasses T) (prep T) (map (sigma T) (seq (length ps) n)) ps = explore T n ps.
Proof.
  induction n as [|n IH]; intros ps; cbn [seq map explore_f explore];
    rewrite ok_f_eq, quiet_f_eq; destruct (ok T ps); try reflexivity; destruct (quiet T ps); try reflexivity.
  - apply final_f_eq.
  - apply forallb_ext_all. intros a. rewrite <- IH. rewrite app_length. cbn [length]. rewrite Nat.add_1_r. reflexivity.
Qed.

Lemma certificate_f_eq T : certificate_f T = certificate T.
Proof.
  unfold certificate_f, certificate. destruct (fresh_ok T && negb (memS FRESHM (map meth T))); [|reflexivity].
  exact (explore_f_eq T (N.to_nat (nsat T)) []).
Qed.

Theorem certificate_f_sound T : certificate_f T = true ->
  forall m p, det (cands T (upper m) (split (norm_path p))) (split (norm_path p)) = true.
Proof. rewrite certificate_f_eq. apply certificate_sound. Qed.

Corollary certificate_f_deterministic T : certificate_f T = true ->
  forall T' method path, Permutation T T' -> find_route T' method path = find_route T method path.
Proof. rewrite certificate_f_eq. apply certificate_deterministic. Qed.
