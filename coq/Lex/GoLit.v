(* Lex/GoLit.v — the literal grammar of the Go specification (''Lexical elements'': Integer
   literals, Rune literals, String literals) as recognisers with value functions.
   Source text is a list of Unicode code points (str); string values are lists of bytes.
   Definitions only. *)
From Common Require Export Base.
Open Scope N_scope.

Definition bytes := list N.

(* character codes *)
Definition c_us := 95.   (* _ *)    Definition c_0 := 48.
Definition c_bs := 92.   (* \ *)    Definition c_sq := 39.  (* ' *)
Definition c_dq := 34.   (* '' *)    Definition c_bq := 96.  (* ` *)
Definition c_nl := 10.              Definition c_cr := 13.

(* hex_digit = ''0''…''9'' | ''A''…''F'' | ''a''…''f'' *)
Definition hex_digit_val (c : N) : option N :=
  if (48 <=? c) && (c <=? 57) then Some (c - 48)
  else if (97 <=? c) && (c <=? 102) then Some (c - 87)
  else if (65 <=? c) && (c <=? 70) then Some (c - 55)
  else None.

(* binary_digit / octal_digit / decimal_digit / hex_digit: a hex digit below the base *)
Definition digit_val (base c : N) : option N :=
  match hex_digit_val c with
  | Some d => if d <? base then Some d else None
  | None => None
  end.

(* digits = digit { [ ''_'' ] digit } ; value accumulated most significant digit first.
   Written as the two-state recogniser of that production: need = a digit must come next
   (at the start and after an underscore); an underscore is only allowed after a digit. *)
Fixpoint sd (base : N) (need : bool) (acc : N) (s : str) : option N :=
  match s with
  | [] => if need then None else Some acc
  | c :: r =>
      if c =? c_us then (if need then None else sd base true acc r)
      else match digit_val base c with
           | Some d => sd base false (acc * base + d) r
           | None => None
           end
  end.
Definition sep_digits (base acc : N) (s : str) : option N := sd base true acc s.

(* [ ''_'' ] digits *)
Definition opt_us_digits (base acc : N) (s : str) : option N :=
  match s with
  | u :: r => if u =? c_us then sep_digits base acc r else sep_digits base acc s
  | [] => None
  end.

Definition lower_is (c x : N) : bool := (c =? x) || (c + 32 =? x).   (* c is the letter x (given in lower case) in either case *)

(* int_lit = decimal_lit | binary_lit | octal_lit | hex_lit .
   decimal_lit = ''0'' | ( ''1'' … ''9'' ) [ [ ''_'' ] decimal_digits ] .
   binary_lit  = ''0'' ( ''b'' | ''B'' ) [ ''_'' ] binary_digits .
   octal_lit   = ''0'' [ ''o'' | ''O'' ] [ ''_'' ] octal_digits .
   hex_lit     = ''0'' ( ''x'' | ''X'' ) [ ''_'' ] hex_digits . *)
Definition go_int_lit (s : str) : option N :=
  match s with
  | [] => None
  | c :: r =>
      if c =? c_0 then
        match r with
        | [] => Some 0
        | p :: r' =>
            if lower_is p 98 then opt_us_digits 2 0 r'
            else if lower_is p 120 then opt_us_digits 16 0 r'
            else if lower_is p 111 then opt_us_digits 8 0 r'
            else opt_us_digits 8 0 r
        end
      else if (49 <=? c) && (c <=? 57) then
        match r with
        | [] => Some (c - 48)
        | _ => opt_us_digits 10 (c - 48) r
        end
      else None
  end.

(* ------------------------------------------------------------------ characters *)
(* a code point that may be written by \u / \U and that a rune may hold: not a surrogate half, at most 0x10FFFF *)
Definition valid_cp (v : N) : bool := (v <? 55296) || ((57344 <=? v) && (v <? 1114112)).

(* UTF-8 encoding of a valid code point *)
Definition utf8_encode (cp : N) : bytes :=
  if cp <? 128 then [cp]
  else if cp <? 2048 then [192 + cp / 64; 128 + cp mod 64]
  else if cp <? 65536 then [224 + cp / 4096; 128 + (cp / 64) mod 64; 128 + cp mod 64]
  else [240 + cp / 262144; 128 + (cp / 4096) mod 64; 128 + (cp / 64) mod 64; 128 + cp mod 64].

Inductive cval := Cp (n : N)    (* unicode_value: a code point *)
                | By (n : N).   (* byte_value: one byte *)
Definition cval_num (v : cval) : N := match v with Cp n => n | By n => n end.
Definition cval_bytes (v : cval) : bytes := match v with Cp n => utf8_encode n | By n => [n] end.

(* exactly n hex digits: value, rest *)
Fixpoint hex_n (n : nat) (acc : N) (s : str) : option (N * str) :=
  match n with
  | O => Some (acc, s)
  | S k => match s with
           | [] => None
           | c :: r => match hex_digit_val c with
                       | Some d => hex_n k (16 * acc + d) r
                       | None => None
                       end
           end
  end.
Fixpoint oct_n (n : nat) (acc : N) (s : str) : option (N * str) :=
  match n with
  | O => Some (acc, s)
  | S k => match s with
           | [] => None
           | c :: r => match digit_val 8 c with
                       | Some d => oct_n k (8 * acc + d) r
                       | None => None
                       end
           end
  end.

(* escaped_char = `\` ( ''a'' | ''b'' | ''f'' | ''n'' | ''r'' | ''t'' | ''v'' | `\` | ''''' | `''` ) ;
   \' only inside rune literals, \'' only inside string literals *)
Definition escaped_char (quote e : N) : option N :=
  if e =? 97 then Some 7 else if e =? 98 then Some 8 else if e =? 102 then Some 12
  else if e =? 110 then Some 10 else if e =? 114 then Some 13 else if e =? 116 then Some 9
  else if e =? 118 then Some 11 else if e =? c_bs then Some c_bs
  else if (e =? c_sq) && (quote =? c_sq) then Some c_sq
  else if (e =? c_dq) && (quote =? c_dq) then Some c_dq
  else None.

(* one unicode_value or byte_value at the head of s, inside a literal delimited by quote *)
Definition go_char (quote : N) (s : str) : option (cval * str) :=
  match s with
  | [] => None
  | c :: r =>
      if c =? c_bs then
        match r with
        | [] => None
        | e :: r2 =>
            if e =? 120 then                                   (* \xhh *)
              match hex_n 2 0 r2 with Some (v, r3) => Some (By v, r3) | None => None end
            else if e =? 117 then                              (* \uhhhh *)
              match hex_n 4 0 r2 with
              | Some (v, r3) => if valid_cp v then Some (Cp v, r3) else None | None => None end
            else if e =? 85 then                               (* \Uhhhhhhhh *)
              match hex_n 8 0 r2 with
              | Some (v, r3) => if valid_cp v then Some (Cp v, r3) else None | None => None end
            else if (48 <=? e) && (e <=? 55) then              (* \ooo, at most 255 *)
              match oct_n 3 0 r with
              | Some (v, r3) => if v <=? 255 then Some (By v, r3) else None | None => None end
            else match escaped_char quote e with Some v => Some (Cp v, r2) | None => None end
        end
      else if (c =? c_nl) || (c =? quote) || (c =? 0) || negb (valid_cp c) then None
      else Some (Cp c, r)
  end.

(* rune_lit = '' ( unicode_value | byte_value ) '' : first and last character are single quotes and
   what lies between them is exactly one value *)
Definition go_rune_lit (s : str) : option N :=
  match s with
  | q :: body =>
      if (q =? c_sq) && (1 <=? length body)%nat && (last body 0 =? c_sq) then
        match go_char c_sq (removelast body) with
        | Some (v, []) => Some (cval_num v)
        | _ => None
        end
      else None
  | [] => None
  end.

(* interpreted_string_lit = `''` { unicode_value | byte_value } `''` *)
Fixpoint go_str_body (fuel : nat) (s : str) (acc : bytes) : option bytes :=
  match fuel with
  | O => None
  | S f =>
      match s with
      | [] => None
      | c :: r =>
          if (c =? c_dq) then match r with [] => Some acc | _ => None end
          else match go_char c_dq s with
               | Some (v, r') => go_str_body f r' (acc ++ cval_bytes v)
               | None => None
               end
      end
  end.

(* raw_string_lit = ''`'' { unicode_char | newline } ''`'' ; carriage returns are discarded from the value *)
Fixpoint go_raw_body (s : str) (acc : bytes) : option bytes :=
  match s with
  | [] => None
  | c :: r =>
      if c =? c_bq then match r with [] => Some acc | _ => None end
      else if (c =? 0) || negb (valid_cp c) then None
      else go_raw_body r (if c =? c_cr then acc else acc ++ utf8_encode c)
  end.

Definition go_string_lit (s : str) : option bytes :=
  match s with
  | q :: body =>
      if q =? c_dq then (if last body 0 =? c_dq then go_str_body (length s) body [] else None)
      else if q =? c_bq then go_raw_body body []
      else None
  | [] => None
  end.
