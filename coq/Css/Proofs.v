(* Css/Proofs.v — lemmas for C34. *)
From Common Require Import Base.
From Css Require Import Model.
From Coq Require Import ZifyBool ZifyN ZifyNat.
Open Scope N_scope.

(* ---------- the full statement fails *)
Lemma statement_refuted : ~ (forall s, norm (css_lex (minify_css s)) = norm (css_lex s)).
Proof.
  intros H. specialize (H [97;47;42;42;47;98;123;125]). vm_compute in H. discriminate H.
Qed.

(* ---------- essential bytes: MinifyCSS simulates the specification automaton *)
Definition proj (m : mode) : emode :=
  match m with
  | MNorm | MWs | MSemi | MSemiWs => ENorm
  | MSlash => ESlash | MCom => ECom | MComStar => EComStar
  | MStr q => EStr q | MStrEsc q => EStrEsc q
  end.

Definition rel (st : mode * list obyte) (est : emode * list obyte) : Prop :=
  proj (fst st) = fst est /\ ess (snd st) = snd est.

Lemma ess_tagged c rout : ess ((true, c) :: rout) = (true, c) :: ess rout.
Proof. reflexivity. Qed.
Lemma ess_sp rout : ess ((false, 32) :: rout) = ess rout.
Proof. reflexivity. Qed.
Lemma ess_semi rout : ess ((false, 59) :: rout) = ess rout.
Proof. reflexivity. Qed.
Lemma ess_slash rout : ess ((false, 47) :: rout) = (false, 47) :: ess rout.
Proof. reflexivity. Qed.
Lemma ess_plain c rout : (c =? 32) = false -> (c =? 59) = false -> ess ((false, c) :: rout) = (false, c) :: ess rout.
Proof. intros H1 H2. unfold ess. cbn [filter ess_keep fst snd orb]. now rewrite H1, H2. Qed.

Lemma ws_facts c : is_ws c = true -> (c =? 47) = false /\ is_quote c = false /\ (c =? 59) = false /\ (c =? 125) = false.
Proof. unfold is_ws, is_quote. lia. Qed.
Lemma notws_32 c : is_ws c = false -> (c =? 32) = false.
Proof. unfold is_ws. lia. Qed.

Lemma etop_ws eout c : is_ws c = true -> etop eout c = (ENorm, eout).
Proof.
  intros H. destruct (ws_facts c H) as (H1 & H2 & _). unfold etop. now rewrite H1, H2, H.
Qed.

Lemma top_rel rout eout c : ess rout = eout -> rel (top rout c) (etop eout c).
Proof.
  intros He. unfold top, etop.
  destruct (c =? 47); [split; [reflexivity|exact He]|].
  destruct (is_quote c); [split; [reflexivity|cbn [snd]; now rewrite ess_tagged, He]|].
  destruct (is_ws c) eqn:Hw; [split; [reflexivity|exact He]|].
  destruct (c =? 59) eqn:Hs; cbn [orb]; [split; [reflexivity|exact He]|].
  split; [reflexivity|]. cbn [snd]. rewrite (ess_plain c rout (notws_32 c Hw) Hs). now rewrite He.
Qed.

Lemma feed_rel st est c : rel st est -> rel (feed st c) (efeed est c).
Proof.
  destruct st as [m rout], est as [em eout]. intros [Hm He]. cbn [fst snd] in Hm, He. subst em.
  destruct m; cbn [proj feed efeed].
  - now apply top_rel.
  - destruct (c =? 42); [split; [reflexivity|exact He]|]. apply top_rel. now rewrite ess_slash, He.
  - destruct (c =? 42); (split; [reflexivity|exact He]).
  - destruct (c =? 47); [split; [reflexivity|exact He]|]. destruct (c =? 42); (split; [reflexivity|exact He]).
  - destruct (c =? q); [split; [reflexivity|cbn [snd]; now rewrite ess_tagged, He]|].
    destruct (c =? 92); (split; [reflexivity|cbn [snd]; now rewrite ess_tagged, He]).
  - split; [reflexivity|cbn [snd]; now rewrite ess_tagged, He].
  - destruct (is_ws c) eqn:Hw.
    + rewrite (etop_ws eout c Hw). split; [reflexivity|exact He].
    + apply top_rel. destruct (is_delim c || prev_blocks rout); [exact He|now rewrite ess_sp].
  - destruct (N.eqb_spec c 59) as [->|Hn].
    + split; [reflexivity|exact He].
    + destruct (is_ws c) eqn:Hw; [rewrite (etop_ws eout c Hw); split; [reflexivity|exact He]|].
      destruct (c =? 125); apply top_rel; [exact He|now rewrite ess_semi].
  - destruct (is_ws c) eqn:Hw; [rewrite (etop_ws eout c Hw); split; [reflexivity|exact He]|].
    destruct (c =? 125); apply top_rel; [exact He|now rewrite ess_semi].
Qed.

Lemma fold_rel : forall s st est, rel st est -> rel (fold_left feed s st) (fold_left efeed s est).
Proof. induction s as [|c s IH]; intros st est H; [exact H|]. cbn [fold_left]. apply IH, feed_rel, H. Qed.

Lemma finish_rel st est : rel st est -> ess (finish st) = efinish est.
Proof.
  destruct st as [m rout], est as [em eout]. intros [Hm He]. cbn [fst snd] in Hm, He. subst em.
  unfold efinish. destruct m; cbn [proj finish fst snd]; try exact He.
  - now rewrite ess_slash, He.
  - destruct (prev_blocks rout); [exact He|now rewrite ess_sp].
Qed.

(* ---------- the final trimming loop removes no string byte unless the input ends inside a string *)
Fixpoint lts (rout : list obyte) : bool :=
  match rout with
  | [] => true
  | (true, c) :: _ => negb (c =? 32)
  | (false, _) :: r => lts r
  end.

Definition tagsafe (st : mode * list obyte) : Prop :=
  match fst st with
  | MStr q | MStrEsc q => is_quote q = true
  | _ => lts (snd st) = true
  end.

Lemma quote_not_sp q : is_quote q = true -> negb (q =? 32) = true.
Proof. unfold is_quote. lia. Qed.

Lemma top_safe rout c : lts rout = true -> tagsafe (top rout c).
Proof.
  intros H. unfold top.
  destruct (c =? 47); [exact H|]. destruct (is_quote c) eqn:Hq; [exact Hq|].
  destruct (is_ws c); [exact H|]. destruct (c =? 59); exact H.
Qed.

Lemma feed_safe st c : tagsafe st -> tagsafe (feed st c).
Proof.
  destruct st as [m rout]. unfold tagsafe at 1. cbn [fst snd]. intros H.
  destruct m; cbn [feed].
  - now apply top_safe.
  - destruct (c =? 42); [exact H|]. now apply top_safe.
  - destruct (c =? 42); exact H.
  - destruct (c =? 47); [exact H|]. destruct (c =? 42); exact H.
  - destruct (N.eqb_spec c q) as [->|Hn].
    + unfold tagsafe. cbn [fst snd lts]. now apply quote_not_sp.
    + destruct (c =? 92); exact H.
  - exact H.
  - destruct (is_ws c); [exact H|]. apply top_safe. destruct (is_delim c || prev_blocks rout); exact H.
  - destruct (c =? 59); [exact H|]. destruct (is_ws c); [exact H|]. destruct (c =? 125); now apply top_safe.
  - destruct (is_ws c); [exact H|]. destruct (c =? 125); now apply top_safe.
Qed.

Lemma fold_safe : forall s st, tagsafe st -> tagsafe (fold_left feed s st).
Proof. induction s as [|c s IH]; intros st H; [exact H|]. cbn [fold_left]. apply IH, feed_safe, H. Qed.

Lemma finish_safe st : tagsafe st ->
  match fst st with MStr _ | MStrEsc _ => False | _ => True end -> lts (finish st) = true.
Proof.
  destruct st as [m rout]. unfold tagsafe. cbn [fst snd]. intros H Hm.
  destruct m; cbn [finish lts]; try exact H; try contradiction.
  destruct (prev_blocks rout); exact H.
Qed.

Lemma trim_ess rout : lts rout = true -> ess (trim_sp rout) = ess rout.
Proof.
  induction rout as [|[t c] r IH]; intros H; [reflexivity|].
  cbn [trim_sp]. destruct (N.eqb_spec c 32) as [->|Hn]; [|reflexivity].
  destruct t; cbn [lts] in H; [discriminate H|]. rewrite ess_sp. now apply IH.
Qed.

Lemma ess_rev l : ess (rev l) = rev (ess l).
Proof.
  unfold ess. induction l as [|x l IH]; [reflexivity|].
  cbn [rev filter]. rewrite filter_app, IH. cbn [filter]. destruct (ess_keep x); [reflexivity|now rewrite app_nil_r].
Qed.

Lemma essential_bytes : forall s, ends_in_string s = false -> ess (minify_tagged s) = essential s.
Proof.
  intros s Hend. unfold minify_tagged, essential. rewrite ess_rev. f_equal.
  assert (Hrel : rel (run_min s) (fold_left efeed s (ENorm, []))).
  { unfold run_min. apply fold_rel. split; reflexivity. }
  assert (Hsafe : tagsafe (run_min s)).
  { unfold run_min. apply fold_safe. reflexivity. }
  rewrite trim_ess.
  - now apply finish_rel.
  - apply finish_safe; [exact Hsafe|]. unfold ends_in_string in Hend.
    destruct (fst (run_min s)); try exact I; discriminate Hend.
Qed.
