From Coq Require Import List ZArith NArith Bool Arith Lia.
From Common Require Import Base.
From Arith Require Import Model Spec Proofs.
From Opt Require Import Generic Model Proofs.
From GoSub Require Import Model Proofs Stmt StmtProofs.
Import ListNotations.
Open Scope nat_scope.

Definition rel (k : ikind) (en : env) (o : list Z) (s : st) : Prop :=
  vars s = vars_of k en /\ map val_z (out s) = o.

Lemma declared_names en x : declared (names_env (map fst en)) x = declared en x.
Proof.
  unfold declared. f_equal. pose proof (eget_names en x) as H.
  destruct (eget (names_env (map fst en)) x), (eget en x); try reflexivity.
  - destruct H as [_ H]. discriminate (H eq_refl).
  - destruct H as [H _]. discriminate (H eq_refl).
Qed.

Lemma let_store_nonbranch x e : Forall nonbranch (let_store x (compile e)).
Proof.
  unfold let_store. constructor; [reflexivity|]. apply Forall_app. split; [apply compile_nonbranch|repeat constructor].
Qed.

Definition post_ok (m : mode) (k : ikind) (code post : list instr) (s : st) (cur : list instr) (r : sres) : Prop :=
  match r with
  | SNormal en' o' j =>
      exists s', rel k en' o' s' /\ stk s' = stk s /\ line s' = line s /\ env_ok k en' = true /\
        forall f, grun fx_now m (j + f) code (cur ++ post) s = grun fx_now m f code post s'
  | SPanic o' =>
      exists j out', map val_z out' = o' /\
        forall f, grun fx_now m (j + f) code (cur ++ post) s = Failed st fail (RArith EDivZero, line s, out')
  | SStuck => False
  end.

(* a statement that compiles to one straight-line block whose effect is known *)
Lemma simple_case m k code post s cur (r : sres) en' o' :
  Forall nonbranch cur ->
  (r = SNormal en' o' 0 -> exists s', gblock fx_now m cur s = Some (inl s') /\ rel k en' o' s' /\ stk s' = stk s /\ line s' = line s /\ env_ok k en' = true) ->
  (forall o1, r = SPanic o1 -> exists out', map val_z out' = o1 /\ gblock fx_now m cur s = Some (inr (RArith EDivZero, line s, out'))) ->
  (r = SStuck -> False) ->
  (forall a b c, r = SNormal a b c -> r = SNormal en' o' 0) ->
  post_ok m k code post s cur r.
Proof.
  intros Hnb Hn Hp Hs Hform. destruct r as [a b c| o1 |]; cbn [post_ok].
  - pose proof (Hform _ _ _ eq_refl) as E. inversion E; subst. destruct (Hn eq_refl) as [s' [Hb [Hr [H1 [H2 H3]]]]].
    exists s'. repeat split; try assumption; try apply Hr. intros f. cbn [plus]. rewrite grun_block by exact Hnb. now rewrite Hb.
  - destruct (Hp _ eq_refl) as [out' [Ho Hb]]. exists 0, out'. split; [exact Ho|]. intros f. cbn [plus].
    rewrite grun_block by exact Hnb. now rewrite Hb.
  - now apply Hs.
Qed.

Lemma go_exec_names k : forall p en o en' o' j,
  guarded_in k (map fst en) p = true -> go_exec k p en o = SNormal en' o' j -> map fst en' = decls p (map fst en).
Proof.
  induction p as [x e|x e|op x e|inc x|e|a IHa b IHb|c e1 e2 a IHa b IHb]; intros en o en' o' j Hg H; cbn [go_exec decls] in *.
  - destruct (go_eval k en e); inversion H; subst. reflexivity.
  - destruct (go_eval k en e); inversion H; subst. apply env_set_names.
  - destruct (go_eval k en _); inversion H; subst. apply env_set_names.
  - destruct (go_eval k en _); inversion H; subst. apply env_set_names.
  - destruct (go_eval k en e); inversion H; subst. reflexivity.
  - cbn [guarded_in] in Hg. apply andb_true_iff in Hg. destruct Hg as [Ga Gb].
    destruct (go_exec k a en o) as [en1 o1 j1| |] eqn:Ea; try discriminate H.
    pose proof (IHa _ _ _ _ _ Ga Ea) as Na. rewrite <- Na in Gb.
    destruct (go_exec k b en1 o1) as [en2 o2 j2| |] eqn:Eb; inversion H; subst.
    rewrite (IHb _ _ _ _ _ Gb Eb). now rewrite Na.
  - cbn [guarded_in] in Hg. repeat (apply andb_true_iff in Hg; destruct Hg as [Hg ?]).
    destruct (go_eval k en e1); try discriminate H. destruct (go_eval k en e2); try discriminate H.
    destruct (cmp_go c z z0).
    + destruct (go_exec k a en o) eqn:Ea; inversion H; subst. rewrite (IHa _ _ _ _ _ H1 Ea). now apply no_decl_decls.
    + destruct (go_exec k b en o) eqn:Eb; inversion H; subst. rewrite (IHb _ _ _ _ _ H0 Eb). now apply no_decl_decls.
Qed.

Lemma skipn_exact {A} (l1 l2 : list A) : skipn (length l1) (l1 ++ l2) = l2.
Proof. induction l1; [reflexivity|exact IHl1]. Qed.

Ltac split_guard H := repeat (apply andb_true_iff in H; let G := fresh "G" in destruct H as [H G]).

Fixpoint no_if (p : stmt) : bool :=
  match p with SIf _ _ _ _ _ => false | SSeq a b => no_if a && no_if b | _ => true end.

Lemma stmt_correct_noif m k : forall p en o pre post code s,
  no_if p = true -> guarded_in k (map fst en) p = true -> env_ok k en = true -> rel k en o s ->
  code = pre ++ compile_stmt (length pre) p ++ post ->
  post_ok m k code post s (compile_stmt (length pre) p) (go_exec k p en o).
Proof.
  induction p as [x e|x e|op x e|inc x|e|a IHa b IHb|c e1 e2 a IHa b IHb];
    intros en o pre post code s Hni Hg Hok [Hv Ho] Hcode; cbn [guarded_in] in Hg.
  - (* x := e *)
    split_guard Hg. rewrite well_typed_names in Hg. apply negb_true_iff in G1. apply negb_true_iff in G0.
    assert (Hn : eget en x = None).
    { apply eget_names. destruct (eget (names_env (map fst en)) x); [discriminate G|reflexivity]. }
    pose proof (decl_block m k en x e s Hok Hv Hg G1 G0 Hn) as HB. cbn [go_exec compile_stmt] in *.
    destruct (go_eval k en e) as [v| |]; cbn [post_ok]; [| |contradiction].
    + destruct HB as [Rv HB]. exists (set_vars s (vars_of k ((x, v) :: en))).
      split; [split; [reflexivity|exact Ho]|]. split; [reflexivity|]. split; [reflexivity|].
      split; [cbn [env_ok forallb snd]; apply andb_true_iff; split; [now apply in_rangeb_spec|exact Hok]|].
      intros f. cbn [plus]. rewrite grun_block; [now rewrite HB|].
      constructor; [reflexivity|]. apply Forall_app. split; [apply compile_nonbranch|repeat constructor].
    + exists 0, (out s). split; [exact Ho|]. intros f. cbn [plus]. rewrite grun_block; [now rewrite HB|].
      constructor; [reflexivity|]. apply Forall_app. split; [apply compile_nonbranch|repeat constructor].
  - (* x = e *)
    split_guard Hg. rewrite well_typed_names in Hg. apply negb_true_iff in G0. rewrite declared_names in G.
    pose proof (assign_block m k en x e s Hok Hv Hg G0 G) as HB. cbn [go_exec compile_stmt] in *.
    destruct (go_eval k en e) as [v| |]; cbn [post_ok]; [| |contradiction].
    + destruct HB as [Rv HB]. exists (set_vars s (vars_of k (env_set en x v))).
      split; [split; [reflexivity|exact Ho]|]. split; [reflexivity|]. split; [reflexivity|].
      split; [now apply env_set_ok|].
      intros f. cbn [plus]. rewrite grun_block by apply let_store_nonbranch. now rewrite HB.
    + exists 0, (out s). split; [exact Ho|]. intros f. cbn [plus]. rewrite grun_block by apply let_store_nonbranch. now rewrite HB.
  - (* x op= e *)
    rewrite well_typed_names in Hg.
    assert (Hd : declared en x = true).
    { pose proof Hg as Hg'. unfold opassign_expr in Hg'. cbn [well_typed] in Hg'. split_guard Hg'. unfold declared. now rewrite Hg', G1. }
    pose proof (assign_block m k en x (opassign_expr op x e) s Hok Hv Hg eq_refl Hd) as HB. cbn [go_exec compile_stmt] in *.
    destruct (go_eval k en (opassign_expr op x e)) as [v| |]; cbn [post_ok]; [| |contradiction].
    + destruct HB as [Rv HB]. exists (set_vars s (vars_of k (env_set en x v))).
      split; [split; [reflexivity|exact Ho]|]. split; [reflexivity|]. split; [reflexivity|].
      split; [now apply env_set_ok|].
      intros f. cbn [plus]. rewrite grun_block by apply let_store_nonbranch. now rewrite HB.
    + exists 0, (out s). split; [exact Ho|]. intros f. cbn [plus]. rewrite grun_block by apply let_store_nonbranch. now rewrite HB.
  - (* x++ x-- *)
    rewrite well_typed_names in Hg.
    assert (Hd : declared en x = true).
    { pose proof Hg as Hg'. unfold incdec_expr in Hg'. cbn [well_typed] in Hg'. split_guard Hg'. unfold declared. now rewrite Hg', G1. }
    pose proof (assign_block m k en x (incdec_expr inc x) s Hok Hv Hg eq_refl Hd) as HB. cbn [go_exec compile_stmt] in *.
    destruct (go_eval k en (incdec_expr inc x)) as [v| |]; cbn [post_ok]; [| |contradiction].
    + destruct HB as [Rv HB]. exists (set_vars s (vars_of k (env_set en x v))).
      split; [split; [reflexivity|exact Ho]|]. split; [reflexivity|]. split; [reflexivity|].
      split; [now apply env_set_ok|].
      intros f. cbn [plus]. rewrite grun_block by apply let_store_nonbranch. now rewrite HB.
    + exists 0, (out s). split; [exact Ho|]. intros f. cbn [plus]. rewrite grun_block by apply let_store_nonbranch. now rewrite HB.
  - (* Println *)
    rewrite well_typed_names in Hg.
    pose proof (print_block m k en e s Hok Hv Hg) as HB. cbn [go_exec compile_stmt] in *.
    assert (Hnb : Forall nonbranch ((Push, OM L_call) :: compile e ++ [(Print, ONil); (DropToMarker, OM L_call)])).
    { constructor; [reflexivity|]. apply Forall_app. split; [apply compile_nonbranch|repeat constructor]. }
    destruct (go_eval k en e) as [v| |]; cbn [post_ok]; [| |contradiction].
    + destruct HB as [val [Hval HB]]. eexists. split; [split; [|]|].
      3:{ split; [|split; [|split; [exact Hok|]]].
          3:{ intros f. cbn [plus]. rewrite grun_block by exact Hnb. rewrite HB. reflexivity. }
          all: reflexivity. }
      * exact Hv.
      * cbn [out map]. now rewrite Hval, Ho.
    + exists 0, (out s). split; [exact Ho|]. intros f. cbn [plus]. rewrite grun_block by exact Hnb. now rewrite HB.
  - (* a ; b *)
    apply andb_true_iff in Hg. destruct Hg as [Ga Gb]. cbn [no_if] in Hni. apply andb_true_iff in Hni. destruct Hni as [Nia Nib]. cbn [compile_stmt go_exec] in *.
    set (ca := compile_stmt (length pre) a) in *. set (cb := compile_stmt (length pre + length ca) b) in *.
    assert (Hca : code = pre ++ ca ++ (cb ++ post)) by (rewrite Hcode; now rewrite <- app_assoc).
    pose proof (IHa en o pre (cb ++ post) code s Nia Ga Hok (conj Hv Ho) Hca) as Pa. fold ca in Pa.
    destruct (go_exec k a en o) as [en1 o1 j1|o1|] eqn:Ea; cbn [post_ok] in Pa |- *; [| |contradiction].
    + destruct Pa as [s1 [[Hv1 Ho1] [Hs1 [Hl1 [Hok1 Hrun1]]]]].
      pose proof (go_exec_names k a en o en1 o1 j1 Ga Ea) as Na. rewrite <- Na in Gb.
      assert (Hcb : code = (pre ++ ca) ++ compile_stmt (length (pre ++ ca)) b ++ post).
      { rewrite app_length. fold cb. rewrite Hcode. now rewrite <- !app_assoc. }
      pose proof (IHb en1 o1 (pre ++ ca) post code s1 Nib Gb Hok1 (conj Hv1 Ho1) Hcb) as Pb.
      rewrite app_length in Pb. fold cb in Pb.
      destruct (go_exec k b en1 o1) as [en2 o2 j2|o2|] eqn:Eb; cbn [post_ok] in Pb |- *; [| |contradiction].
      * destruct Pb as [s2 [Hr2 [Hs2 [Hl2 [Hok2 Hrun2]]]]]. exists s2.
        split; [exact Hr2|]. split; [congruence|]. split; [congruence|]. split; [exact Hok2|].
        intros f. rewrite <- app_assoc. replace (j1 + j2 + f) with (j1 + (j2 + f)) by lia. rewrite Hrun1. apply Hrun2.
      * destruct Pb as [j2 [out' [Ho' Hrun2]]]. exists (j1 + j2), out'. split; [exact Ho'|].
        intros f. rewrite <- app_assoc. replace (j1 + j2 + f) with (j1 + (j2 + f)) by lia. rewrite Hrun1, Hrun2. now rewrite Hl1.
    + destruct Pa as [j1 [out' [Ho' Hrun1]]]. exists j1, out'. split; [exact Ho'|].
      intros f. rewrite <- app_assoc. apply Hrun1.
  - (* if e1 c e2 { a } else { b } *)
    discriminate Hni.
Qed.

Definition start (k : ikind) (en : env) : st := {| stk := []; vars := vars_of k en; line := 0; out := [] |}.

(* whole program: code = compile_stmt 0 p, run from the first instruction *)
Definition whole_ok (m : mode) (k : ikind) (en : env) (p : stmt) : Prop :=
  let code := compile_stmt 0 p in
  match go_exec k p en [] with
  | SNormal en' o' j => forall f, exists s', grun fx_now m (j + f) code code (start k en) = Done st fail s' /\
                          vars s' = vars_of k en' /\ map val_z (out s') = o' /\ stk s' = []
  | SPanic o' => exists j out', map val_z out' = o' /\
                   forall f, grun fx_now m (j + f) code code (start k en) = Failed st fail (RArith EDivZero, 0%Z, out')
  | SStuck => False
  end.

Lemma whole_of_post m k en p :
  post_ok m k (compile_stmt 0 p) [] (start k en) (compile_stmt 0 p) (go_exec k p en []) -> whole_ok m k en p.
Proof.
  unfold whole_ok. intros H. destruct (go_exec k p en []) as [en' o' j|o'|]; cbn [post_ok] in H; [| |exact H].
  - destruct H as [s' [[Hv Ho] [Hs [Hl [Hok Hrun]]]]]. intros f. exists s'.
    specialize (Hrun f). rewrite app_nil_r in Hrun. rewrite Hrun. unfold grun. rewrite run_nil. repeat split; assumption.
  - destruct H as [j [out' [Ho Hrun]]]. exists j, out'. split; [exact Ho|]. intros f. specialize (Hrun f).
    now rewrite app_nil_r in Hrun.
Qed.

Theorem stmt_compile_correct_noif m k en p :
  no_if p = true -> guarded k en p = true -> whole_ok m k en p.
Proof.
  intros Hni Hg. unfold guarded in Hg. apply andb_true_iff in Hg. destruct Hg as [Hg Hok].
  apply whole_of_post.
  apply (stmt_correct_noif m k p en [] [] [] (compile_stmt 0 p) (start k en) Hni Hg Hok); [split; reflexivity|].
  cbn [app length]. now rewrite app_nil_r.
Qed.
