(* Fmt/Proofs.v — the Ego instance satisfies the lexical laws of the generic development; comment interleaving. *)
From Common Require Import Base.
From Coq Require Import Ascii String.
From SqlFmt Require Import PrecClimb PrecClimbProofs.
From Fmt Require Import Model.
Open Scope N_scope.

Definition atom_ok (a : eatom) : Prop := True.

Lemma H_atom a : atom_ok a -> atom_of (tok_atom a) = Some a /\ preop_of (tok_atom a) = None.
Proof. intros _. destruct a; split; reflexivity. Qed.
Lemma H_lp : atom_of TLP = None /\ is_lp TLP = true /\ preop_of TLP = None.
Proof. repeat split; reflexivity. Qed.
Lemma H_rp : is_rp TRP = true /\ binop_of TRP = None.
Proof. split; reflexivity. Qed.
Lemma H_bin s : binop_of (TSp s) = Some s.
Proof. reflexivity. Qed.
Lemma H_pre s : preop_of (TSp s) = Some s.
Proof. reflexivity. Qed.

Lemma atoms_all_ok (e : eexpr) : atoms_all atom_ok e.
Proof. induction e; cbn [atoms_all]; unfold atom_ok; auto. Qed.

Theorem ego_parse_print tbl (e : eexpr) :
  wf_table str_eqb tbl = true -> WF tbl atom_ok tbl e -> eparse tbl (eprint e) = Some e.
Proof.
  intros Ht Hw. unfold eparse, eprint.
  eapply parse_print with (atom_ok := atom_ok); eauto using str_eqb_eq, H_atom, H_lp, H_rp, H_bin, H_pre.
Qed.

Theorem ego_reparse tbl ts (e : eexpr) :
  wf_table str_eqb tbl = true -> eparse tbl ts = Some e -> eparse tbl (eprint e) = Some e.
Proof.
  intros Ht Hp. unfold eparse, eprint in *.
  eapply reparse with (atom_ok := atom_ok);
    eauto using str_eqb_eq, H_atom, H_lp, H_rp, H_bin, H_pre, atoms_all_ok.
Qed.

Theorem ego_parse_wf tbl ts (e : eexpr) : eparse tbl ts = Some e -> WF tbl (fun _ => True) tbl e.
Proof. intros Hp. unfold eparse in Hp. eapply parse_sound; eauto using str_eqb_eq. Qed.

(* ---- comments: whatever the printer's walk asks for, the emitted sequence is the comment list itself *)
Lemma take_before_app n pend : let (a, b) := take_before n pend in a ++ b = pend.
Proof.
  induction pend as [|c r IH]; cbn [take_before]; [reflexivity|].
  destruct (fst c <? n); [|reflexivity].
  destruct (take_before n r) as [a b]. cbn [app]. rewrite IH. reflexivity.
Qed.

Lemma cstep_inv st ev cs : fst st ++ snd st = cs -> fst (cstep st ev) ++ snd (cstep st ev) = cs.
Proof.
  destruct st as [out pend]. cbn [fst snd]. intros H. destruct ev as [n|n]; cbn [cstep].
  - pose proof (take_before_app n pend) as Ht. destruct (take_before n pend) as [a b].
    cbn [fst snd]. rewrite <- app_assoc. rewrite Ht. exact H.
  - destruct pend as [|c r]; [exact H|]. destruct (fst c =? n); [|exact H].
    cbn [fst snd]. rewrite <- app_assoc. exact H.
Qed.

Lemma emitted_all evs cs : emitted evs cs = cs.
Proof.
  unfold emitted.
  assert (H : forall st, fst st ++ snd st = cs ->
                         fst (fold_left cstep evs st) ++ snd (fold_left cstep evs st) = cs).
  { induction evs as [|ev evs IH]; intros st Hs; cbn [fold_left]; [exact Hs|].
    apply IH. apply cstep_inv. exact Hs. }
  specialize (H ([], cs) eq_refl). destruct (fold_left cstep evs ([], cs)) as [out pend]. exact H.
Qed.

(* ---- if / else-if ladders: printing then parsing returns the ladder, every rung with its own init *)
Lemma parse_rung_print r rest : parse_rung (print_rung r ++ rest) = Some (r, rest).
Proof. destruct r as [[i|] c b]; reflexivity. Qed.

Definition no_else (rest : list htok) : Prop := match rest with HElse :: _ => False | _ => True end.

Lemma parse_tail_print : forall rs e rest fuel,
  no_else rest ->
  (List.length (flat_map (fun r => HElse :: print_rung r) rs ++
                match e with Some b => [HElse; HBody b] | None => [] end ++ rest) < fuel)%nat ->
  parse_tail fuel (flat_map (fun r => HElse :: print_rung r) rs ++
                   match e with Some b => [HElse; HBody b] | None => [] end ++ rest) = Some (rs, e, rest).
Proof.
  induction rs as [|r rs IH]; intros e rest fuel Hn Hf.
  - cbn [flat_map app] in *. destruct fuel as [|f]; [lia|]. destruct e as [b|].
    + reflexivity.
    + cbn [app parse_tail]. destruct rest as [|t r']; [reflexivity|]. destruct t; try reflexivity. contradiction.
  - destruct fuel as [|f]; [lia|].
    assert (Hlen : (List.length (flat_map (fun r => HElse :: print_rung r) rs ++
                      match e with Some b => [HElse; HBody b] | None => [] end ++ rest) < f)%nat).
    { cbn [flat_map] in Hf. rewrite !app_length in Hf. cbn [List.length] in Hf. rewrite !app_length. lia. }
    specialize (IH e rest f Hn Hlen).
    destruct r as [[i|] c b];
      cbn [flat_map print_rung r_init r_cond r_body app]; rewrite <- ?app_assoc; cbn [app parse_tail parse_rung];
      rewrite IH; reflexivity.
Qed.

Lemma parse_print_ladder l rest : no_else rest -> parse_ladder (print_ladder l ++ rest) = Some (l, rest).
Proof.
  intros Hn. destruct l as [r1 rs e]. unfold parse_ladder, print_ladder. cbn [l_first l_rest l_else].
  rewrite <- app_assoc. rewrite parse_rung_print. rewrite <- app_assoc.
  rewrite parse_tail_print; [reflexivity|exact Hn|lia].
Qed.
