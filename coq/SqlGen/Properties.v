(* SqlGen/Properties.v — property theorems of C14 only; proofs live in Proofs.v.
   sql_lex is the model of SQLite's tokenizer; every generator returns (text, template) where the
   template holds exactly one token (TId / TStr / TNum / TWord for a plain sort name) per user supplied
   name or value and fixed tokens otherwise (see Model.v).  "no_nul": the bytes contain no NUL. *)
From Coq Require Import String.
From Common Require Import Base.
From SqlGen Require Import Model Proofs Sem SemProofs SemParse.
Open Scope list_scope.
Open Scope N_scope.

(* The property as stated for the generators: whatever the request, the text handed to the database
   lexes to the request's template, so no user byte becomes a keyword, operator, comment, second
   statement or another table's name. *)
Definition C14_statement : Prop :=
  forall sel r o, request_ok r -> form_select true sel r = Ok o -> sql_lex (fst o) = snd o.

(* egostrings.SQLIdentifier: any name is one identifier token, whatever follows (except a further quote) *)
Theorem C14_ident_confined :
  forall s rest, no_nul s -> match rest with c :: _ => (c =? DQ) = false | [] => True end ->
    sql_lex (sql_ident s ++ rest) = TId s :: sql_lex rest.
Proof. exact ident_confined. Qed.

(* the repaired string constant of a filter: any value is one string token *)
Theorem C14_string_confined :
  forall s rest, no_nul s -> match rest with c :: _ => (c =? SQ) = false | [] => True end ->
    sql_lex (sql_strlit s ++ rest) = TStr s :: sql_lex rest.
Proof. exact string_confined. Qed.

(* WhereClause over arbitrary Ego token lists (any classes, any spellings), any fuel *)
Theorem C14_filter_confined :
  forall filters o, filters_ok filters -> where_clause true filters = Ok o -> sql_lex (fst o) = snd o.
Proof. intros filters o Hf H. apply sql_lex_seg. exact (where_clause_ok filters o Hf H). Qed.

(* FormSelectorDeleteQuery: SELECT and DELETE statements *)
Theorem C14_confinement : C14_statement.
Proof. intros sel r o Hr H. apply sql_lex_seg. exact (form_select_ok sel r o Hr H). Qed.

(* FormInsertQuery *)
Theorem C14_insert_confined :
  forall pg user table keys, no_nul user -> no_nul table -> Forall no_nul keys ->
    sql_lex (fst (form_insert pg user table keys)) = snd (form_insert pg user table keys).
Proof. intros. apply sql_lex_seg. apply form_insert_ok; assumption. Qed.

(* FormUpdateQuery *)
Theorem C14_update_confined :
  forall pg user table keys rowid filters o, no_nul user -> no_nul table -> Forall no_nul keys -> filters_ok filters ->
    form_update true pg user table keys rowid filters = Ok o -> sql_lex (fst o) = snd o.
Proof.
  intros pg user table keys rowid filters o Hu Ht Hk Hf H. apply sql_lex_seg.
  exact (form_update_ok pg user table keys rowid filters o Hu Ht Hk Hf H).
Qed.

(* the generators before the repairs: a sort value, a column specification and a pair of filters whose
   text does not lex to the template (a subquery on another table; FROM secrets; a string value that
   swallowed the text of the second filter) *)
Theorem C14_old_refuted :
  (exists vals, Forall no_nul vals /\ sql_lex (fst (sort_list false vals)) <> snd (sort_list false vals)
                /\ In (TWord (s2l "password")) (sql_lex (fst (sort_list false vals))))
  /\ (exists cols, no_nul cols /\ sql_lex (fst (column_list false cols)) <> snd (column_list false cols)
                /\ In (TWord (s2l "secrets")) (sql_lex (fst (column_list false cols))))
  /\ (exists fs o, filters_ok fs /\ where_clause false fs = Ok o /\ sql_lex (fst o) <> snd o
                /\ ~ In (TStr (s2l " OR 1=1 --")) (sql_lex (fst o))).
Proof. exact old_refuted. Qed.

(* non-vacuity: an adversarial request satisfies the hypotheses, is accepted, and its text is confined *)
Definition ex_req : request :=
  mkreq false (s2l "u") (s2l "t1"" UNION SELECT password FROM ""secrets") (s2l "count(*) from secrets --,id")
        old_filters [s2l "(select password from users limit 1)"] (Some 5%Z) (Some (-3)%Z).
Example C14_nonvacuous :
  request_ok ex_req /\
  exists o, form_select true true ex_req = Ok o /\ sql_lex (fst o) = snd o /\
            In (TStr (s2l " OR 1=1 --")) (snd o) /\ In (TId (s2l "count(*) from secrets --")) (snd o) /\
            In (TId (s2l "(select password from users limit 1)")) (snd o).
Proof.
  split; [repeat split; repeat constructor|]. eexists. split; [vm_compute; reflexivity|].
  split; [vm_compute; reflexivity|]. repeat split; vm_compute; tauto.
Qed.
Example C14_ident_nonvacuous :
  sql_lex (sql_ident (s2l "a"" OR 1=1 --") ++ s2l " FROM x") = [TId (s2l "a"" OR 1=1 --"); TWord (s2l "FROM"); TWord (s2l "x")].
Proof. vm_compute. reflexivity. Qed.
Example C14_filter_nonvacuous :
  filters_ok old_filters /\ exists o, where_clause true old_filters = Ok o /\
     fst o = s2l "WHERE (""name"" = 'x''') AND (""city"" = ' OR 1=1 --')".
Proof. split; [repeat constructor|]. eexists. split; vm_compute; reflexivity. Qed.
Example C14_insert_nonvacuous :
  fst (form_insert true (s2l "u") (s2l "t") [s2l "a""b"; s2l "c"]) = s2l "INSERT INTO ""u"".""t""(""a""""b"",""c"") VALUES ($1,$2)".
Proof. vm_compute. reflexivity. Qed.
Example C14_update_nonvacuous :
  exists o, form_update true false (s2l "u") (s2l "t") [s2l "a"] true old_filters = Ok o /\
    fst o = s2l "UPDATE ""t"" SET ""a""=$1 WHERE (""name"" = 'x''') AND (""city"" = ' OR 1=1 --') AND ""_row_id_"" = $2".
Proof. eexists. split; vm_compute; reflexivity. Qed.

(* ------------------------------------------------------------------ the meaning of filters (Sem.v) *)
(* The statement of the property for filters: the rows the generated WHERE clause selects are exactly the rows
   that satisfy every filter under its documented (three-valued) meaning.  It was false for the generator before the
   repair, which wrote HAS(...) lists without parentheses (C14_filter_meaning_old_refuted); C14_filter_rows proves
   it for all well formed filters. *)
Definition C14_meaning_statement : Prop :=
  forall fs r, fs <> [] -> sql_selects r (where_ast fs) = forallb (selects r) fs.

(* where the missing parentheses do not matter (safe_where, computable): same three-valued result ... *)
Theorem C14_filter_meaning_partial :
  forall fs r, safe_where fs = true ->
    truth (eval_sql r (where_ast fs)) = fold_right and3 (Some true) (List.map (eval_filter r) fs).
Proof. intros fs r H. exact (where_meaning r fs H). Qed.

(* ... hence exactly the documented rows are read, updated or deleted; NULLs included (a comparison with NULL is
   unknown on both sides, a missing column reads as NULL on both sides) *)
Theorem C14_filter_rows_partial :
  forall fs r, safe_where fs = true -> sql_selects r (where_ast fs) = forallb (selects r) fs.
Proof. intros fs r H. exact (where_selects r fs H). Qed.

(* With the repaired generator (multi-value HAS / HASALL lists in parentheses) no precedence guard is needed:
   for every non-empty list of well formed filters (AND / OR of two or more, HAS / HASALL with at least one
   value), every row, NULLs included *)
Theorem C14_filter_meaning :
  forall fs r, fs <> [] -> forallb wf fs = true ->
    truth (eval_sql r (where_ast fs)) = fold_right and3 (Some true) (List.map (eval_filter r) fs).
Proof. exact filter_meaning. Qed.
Theorem C14_filter_rows :
  forall fs r, fs <> [] -> forallb wf fs = true -> sql_selects r (where_ast fs) = forallb (selects r) fs.
Proof. exact filter_rows. Qed.

(* the generator before the repair: AND(EQ(a,1), HAS(foo,'x','y')) was written
   ("a" = 1) AND POSITION('x' IN "foo") > 0 OR POSITION('y' IN "foo") > 0: a row with a = 2 and foo = 'zzy' was selected
   although the filter does not hold (where_ast_old is what SQL's grammar makes of the old text); the repaired text
   does not select it *)
Theorem C14_filter_meaning_old_refuted :
  wf bad_filter = true /\
  selects bad_row bad_filter = false /\ sql_selects bad_row (where_ast_old [bad_filter]) = true /\
  parse_where (sql_lex (fst (gen_where_old [bad_filter]))) = Some (where_ast_old [bad_filter]) /\
  sql_selects bad_row (where_ast [bad_filter]) = false /\
  parse_where (sql_lex (fst (gen_where [bad_filter]))) = Some (where_ast [bad_filter]).
Proof. exact meaning_old_refuted. Qed.

(* the text written for a filter list (any filters, no NUL bytes) lexes to its template *)
Theorem C14_gen_where_confined :
  forall fs, Forall filter_ok fs -> sql_lex (fst (gen_where fs)) = snd (gen_where fs).
Proof. exact gen_where_confined. Qed.

Definition ex_filters : list filter :=
  [FOr [FCmp CLt (OCol (s2l "age")) (OInt 18); FNot (FCmp CGe (OCol (s2l "name")) (OStr (s2l "M'")));
        FHas false (s2l "city") [s2l "o"; s2l "x"]];
   FHas true (s2l "name") [s2l "a"; s2l "r"]; FNot (FHas false (s2l "city") [s2l "q"; s2l "z"]); FNot (FIsNull (s2l "city"))].
Definition ex_row : trow := [(s2l "id", VInt 2); (s2l "name", VText (s2l "Mary")); (s2l "city", VText (s2l "Rome")); (s2l "age", VNull)].
Example C14_meaning_nonvacuous :
  ex_filters <> [] /\ forallb wf ex_filters = true /\ safe_where ex_filters = true /\ Forall filter_ok ex_filters /\
  forallb (selects ex_row) ex_filters = true /\ sql_selects ex_row (where_ast ex_filters) = true /\
  parse_where (sql_lex (fst (gen_where ex_filters))) = Some (where_ast ex_filters) /\
  eval_filter ex_row (FCmp CLt (OCol (s2l "age")) (OInt 18)) = None.
Proof. split; [discriminate|]. split; [reflexivity|]. split; [reflexivity|]. split; [repeat constructor|]. vm_compute. repeat split. Qed.

(* ------------------------------------------------------------------ from the text to the expression (SemParse.v) *)
(* For filters whose parts are all atoms (comparisons, null tests, AND / OR lists, NOT, single-value HAS / HASALL):
   lexing the generated WHERE text with SQLite's tokenizer and parsing it with SQL's precedence gives where_ast *)
Theorem C14_where_parses_partial :
  forall fs, fs <> [] -> forallb atomic fs = true -> Forall filter_ok fs ->
    parse_where2 (sql_lex (fst (gen_where fs))) = Some (where_ast fs).
Proof. exact where_text_parses. Qed.

(* ... so for these filters the TEXT handed to the database means what the filters are documented to mean:
   it parses to an expression that selects, on every row (NULLs included), exactly the rows every filter selects *)
Theorem C14_filter_text_meaning_partial :
  forall fs, fs <> [] -> forallb atomic fs = true -> Forall filter_ok fs ->
    exists e, parse_where2 (sql_lex (fst (gen_where fs))) = Some e /\
              forall r, sql_selects r e = forallb (selects r) fs.
Proof. exact text_meaning. Qed.

Definition ex_atomic : list filter :=
  [FOr [FCmp CLt (OCol (s2l "age")) (OInt (-18)); FNot (FNot (FCmp CGe (OInt 3) (OStr (s2l "M'"))));
        FAnd [FHas false (s2l "city") [s2l "o"]; FIsNull (s2l "age")]];
   FHas true (s2l "name") [s2l "a"]; FNot (FIsNull (s2l "city"))].
Example C14_parses_nonvacuous :
  ex_atomic <> [] /\ forallb atomic ex_atomic = true /\ Forall filter_ok ex_atomic /\
  parse_where (sql_lex (fst (gen_where ex_atomic))) = parse_where2 (sql_lex (fst (gen_where ex_atomic))) /\
  forallb (selects ex_row) ex_atomic = true.
Proof. split; [discriminate|]. split; [reflexivity|]. split; [repeat constructor|]. vm_compute. split; reflexivity. Qed.

(* the same for every well formed filter list, multi-value HAS / HASALL included (they are parenthesised now) *)
Theorem C14_where_parses :
  forall fs, fs <> [] -> forallb wf fs = true -> Forall filter_ok fs ->
    parse_where2 (sql_lex (fst (gen_where fs))) = Some (where_ast fs).
Proof. exact where_text_parses_wf. Qed.
Theorem C14_filter_text_meaning :
  forall fs, fs <> [] -> forallb wf fs = true -> Forall filter_ok fs ->
    exists e, parse_where2 (sql_lex (fst (gen_where fs))) = Some e /\
              forall r, sql_selects r e = forallb (selects r) fs.
Proof. exact text_meaning_wf. Qed.
Example C14_text_meaning_nonvacuous :
  forallb wf ex_filters = true /\ Forall filter_ok ex_filters /\
  parse_where2 (sql_lex (fst (gen_where ex_filters))) = Some (where_ast ex_filters) /\
  fst (gen_where [bad_filter]) = s2l "WHERE ((""a"" = 1)  AND  (POSITION('x' IN ""foo"") > 0 OR POSITION('y' IN ""foo"") > 0))".
Proof. split; [reflexivity|]. split; [repeat constructor|]. vm_compute. split; reflexivity. Qed.
