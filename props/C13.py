"""C13 `ego test` isolates each test (compiler/testing.go wrapper + splitter, bytecode capture/Say)."""
import os
import re
import vf

GROUP = "TestIso"
META = {
    "group": GROUP,
    "technique": "Coq proofs over a model of the per-test wrapper's output routing and of the test splitter + vm_compute correspondence with the real `ego test` on generated test files",
    "text": "C13_each_test_reported / C13_verdicts: for every list of tests with any mix of outcomes (pass, run-time failure, compile failure) and printed text, the terminal shows for each test, in order, its own output and exactly one status line with its own verdict, and the capture/console state is restored after every test (induction over the test list on the model of Console/BeginCapture/EndCapture/Print/Say as emitted by compileTestBody). C13_split_exact_partial: the splitter returns exactly the tests of the file when every body is brace-delimitable; the unguarded statement is refuted (C13_split_refuted: an unmatched brace swallows the later tests — recorded known finding). The model is compared event-for-event with the real `ego test` output. partial: the VM's try/catch dispatch, the compiler's handling of the body and @fail are observed through the real binary, not modelled.",
    "note": "Trusted: Coq kernel; the hand-written model of the wrapper's emitted sequence and of collectTestBodyTokens (no @compile eof= regions) tied to the code by the correspondence run on the real binary; the Python tokenisation of generated sources into {, }, @, test tokens.",
}

KINDS = ["pass", "pass_print", "fail_assert", "fail_assert_print", "fail_index", "fail_div", "comp_bal", "pass_bare",
         "pass_nested", "fail_nested", "comp_paren", "comp_bracket", "comp_directive", "fail_undefined", "comp_type", "pass_type"]
UNBAL = ["comp_open", "comp_close"]


def body(kind, i, ctx=None):
    """ctx: per-file dict; a non-compiling test that declared a type must not leak the name to a later test"""
    ctx = ctx if ctx is not None else {}
    p = 'fmt.Println("out%03d")' % i
    if kind == "comp_type":
        ctx["tname"] = "Tleak%03d" % i
        return "{\n  type %s struct { a int }\n  x := \n}" % ctx["tname"]
    if kind == "pass_type":
        tn = ctx.pop("tname", "Tonly%03d" % i)
        return "{\n  type %s struct { a int }\n  v := %s{a: %d}\n  @assert v.a == %d\n}" % (tn, tn, i, i)
    B = {
        "pass": "{\n  @assert 1 == 1\n}",
        "pass_print": "{\n  %s\n  @assert true\n}" % p,
        "fail_assert": "{\n  @assert 1 == 2\n}",
        "fail_assert_print": "{\n  %s\n  @assert 1 == 2\n}" % p,
        "fail_index": "{\n  a := []int{1}\n  b := a[3]\n  @assert b == 0\n}",
        "fail_div": "{\n  z := 0\n  y := 10 / z\n  @assert y == 0\n}",
        "comp_bal": "{\n  x := \n}",
        "pass_bare": "@assert 2 == 2",
        "pass_nested": "{\n  if true {\n    for k := 0; k < 2; k = k + 1 {\n      @assert k < 2\n    }\n  }\n}",
        "fail_nested": "{\n  if true {\n    %s\n    if 1 == 1 {\n      @assert false\n    }\n  }\n}" % p,
        "comp_paren": "{\n  x := (1 + 2\n}",
        "comp_bracket": "{\n  a := []int{1,2}\n  b := a[1\n}",
        "comp_directive": "{\n  @compile block unknown=true {\n    q := 1\n    @assert q == 1\n  } catch (e) {\n    pring \"typo, not a statement\"\n  }\n}",
        "fail_undefined": "{\n  @assert neverDefinedAnywhere%d == 1\n}" % i,
        "comp_open": "{\n  if true {\n  @assert true\n}",
        "comp_close": "{\n  @assert true\n}\n}",
    }
    return B[kind]


def outcome(kind, i):
    """(model outcome constructor text, expects print id or None, verdict)"""
    pr = "[%d%%N]" % i
    if kind in ("pass", "pass_bare", "pass_nested", "pass_type"):
        return "Pass []", True
    if kind == "pass_print":
        return "Pass %s" % pr, True
    if kind in ("fail_assert", "fail_index", "fail_div", "fail_undefined"):
        return "RunFail []", False
    if kind in ("fail_assert_print", "fail_nested"):
        return "RunFail %s" % pr, False
    return "CompFail", False


def toks(src):
    out = []
    for m in re.finditer(r'@|\{|\}|"t(\d+)"|"[^"]*"|\w+|\S', src):
        t = m.group(0)
        if t == "@":
            out.append("TDir")
        elif t == "test":
            out.append("TTest")
        elif t == "{":
            out.append("TOpen")
        elif t == "}":
            out.append("TClose")
        elif m.group(1):
            out.append("TOther %d" % (1000 + int(m.group(1))))
        else:
            out.append("TOther 0")
    return out


def parse_output(text):
    """real terminal output -> encoded events [1,n | 2,k | 3,n,b | 4,n], summary count"""
    ev, total, last = [], None, None
    for line in text.split("\n"):
        m = re.match(r"TEST: t(\d+)\s+\((PASS|FAIL|OUTPUT)\)", line)
        if m:
            n = int(m.group(1))
            if m.group(2) == "OUTPUT":
                ev += [1, n]
            else:
                ev += [3, n, 1 if m.group(2) == "PASS" else 0]
                last = n
            continue
        m = re.match(r"TEST: Completed a total of (\d+) tests", line)
        if m:
            total = int(m.group(1))
            continue
        m = re.match(r"out(\d+)$", line.strip())
        if m:
            ev += [2, int(m.group(1))]
            continue
        if line.startswith("       Error:"):
            ev += [4, last if last is not None else 0]
    return ev, total


def run(ck):
    quick = ck.tier == "quick"
    ck.cov["rule"] = ("test files of 2-7 tests; each test drawn from %s, and with probability 0.15 per file one test from %s "
                      "(unbalanced braces); the real `ego test` output is parsed into events (OUTPUT header, printed text, "
                      "PASS/FAIL status, Error line). distinct_nontrivial = distinct files (by their kind sequence) "
                      "containing at least one failing test followed by another test" % (KINDS, UNBAL))
    ck.assume("the VM delivers a run-time error inside a test body to the wrapper's catch handler and a compile error as a Signal (observed on the real binary, not modelled)",
              "@compile eof= regions and @fail are outside the model")
    ck.trusted("props/C13.py (generator, tokenisation into brace/@/test tokens, output parser)", "the ego binary built from the working tree")
    ck.coq_stage(GROUP, theorems=["C13_each_test_reported", "C13_verdicts", "C13_split_exact_partial", "C13_split_refuted", "C13_old_refuted"])
    ok, ego = vf.build_ego()
    if not ok:
        ck.violation("ego-build", "the ego binary does not build:\n" + ego[-1500:], replay={"log": ego[-3000:]}, found_input=False)
        return
    env = vf.ego_env(ck.work)
    nfiles = 40 if quick else 400
    files = []
    if ck.replay_file:
        import json
        rp = json.load(open(ck.replay_file))["replay"]
        files = [rp["kinds"]] if "kinds" in rp else []
    corpus = [["pass", "fail_assert", "pass"], ["fail_index", "pass_print"], ["comp_bal", "fail_div", "pass"],
              ["fail_assert_print", "fail_assert_print", "pass_print"], ["pass", "comp_open", "pass", "fail_assert"],
              ["comp_close", "pass"], ["pass_bare", "fail_nested", "pass_bare", "pass_nested"],
              ["pass", "comp_directive", "fail_undefined", "pass"], ["pass_type", "comp_type", "pass", "pass_type", "comp_type", "fail_assert", "pass_type"], ["comp_paren", "pass", "comp_bracket", "pass_print", "fail_undefined", "pass"]]
    if not files:
        files = list(corpus)
        while len(files) < nfiles:
            ks = [ck.rng.choice(KINDS) for _ in range(ck.rng.randint(2, 7))]
            if ck.rng.random() < 0.15:
                ks[ck.rng.randrange(len(ks))] = ck.rng.choice(UNBAL)
            files.append(ks)
    cases = []
    nontriv = set()
    base = 0
    paths = []
    for fi, ks in enumerate(files):
        ctx = {}
        src = "\n".join('@test "t%03d"\n%s' % (base + i + 1, body(k, base + i + 1, ctx)) for i, k in enumerate(ks)) + "\n"
        path = os.path.join(ck.work, "f%03d.ego" % fi)
        open(path, "w").write(src)
        paths.append(path)
        cases.append({"kinds": ks, "src": src, "base": base, "events": [], "total": None})
        base += len(ks)
        if any(outcome(k, 0)[1] is False for k in ks[:-1]):
            nontriv.add(tuple(ks))
    # one process runs every file (each file is compiled and run on its own by `ego test`)
    # `ego test` takes a limited number of file arguments: run the files in chunks of 50 (each file is compiled
    # and run on its own anyway) and add the summaries up
    out, allev, grand_total = "", [], 0
    for k in range(0, len(paths), 50):
        rc, o = vf.sh([ego, "test"] + paths[k:k + 50], env=env, cwd=ck.work, timeout=900)
        ev, tot = parse_output(o)
        out += o + "\n"
        allev += ev
        grand_total = None if (grand_total is None or tot is None) else grand_total + tot
    if "panic:" in out or ("goroutine " in out and "runtime." in out):
        ck.violation("ego-test-go-panic", "`ego test` died with a Go panic", replay={"files": [c["kinds"] for c in cases], "output": out[-2000:]})
    j = 0
    while j < len(allev):
        w = 3 if allev[j] == 3 else 2
        n = allev[j + 1]
        for c in cases:
            if c["base"] < n <= c["base"] + len(c["kinds"]):
                c["events"] += allev[j:j + w]
                break
        j += w
    for c in cases:
        c["raw"] = "\n".join(l for l in out.split("\n") if re.search(r"t(\d+)", l) and any(
            c["base"] < int(x) <= c["base"] + len(c["kinds"]) for x in re.findall(r"t(\d{3})", l)))
    ck.cov["evaluations"] = len(cases)
    ck.cov["distinct_nontrivial"] = len(nontriv)
    ck.cov["input_distribution"] = {"files": len(cases), "tests": sum(len(c["kinds"]) for c in cases),
                                    "with_unbalanced_body": sum(1 for c in cases if any(k in UNBAL for k in c["kinds"])),
                                    "kinds": {k: sum(c["kinds"].count(k) for c in cases) for k in KINDS + UNBAL}}
    for c in cases[:2] + cases[-2:]:
        ck.sample({"kinds": c["kinds"], "real_events": c["events"]})

    # ---- property oracle on the real output: every test reported exactly once with its own verdict
    for c in cases:
        ks = c["kinds"]
        st = {}
        ev = c["events"]
        j = 0
        while j < len(ev):
            if ev[j] == 3:
                st.setdefault(ev[j + 1], []).append(ev[j + 2])
                j += 3
            else:
                j += 2
        unbal = [i for i, k in enumerate(ks) if k in UNBAL]
        for i, k in enumerate(ks):
            want = 1 if outcome(k, 0)[1] else 0
            got = st.get(c["base"] + i + 1, [])
            if got == [want]:
                continue
            if unbal and i >= unbal[0]:
                sig = "unbalanced-brace-swallows-later-tests"
                if i == unbal[0] and got == [0]:
                    continue
            else:
                sig = "test-not-reported-with-own-result"
            ck.violation(sig, "file with tests %s: test %d (%s) reported %s, want exactly one %s line (summary: %s tests)" % (
                ks, i + 1, k, got, "PASS" if want else "FAIL", grand_total), replay={"kinds": ks, "source": c["src"], "output": c["raw"][-1500:]})
            break

    # ---- correspondence: model split + model wrapper vs real events
    if getattr(ck, "coq_broken", None):
        return
    defs = ["From TestIso Require Import Model.", "Open Scope N_scope.",
            "Definition enc (e : event) : list N := match e with EHeader n => [1; n] | EText s => 2 :: s | EStatus n b => [3; n; if b then 1 else 0] | EError n => [4; n] end.",
            "Definition name_of (t : tok * list tok) : N := match fst t with TOther n => n - 1000 | _ => 0 end.",
            "Definition model (toks : list tok) (oc : N -> outcome) : list N * N :=",
            "  let ts := split toks in (flat_map enc (term (run_all (map (fun t => (name_of t, oc (name_of t))) ts))), N.of_nat (length ts)).",
            "Definition chk (c : list tok * (N -> outcome) * list N) : bool :=",
            "  let '(tk, oc, ev) := c in str_eqb (fst (model tk oc)) ev.",
            "Fixpoint idx (i : nat) (l : list (list tok * (N -> outcome) * list N)) : list nat :=",
            "  match l with [] => [] | c :: r => (if chk c then [] else [i]) ++ idx (S i) r end."]
    cs = []
    for c in cases:
        ks = c["kinds"]
        unbal = [i for i, k in enumerate(ks) if k in UNBAL]
        oc = "fun n => " + " ".join("if n =? %d then %s else" % (c["base"] + i + 1, outcome(k, c["base"] + i + 1)[0]) for i, k in enumerate(ks)) + " CompFail"
        tk = "[" + ";".join(toks(c["src"])) + "]"
        cs.append("(%s, (%s), %s)" % (tk, oc, vf.vN(c["events"])))
    head = list(defs)
    mism, count = [], 0
    for k in range(0, len(cs), 60):
        part = head + ["Definition cases := [\n%s\n]." % ";\n".join(cs[k:k + 60])]
        ok, r = vf.coq_eval(GROUP, ck.work, "cases%d" % k, "\n".join(part), {
            "MISM": "idx 0 cases", "COUNT": "[fold_left N.add (map (fun c => snd (model (fst (fst c)) (snd (fst c)))) cases) 0]"})
        if not ok:
            ck.violation("correspondence-eval", "model evaluation failed:\n" + r[-1500:], replay={"log": r[-3000:]}, found_input=False)
            return
        mism += [k + i for i in r["MISM"]]
        count += r["COUNT"][0] if r["COUNT"] else 0
    r = {"MISM": mism, "COUNT": [count]}
    ck.cov["traces_validated_against_impl"] = len(cases)
    if not any(v["signature"] not in ("unbalanced-brace-swallows-later-tests",) for v in ck.viol):
        if r["COUNT"] != [grand_total if grand_total is not None else -1]:
            ck.violation("corr-total", "model predicts %s tests in total, `ego test` summary says %s" % (r["COUNT"], grand_total),
                         replay={"files": [c["kinds"] for c in cases], "correspondence": "number of tests"}, found_input=False)
        for i in r["MISM"][:3]:
            ck.violation("corr-events", "model and real `ego test` disagree on file %s: real events %s, total %s" % (
                cases[i]["kinds"], cases[i]["events"], grand_total),
                replay={"kinds": cases[i]["kinds"], "source": cases[i]["src"], "output": cases[i]["raw"][-1500:],
                        "correspondence": "TestIso.Model split/run_all vs ego test"}, found_input=False)
