#!/bin/sh
# usage: tools_mutcheck.sh <patch.diff> <Cxx> [more Cxx…] — apply a seeded change in a scratch worktree, run the checks there, clean up
P=$1; shift
W=/tmp/mutchk-$$
git -C /repo worktree add --detach -q "$W" HEAD || exit 2
cp /repo/internal/cli/app/lib.zip "$W/internal/cli/app/"; cp /repo/internal/i18n/messages.go "$W/internal/i18n/"; cp /repo/go.sum "$W/"
if ! git -C "$W" apply "$P"; then echo "PATCH DOES NOT APPLY"; git -C /repo worktree remove --force "$W"; exit 3; fi
for c in "$@"; do
  (cd /verif && VERIF_REPO="$W" ./check "$c" 2>&1 | grep -E "^VIOLATION|OK tier|FAILED tier" | awk '/^VIOLATION/{n++; if(n<=3) print; next} {print}')
done
git -C /repo worktree remove --force "$W"
H=$(python3 -c "import hashlib,sys; print(hashlib.sha1(sys.argv[1].encode()).hexdigest()[:8])" "$W"); rm -rf "/verif/.build/bin-$H" 2>/dev/null
