//go:build verif

package auth

// Overlaid into /repo/internal/server/auth by /verif/check C31.  Runs every history on BOTH real user
// stores (file: JSON file in a temp dir; database: SQLite file through internal/resources) and prints
// the answers of each.
//
// VERIF_IN : one JSON object per line {"id":n,"cap":k (AuthCache capacity, 0 = default),"ops":[{"op":"write","user":{...}} | {"op":"delete","name":..} |
//            {"op":"read","name":..} | {"op":"list","mask":bool} | {"op":"perms","name":..} |
//            {"op":"setperm","name":..,"priv":..,"on":bool} | {"op":"haspriv","name":..,"priv":..} |
//            {"op":"flush"} | {"op":"reopen"} | {"op":"cachedrop"}]}
// VERIF_OUT: {"id":n,"file":[answer...],"db":[answer...]}   answer = {"err":bool,"found":bool,"user":{..},"users":[..],"perms":[..],"nilperms":bool,"yes":bool}

import (
	"bufio"
	"encoding/json"
	"os"
	"path/filepath"
	"sort"
	"testing"

	"github.com/google/uuid"
	"github.com/tucats/ego/internal/caches"
	"github.com/tucats/ego/internal/defs"
)

type v31User struct {
	Name        string   `json:"name"`
	ID          string   `json:"id"`
	Password    string   `json:"password"`
	Permissions []string `json:"permissions"`
	NilPerms    bool     `json:"nilperms"`
	Passkeys    string   `json:"passkeys"`
	LastTokenAt string   `json:"last"`
}

type v31Op struct {
	Op   string   `json:"op"`
	User *v31User `json:"user"`
	Name string   `json:"name"`
	Priv string   `json:"priv"`
	On   bool     `json:"on"`
	Mask bool     `json:"mask"`
}

type v31History struct {
	ID  int     `json:"id"`
	Cap int     `json:"cap"` // capacity of the AuthCache for this history (0 = default 1000)
	Ops []v31Op `json:"ops"`
}

type v31Answer struct {
	Err      bool      `json:"err"`
	Found    bool      `json:"found"`
	User     *v31User  `json:"user,omitempty"`
	Users    []v31User `json:"users,omitempty"`
	Perms    []string  `json:"perms"`
	NilPerms bool      `json:"nilperms"`
	Yes      bool      `json:"yes"`
}

func v31From(u defs.User) v31User {
	p := u.Permissions
	if p == nil {
		p = []string{}
	}

	return v31User{Name: u.Name, ID: u.ID.String(), Password: u.Password, Permissions: append([]string{}, p...),
		NilPerms: u.Permissions == nil, Passkeys: string(u.Passkeys), LastTokenAt: u.LastTokenAt}
}

func (v *v31User) to() defs.User {
	id, _ := uuid.Parse(v.ID)
	u := defs.User{Name: v.Name, ID: id, Password: v.Password, LastTokenAt: v.LastTokenAt}

	if !v.NilPerms {
		u.Permissions = append([]string{}, v.Permissions...)
	}

	if v.Passkeys != "" {
		u.Passkeys = json.RawMessage(v.Passkeys)
	}

	return u
}

func v31Run(t *testing.T, ops []v31Op, open func() (userIOService, error)) []v31Answer {
	caches.Purge(caches.AuthCache)

	svc, err := open()
	if err != nil {
		t.Fatalf("open: %v", err)
	}

	out := []v31Answer{}

	dead := false

	for _, op := range ops {
		AuthService = svc
		a := v31Answer{Perms: []string{}}

		if dead {
			a.Err = true
			out = append(out, a)

			continue
		}

		switch op.Op {
		case "write":
			a.Err = svc.WriteUser(0, op.User.to()) != nil
		case "delete":
			a.Err = svc.DeleteUser(0, op.Name) != nil
		case "read":
			u, err := svc.ReadUser(0, op.Name, true)
			a.Found = err == nil

			if err == nil {
				x := v31From(u)
				a.User = &x
			}
		case "list":
			m := svc.ListUsers(op.Mask)
			a.Users = []v31User{}

			for k, u := range m {
				x := v31From(u)
				if k != u.Name {
					x.Name = k + "\x00" + u.Name
				}

				a.Users = append(a.Users, x)
			}

			sort.Slice(a.Users, func(i, j int) bool { return a.Users[i].Name < a.Users[j].Name })
		case "perms":
			p := GetPermissions(0, op.Name)
			a.NilPerms = p == nil
			a.Perms = append([]string{}, p...)
		case "haspriv":
			a.Yes = GetPermission(0, op.Name, op.Priv)
		case "setperm":
			a.Err = setPermission(0, op.Name, op.Priv, op.On) != nil
		case "flush":
			a.Err = svc.Flush() != nil
		case "cachedrop":
			caches.Purge(caches.AuthCache)
		case "reopen":
			a.Err = svc.Close() != nil
			caches.Purge(caches.AuthCache)

			nsvc, err := open()
			if err != nil {
				// the store cannot be reopened: report it as the answer of this and of every later operation
				t.Logf("reopen failed: %v", err)

				a.Err = true
				dead = true
			} else {
				svc = nsvc
			}
		default:
			t.Fatalf("bad op %q", op.Op)
		}

		out = append(out, a)
	}

	if !dead {
		_ = svc.Close()
	}

	caches.Purge(caches.AuthCache)

	return out
}

func TestVerifC31(t *testing.T) {
	in, err := os.Open(os.Getenv("VERIF_IN"))
	if err != nil {
		t.Fatal(err)
	}
	defer in.Close()

	outf, err := os.Create(os.Getenv("VERIF_OUT"))
	if err != nil {
		t.Fatal(err)
	}
	defer outf.Close()

	w := bufio.NewWriter(outf)
	defer w.Flush()

	dir := t.TempDir()
	sc := bufio.NewScanner(in)
	sc.Buffer(make([]byte, 1<<22), 1<<22)

	n := 0

	for sc.Scan() {
		var h v31History
		if err := json.Unmarshal(sc.Bytes(), &h); err != nil {
			t.Fatalf("bad history: %v", err)
		}

		n++

		// the caches are (re-)created with caches.MaxCacheSize after every purge; v31Run purges first
		if h.Cap > 0 {
			caches.MaxCacheSize = h.Cap
		} else {
			caches.MaxCacheSize = 1000
		}

		sub := filepath.Join(dir, "h"+uuid.NewString())
		_ = os.MkdirAll(sub, 0o700)

		fpath := filepath.Join(sub, "users.json")
		dpath := filepath.Join(sub, "users.db")

		fa := v31Run(t, h.Ops, func() (userIOService, error) { return NewFileService(fpath, "admin", "secret") })
		da := v31Run(t, h.Ops, func() (userIOService, error) { return NewDatabaseService("sqlite://"+dpath, "admin", "secret") })

		_ = os.RemoveAll(sub)

		b, _ := json.Marshal(map[string]any{"id": h.ID, "file": fa, "db": da})
		w.Write(b)
		w.WriteString("\n")
	}
}
