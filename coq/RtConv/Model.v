(* RtConv/Model.v — model of the Ego <-> Go value conversion of native pass-through calls
   (internal/language/bytecode/callNative.go: convertToNative, makeNativeArrayArgument, convertFromNative,
   convertFromNativeArray), of the Roman-numeral wrappers (internal/runtime/strconv/roman.go) and of the glue
   of the base64 and sort wrappers.  Definitions only. *)
From Common Require Export Base.
From Coq Require Export Permutation Sorted.
Open Scope Z_scope.

Inductive kind := KInt | KInt16 | KUInt16 | KInt32 | KInt64 | KBool | KByte | KFloat32 | KFloat64 | KString | KUInt32 | KIface.
Definition kind_eqb (a b : kind) : bool :=
  match a, b with
  | KInt, KInt | KInt16, KInt16 | KUInt16, KUInt16 | KInt32, KInt32 | KInt64, KInt64 | KBool, KBool | KByte, KByte
  | KFloat32, KFloat32 | KFloat64, KFloat64 | KString, KString | KUInt32, KUInt32 | KIface, KIface => true
  | _, _ => false
  end.

(* scalars: integers carry their kind, floats are opaque bit patterns (NaN payloads, -0, Inf included) *)
Inductive sv := VInt (k : kind) (z : Z) | VBool (b : bool) | VFloat (k : kind) (bits : Z) | VStr (s : str).
Definition kind_of (v : sv) : kind :=
  match v with VInt k _ => k | VBool _ => KBool | VFloat k _ => k | VStr _ => KString end.

Definition in_range (k : kind) (z : Z) : bool :=
  match k with
  | KInt | KInt64 => (-9223372036854775808 <=? z) && (z <=? 9223372036854775807)
  | KInt32 => (-2147483648 <=? z) && (z <=? 2147483647)
  | KInt16 => (-32768 <=? z) && (z <=? 32767)
  | KUInt16 => (0 <=? z) && (z <=? 65535)
  | KUInt32 => (0 <=? z) && (z <=? 4294967295)
  | KByte => (0 <=? z) && (z <=? 255)
  | _ => false
  end.

(* a well-formed scalar of kind k *)
Definition has_kind (k : kind) (v : sv) : bool :=
  match v with
  | VInt k' z => kind_eqb k k' && in_range k z
  | VBool _ => kind_eqb k KBool
  | VFloat k' _ => kind_eqb k k' && (kind_eqb k KFloat32 || kind_eqb k KFloat64)
  | VStr _ => kind_eqb k KString
  end.

Inductive res (A : Type) := Ok (a : A) | Err.
Arguments Ok {A} a. Arguments Err {A}.

(* data.Int / data.Int32 / ... / data.Bool applied to a value that already has the wanted kind: the value
   itself; data.String never fails (it formats), other cross-kind coercions are an error class here *)
Definition coerce (k : kind) (v : sv) : res sv :=
  if has_kind k v then Ok v else Err.

Inductive ev := EScalar (v : sv) | EArray (k : kind) (elems : list sv).            (* Ego values *)
Inductive gv := GScalar (v : sv) | GSlice (k : kind) (elems : list sv) | GMulti (l : list gv).   (* Go values *)

Fixpoint coerce_all (k : kind) (l : list sv) : res (list sv) :=
  match l with
  | [] => Ok []
  | v :: r => match coerce k v with
              | Err => Err
              | Ok v' => match coerce_all k r with Err => Err | Ok r' => Ok (v' :: r') end
              end
  end.

(* element kinds makeNativeArrayArgument converts from an Ego array *)
Definition to_native_kinds : list kind := [KInt; KInt16; KUInt16; KInt32; KBool; KByte; KFloat32; KFloat64; KInt64; KString].
(* element kinds convertFromNativeArray converts back *)
Definition from_native_kinds : list kind := [KIface; KBool; KByte; KInt; KInt16; KUInt16; KInt32; KInt64; KFloat32; KFloat64; KString].
Definition kmem (k : kind) (l : list kind) : bool := existsb (kind_eqb k) l.

Definition to_native (v : ev) : res gv :=
  match v with
  | EScalar s => Ok (GScalar s)
  | EArray k elems =>
      if kmem k to_native_kinds then
        match coerce_all k elems with Ok l => Ok (GSlice k l) | Err => Err end
      else Err                                              (* ErrInvalidType *)
  end.

Definition from_native (g : gv) : res ev :=
  match g with
  | GScalar s => Ok (EScalar s)
  | GSlice k elems => if kmem k from_native_kinds then Ok (EArray k elems) else Err   (* ErrWrongArrayValueType *)
  | GMulti _ => Err                                          (* handled by push_multi *)
  end.

(* convertToNative over the argument list.  fx = false: the code before the repair kept only the LAST
   argument's conversion error *)
Fixpoint args_old (params : list kind) (args : list sv) (acc : list sv) (err : bool) : res (list sv) :=
  match params, args with
  | k :: ps, a :: r =>
      match coerce k a with
      | Ok v => args_old ps r (acc ++ [v]) false
      | Err => args_old ps r (acc ++ [VInt KInt 0]) true         (* zero value stays in the slot *)
      end
  | _, _ => if err then Err else Ok acc
  end.
Fixpoint args_new (params : list kind) (args : list sv) : res (list sv) :=
  match params, args with
  | k :: ps, a :: r =>
      match coerce k a with
      | Ok v => match args_new ps r with Ok l => Ok (v :: l) | Err => Err end
      | Err => Err
      end
  | _, _ => Ok []
  end.
Definition to_native_args (fx : bool) (params : list kind) (args : list sv) : res (list sv) :=
  if fx then args_new params args else args_old params args [] false.

(* multi-value results: convertFromNative pushes reverseInterfaces(list) one by one; head of list = top of stack *)
Definition push_multi {A} (l : list A) (stack : list A) : list A := fold_left (fun st x => x :: st) (rev l) stack.

(* a native pass-through call as the VM performs it *)
Definition wrapper (f : gv -> gv) (arg : ev) : res ev :=
  match to_native arg with Err => Err | Ok g => from_native (f g) end.

(* ------------------------------------------------------------------ Roman numerals (strconv.Itor / Rtoi) *)
Open Scope N_scope.
Definition roman_table : list (N * str) :=
  [(1000, [77]); (900, [67;77]); (500, [68]); (400, [67;68]); (100, [67]); (90, [88;67]); (50, [76]); (40, [88;76]);
   (10, [88]); (9, [73;88]); (5, [86]); (4, [73;86]); (1, [73])].
Fixpoint roman_fmt (fuel : nat) (n : N) (tbl : list (N * str)) : str :=
  match fuel with
  | O => []
  | S f => match tbl with
           | [] => []
           | (v, s) :: r => if v <=? n then s ++ roman_fmt f (n - v) tbl else roman_fmt f n r
           end
  end.
(* doIntToRoman: range check, then the library *)
Definition itor (n : Z) : option str :=
  if ((n <? 1) || (3999 <? n))%Z then None else Some (roman_fmt 40 (Z.to_N n) roman_table).

Definition roman_val (c : N) : option N :=
  if c =? 73 then Some 1 else if c =? 86 then Some 5 else if c =? 88 then Some 10 else if c =? 76 then Some 50
  else if c =? 67 then Some 100 else if c =? 68 then Some 500 else if c =? 77 then Some 1000 else None.
(* value of a numeral read left to right: a symbol smaller than its successor is subtracted *)
Fixpoint roman_eval (s : str) : option N :=
  match s with
  | [] => Some 0
  | c :: r =>
      match roman_val c, roman_eval r with
      | Some v, Some rest =>
          match r with
          | d :: _ => match roman_val d with
                      | Some w => if v <? w then Some (rest - v) else Some (rest + v)
                      | None => None
                      end
          | [] => Some v
          end
      | _, _ => None
      end
  end.
Definition to_upper (c : N) : N := if (97 <=? c) && (c <=? 122) then c - 32 else c.
Definition is_space (c : N) : bool := (c =? 32) || ((9 <=? c) && (c <=? 13)).
Fixpoint ltrim (s : str) : str := match s with c :: r => if is_space c then ltrim r else s | [] => [] end.
Definition trim (s : str) : str := rev (ltrim (rev (ltrim s))).
(* doRomanToInt on the numerals Itor can print (plus case and surrounding blanks); validation of other
   spellings is the library's and is not modelled *)
Definition rtoi (s : str) : option N :=
  let t := trim (map to_upper s) in
  match t with [] => Some 0 | _ => roman_eval t end.

(* ------------------------------------------------------------------ sort wrappers: which Go function the glue reaches *)
Open Scope Z_scope.
Inductive gosortfn := GoSlice | GoSliceStable | GoStable | GoSort | GoInts | GoStrings | GoFloat64s | GoSearch | GoOther.
Definition go_is_stable (f : gosortfn) : bool := match f with GoSliceStable | GoStable => true | _ => false end.
(* Ego entries that promise stability: "SliceStable", "Stable" *)
Definition name_SliceStable : str := [83; 108; 105; 99; 101; 83; 116; 97; 98; 108; 101]%N.
Definition name_Stable : str := [83; 116; 97; 98; 108; 101]%N.
Definition ego_stable_name (n : str) : bool := str_eqb n name_SliceStable || str_eqb n name_Stable.
(* one row of the regenerated table: Ego name, Go sort functions its wrapper reaches (go/ast over the package) *)
Definition row_ok (r : str * list gosortfn) : bool :=
  if ego_stable_name (fst r) then (match snd r with [] => false | _ => true end) && forallb go_is_stable (snd r) else true.
Definition table_ok (tbl : list (str * list gosortfn)) : bool := forallb row_ok tbl.
Definition has_row (n : str) (tbl : list (str * list gosortfn)) : bool := existsb (fun r => str_eqb (fst r) n) tbl.
(* equal keys keep their input order *)
Definition keep_order (key : sv -> Z) (l out : list sv) : Prop :=
  forall k, filter (fun x => key x =? k) out = filter (fun x => key x =? k) l.
