From TestIso Require Import Model.
From Coq Require Import ZifyBool.
Open Scope Z_scope.

(* ---------------------------------------------------------------- A *)
Definition hd_not_test (l : list tok) : bool := match l with TTest :: _ => false | _ => true end.

Lemma at_test_app t r rest : at_test (t :: r) = false -> hd_not_test rest = true -> at_test ((t :: r) ++ rest) = false.
Proof.
  intros H Hh. destruct t; try reflexivity. destruct r as [|x r']; cbn [app].
  - destruct rest as [|y rest']; [reflexivity|]. destruct y; try reflexivity. discriminate.
  - destruct x; try reflexivity. cbn in H. discriminate.
Qed.

Lemma collect_body : forall b d rest, hd_not_test rest = true ->
  boundary_free b d = true -> depth_of b d = 0 -> (rest = [] \/ at_test rest = true) ->
  collect (b ++ rest) d = (b, rest).
Proof.
  induction b as [|t r IH]; intros d rest Hh Hb Hd Hr.
  - cbn in Hd. subst d. cbn [app]. destruct Hr as [->|Hr]; [reflexivity|].
    destruct rest as [|x rest']; [discriminate|]. cbn [collect]. rewrite Hr. reflexivity.
  - cbn [boundary_free] in Hb. apply andb_true_iff in Hb as [Hb1 Hb2].
    change ((t :: r) ++ rest) with (t :: (r ++ rest)). cbn [collect].
    assert (Hc : (d =? 0) && at_test (t :: r ++ rest) = false).
    { destruct (Z.eqb_spec d 0) as [->|]; [|reflexivity]. cbn [andb] in *.
      apply negb_true_iff in Hb1. change (t :: r ++ rest) with ((t :: r) ++ rest). apply at_test_app; assumption. }
    rewrite Hc.
    assert (Hd' : depth_of r (match t with TOpen => d + 1 | TClose => d - 1 | _ => d end) = 0)
      by (destruct t; exact Hd).
    rewrite (IH _ rest Hh Hb2 Hd' Hr). reflexivity.
Qed.

Lemma concat_render_head tests : hd_not_test (concat (map render tests)) = true /\
  (concat (map render tests) = [] \/ at_test (concat (map render tests)) = true).
Proof. destruct tests as [|[n b] ts]; cbn; auto. Qed.

Lemma split_tests_exact : forall tests fuel, (length tests <= fuel)%nat -> forallb good_test tests = true ->
  split_tests fuel (concat (map render tests)) = tests.
Proof.
  induction tests as [|[name body] ts IH]; intros fuel Hf Hg.
  - destruct fuel; reflexivity.
  - destruct fuel as [|f]; [cbn in Hf; lia|].
    cbn [forallb] in Hg. apply andb_true_iff in Hg as [Hg1 Hg2].
    unfold good_test, closed_body in Hg1. cbn [snd] in Hg1. apply andb_true_iff in Hg1 as [Hb Hd].
    apply Z.eqb_eq in Hd.
    cbn [map concat render fst snd app split_tests].
    destruct (concat_render_head ts) as [Hh Hr].
    rewrite (collect_body body 0 _ Hh Hb Hd Hr).
    rewrite IH; [reflexivity| cbn in Hf; lia | exact Hg2].
Qed.

Lemma length_concat_render tests : (length tests <= length (concat (map render tests)))%nat.
Proof. induction tests as [|[n b] ts IH]; cbn [map concat render length fst snd app]; [lia|]. rewrite app_length. lia. Qed.

Theorem split_exact tests : forallb good_test tests = true -> split (concat (map render tests)) = tests.
Proof. intros H. unfold split. apply split_tests_exact; [apply length_concat_render|exact H]. Qed.

Theorem split_refuted : exists tests, split (concat (map render tests)) <> tests.
Proof. exists [(TOther 1, [TOpen]); (TOther 2, [TOpen; TClose])]. vm_compute. discriminate. Qed.

(* ---------------------------------------------------------------- B *)
Definition clean (s : st) : Prop :=
  out s = TStdout /\ cbuf s = None /\ caps s = [] /\ vstack s = [] /\ broken s = false.

Lemma run_test_step s t : clean s -> clean (run_test s t) /\ term (run_test s t) = term s ++ expected t.
Proof.
  intros (Ho & Hc & Hk & Hv & Hb). destruct s as [o c k tm v b]. cbn in Ho, Hc, Hk, Hv, Hb. subst.
  destruct t as [name [p|p|]]; try destruct p as [|x p]; cbn; unfold clean; cbn;
    rewrite <- ?app_assoc; repeat split; reflexivity.
Qed.

Lemma run_all_from : forall ts s, clean s ->
  clean (fold_left run_test ts s) /\ term (fold_left run_test ts s) = term s ++ concat (map expected ts).
Proof.
  induction ts as [|t ts IH]; intros s Hs; cbn [fold_left map concat].
  - rewrite app_nil_r. auto.
  - destruct (run_test_step s t Hs) as [Hc Ht]. destruct (IH _ Hc) as [Hc' Ht'].
    split; [exact Hc'|]. rewrite Ht', Ht, <- app_assoc. reflexivity.
Qed.

Lemma clean0 : clean st0. Proof. repeat split. Qed.

Theorem reported ts : clean (run_all ts) /\ term (run_all ts) = concat (map expected ts).
Proof. destruct (run_all_from ts st0 clean0) as [H1 H2]. split; [exact H1|exact H2]. Qed.

Lemma statuses_app a b : statuses (a ++ b) = statuses a ++ statuses b.
Proof. unfold statuses. apply flat_map_app. Qed.

Lemma statuses_expected t : statuses (expected t) = [verdict t].
Proof. destruct t as [name [p|p|]]; try destruct p; reflexivity. Qed.

Theorem each_reported_once ts : statuses (term (run_all ts)) = map verdict ts.
Proof.
  destruct (reported ts) as [_ ->]. induction ts as [|t ts IH]; [reflexivity|].
  cbn [map concat]. rewrite statuses_app, statuses_expected, IH. reflexivity.
Qed.

Theorem old_refuted : exists ts, statuses (term (run_all_old ts)) <> map verdict ts.
Proof. exists [(1%N, Pass []); (2%N, RunFail []); (3%N, Pass [])]. vm_compute. discriminate. Qed.
