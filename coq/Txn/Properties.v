(* Txn/Properties.v — property theorems of C17 only; proofs live in Proofs.v. *)
From Txn Require Import Model Proofs.
Open Scope Z_scope.

(* The full statement: for every SQLite state space and statement semantics, every way the request
   can be stopped before the loop, every task list with every outcome of every operation and of
   every error condition, and either outcome of the commit: after the handler returns no
   transaction is open, nothing is pending, the handle is closed; it answers 200 exactly when all
   operations ran clean and the commit worked, and then the durable state is the initial state with
   every operation applied - otherwise the durable state is the initial state.
   The status guards say: operation handlers and database.Open never pair an error with status 200
   (observed on the real code on every run), and the client did not itself ask for status 200 on
   a tripped error condition. *)
Definition C17_statement (X : shape) : Prop :=
  forall (St : Type) (eff : nat -> St -> St) p ts commit_ok cst init,
    pre_status_ok p = true -> forallb task_status_ok ts = true -> clamp cst <> 200 ->
    let r := handler St eff X p ts commit_ok cst init in
    tx (r_db r) <> TOpen /\ working (r_db r) = None /\ r_closed r = true
    /\ (r_status r = 200 <-> succeeds p ts commit_ok = true)
    /\ durable (r_db r) = (if succeeds p ts commit_ok then apply_all St eff ts init else init).

(* for EVERY shape of the source in which each failure exit of the Begin...Commit region is
   preceded by a rollback, the commit-error exit does not reuse the last operation's status and a
   failed commit does not leave the wrapper's Transaction pointer set *)
Theorem C17_exits_closed : forall X, shape_closed X = true -> C17_statement X.
Proof. intros X HX St eff. exact (exits_closed St eff X HX). Qed.

(* the repaired tree (the check re-derives the shape from the current source and compares) *)
Theorem C17_all_or_nothing : C17_statement fixed_shape.
Proof. exact (C17_exits_closed fixed_shape fixed_closed). Qed.

(* the tree before the repair: one operation whose error condition fails to evaluate leaves the
   transaction open and the handle unclosed ... *)
Theorem C17_old_refuted_open :
  let r := handler (list nat) log_eff old_shape PreOk [mkTask 0 OpOk [CEvalErr]] true 500 [] in
  tx (r_db r) = TOpen /\ r_closed r = false /\ r_status r = 400.
Proof. exact old_refuted_open. Qed.

(* ... and a failed commit answers 200 although nothing was applied, and the handle stays open *)
Theorem C17_old_refuted_commit :
  let r := handler (list nat) log_eff old_shape PreOk [mkTask 0 OpOk []] false 500 [] in
  r_status r = 200 /\ durable (r_db r) = [] /\ apply_all (list nat) log_eff [mkTask 0 OpOk []] [] <> []
  /\ r_closed r = false.
Proof. exact old_refuted_commit. Qed.

(* a source in which one operation's statement goes to the bare handle instead of the transaction: the
   request reports failure and rolls back, but that statement's effect is durable - not all-or-nothing *)
Theorem C17_bypass_refuted :
  let r := handler (list nat) log_eff bypass_shape PreOk [mkTask 7 OpOk []; mkTask 8 (OpFail 404) []] true 500 [] in
  r_status r = 404 /\ durable (r_db r) = [7%nat] /\ tx (r_db r) = TRolledBack.
Proof. exact bypass_refuted. Qed.

(* non-vacuity: the guards hold on a three-operation request whose second operation trips a
   condition with a client-chosen status, and the conclusion is the interesting one *)
Example C17_nonvacuous :
  let ts := [mkTask 0 OpOk [CBlank; CFalse]; mkTask 1 OpOk [CFalse; CTrue 418]; mkTask 2 (OpFail 404) []] in
  pre_status_ok PreOk = true /\ forallb task_status_ok ts = true /\ clamp 409 <> 200 /\
  observe fixed_shape PreOk ts true 409 = [418; 3; 1; 0] /\
  observe fixed_shape PreOk [mkTask 0 OpOk []; mkTask 1 OpOk [CFalse]] true 409 = [200; 2; 1; 2] /\
  observe fixed_shape PreOk [mkTask 0 OpOk []; mkTask 1 OpOk [CFalse]] false 409 = [409; 3; 1; 0].
Proof. vm_compute. repeat split; congruence. Qed.
