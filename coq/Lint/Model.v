(* Lint/Model.v — C35: langlint's parse / render / Format (tools/langlint/lint.go) and the
   localization compiler's compileFile (tools/lang/compile.go), over strings as lists of
   Unicode code points (files are valid UTF-8; Go's byte-wise string order is then the code
   point order).  Definitions only.

   [fx : bool] selects the code: true = as repaired (section headers recognised on the trimmed
   line like the compiler does, entries sorted and duplicates detected by the trimmed key),
   false = as found (raw line / raw key). *)
From Common Require Import Base.
Open Scope N_scope.

(* ---- Go library pieces *)
Definition is_space (c : N) : bool :=        (* unicode.IsSpace *)
  ((9 <=? c) && (c <=? 13)) || (c =? 32) || (c =? 133) || (c =? 160) || (c =? 5760) ||
  ((8192 <=? c) && (c <=? 8202)) || (c =? 8232) || (c =? 8233) || (c =? 8239) || (c =? 8287) || (c =? 12288).

Fixpoint drop_while (p : N -> bool) (s : str) : str :=
  match s with [] => [] | c :: r => if p c then drop_while p r else s end.
Definition ltrim (s : str) : str := drop_while is_space s.
Definition rtrim (s : str) : str := rev (drop_while is_space (rev s)).
Definition trim (s : str) : str := ltrim (rtrim s).                          (* strings.TrimSpace *)
Definition strip_cr (s : str) : str := rev (drop_while (N.eqb 13) (rev s)).  (* strings.TrimRight(s, "\r") *)

Definition starts_with (c : N) (s : str) : bool := match s with x :: _ => x =? c | [] => false end.
Definition ends_with (c : N) (s : str) : bool := starts_with c (rev s).
Definition middle (s : str) : str := removelast (tl s).                       (* s[1:len(s)-1] *)

(* strings.Split(s, "\n"): never empty *)
Fixpoint split_nl (s : str) : list str :=
  match s with
  | [] => [[]]
  | c :: r => if c =? 10 then [] :: split_nl r
              else match split_nl r with l :: ls => (c :: l) :: ls | [] => [[c]] end
  end.

(* split at the first '=' *)
Fixpoint cut_eq (s : str) : option (str * str) :=
  match s with
  | [] => None
  | c :: r => if c =? 61 then Some ([], r)
              else match cut_eq r with Some (k, v) => Some (c :: k, v) | None => None end
  end.

Fixpoint str_ltb (a b : str) : bool :=       (* Go's < on strings *)
  match a, b with
  | _, [] => false
  | [], _ :: _ => true
  | x :: a', y :: b' => if x <? y then true else if y <? x then false else str_ltb a' b'
  end.

(* ---- the compiler: compileFile's line loop *)
Inductive cline := CSkip | CHeader (p : str) | CEntry (k m : str) | CPanic.

Definition cclass (raw : str) : cline :=
  if starts_with 35 raw then CSkip else                    (* '#' tested before trimming *)
  let t := trim raw in
  match t with
  | [] => CSkip
  | c :: _ =>
    if c =? 91 then (if ends_with 93 t then CHeader (middle t) else CPanic)
    else match cut_eq t with
         | None => CPanic
         | Some (k, m) => CEntry (trim k) m
         end
  end.

Definition full_key (p k : str) : str := match p with [] => k | _ => p ++ [46] ++ k end.

Definition table := list (str * str).          (* newest definition first *)
Definition cstate := (str * table)%type.       (* current prefix, definitions so far *)

Definition cstep (st : cstate) (raw : str) : option cstate :=
  match cclass raw with
  | CSkip => Some st
  | CHeader p => Some (p, snd st)
  | CEntry k m => Some (fst st, (full_key (fst st) k, m) :: snd st)
  | CPanic => None
  end.

Definition compile_lines (ls : list str) (st : cstate) : option cstate :=
  fold_left (fun acc l => match acc with Some s => cstep s l | None => None end) ls (Some st).

(* every definition the compiler executes, newest first; None = the compiler panics *)
Definition compile_defs (f : str) : option table := option_map snd (compile_lines (split_nl f) ([], [])).

Fixpoint lookup (k : str) (t : table) : option str :=
  match t with [] => None | (k', m) :: r => if str_eqb k' k then Some m else lookup k r end.

(* the compiled key-to-message table is [lookup _ defs] (last definition wins) *)
Definition table_eq (a b : table) : Prop := forall k, lookup k a = lookup k b.

(* ---- langlint *)
Inductive lline := LBlank | LComment (l : str) | LHeader (h : str) | LEntry (k v : str) | LBad.

Definition lclass (fx : bool) (raw : str) : lline :=
  let line := strip_cr raw in
  match trim line with
  | [] => LBlank
  | c :: _ =>
    if starts_with 35 line then LComment line
    else if (if fx then c =? 91 else starts_with 91 line) then
      let h := if fx then trim line else line in
      if ends_with 93 h then LHeader (middle h) else LBad
    else match cut_eq line with
         | None => LBad
         | Some ([], _) => LBad
         | Some (k, v) => LEntry k v
         end
  end.

Inductive block :=
| BComment (ls : list str)
| BSection (has_header : bool) (header : str) (es : list (str * str)).   (* entries in file order *)

(* parse state: blocks newest first (the head is Go's cur), currentPrefix, full keys seen (newest first) *)
Definition pstate := (list block * str * list str)%type.

Definition dup_key (fx : bool) (k : str) : str := if fx then trim k else k.

Definition pstep (fx : bool) (st : pstate) (raw : str) : option pstate :=
  match st with (bs, cp, seen) =>
    match lclass fx raw with
    | LBlank => Some st
    | LBad => None
    | LComment l =>
        match bs with
        | BComment ls :: r => Some (BComment (ls ++ [l]) :: r, cp, seen)
        | _ => Some (BComment [l] :: bs, cp, seen)
        end
    | LHeader h => Some (BSection true h [] :: bs, h, seen)
    | LEntry k v =>
        match bs with
        | BSection hh h es :: r => Some (BSection hh h (es ++ [(k, v)]) :: r, cp, full_key h (dup_key fx k) :: seen)
        | _ => Some (BSection false cp [(k, v)] :: bs, cp, full_key cp (dup_key fx k) :: seen)
        end
    end
  end.

Definition parse (fx : bool) (f : str) : option pstate :=
  fold_left (fun acc l => match acc with Some s => pstep fx s l | None => None end) (split_nl f) (Some ([], [], [])).

(* stable sort by key (what sort.SliceStable computes) *)
Definition sort_key (fx : bool) (e : str * str) : str := if fx then trim (fst e) else fst e.
Fixpoint insert_e (fx : bool) (x : str * str) (l : list (str * str)) : list (str * str) :=
  match l with
  | [] => [x]
  | y :: r => if str_ltb (sort_key fx y) (sort_key fx x) then y :: insert_e fx x r else x :: l
  end.
Definition sort_e (fx : bool) (l : list (str * str)) : list (str * str) := fold_right (insert_e fx) [] l.

Definition entry_line (e : str * str) : str := fst e ++ [61] ++ snd e.
Definition block_lines (fx : bool) (b : block) : list str :=
  match b with
  | BComment ls => ls
  | BSection hh h es => (if hh then [[91] ++ h ++ [93]] else []) ++ map entry_line (sort_e fx es)
  end.
(* one blank line before every block but the first *)
Fixpoint blocks_lines (fx : bool) (bs : list block) : list str :=
  match bs with
  | [] => []
  | b :: r => block_lines fx b ++ match r with [] => [] | _ => [] :: blocks_lines fx r end
  end.
Definition join_lines (ls : list str) : str := flat_map (fun l => l ++ [10]) ls.
Definition render (fx : bool) (bs : list block) : str := join_lines (blocks_lines fx bs).

Definition Format_gen (fx : bool) (f : str) : option str :=
  match parse fx f with Some (bs, _, _) => Some (render fx (rev bs)) | None => None end.

Fixpoint count_str (k : str) (l : list str) : nat :=
  match l with [] => O | x :: r => (if str_eqb x k then 1 else 0) + count_str k r end.
(* keys langlint reports as duplicates *)
Definition reported_gen (fx : bool) (f : str) (k : str) : bool :=
  match parse fx f with Some (_, _, seen) => Nat.ltb 1 (count_str k seen) | None => false end.
Fixpoint dedup (l : list str) : list str :=
  match l with [] => [] | x :: r => if existsb (str_eqb x) r then dedup r else x :: dedup r end.
Definition dup_count_gen (fx : bool) (f : str) : nat :=
  match parse fx f with
  | Some (_, _, seen) => length (filter (fun k => Nat.ltb 1 (count_str k seen)) (dedup seen))
  | None => O
  end.

Definition Format := Format_gen true.
Definition Format_old := Format_gen false.
Definition reported := reported_gen true.
Definition reported_old := reported_gen false.

(* number of times the compiler defines key k while compiling f *)
Definition defs_of (f : str) (k : str) : nat :=
  match compile_defs f with Some t => count_str k (map fst t) | None => O end.

(* ---- evaluation helpers for the correspondence *)
Definition opt_str_eqb (a b : option str) : bool :=
  match a, b with Some x, Some y => str_eqb x y | None, None => true | _, _ => false end.
(* the model's definitions give exactly the observed key -> message map *)
Definition table_matches (t : table) (obs : list (str * str)) : bool :=
  forallb (fun p => opt_str_eqb (lookup (fst p) t) (Some (snd p))) obs &&
  forallb (fun p => existsb (fun q => str_eqb (fst q) (fst p)) obs) t.
Definition compile_matches (f : str) (obs : option (list (str * str))) : bool :=
  match compile_defs f, obs with
  | Some t, Some o => table_matches t o
  | None, None => true
  | _, _ => false
  end.
Definition same_table (a b : option table) : bool :=
  match a, b with
  | Some x, Some y => forallb (fun p => opt_str_eqb (lookup (fst p) x) (lookup (fst p) y)) (x ++ y)
  | None, None => true
  | _, _ => false
  end.
