(* JsMin/Model.v — executable model of internal/util/javascript/minify.go (token level):
   tokenize, stripComments, collectLocals, renameLocals (name generator, rename map, apply loop
   with shorthand expansion), emit / needsSep.  Definitions only; proofs are in Proofs.v.
   Strings are lists of bytes.  The flag [fx] selects the repaired code (true) or the code
   before fix 'minifier keeps template-literal names ...' (false), kept for the _old witnesses. *)
From Common Require Export Base.
From Coq Require Import String Ascii.
Open Scope N_scope.

Definition s2l (s : string) : str := map N_of_ascii (list_ascii_of_string s).

Definition tok := (N * str)%type.     (* kind, value *)
Definition tkWS := 0. Definition tkLine := 1. Definition tkBlock := 2. Definition tkString := 3.
Definition tkTemplate := 4. Definition tkRegex := 5. Definition tkNumber := 6.
Definition tkIdent := 7. Definition tkPunct := 8.

Definition mem (x : str) (l : list str) : bool := existsb (str_eqb x) l.
Definition add (x : str) (l : list str) : list str := if mem x l then l else l ++ [x].

Definition reserved_list : list str := map s2l
  ["arguments"; "as"; "async"; "await"; "break"; "case"; "catch"; "class"; "const"; "continue";
   "debugger"; "default"; "delete"; "do"; "else"; "export"; "extends"; "false"; "finally"; "for";
   "from"; "function"; "get"; "if"; "import"; "in"; "instanceof"; "let"; "new"; "null"; "of";
   "return"; "set"; "static"; "super"; "switch"; "this"; "throw"; "true"; "try"; "typeof";
   "undefined"; "var"; "void"; "while"; "with"; "yield";
   "Array"; "Boolean"; "console"; "Date"; "document"; "Error"; "eval"; "Function"; "Infinity";
   "JSON"; "Map"; "Math"; "NaN"; "Number"; "Object"; "Promise"; "Proxy"; "Reflect"; "RegExp";
   "Set"; "String"; "Symbol"; "TypeError"; "WeakMap"; "WeakRef"; "WeakSet"; "window";
   "globalThis"; "parseInt"; "parseFloat"; "isNaN"; "isFinite"; "decodeURI"; "encodeURI";
   "decodeURIComponent"; "encodeURIComponent"; "Uint8Array";
   "constructor"; "length"; "prototype"; "toString"; "valueOf"; "hasOwnProperty"]%string.
Definition reserved (x : str) : bool := mem x reserved_list.

(* ------------------------------------------------------------------ character classes *)
Definition is_ws (c : N) : bool := (c =? 32) || (c =? 9) || (c =? 13) || (c =? 10).
Definition is_ident_start (c : N) : bool :=
  ((97 <=? c) && (c <=? 122)) || ((65 <=? c) && (c <=? 90)) || (c =? 95) || (c =? 36).
Definition is_ident_cont (c : N) : bool := is_ident_start c || is_digit c.
Definition num_char (c : N) : bool :=
  is_digit c || (c =? 46) || (c =? 95) || (c =? 101) || (c =? 69) || (c =? 120) || (c =? 88) ||
  (c =? 98) || (c =? 66) || (c =? 111) || (c =? 79) || (c =? 110) ||
  ((97 <=? c) && (c <=? 102)) || ((65 <=? c) && (c <=? 70)).

Fixpoint span (p : N -> bool) (s : str) : str * str :=
  match s with
  | [] => ([], [])
  | c :: r => if p c then let '(a, b) := span p r in (c :: a, b) else ([], s)
  end.

(* ------------------------------------------------------------------ tokenizer *)
Definition regex_kw : list str := map s2l ["return"; "typeof"; "instanceof"; "in"; "of"; "new"; "delete"; "throw"; "void"; "case"]%string.
Definition regex_punct : list str := map s2l ["="; "("; "["; "!"; "&"; "&&"; "|"; "||"; "?"; ":"; ","; ";"; "{"; "}"; "=>"; "??"]%string.

(* [rout] is the token list so far, most recent first *)
Fixpoint is_regex_ctx (rout : list tok) : bool :=
  match rout with
  | [] => true
  | (k, v) :: r =>
      if k =? tkWS then is_regex_ctx r
      else if k =? tkIdent then
        mem v regex_kw
      else if k =? tkPunct then
        mem v regex_punct
      else false
  end.

(* quoted string / template body after the opening quote: (taken, rest, overrun).
   overrun: a backslash was the last byte, Go's j runs one past the end of the source *)
Fixpoint scan_q (q : N) (s acc : str) : str * str * bool :=
  match s with
  | [] => (rev acc, [], false)
  | c :: r =>
      if c =? 92 then
        match r with
        | [] => (rev (c :: acc), [], true)
        | d :: r' => scan_q q r' (d :: c :: acc)
        end
      else if c =? q then (rev (c :: acc), r, false)
      else scan_q q r (c :: acc)
  end.

Fixpoint scan_re (inclass : bool) (s acc : str) : str * str * bool :=
  match s with
  | [] => (rev acc, [], false)
  | c :: r =>
      if c =? 92 then
        match r with
        | [] => (rev (c :: acc), [], true)
        | d :: r' => scan_re inclass r' (d :: c :: acc)
        end
      else if c =? 91 then scan_re true r (c :: acc)
      else if c =? 93 then scan_re false r (c :: acc)
      else if (c =? 47) && negb inclass then
        let '(fl, rest) := span is_ident_cont r in (rev (c :: acc) ++ fl, rest, false)
      else scan_re inclass r (c :: acc)
  end.

Fixpoint scan_num (prev : N) (s acc : str) : str * str :=
  match s with
  | [] => (rev acc, [])
  | c :: r =>
      if num_char c then scan_num c r (c :: acc)
      else if ((c =? 43) || (c =? 45)) && ((prev =? 101) || (prev =? 69)) then scan_num c r (c :: acc)
      else (rev acc, s)
  end.

(* block comment body after "/*"; an unterminated comment stops one byte short of the end *)
Fixpoint scan_block (s acc : str) : str * str :=
  match s with
  | [] => (rev acc, [])
  | c :: r =>
      match r with
      | [] => (rev acc, s)
      | d :: r' => if (c =? 42) && (d =? 47) then (rev (d :: c :: acc), r') else scan_block r (c :: acc)
      end
  end.

Definition ops3 : list str := map s2l ["==="; "!=="; ">>>"; "**="; ">>="; "<<="; "&&="; "||="; "??="; "..."]%string.
Definition ops2 : list str := map s2l ["=="; "!="; ">="; "<="; "&&"; "||"; "++"; "--"; "+="; "-="; "*="; "/="; "%=";
                                     "**"; ">>"; "<<"; "??"; "=>"; "?."]%string.

(* one token from a non-empty source: (token, rest, overrun) *)
Definition lex_one (b : N) (r : str) (rout : list tok) : tok * str * bool :=
  if is_ws b then let '(v, rest) := span is_ws r in ((tkWS, b :: v), rest, false)
  else if (b =? 47) && (match r with c :: _ => c =? 47 | [] => false end) then
    let '(v, rest) := span (fun c => negb (c =? 10)) (tl r) in ((tkLine, 47 :: 47 :: v), rest, false)
  else if (b =? 47) && (match r with c :: _ => c =? 42 | [] => false end) then
    let '(v, rest) := scan_block (tl r) [] in ((tkBlock, 47 :: 42 :: v), rest, false)
  else if (b =? 39) || (b =? 34) then
    let '(v, rest, ov) := scan_q b r [] in ((tkString, b :: v), rest, ov)
  else if b =? 96 then
    let '(v, rest, ov) := scan_q 96 r [] in ((tkTemplate, b :: v), rest, ov)
  else if (b =? 47) && is_regex_ctx rout then
    let '(v, rest, ov) := scan_re false r [] in ((tkRegex, b :: v), rest, ov)
  else if is_digit b || ((b =? 46) && (match r with c :: _ => is_digit c | [] => false end)) then
    let '(v, rest) := scan_num b r [] in ((tkNumber, b :: v), rest, false)
  else if is_ident_start b then
    let '(v, rest) := span is_ident_cont r in ((tkIdent, b :: v), rest, false)
  else
    match r with
    | c :: d :: r' =>
        if mem [b; c; d] ops3 then ((tkPunct, [b; c; d]), r', false)
        else if mem [b; c] ops2 then ((tkPunct, [b; c]), d :: r', false)
        else ((tkPunct, [b]), r, false)
    | [c] => if mem [b; c] ops2 then ((tkPunct, [b; c]), [], false) else ((tkPunct, [b]), r, false)
    | [] => ((tkPunct, [b]), [], false)
    end.

Fixpoint lex_loop (fuel : nat) (s : str) (rout : list tok) (ov : bool) : list tok * bool :=
  match fuel with
  | O => (rout, ov)
  | S f =>
      match s with
      | [] => (rout, ov)
      | b :: r => let '(t, rest, o) := lex_one b r rout in lex_loop f rest (t :: rout) (ov || o)
      end
  end.

(* tokenize: token list in source order, and whether a scan ran past the end of the source
   (Go then slices beyond len(src): behaviour depends on the slice capacity) *)
Definition tokenize_ov (src : str) : list tok * bool :=
  let '(r, ov) := lex_loop (S (List.length src)) src [] false in (rev r, ov).
Definition tokenize (src : str) : list tok := fst (tokenize_ov src).

Definition strip_comments (ts : list tok) : list tok :=
  filter (fun t => negb ((fst t =? tkLine) || (fst t =? tkBlock))) ts.
Definition strip_ws (ts : list tok) : list tok := filter (fun t => negb (fst t =? tkWS)) ts.

(* ------------------------------------------------------------------ collectLocals *)
Definition is_p (t : tok) (v : string) : bool := (fst t =? tkPunct) && str_eqb (snd t) (s2l v).
Definition is_id (t : tok) : bool := fst t =? tkIdent.

Fixpoint skip_ws (ts : list tok) : list tok :=
  match ts with
  | t :: r => if fst t =? tkWS then skip_ws r else ts
  | [] => []
  end.

Fixpoint skip_init (depth : nat) (ts : list tok) : list tok :=
  match ts with
  | [] => []
  | t :: r =>
      if is_p t "(" || is_p t "[" || is_p t "{" then skip_init (S depth) r
      else if is_p t ")" || is_p t "]" || is_p t "}" then
        match depth with O => ts | S d => skip_init d r end
      else if is_p t "," || is_p t ";" then
        match depth with O => ts | _ => skip_init depth r end
      else skip_init depth r
  end.

(* collectParams: after the opening parenthesis; adds to [L]; returns the suffix after ')' *)
Fixpoint collect_params (depth : nat) (ts : list tok) (L : list str) : list tok * list str :=
  match ts with
  | [] => ([], L)
  | t :: r =>
      if is_p t "(" then collect_params (S depth) r L
      else if is_p t ")" then
        match depth with
        | O => (r, L)                       (* not reached: depth starts at 1 *)
        | S O => (r, L)
        | S d => collect_params d r L
        end
      else if is_id t && negb (reserved (snd t)) then collect_params depth r (add (snd t) L)
      else collect_params depth r L
  end.

(* destructuring pattern after the opening bracket, Go's own counter [nest] (an int) *)
Fixpoint decl_pattern (nest : Z) (ts : list tok) (T : list str) : list tok * list str :=
  match ts with
  | [] => ([], T)
  | t :: r =>
      if (nest <=? 0)%Z then (ts, T)
      else
        let nest' := if is_p t "{" || is_p t "[" then (nest + 1)%Z
                     else if is_p t "}" || is_p t "]" then (nest - 1)%Z else nest in
        let T' := if is_id t && (0 <? nest')%Z && negb (reserved (snd t)) then add (snd t) T else T in
        decl_pattern nest' r T'
  end.

(* the declarator loop after var/let/const; returns the suffix where the loop stopped *)
Fixpoint decl_loop (fuel : nat) (ts : list tok) (T : list str) : list tok * list str :=
  match fuel with
  | O => (ts, T)
  | S f =>
      match skip_ws ts with
      | [] => ([], T)
      | cur :: r =>
          let after :=
            if is_id cur && negb (reserved (snd cur)) then Some (r, add (snd cur) T)
            else if is_p cur "{" || is_p cur "[" then Some (decl_pattern 1 r T)
            else None in
          match after with
          | None => (cur :: r, T)
          | Some (ts1, T1) =>
              match skip_ws ts1 with
              | [] => ([], T1)
              | e :: r2 =>
                  let ts2 := if is_p e "=" then skip_init O r2 else e :: r2 in
                  match skip_ws ts2 with
                  | [] => ([], T1)
                  | c :: r3 => if is_p c "," then decl_loop f r3 T1 else (c :: r3, T1)
                  end
              end
          end
      end
  end.

Definition kw_decl_list : list str := map s2l ["var"; "let"; "const"]%string.
Definition kw_fun_list : list str := map s2l ["function"; "class"]%string.
Definition kw_decl (v : str) : bool := mem v kw_decl_list.
Definition kw_fun (v : str) : bool := mem v kw_fun_list.

Fixpoint collect (fuel : nat) (ts : list tok) (depth : N) (L F : list str) : list str * list str :=
  match fuel with
  | O => (L, F)
  | S f =>
      match ts with
      | [] => (L, F)
      | t :: r =>
          if fst t =? tkPunct then
            let depth' := if str_eqb (snd t) (s2l "{") then depth + 1
                          else if str_eqb (snd t) (s2l "}") then (if 0 <? depth then depth - 1 else depth)
                          else depth in
            collect f r depth' L F
          else if negb (is_id t) then collect f r depth L F
          else if kw_decl (snd t) then
            if depth =? 0 then let '(ts', F') := decl_loop (S (List.length r)) r F in collect f ts' depth L F'
            else let '(ts', L') := decl_loop (S (List.length r)) r L in collect f ts' depth L' F
          else if kw_fun (snd t) then
            match skip_ws r with
            | [] => (L, F)
            | nm :: r1 =>
                let named := is_id nm && negb (reserved (snd nm)) in
                let F' := if named && (depth =? 0) then add (snd nm) F else F in
                let ts1 := if named then skip_ws r1 else nm :: r1 in
                match ts1 with
                | [] => (L, F')
                | p :: r2 =>
                    if is_p p "(" then let '(ts', L') := collect_params 1 r2 L in collect f ts' depth L' F'
                    else collect f r2 depth L F'      (* the token at i is stepped over *)
                end
            end
          else collect f r depth L F
      end
  end.

Definition collect_locals (ts : list tok) : list str * list str :=
  collect (S (List.length ts)) ts 0 [] [].

(* ------------------------------------------------------------------ renameLocals *)
(* identifiersIn: identifier-like words of a template's text; [cur] = word in progress (reversed) *)
Fixpoint idents_in (s : str) (cur : option str) (acc : list str) : list str :=
  match s with
  | [] => match cur with Some w => acc ++ [rev w] | None => acc end
  | c :: r =>
      match cur with
      | Some w => if is_ident_cont c then idents_in r (Some (c :: w)) acc else idents_in r None (acc ++ [rev w])
      | None => if is_ident_start c then idents_in r (Some [c]) acc else idents_in r None acc
      end
  end.

Fixpoint has_subst (s : str) : bool :=      (* strings.Contains(s, "${") *)
  match s with
  | c :: r => match r with d :: _ => ((c =? 36) && (d =? 123)) || has_subst r | [] => false end
  | [] => false
  end.

Definition template_names (ts : list tok) : list str :=
  flat_map (fun t => if (fst t =? tkTemplate) && has_subst (snd t) then idents_in (snd t) None [] else []) ts.

(* the set of names renameLocals builds its map for *)
Definition renamable (fx : bool) (ts : list tok) : list str :=
  let '(L, F) := collect_locals ts in
  let L1 := filter (fun x => negb (mem x F)) L in
  if fx then filter (fun x => negb (mem x (template_names ts))) L1 else L1.

Definition idents_of (ts : list tok) : list str := map snd (filter is_id ts).

Definition gen_name (n : N) : str :=
  if n <? 26 then [97 + n] else (97 + (n - 26) mod 26) :: digits ((n - 26) / 26 + 1).

(* next() until the name is not in use; None = fuel exhausted (cannot happen, see Proofs) *)
Fixpoint find_fresh (fuel : nat) (n : N) (ex : list str) : option (str * N) :=
  match fuel with
  | O => None
  | S f => if mem (gen_name n) ex then find_fresh f (n + 1) ex else Some (gen_name n, n + 1)
  end.

(* [order] is the order in which Go's map iteration visits the locals *)
Fixpoint build_map (order : list str) (n : N) (ex : list str) : option (list (str * str)) :=
  match order with
  | [] => Some []
  | x :: r =>
      match find_fresh (S (List.length ex)) n ex with
      | None => None
      | Some (short, n') =>
          match build_map r n' (short :: ex) with
          | None => None
          | Some m => Some ((x, short) :: m)
          end
      end
  end.

Fixpoint lookup (x : str) (m : list (str * str)) : option str :=
  match m with
  | [] => None
  | (k, v) :: r => if str_eqb x k then Some v else lookup x r
  end.

Fixpoint first_nonws (ts : list tok) : option tok :=
  match ts with
  | t :: r => if fst t =? tkWS then first_nonws r else Some t
  | [] => None
  end.

Definition opt_is_p (o : option tok) (v : string) : bool := match o with Some t => is_p t v | None => false end.

Definition opens_kw : list str := map s2l ["return"; "let"; "const"; "var"; "in"; "of"; "typeof"; "case"; "new"; "delete";
                            "throw"; "void"; "yield"; "await"; "default"]%string.
Definition opens_not : list str := map s2l [")"; "]"; "}"; "{"; ";"; "=>"; "++"; "--"]%string.

(* opensObject (repaired code): does a brace after [rres] (output so far, reversed) open an object/pattern *)
Definition opens_object (rres : list tok) : bool :=
  match first_nonws rres with
  | None => false
  | Some t =>
      if is_id t then
        mem (snd t) opens_kw
      else if fst t =? tkPunct then
        negb (mem (snd t) opens_not)
      else false
  end.

Definition after_dot (rres : list tok) : bool :=
  opt_is_p (first_nonws rres) "." || opt_is_p (first_nonws rres) "?.".

Definition colon : tok := (tkPunct, s2l ":").

(* context stack: 123 = object brace, 66 = block brace, 40, 91 *)
Definition ctx_step (fx : bool) (t : tok) (rres : list tok) (ctx : list N) : list N :=
  if fst t =? tkPunct then
    if str_eqb (snd t) (s2l "{") then (if fx then (if opens_object rres then 123 else 66) else 123) :: ctx
    else if str_eqb (snd t) (s2l "(") then 40 :: ctx
    else if str_eqb (snd t) (s2l "[") then 91 :: ctx
    else if str_eqb (snd t) (s2l "}") || str_eqb (snd t) (s2l ")") || str_eqb (snd t) (s2l "]") then tl ctx
    else ctx
  else ctx.

(* what one token becomes; [rres] output so far (reversed), [rest] the input after the token *)
Definition rename_tok (m : list (str * str)) (ctx : list N) (rres : list tok) (t : tok) (rest : list tok) : list tok :=
  if negb (is_id t) then [t]
  else match lookup (snd t) m with
       | None => [t]
       | Some short =>
           if after_dot rres then [t]
           else
             let in_obj := match ctx with c :: _ => c =? 123 | [] => false end in
             let prev_ok := opt_is_p (first_nonws rres) "{" || opt_is_p (first_nonws rres) "," in
             if in_obj && prev_ok then
               if opt_is_p (first_nonws rest) ":" then [t]
               else if opt_is_p (first_nonws rest) "," || opt_is_p (first_nonws rest) "}" then [t; colon; (tkIdent, short)]
               else [(tkIdent, short)]
             else [(tkIdent, short)]
       end.

Fixpoint rename_loop (fx : bool) (m : list (str * str)) (ts : list tok) (ctx : list N) (rres : list tok)
  : list (list tok) :=
  match ts with
  | [] => []
  | t :: rest =>
      let ctx' := ctx_step fx t rres ctx in
      let o := rename_tok m ctx' rres t rest in
      o :: rename_loop fx m rest ctx' (rev o ++ rres)
  end.

(* per-token outputs of renameLocals; None = name search out of fuel (never, see Proofs) *)
Definition rename_outs (fx : bool) (order : list str) (ts : list tok) : option (list (list tok)) :=
  match order with
  | [] => Some (map (fun t => [t]) ts)
  | _ => match build_map order 0 (idents_of ts) with
         | None => None
         | Some m => Some (rename_loop fx m ts [] [])
         end
  end.

Definition rename_locals (fx : bool) (order : list str) (ts : list tok) : option (list tok) :=
  match rename_outs fx order ts with Some o => Some (List.concat o) | None => None end.

(* ------------------------------------------------------------------ emit *)
Definition last_char (s : str) : option N := match rev s with c :: _ => Some c | [] => None end.

Definition needs_sep (fx : bool) (left right : str) : bool :=
  match last_char left, right with
  | Some l, r :: _ =>
      (is_ident_cont l && is_ident_cont r) || ((l =? 43) && (r =? 43)) || ((l =? 45) && (r =? 45)) ||
      ((l =? 47) && (r =? 42)) ||
      (fx && (((l =? 47) && (r =? 47)) ||
              ((l =? 33) && (match right with a :: b :: _ => (a =? 45) && (b =? 45) | _ => false end))))
  | _, _ => false
  end.

Fixpoint emit_from (fx : bool) (lastv : str) (lastk : N) (ts : list tok) : str :=
  match ts with
  | [] => []
  | t :: r =>
      if fst t =? tkWS then emit_from fx lastv lastk r
      else
        let sep := needs_sep fx lastv (snd t) ||
                   (fx && (lastk =? tkNumber) && (match snd t with c :: _ => c =? 46 | [] => false end)) ||
                   (fx && (lastk =? tkRegex) && (match snd t with c :: _ => is_ident_cont c | [] => false end)) in
        (if sep then [32] else []) ++ snd t ++ emit_from fx (snd t) (fst t) r
  end.
Definition emit (fx : bool) (ts : list tok) : str := emit_from fx [] tkWS ts.

Definition minify0 (fx : bool) (src : str) : str := emit fx (strip_comments (tokenize src)).
Definition minify1 (fx : bool) (order : list str) (src : str) : option str :=
  match rename_locals fx order (strip_comments (tokenize src)) with
  | Some r => Some (emit fx r) | None => None end.

(* ------------------------------------------------------------------ helpers for the correspondence *)
Definition tok_eqb (a b : tok) : bool := (fst a =? fst b) && str_eqb (snd a) (snd b).
Fixpoint toks_eqb (a b : list tok) : bool :=
  match a, b with
  | [], [] => true
  | x :: a', y :: b' => tok_eqb x y && toks_eqb a' b'
  | _, _ => false
  end.
Definition subset (a b : list str) : bool := forallb (fun x => mem x b) a.
Definition set_eqb (a b : list str) : bool := subset a b && subset b a.
Definition relex_ok (fx : bool) (ts : list tok) : bool :=
  toks_eqb (strip_ws (tokenize (emit fx ts))) (strip_ws ts).

(* ------------------------------------------------------------------ correspondence helpers (not used in theorems) *)
Definition hP : N := 2305843009213693951.
Definition hash_str (h : N) (s : str) : N := fold_left (fun a c => (a * 257 + c + 1) mod hP) s h.
Definition hash_toks (ts : list tok) : N :=
  fold_left (fun a t => hash_str ((a * 257 + fst t + 1) mod hP * 257 mod hP + N.of_nat (List.length (snd t))) (snd t)) ts 7.
Definition hash_set (l : list str) : N := fold_left (fun a x => (a + hash_str 11 x) mod hP) l 0.

(* Rebuild the visiting order of Go's map iteration from the observed (name, short) pairs sorted by
   generator index: slots that are neither in use nor observed were given to a local that never
   occurs in a renamed position ([U], any order: unobservable). *)
Fixpoint order_of_obs (fuel : nat) (n : N) (obs : list (str * str)) (U ex : list str) : list str :=
  match fuel with
  | O => map fst obs ++ U
  | S f =>
      match obs with
      | [] => U
      | (x, sh) :: obs' =>
          if mem (gen_name n) ex then order_of_obs f (n + 1) obs U ex
          else if str_eqb (gen_name n) sh then x :: order_of_obs f (n + 1) obs' U ex
          else match U with
               | u :: U' => u :: order_of_obs f (n + 1) obs U' ex
               | [] => x :: order_of_obs f (n + 1) obs' U ex      (* inconsistent observation: will mismatch *)
               end
      end
  end.
Definition order_for (R : list str) (maxn : nat) (obs : list (str * str)) (ts : list tok) : list str :=
  order_of_obs maxn 0 obs (filter (fun x => negb (mem x (map fst obs))) R) (idents_of ts).
Fixpoint nodup_b (l : list str) : bool :=
  match l with [] => true | x :: r => negb (mem x r) && nodup_b r end.
