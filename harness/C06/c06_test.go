//go:build verif

package compiler

// Overlaid into /repo/internal/language/compiler by /verif/check C06.
// For every literal text L (hex encoded, one per input line "L <hex>") it reports
//   - what Go's own front end makes of it (go/scanner + go/constant): kind and value,
//   - what Ego's tokenizer makes of the text (token count, class, spelling),
//   - what convertRadixToDecimal returns for the first token,
//   - the value of v after running the Ego program "v := <literal>" in-process.
// Output line:  L <hex> | go <kind> <val> | tok <n> <class> <hexspelling> | cv <class> <hexspelling> | ego <kind> <val>

import (
	"bufio"
	"encoding/hex"
	"fmt"
	"go/constant"
	"go/scanner"
	"go/token"
	"math"
	"os"
	"strings"
	"testing"
	tscanner "text/scanner"

	"github.com/tucats/ego/internal/language/data"
	"github.com/tucats/ego/internal/language/symbols"
	"github.com/tucats/ego/internal/language/tokenizer"
)

func c06hex(s string) string {
	if s == "" {
		return "-"
	}

	return hex.EncodeToString([]byte(s))
}

func c06GoValue(lit string) string {
	var (
		s    scanner.Scanner
		errs int
	)

	fset := token.NewFileSet()
	file := fset.AddFile("x.go", fset.Base(), len(lit))
	s.Init(file, []byte(lit), func(pos token.Position, msg string) { errs++ }, 0)

	_, tok, text := s.Scan()
	_, tok2, t2 := s.Scan()

	if errs > 0 || !(tok2 == token.EOF || (tok2 == token.SEMICOLON && t2 == "\n")) {
		return "invalid -"
	}

	if tok2 == token.SEMICOLON {
		if _, tok3, _ := s.Scan(); tok3 != token.EOF || errs > 0 {
			return "invalid -"
		}
	}

	switch tok {
	case token.INT:
		v := constant.MakeFromLiteral(text, tok, 0)
		if v.Kind() != constant.Int {
			return "invalid -"
		}

		return "int " + v.ExactString()
	case token.CHAR:
		v := constant.MakeFromLiteral(text, tok, 0)
		if v.Kind() != constant.Int {
			return "invalid -"
		}

		return "rune " + v.ExactString()
	case token.STRING:
		v := constant.MakeFromLiteral(text, tok, 0)
		if v.Kind() != constant.String {
			return "invalid -"
		}

		return "string " + c06hex(constant.StringVal(v))
	case token.FLOAT:
		v := constant.MakeFromLiteral(text, tok, 0)
		if v.Kind() == constant.Unknown {
			return "invalid -"
		}

		f, _ := constant.Float64Val(v)
		if math.IsInf(f, 0) {
			return "invalid -"
		}

		return fmt.Sprintf("float %016x", math.Float64bits(f))
	case token.IMAG:
		v := constant.MakeFromLiteral(text, tok, 0)
		if v.Kind() == constant.Unknown {
			return "invalid -"
		}

		f, _ := constant.Float64Val(constant.Imag(v))
		if math.IsInf(f, 0) {
			return "invalid -"
		}

		return fmt.Sprintf("imag %016x", math.Float64bits(f))
	}

	return "invalid -"
}

func c06Value(v any) string {
	switch x := v.(type) {
	case int:
		return fmt.Sprintf("int %d", x)
	case int64:
		return fmt.Sprintf("int64 %d", x)
	case int32:
		return fmt.Sprintf("int32 %d", x)
	case byte:
		return fmt.Sprintf("byte %d", x)
	case float64:
		return fmt.Sprintf("float %016x", math.Float64bits(x))
	case float32:
		return fmt.Sprintf("float32 %016x", math.Float64bits(float64(x)))
	case complex128:
		if real(x) != 0 {
			return "complexre -"
		}

		return fmt.Sprintf("imag %016x", math.Float64bits(imag(x)))
	case string:
		return "string " + c06hex(x)
	case bool:
		return fmt.Sprintf("bool %v", x)
	case *data.Array:
		parts := []string{}
		for i := 0; i < x.Len(); i++ {
			e, _ := x.Get(i)
			parts = append(parts, fmt.Sprintf("%v", e))
		}

		return "array " + strings.Join(parts, ",") + ","
	case nil:
		return "nil -"
	}

	return fmt.Sprintf("other %T", v)
}

func c06Ego(lit string) (res string) {
	defer func() {
		if r := recover(); r != nil {
			res = "panic -"
		}
	}()

	s := symbols.NewRootSymbolTable("c06")
	if err := RunString("c06", s, "v := "+lit); err != nil {
		return "error -"
	}

	v, found := s.Get("v")
	if !found {
		return "unset -"
	}

	return c06Value(v)
}

// c06OneToken: does text/scanner (configured as in tokenizer.lexer) deliver the literal, followed by the
// line terminator the tokenizer appends, as exactly one token whose text is the literal itself?
func c06OneToken(lit string) bool {
	var s tscanner.Scanner

	s.Init(strings.NewReader(lit + "  ;"))
	s.Mode &^= tscanner.SkipComments
	s.Error = func(s *tscanner.Scanner, msg string) {}

	if tok := s.Scan(); tok == tscanner.EOF || s.TokenText() != lit {
		return false
	}

	if tok := s.Scan(); tok == tscanner.EOF || s.TokenText() != ";" {
		return false
	}

	return s.Scan() == tscanner.EOF
}

func c06Conflict(sp string) {
	if sp == "" {
		return
	}

	c := sp[0]
	if (c >= '0' && c <= '9') || c == '\'' || c == '"' || c == '`' || (c == '.' && len(sp) > 1 && sp[1] >= '0' && sp[1] <= '9') {
		fmt.Println("SPECIAL-CONFLICT", sp)
	}
}

func TestVerifC06(t *testing.T) {
	in, err := os.Open(os.Getenv("VERIF_IN"))
	if err != nil {
		t.Fatal(err)
	}
	defer in.Close()

	out, err := os.Create(os.Getenv("VERIF_OUT"))
	if err != nil {
		t.Fatal(err)
	}
	defer out.Close()

	w := bufio.NewWriter(out)
	defer w.Flush()

	// classification steps 1-5 come before the literal tests: no type name or special token may look like a literal
	for tk := range tokenizer.TypeTokens {
		c06Conflict(tk.Spelling())
	}

	for tk := range tokenizer.SpecialTokens {
		c06Conflict(tk.Spelling())
	}

	sc := bufio.NewScanner(in)
	sc.Buffer(make([]byte, 1<<20), 1<<20)

	for sc.Scan() {
		f := strings.Fields(sc.Text())
		if len(f) < 2 || f[0] != "L" {
			continue
		}

		b, _ := hex.DecodeString(f[1])
		lit := string(b)

		toks := tokenizer.New(lit, true).Tokens
		// the tokenizer appends a ';' after the statement: not counted
		n := len(toks)
		for n > 0 && toks[n-1].Is(tokenizer.SemicolonToken) {
			n--
		}

		if !c06OneToken(lit) {
			n = 99
		}

		tk, cv := "none -", "none -"

		if n > 0 && len(toks) > 0 {
			tk = fmt.Sprintf("%s %s", toks[0].Class().String(), c06hex(toks[0].Spelling()))
			c, _ := convertRadixToDecimal(toks[0])
			cv = fmt.Sprintf("%s %s", c.Class().String(), c06hex(c.Spelling()))
		}

		fmt.Fprintf(w, "L %s | go %s | tok %d %s | cv %s | ego %s\n", f[1], c06GoValue(lit), n, tk, cv, c06Ego(lit))
		w.Flush() // a log.Fatalf inside the compiler must not lose the lines before it
	}
}
