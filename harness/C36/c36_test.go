//go:build verif

package main

// Overlaid into /repo/tools/langlint by /verif/check C36. Runs the real rewriteFile / lintFile on
// a private directory per case and prints the directory afterwards.
// Line protocol (VERIF_IN -> VERIF_OUT), all texts hex ("-" = empty):
//   R <id> <mode octal> <hex name> <hex old> <hex new>   rewriteFile(path, new)
//   L <id> <mode octal> <hex name> <hex old> -          lintFile(path, false)
// ->  <R|L> <id> <ok|err> <changed 0|1> <entry>...      entry = <hex name>:<hex content>:<mode octal>
// Every directory also holds a bystander file "other.txt" (content "x\n").

import (
	"bufio"
	"encoding/hex"
	"fmt"
	"os"
	"path/filepath"
	"sort"
	"strconv"
	"strings"
	"testing"
)

func c36hex(s string) []byte {
	if s == "-" {
		return []byte{}
	}

	b, _ := hex.DecodeString(s)

	return b
}

func c36enc(b []byte) string {
	if len(b) == 0 {
		return "-"
	}

	return hex.EncodeToString(b)
}

func TestVerifC36(t *testing.T) {
	in, err := os.Open(os.Getenv("VERIF_IN"))
	if err != nil {
		t.Fatal(err)
	}
	defer in.Close()

	out, err := os.Create(os.Getenv("VERIF_OUT"))
	if err != nil {
		t.Fatal(err)
	}
	defer out.Close()

	w := bufio.NewWriter(out)
	defer w.Flush()

	sc := bufio.NewScanner(in)
	sc.Buffer(make([]byte, 1<<24), 1<<24)

	for sc.Scan() {
		f := strings.Fields(sc.Text())
		if len(f) != 6 {
			continue
		}

		mode, _ := strconv.ParseUint(f[2], 8, 32)
		dir := t.TempDir()
		path := filepath.Join(dir, string(c36hex(f[3])))

		if err := os.WriteFile(path, c36hex(f[4]), 0o600); err != nil {
			t.Fatal(err)
		}

		if err := os.Chmod(path, os.FileMode(mode)); err != nil {
			t.Fatal(err)
		}

		if err := os.WriteFile(filepath.Join(dir, "other.txt"), []byte("x\n"), 0o644); err != nil {
			t.Fatal(err)
		}

		status, changed := "ok", 0

		switch f[0] {
		case "R":
			if err := rewriteFile(path, c36hex(f[5])); err != nil {
				status = "err"
			}
		case "L":
			res, err := lintFile(path, false)
			if err != nil {
				status = "err"
			}

			if res.changed {
				changed = 1
			}
		}

		entries, err := os.ReadDir(dir)
		if err != nil {
			t.Fatal(err)
		}

		names := []string{}
		for _, e := range entries {
			names = append(names, e.Name())
		}

		sort.Strings(names)
		fmt.Fprintf(w, "%s %s %s %d", f[0], f[1], status, changed)

		for _, n := range names {
			data, _ := os.ReadFile(filepath.Join(dir, n))
			info, err := os.Lstat(filepath.Join(dir, n))

			m := uint32(0)
			if err == nil {
				m = uint32(info.Mode().Perm())
			}

			fmt.Fprintf(w, " %s:%s:%o", c36enc([]byte(n)), c36enc(data), m)
		}

		fmt.Fprintln(w)
	}
}
