(* NoPanicSrc/Model.v — C07: index / slice arithmetic kernels on the path from source bytes to the
   first bytecode and in the VM's unwinding.  Go's run-time panics (index out of range, slice bounds
   out of range, negative make, failed type assertion) are the explicit outcome [Panic]; nothing is
   totalised away.  Executable definitions only.

   Kernels (Go source -> model):
     tokenizer/lexer.go   lexer: crush window             -> crush_all, lex_step, lex_post
     tokenizer/lexer.go   lexer: imaginary-suffix merge   -> imag_merge
     tokenizer/line.go    GetTokenText, Remainder         -> get_token_text, remainder
     tokenizer/tokenizer.go GetTokens                     -> get_tokens
     tokenizer/insert.go  Delete, Insert                  -> tok_delete, tok_insert
     tokenizer/cursor.go  Peek                            -> peek
     compiler/testing.go  testDirective                   -> test_desc (fx=false: before the repair)
     compiler/expr_atom.go compileRuneExpression, convertRadixToDecimal -> rune_lit, radix_probe
     compiler/macro.go    compilerMacro (expression form) -> macro_strip (fx=false: before the repair)
     bytecode/context.go  PopWithoutUnwrapping            -> pop
     bytecode/stack.go    dropToMarkerByteCode, stackCheckByteCode -> drop_to_marker, stack_check
     bytecode/catch.go    handleCatch (try-stack arithmetic, callFramePop truncations) -> handle_catch *)
From Common Require Import Base.
From Coq Require Import ZArith List Bool.
Import ListNotations.
Open Scope Z_scope.

Inductive res (A : Type) : Type := Ok (a : A) | Panic.
Arguments Ok {A} a.
Arguments Panic {A}.

Definition bind {A B} (r : res A) (f : A -> res B) : res B :=
  match r with Ok a => f a | Panic => Panic end.
Notation "'do' x <- r ; k" := (bind r (fun x => k)) (at level 200, x name, r at level 100, k at level 200).

Definition is_panic {A} (r : res A) : bool := match r with Panic => true | Ok _ => false end.

Definition len {A} (l : list A) : Z := Z.of_nat (length l).

(* l[i] : panics unless 0 <= i < len l *)
Definition idx {A} (l : list A) (i : Z) : res A :=
  if (i <? 0) || (len l <=? i) then Panic
  else match nth_error l (Z.to_nat i) with Some x => Ok x | None => Panic end.

(* l[lo:hi] on a string, or on a slice whose capacity is taken to be its length (the conservative
   reading: Go allows hi up to cap) : panics unless 0 <= lo <= hi <= len l *)
Definition slice {A} (l : list A) (lo hi : Z) : res (list A) :=
  if (lo <? 0) || (hi <? lo) || (len l <? hi) then Panic
  else Ok (firstn (Z.to_nat (hi - lo)) (skipn (Z.to_nat lo) l)).

(* make([]T, 0, n) / make([]T, n) : panics when n < 0 *)
Definition mk (n : Z) : res unit := if n <? 0 then Panic else Ok tt.

(* ------------------------------------------------------------------ tokens *)
Record tok := { tclass : N; tspell : str; tline : Z; tpos : Z }.
Definition tok_is (a b : tok) : bool := (tclass a =? tclass b)%N && str_eqb (tspell a) (tspell b).

Record crush := { csrc : list tok; cres : tok; cadj : bool }.

(* adjacency loop:  for i := 0; i < len(src)-1; i++ { tok := T[n-k+i]; next := T[n-k+i+1]; ... } *)
Fixpoint adj_loop (toks : list tok) (base i : Z) (cnt : nat) : res bool :=
  match cnt with
  | O => Ok true
  | S c => do t <- idx toks (base + i);
           do nx <- idx toks (base + i + 1);
           if negb (tline nx =? tline t) || negb (tpos nx =? tpos t + len (tspell t)) then Ok false
           else adj_loop toks base (i + 1) c
  end.

(* spelling loop: for i, crushToken := range src { if T[n-k+i].IsNot(crushToken) ... } *)
Fixpoint spell_loop (toks : list tok) (base i : Z) (src : list tok) : res bool :=
  match src with
  | [] => Ok true
  | ct :: r => do t <- idx toks (base + i);
               if tok_is t ct then spell_loop toks base (i + 1) r else Ok false
  end.

(* the "for _, crush := range crushedTokens" loop; nt = the token just appended *)
Fixpoint crush_all (table : list crush) (toks : list tok) (nt : tok) : res (list tok) :=
  match table with
  | [] => Ok toks
  | c :: r =>
    let k := len (csrc c) in
    let n := len toks in
    if n <? k then crush_all r toks nt else
    do f1 <- (if cadj c then adj_loop toks (n - k) 0 (Z.to_nat (k - 1)) else Ok true);
    do f2 <- (if f1 then spell_loop toks (n - k) 0 (csrc c) else Ok false);
    if f2 then
      do pre <- slice toks 0 (n - k);
      Ok (pre ++ [{| tclass := tclass (cres c); tspell := tspell (cres c); tline := tline nt;
                     tpos := tpos nt - (len (tspell (cres c)) - 1) |}])
    else crush_all r toks nt
  end.

(* token classes that the imaginary merge mentions *)
Record classes := { c_ident : N; c_int : N; c_float : N; c_complex : N }.

Definition imag_merge (cl : classes) (toks : list tok) : res (list tok) :=
  if 2 <=? len toks then
    let last := len toks - 1 in
    do suffix <- idx toks last;
    do number <- idx toks (last - 1);
    if (tclass suffix =? c_ident cl)%N && str_eqb (tspell suffix) [105%N]
       && ((tclass number =? c_int cl)%N || (tclass number =? c_float cl)%N)
       && (tline suffix =? tline number) && (tpos suffix =? tpos number + len (tspell number))
    then do pre <- slice toks 0 (last - 1);
         Ok (pre ++ [{| tclass := c_complex cl; tspell := tspell number ++ [105%N];
                        tline := tline number; tpos := tpos number |}])
    else Ok toks
  else Ok toks.

Definition lex_step (table : list crush) (cl : classes) (toks : list tok) (nt : tok) : res (list tok) :=
  do t1 <- crush_all table (toks ++ [nt]) nt; imag_merge cl t1.

Fixpoint lex_post_from (table : list crush) (cl : classes) (acc : list tok) (raw : list tok) : res (list tok) :=
  match raw with
  | [] => Ok acc
  | nt :: r => do a <- lex_step table cl acc nt; lex_post_from table cl a r
  end.
Definition lex_post table cl raw := lex_post_from table cl [] raw.

(* ------------------------------------------------------------------ token-stream helpers (n = len Tokens) *)
(* GetTokenText(start, end): result = the slice bounds used, or None for the empty answer *)
Definition get_token_text {A} (toks : list A) (start e : Z) : res (list A) :=
  let n := len toks in
  let start := if start <? 0 then 0 else start in
  let e := if (e <? 0) || (n <=? e) then n - 1 else e in
  if e <? start then Ok [] else slice toks start (e + 1).

(* GetTokens(pos1, pos2, _) *)
Definition get_tokens {A} (toks : list A) (pos1 pos2 : Z) : res (list A) :=
  let n := len toks in
  let p1 := if pos1 <? 0 then 0 else if n <? pos1 then n else pos1 in
  let p2 := if pos2 <? p1 then p1 else if n <? pos2 then n else pos2 in
  slice toks p1 p2.

(* Peek(offset) with TokenP = tp : None = EndOfTokens *)
Definition peek {A} (toks : list A) (tp offset : Z) : res (option A) :=
  let position := tp + (offset - 1) in
  if (len toks <=? position) || (position <? 0) then Ok None
  else do t <- idx toks position; Ok (Some t).

(* Remainder(): src = GetSource() text; positions of the tokens given *)
Definition remainder (poss : list Z) (tp : Z) (src : str) : res str :=
  if (tp <? 0) || (len poss <=? tp) then Ok [] else
  do ps <- idx poss tp;
  let p := ps - 1 in
  if (p <? 0) || (len src <=? p) then Ok [] else slice src p (len src).

Inductive edit (A : Type) := EErr | EDone (l : list A) (tp : Z).
Arguments EErr {A}.
Arguments EDone {A} l tp.

(* Delete(start, end) *)
Definition tok_delete {A} (toks : list A) (tp start e : Z) : res (edit A) :=
  let n := len toks in
  if (start <? 0) || (n <=? start) || (e <? start) || (n <? e) then Ok EErr else
  do _ <- mk (n - e + start);
  do a <- slice toks 0 start;
  do b <- slice toks e n;
  Ok (EDone (a ++ b) (if (start <=? tp) && (tp <=? e) then start else if e <? tp then tp - (e - start) else tp)).

(* Insert(pos, tokens...) *)
Definition tok_insert {A} (toks : list A) (tp pos : Z) (ins : list A) : res (edit A) :=
  let n := len toks in
  if (pos <? 0) || (n <=? pos) then Ok EErr else
  if len ins =? 0 then Ok (EDone toks tp) else
  do _ <- mk (n + len ins);
  do a <- slice toks 0 pos;
  do b <- slice toks pos n;
  Ok (EDone (a ++ ins ++ b) (if pos <=? tp then tp + len ins else tp)).

(* ------------------------------------------------------------------ compiler kernels *)
(* testDirective: the description text is s (code points; s[0] is compared with the double-quote character, which is the
   same test on bytes and on code points).  unq = strconv.Unquote as an oracle.
   Outcome: None = compile error, Some d = the description used. *)
Definition test_desc (fx : bool) (unq : str -> option str) (s : str) : res (option str) :=
  if fx && (len s =? 0) then Ok None else                 (* repaired: ErrInvalidTestDescription *)
  do c <- idx s 0;
  let r := if (c =? 34)%N then unq s else Some s in
  match r with
  | None => Ok None
  | Some d => if 48 <? len d then do pre <- slice d 0 46; Ok (Some (pre ++ [46;46;46]%N))
              else Ok (Some d)
  end.

(* compileRuneExpression: spelling s (bytes), uq = strconv.UnquoteChar(inner) as an oracle giving the
   single rune when the literal is well formed; rn = the runes of the fallback scan.
   Outcome: None = "not a rune literal", Some n = number of runes pushed / reported. *)
Definition rune_lit (s : str) (uq : str -> option N) (rn : str -> list N) : res (option Z) :=
  if 1 <? len s then
    do c0 <- idx s 0;
    if (c0 =? 39)%N then
      do cl <- idx s (len s - 1);
      if (cl =? 39)%N then
        do inner <- slice s 1 (len s - 1);
        let runes := match uq inner with Some r => [r] | None => rn s end in
        if len runes =? 1 then do _ <- idx runes 0; Ok (Some 1)
        else do _ <- mk (len runes); Ok (Some (len runes))
      else Ok None
    else Ok None
  else Ok None.

(* convertRadixToDecimal: the probe of text[0], text[1]; result = isRadix *)
Definition radix_probe (text : str) : res bool :=
  if len text <? 2 then Ok false else
  do c0 <- idx text 0;
  if (c0 <? 48)%N then Ok false else
  do c0' <- idx text 0;
  if (57 <? c0')%N then Ok false else
  do c0'' <- idx text 0;
  if (c0'' =? 48)%N then do c1 <- idx text 1; Ok (existsb (N.eqb c1) [98;66;111;79;120;88;95;48;49;50;51;52;53;54;55;56;57]%N)
  else Ok false.

(* compilerMacro, expression form: strip a trailing ";" of the macro's tokenised result *)
Definition macro_strip (fx : bool) (semi : tok) (toks : list tok) : res (list tok) :=
  if fx && (len toks =? 0) then Ok toks else
  do lastt <- idx toks (len toks - 1);
  if tok_is lastt semi then slice toks 0 (len toks - 1) else Ok toks.

(* ------------------------------------------------------------------ VM kernels *)
Inductive val := VMarker (label : N) | VFrame (fp : Z) (trydepth : N) | VError (nonnil : bool) | VOther.

Record vm := { stack : list val; sp : Z; fp : Z }.

(* PopWithoutUnwrapping: None = ErrStackUnderflow *)
Definition pop (m : vm) : res (option (val * vm)) :=
  if (sp m <=? 0) || (len (stack m) <? sp m) then Ok None else
  let sp' := sp m - 1 in
  do v <- idx (stack m) sp';
  do _ <- idx (stack m) sp';            (* c.stack[c.stackPointer] = nil : same bounds *)
  Ok (Some (v, {| stack := stack m; sp := sp'; fp := fp m |})).

Inductive drop_out := DThrow | DDone (m : vm).

(* dropToMarkerByteCode; operand: None = not a StackMarker (i == nil or other), Some l = marker label.
   opnil = (i == nil).  v.(StackMarker) is only evaluated when v is a StackMarker. *)
Fixpoint drop_loop (fuel : nat) (target : N) (opnil throw : bool) (m : vm) : res drop_out :=
  match fuel with
  | O => Ok (DDone m)
  | S f =>
    if sp m <=? fp m then Ok (DDone m) else
    do p <- pop m;
    match p with
    | None => Ok (DDone m)
    | Some (v, m') =>
      match v with
      | VError true => if throw then Ok DThrow else drop_loop f target opnil throw m'
      | VMarker l =>
          if opnil then Ok (DDone m')
          else do lab <- (match v with VMarker l' => Ok l' | _ => Panic end);   (* v.(StackMarker).label *)
               if (lab =? target)%N then Ok (DDone m') else drop_loop f target opnil throw m'
      | _ => drop_loop f target opnil throw m'
      end
    end
  end.
Definition drop_to_marker (operand : option N) (opnil throw : bool) (m : vm) : res drop_out :=
  drop_loop (S (Z.to_nat (sp m))) (match operand with Some l => l | None => 0%N end) opnil throw m.

Definition is_marker (v : val) : bool := match v with VMarker _ | VFrame _ _ => true | _ => false end.

Fixpoint scan_down (st : list val) (i : Z) (fuel : nat) : res bool :=
  match fuel with
  | O => Ok false
  | S f => if i <? 0 then Ok false else
           do v <- idx st i; if is_marker v then Ok true else scan_down st (i - 1) f
  end.

(* stackCheckByteCode: count = the operand; true = nil, false = ErrReturnValueCount *)
Definition stack_check (m : vm) (count : Z) : res bool :=
  if sp m <=? count then Ok false else
  let start := sp m - (count - 1) in
  let start := if sp m - 1 <? start then sp m - 1 else start in
  let start := if len (stack m) <=? start then len (stack m) - 1 else start in
  do found <- scan_down (stack m) start (S (Z.to_nat start));
  if found then Ok true else
  do v <- idx (stack m) (sp m - (count + 1)); Ok (is_marker v).

(* handleCatch: the try stack is a Go slice: backing array [tarr], length [tln] (cap = len tarr).
   s[i] needs 0 <= i < tln; s[:h] needs 0 <= h <= cap. *)
Record tryinfo := { taddr : Z; tsel : bool (* selective list present and not matching *) }.
Record gsl := { tarr : list tryinfo; tln : Z }.
Definition g_idx (s : gsl) (i : Z) : res tryinfo :=
  if (i <? 0) || (tln s <=? i) then Panic else idx (tarr s) i.
Definition g_reslice (s : gsl) (h : Z) : res gsl :=
  if (h <? 0) || (len (tarr s) <? h) then Panic else Ok {| tarr := tarr s; tln := h |}.

Fixpoint find_try (s : gsl) (i : Z) (fuel : nat) : res Z :=
  match fuel with
  | O => Ok (-1)
  | S f => if i <? 0 then Ok (-1) else
           do t <- g_idx s i;
           if taddr t <=? 0 then find_try s (i - 1) f
           else if tsel t then find_try s (i - 1) f else Ok i
  end.

Fixpoint count_live (s : gsl) (i : Z) (fuel : nat) (acc : Z) : res Z :=
  match fuel with
  | O => Ok acc
  | S f => if tln s <=? i then Ok acc else
           do t <- g_idx s i; count_live s (i + 1) f (if 0 <? taddr t then acc + 1 else acc)
  end.

(* the unwinding loop pops call frames; each callFramePop truncates the try stack to the frame's
   tryDepth when it is longer:  if len(c.tryStack) > d { c.tryStack = c.tryStack[:d] } *)
Fixpoint unwind_trunc (s : gsl) (depths : list N) : res gsl :=
  match depths with
  | [] => Ok s
  | d :: r => if Z.of_N d <? tln s then do s' <- g_reslice s (Z.of_N d); unwind_trunc s' r
              else unwind_trunc s r
  end.

Inductive catch_out := CNotCaught | CUnderflow | CCaught (addr : Z) (s : gsl).

(* running: c.running; depths: tryDepth of the frames popped while unwinding; underflow: the unwinding
   ran out of stack (c.Pop error) before the marker was found *)
Definition handle_catch (s : gsl) (running : bool) (depths : list N) (underflow : bool) : res catch_out :=
  do ti <- (if running then find_try s (tln s - 1) (Z.to_nat (tln s)) else Ok (-1));
  if 0 <=? ti then
    do t <- g_idx s ti;
    do _ <- count_live s (ti + 1) (Z.to_nat (tln s)) 1;
    do s1 <- unwind_trunc s depths;
    if underflow then Ok CUnderflow else
    do s2 <- g_reslice s1 (ti + 1);
    do _ <- g_idx s2 ti;
    Ok (CCaught (taddr t) s2)
  else Ok CNotCaught.

Definition gsl_ok (s : gsl) : Prop := 0 <= tln s <= len (tarr s).

(* ------------------------------------------------------------------ run-time value kernels *)
(* moduloByteCode / divideByteCode after data.Normalize: both operands have the kind of v1.  Each arm
   of the type switch asserts v2 to that kind (a failed assertion panics), tests it against the zero OF
   THAT KIND, and only then divides (Go's integer / and % panic on a zero divisor). *)
Inductive nkind := KByte | KInt8 | KInt16 | KUint16 | KInt32 | KUint32 | KInt | KUint | KInt64 | KUint64
                 | KFloat32 | KFloat64 | KComplex64 | KComplex128 | KOtherKind.
Definition nkind_eqb (a b : nkind) : bool :=
  match a, b with
  | KByte, KByte | KInt8, KInt8 | KInt16, KInt16 | KUint16, KUint16 | KInt32, KInt32 | KUint32, KUint32
  | KInt, KInt | KUint, KUint | KInt64, KInt64 | KUint64, KUint64 | KFloat32, KFloat32 | KFloat64, KFloat64
  | KComplex64, KComplex64 | KComplex128, KComplex128 | KOtherKind, KOtherKind => true
  | _, _ => false
  end.
Definition is_int_kind (k : nkind) : bool :=
  match k with KFloat32 | KFloat64 | KComplex64 | KComplex128 | KOtherKind => false | _ => true end.

Inductive arith_out := ADivZero | ATypeErr | AValue.

(* v.(K) *)
Definition assert_kind (want have : nkind) : res unit := if nkind_eqb want have then Ok tt else Panic.
(* a / b or a % b on integers *)
Definition int_div (divisor : Z) : res unit := if divisor =? 0 then Panic else Ok tt.

(* percase = true: the zero test is made on the asserted value in every arm (the code as it is);
   percase = false: one hoisted "v2 == 0" on the interface value, which is true only for int(0) *)
Definition modulo_op (percase : bool) (k1 k2 : nkind) (v2 : Z) : res arith_out :=
  if negb percase && nkind_eqb k2 KInt && (v2 =? 0) then Ok ADivZero else
  if is_int_kind k1 then
    do _ <- assert_kind k1 k2;
    if percase && (v2 =? 0) then Ok ADivZero else
    do _ <- int_div v2; Ok AValue
  else Ok ATypeErr.

(* divideByteCode: floats divide without a Go panic (the zero test there depends on c.divZero);
   complex kinds test for zero *)
Definition divide_op (k1 k2 : nkind) (v2 : Z) (divzero : bool) : res arith_out :=
  match k1 with
  | KOtherKind => Ok ATypeErr
  | KFloat32 | KFloat64 => do _ <- assert_kind k1 k2; if divzero && (v2 =? 0) then Ok ADivZero else Ok AValue
  | KComplex64 | KComplex128 => do _ <- assert_kind k1 k2; if v2 =? 0 then Ok ADivZero else Ok AValue
  | _ => do _ <- assert_kind k1 k2; if v2 =? 0 then Ok ADivZero else do _ <- int_div v2; Ok AValue
  end.

(* data.Array: a byte array keeps its elements in [abytes], any other in [adata] *)
Record earray := { aisbyte : bool; abytes : list Z; adata : list Z }.

(* Array.GetSlice *)
Definition get_slice (a : earray) (first last : Z) : res (option (list Z)) :=
  let size := if aisbyte a then len (abytes a) else len (adata a) in
  if (first <? 0) || (last <? first) || (size <? first) || (size <? last) then Ok None else
  if aisbyte a then do s <- slice (abytes a) first last; do _ <- mk (len s); Ok (Some s)
  else do s <- slice (adata a) first last; Ok (Some s).

(* Array.GetSliceAsArray.  merged = true: the bounds test hoisted above both branches without the
   "last < first" term (relying on GetSlice for it) — the byte branch never reaches GetSlice *)
Definition get_slice_as_array (merged : bool) (a : earray) (first last : Z) : res (option (list Z)) :=
  if merged then
    let size := if aisbyte a then len (abytes a) else len (adata a) in
    if (first <? 0) || (size <? first) || (size <? last) then Ok None else
    if aisbyte a then do s <- slice (abytes a) first last; Ok (Some s) else get_slice a first last
  else
    if aisbyte a then
      if (first <? 0) || (last <? first) || (len (abytes a) <? first) || (len (abytes a) <? last) then Ok None
      else do s <- slice (abytes a) first last; Ok (Some s)
    else
      if (first <? 0) || (last <? first) || (len (adata a) <? first) || (len (adata a) <? last) then Ok None
      else get_slice a first last.

(* ------------------------------------------------------------------ compiler/defer.go *)
(* findDeferCallArgsStart / findDeferCallEnd / hoistDeferCallArguments guard / hoistDeferReceiver on the
   token kinds that those scans distinguish.  start = c.t.Mark(). *)
Inductive tk := TIdent | TDot | TLParen | TRParen | TOtherTok.

Fixpoint scan_chain (toks : list tk) (pos : Z) (fuel : nat) : res Z :=
  match fuel with
  | O => Ok pos
  | S f => if len toks <=? pos then Ok pos else
           do t <- idx toks pos;
           match t with TIdent | TDot => scan_chain toks (pos + 1) f | _ => Ok pos end
  end.
Definition find_args_start (toks : list tk) (start : Z) : res Z := scan_chain toks start (S (length toks)).

Fixpoint scan_parens (toks : list tk) (pos depth : Z) (fuel : nat) : res Z :=
  match fuel with
  | O => Ok pos
  | S f => if len toks <=? pos then Ok pos else
           do t <- idx toks pos;
           match t with
           | TLParen => scan_parens toks (pos + 1) (depth + 1) f
           | TRParen => if depth - 1 =? 0 then Ok (pos + 1) else scan_parens toks (pos + 1) (depth - 1) f
           | _ => scan_parens toks (pos + 1) depth f
           end
  end.
Definition find_call_end (toks : list tk) (start : Z) : res Z :=
  do a <- find_args_start toks start; scan_parens toks a 0 (S (length toks)).

Fixpoint last_dot (toks : list tk) (i stop : Z) (acc : Z) (fuel : nat) : res Z :=
  match fuel with
  | O => Ok acc
  | S f => if stop <=? i then Ok acc else
           do t <- idx toks i;
           last_dot toks (i + 1) stop (match t with TDot => i | _ => acc end) f
  end.

(* the shared guard:  if argsStart >= len(Tokens) || Tokens[argsStart].IsNot("(") { return }
   guarded = false drops the first half (indexing one past the end when the chain reaches the end) *)
Definition has_call_args (guarded : bool) (toks : list tk) (a : Z) : res bool :=
  if guarded && (len toks <=? a) then Ok false else
  do t <- idx toks a; Ok (match t with TLParen => true | _ => false end).

(* hoistDeferReceiver up to the token surgery: None = nothing to hoist (position restored),
   Some (lastDot, methodChainEnd) = the suffix Tokens[lastDot:methodChainEnd] is copied and deleted *)
Definition hoist_receiver (guarded : bool) (toks : list tk) (start : Z) : res (option (Z * Z)) :=
  do a <- find_args_start toks start;
  do call <- has_call_args guarded toks a;
  if negb call then Ok None else
  do ld <- last_dot toks start a (-1) (S (length toks));
  if ld <? 0 then Ok None else
  do e <- find_call_end toks start;
  do _ <- mk (e - ld);
  do _ <- slice toks ld e;
  Ok (Some (ld, e)).

(* ------------------------------------------------------------------ callNative.go: mutex bookkeeping *)
(* A Go sync.RWMutex used from ONE goroutine: (w, r).  Unlock of an unlocked mutex and RUnlock without a
   reader are Go FATAL errors (not panics: no recover stops them); Lock/RLock that cannot proceed block. *)
Inductive mop := MLock | MUnlock | MRLock | MRUnlock | MTryLock | MTryRLock.
Inductive mout := MDone | MNotLocked | MBool (b : bool) | MBlock | MFatal.
Record rwm := { rw_w : bool; rw_r : Z;          (* the real mutex *)
                bk_w : bool; bk_r : Z }.        (* rwMutexState: writeLocked, readers *)
Definition rwm0 : rwm := {| rw_w := false; rw_r := 0; bk_w := false; bk_r := 0 |}.

(* callRWMutexMethod; pre = true: TryRLock counts the reader BEFORE trying and never takes it back *)
Definition rw_step (pre : bool) (s : rwm) (o : mop) : rwm * mout :=
  match o with
  | MLock => if rw_w s || (0 <? rw_r s) then (s, MBlock)
             else ({| rw_w := true; rw_r := rw_r s; bk_w := true; bk_r := bk_r s |}, MDone)
  | MUnlock => if bk_w s then
                 if rw_w s then ({| rw_w := false; rw_r := rw_r s; bk_w := false; bk_r := bk_r s |}, MDone)
                 else ({| rw_w := rw_w s; rw_r := rw_r s; bk_w := false; bk_r := bk_r s |}, MFatal)
               else (s, MNotLocked)
  | MRLock => if rw_w s then (s, MBlock)
              else ({| rw_w := rw_w s; rw_r := rw_r s + 1; bk_w := bk_w s; bk_r := bk_r s + 1 |}, MDone)
  | MRUnlock => if bk_r s <=? 0 then (s, MNotLocked)
                else if rw_r s <=? 0 then ({| rw_w := rw_w s; rw_r := rw_r s; bk_w := bk_w s; bk_r := bk_r s - 1 |}, MFatal)
                else ({| rw_w := rw_w s; rw_r := rw_r s - 1; bk_w := bk_w s; bk_r := bk_r s - 1 |}, MDone)
  | MTryLock => if rw_w s || (0 <? rw_r s) then (s, MBool false)
                else ({| rw_w := true; rw_r := rw_r s; bk_w := true; bk_r := bk_r s |}, MBool true)
  | MTryRLock => let ok := negb (rw_w s) in
                 ({| rw_w := rw_w s; rw_r := if ok then rw_r s + 1 else rw_r s; bk_w := bk_w s;
                     bk_r := if pre || ok then bk_r s + 1 else bk_r s |}, MBool ok)
  end.

(* run until the goroutine blocks or the process dies; the list of outcomes *)
Fixpoint rw_run (pre : bool) (s : rwm) (ops : list mop) : list mout :=
  match ops with
  | [] => []
  | o :: r => let '(s', out) := rw_step pre s o in
              match out with MBlock | MFatal => [out] | _ => out :: rw_run pre s' r end
  end.

(* callMutexMethod on a sync.Mutex: real w, bookkeeping bw *)
Definition mx_step (s : bool * bool) (o : mop) : (bool * bool) * mout :=
  let '(w, bw) := s in
  match o with
  | MLock => if w then (s, MBlock) else ((true, true), MDone)
  | MUnlock => if bw then (if w then ((false, false), MDone) else ((w, false), MFatal)) else (s, MNotLocked)
  | MTryLock => if w then (s, MBool false) else ((true, true), MBool true)
  | _ => (s, MDone)                                 (* no such method on sync.Mutex *)
  end.
Fixpoint mx_run (s : bool * bool) (ops : list mop) : list mout :=
  match ops with
  | [] => []
  | o :: r => let '(s', out) := mx_step s o in
              match out with MBlock | MFatal => [out] | _ => out :: mx_run s' r end
  end.
