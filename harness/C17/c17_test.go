//go:build verif

package scripting

// Overlaid into /repo/internal/server/tables/scripting by /verif/check C17.
//
// TestVerifC17 drives the real Handler against a fresh SQLite file per case and reports what an
// outside observer sees afterwards: HTTP status, the rows of every table (read through a second,
// independent connection), whether a following write proceeds, and how many descriptors on the
// database file the request left open (a skipped Close / an unfinished transaction).
//
// TestVerifC17Exits is the translator: it parses the CURRENT handler.go / transaction.go / open.go
// with go/ast and prints every return statement of the Begin...Commit region of Handler with what
// closes the transaction on its path, plus the shape of Database.Commit/Rollback/Close.

import (
	"bytes"
	"database/sql"
	"encoding/json"
	"fmt"
	"go/ast"
	"go/parser"
	"go/printer"
	"go/token"
	"net/http"
	"net/http/httptest"
	"os"
	"path/filepath"
	"sort"
	"strings"
	"testing"

	"github.com/tucats/ego/internal/defs"
	"github.com/tucats/ego/internal/dsns"
	"github.com/tucats/ego/internal/router"

	_ "modernc.org/sqlite"
)

type c17Case struct {
	ID  int               `json:"id"`
	Ops []json.RawMessage `json:"ops"`
	Raw string            `json:"raw,omitempty"` // when set, posted verbatim instead of Ops
	DSN string            `json:"dsn,omitempty"` // when set, the request names this (unknown) DSN
	Non bool              `json:"nonadmin,omitempty"`
}

type c17Out struct {
	ID       int      `json:"id"`
	Ret      int      `json:"ret"`      // value returned by Handler
	Code     int      `json:"code"`     // status written to the ResponseWriter
	Ctype    string   `json:"ctype"`    // response content type
	T        []string `json:"t"`        // rows of t, "id=v", sorted by id
	Child    []string `json:"child"`    // rows of child
	Tables   []string `json:"tables"`   // table names
	Indexes  []string `json:"indexes"`  // explicit index names
	Views    []string `json:"views"`    // view names
	TCols    []string `json:"tcols"`    // column names of t
	ProbeOK  bool     `json:"probe_ok"` // a following write through another connection succeeded
	ProbeErr string   `json:"probe_err,omitempty"`
	Leaked   int      `json:"leaked"` // descriptors on the database file still open after return
	Panic    string   `json:"panic,omitempty"`
}

const c17Schema = `
CREATE TABLE t (id INTEGER PRIMARY KEY, v TEXT NOT NULL);
INSERT INTO t VALUES (1,'a'),(2,'b'),(3,'c');
CREATE TABLE d1 (x INTEGER);
CREATE TABLE d2 (x INTEGER);
CREATE TABLE parent (id INTEGER PRIMARY KEY);
INSERT INTO parent VALUES (1);
CREATE TABLE child (id INTEGER PRIMARY KEY, pid INTEGER REFERENCES parent(id) DEFERRABLE INITIALLY DEFERRED);
CREATE TABLE probe (n INTEGER);
`

func c17FDs(path string) int {
	ents, err := os.ReadDir("/proc/self/fd")
	if err != nil {
		return -1
	}

	n := 0

	for _, e := range ents {
		l, err := os.Readlink("/proc/self/fd/" + e.Name())
		if err == nil && strings.HasPrefix(l, path) {
			n++
		}
	}

	return n
}

func c17Strings(h *sql.DB, q string) []string {
	res := []string{}

	rows, err := h.Query(q)
	if err != nil {
		return []string{"ERR " + err.Error()}
	}
	defer rows.Close()

	for rows.Next() {
		var s sql.NullString
		if err := rows.Scan(&s); err != nil {
			return []string{"ERR " + err.Error()}
		}

		res = append(res, s.String)
	}

	return res
}

func TestVerifC17(t *testing.T) {
	raw, err := os.ReadFile(os.Getenv("VERIF_IN"))
	if err != nil {
		t.Fatal(err)
	}

	var cases []c17Case
	if err := json.Unmarshal(raw, &cases); err != nil {
		t.Fatal(err)
	}

	dir, err := os.MkdirTemp("", "c17-")
	if err != nil {
		t.Fatal(err)
	}
	defer os.RemoveAll(dir)

	dir, _ = filepath.EvalSymlinks(dir)

	svc, err := dsns.NewFileService("memory")
	if err != nil {
		t.Fatal(err)
	}

	dsns.DSNService = svc
	outs := []c17Out{}

	for _, c := range cases {
		file := filepath.Join(dir, fmt.Sprintf("case%d.db", c.ID))

		h, err := sql.Open("sqlite", file+"?_pragma=foreign_keys(1)")
		if err != nil {
			t.Fatal(err)
		}

		if _, err := h.Exec(c17Schema); err != nil {
			t.Fatal(err)
		}

		h.Exec("PRAGMA journal_mode=WAL;")
		h.Close()

		name := fmt.Sprintf("c17d%d", c.ID)
		if err := dsns.DSNService.WriteDSN(1, "admin", defs.DSN{Name: name, Provider: defs.SqliteProvider,
			Database: file + "?_pragma=foreign_keys(1)"}); err != nil {
			t.Fatal(err)
		}

		body := []byte(c.Raw)
		if c.Raw == "" {
			body, _ = json.Marshal(c.Ops)
		}

		o := c17Out{ID: c.ID}
		before := c17FDs(file)

		func() {
			defer func() {
				if r := recover(); r != nil {
					o.Panic = fmt.Sprint(r)
				}
			}()

			use := name
			if c.DSN != "" {
				use = c.DSN
			}

			session := &router.Session{ID: 1000 + c.ID, User: "admin", Admin: true, URLParts: map[string]any{"dsn": use}}
			if c.Non {
				session = &router.Session{ID: 1000 + c.ID, User: "nobody", Permissions: []string{"ego.logon"},
					URLParts: map[string]any{"dsn": use}}
			}

			req, _ := http.NewRequest(http.MethodPost, "/dsns/"+name+"/@transaction", bytes.NewReader(body))
			rr := httptest.NewRecorder()
			o.Ret = Handler(session, rr, req)
			o.Code = rr.Code
			o.Ctype = rr.Header().Get("Content-Type")
		}()

		o.Leaked = c17FDs(file) - before

		// a following write, through an independent connection that gives up quickly
		p, err := sql.Open("sqlite", file+"?_pragma=busy_timeout(250)")
		if err != nil {
			t.Fatal(err)
		}

		if _, err := p.Exec("INSERT INTO probe VALUES (1)"); err != nil {
			o.ProbeErr = err.Error()
		} else {
			o.ProbeOK = true
		}

		o.T = c17Strings(p, "SELECT id || '=' || v FROM t ORDER BY id")
		o.Child = c17Strings(p, "SELECT id || '>' || pid FROM child ORDER BY id")
		o.Tables = c17Strings(p, "SELECT name FROM sqlite_master WHERE type='table' ORDER BY name")
		o.Indexes = c17Strings(p, "SELECT name FROM sqlite_master WHERE type='index' AND name NOT LIKE 'sqlite_autoindex%' ORDER BY name")
		o.Views = c17Strings(p, "SELECT name FROM sqlite_master WHERE type='view' ORDER BY name")
		o.TCols = c17Strings(p, "SELECT name FROM pragma_table_info('t') ORDER BY cid")
		p.Close()

		outs = append(outs, o)
	}

	b, _ := json.Marshal(outs)
	if err := os.WriteFile(os.Getenv("VERIF_OUT"), b, 0o644); err != nil {
		t.Fatal(err)
	}
}

// ------------------------------------------------------------------------------- translator

type c17Exit struct {
	Line     int    `json:"line"`
	Site     string `json:"site"`     // begin | formcond | eval | condtrue | operr | commiterr | success | other
	Rollback bool   `json:"rollback"` // a db.Rollback() call statement precedes the return in its own block
	AfterCmt bool   `json:"after_commit"`
	Status   string `json:"status"` // source text of the status expression of the return
	Guard    string `json:"guard"`  // source text of the innermost enclosing if condition
}

type c17Shape struct {
	Exits             []c17Exit `json:"exits"`
	BeginFound        bool      `json:"begin_found"`
	DeferClose        bool      `json:"defer_close"`          // defer db.Close() precedes db.Begin()
	CommitClearsOnErr bool      `json:"commit_clears_on_err"` // Database.Commit sets d.Transaction = nil before returning an error of the driver commit
	RollbackClearsErr bool      `json:"rollback_clears_on_err"`
	CloseSkipsOpenTx  bool      `json:"close_skips_open_tx"` // Database.Close returns early while d.Transaction != nil
	CloseClosesHandle bool      `json:"close_closes_handle"`
	ShimUsesTx        bool      `json:"shim_uses_tx"` // Database.Exec and Database.Query go to d.Transaction when it is set
	Bypass            []string  `json:"bypass"`       // places in scripting/*.go that touch .Handle / .Transaction directly
}

func c17Src(fset *token.FileSet, n ast.Node) string {
	var b bytes.Buffer

	printer.Fprint(&b, fset, n)

	return strings.Join(strings.Fields(b.String()), " ")
}

// call to <recv>.<name>() somewhere directly in the statement (not inside nested blocks)
func c17CallIn(n ast.Node, recv, name string) bool {
	found := false

	ast.Inspect(n, func(x ast.Node) bool {
		if _, ok := x.(*ast.BlockStmt); ok && x != n {
			return false
		}

		if _, ok := x.(*ast.FuncLit); ok {
			return false
		}

		if c, ok := x.(*ast.CallExpr); ok {
			if s, ok := c.Fun.(*ast.SelectorExpr); ok && s.Sel.Name == name {
				if recv == "" {
					found = true
				} else if id, ok := s.X.(*ast.Ident); ok && id.Name == recv {
					found = true
				}
			}
		}

		return true
	})

	return found
}

func c17HeaderCall(s ast.Stmt, recv, name string) bool {
	// the statement itself, without any of its nested blocks: for an if statement its Init and Cond
	switch v := s.(type) {
	case *ast.IfStmt:
		return (v.Init != nil && c17CallIn(v.Init, recv, name)) || c17CallIn(v.Cond, recv, name)
	case *ast.ExprStmt, *ast.AssignStmt, *ast.DeclStmt:
		return c17CallIn(v, recv, name)
	}

	return false
}

func TestVerifC17Exits(t *testing.T) {
	src := os.Getenv("VERIF_SRC") // repository root
	fset := token.NewFileSet()
	shape := c17Shape{Exits: []c17Exit{}}

	f, err := parser.ParseFile(fset, filepath.Join(src, "internal/server/tables/scripting/handler.go"), nil, 0)
	if err != nil {
		t.Fatal(err)
	}

	var handler *ast.FuncDecl

	for _, d := range f.Decls {
		if fd, ok := d.(*ast.FuncDecl); ok && fd.Name.Name == "Handler" && fd.Recv == nil {
			handler = fd
		}
	}

	if handler == nil {
		t.Fatal("anchor not found: func Handler")
	}

	// find the block holding `err = db.Begin()` and the index of that statement
	var region *ast.BlockStmt

	beginIdx := -1

	ast.Inspect(handler.Body, func(x ast.Node) bool {
		if b, ok := x.(*ast.BlockStmt); ok && region == nil {
			for i, s := range b.List {
				if _, isIf := s.(*ast.IfStmt); !isIf && c17HeaderCall(s, "db", "Begin") {
					region, beginIdx = b, i
				}

				if ifs, isIf := s.(*ast.IfStmt); isIf && ifs.Init != nil && c17CallIn(ifs.Init, "db", "Begin") {
					region, beginIdx = b, i
				}
			}
		}

		return true
	})

	if region == nil {
		t.Fatal("anchor not found: db.Begin() in Handler")
	}

	shape.BeginFound = true

	for _, s := range region.List[:beginIdx] {
		if d, ok := s.(*ast.DeferStmt); ok {
			if sel, ok := d.Call.Fun.(*ast.SelectorExpr); ok && sel.Sel.Name == "Close" {
				shape.DeferClose = true
			}
		}
	}

	// walk the region keeping the path of (block, index) pairs
	type frame struct {
		stmts []ast.Stmt
		idx   int
		owner ast.Stmt // the statement whose body this block is
	}

	var walk func(stmts []ast.Stmt, start int, owner ast.Stmt, path []frame)

	classify := func(ret *ast.ReturnStmt, path []frame) {
		e := c17Exit{Line: fset.Position(ret.Pos()).Line, Site: "other"}

		// status expression: last argument of util.ErrorResponse(...), or the returned expression
		if len(ret.Results) == 1 {
			e.Status = c17Src(fset, ret.Results[0])
			if c, ok := ret.Results[0].(*ast.CallExpr); ok && len(c.Args) > 0 {
				if s, ok := c.Fun.(*ast.SelectorExpr); ok && s.Sel.Name == "ErrorResponse" {
					e.Status = c17Src(fset, c.Args[len(c.Args)-1])
				}
			}
		}

		// rollback in the return's own block, before it
		own := path[len(path)-1]
		for _, s := range own.stmts[:own.idx] {
			if c17HeaderCall(s, "db", "Rollback") {
				e.Rollback = true
			}
		}

		// anything on the path (earlier statements of enclosing blocks inside the region) that commits
		for d, fr := range path {
			lo := 0
			if d == 0 {
				lo = beginIdx + 1
			}

			for _, s := range fr.stmts[lo:fr.idx] {
				if c17HeaderCall(s, "db", "Commit") {
					e.AfterCmt = true
				}
			}
		}

		// innermost enclosing if: its condition, its init, and the statement just before it
		for d := len(path) - 1; d >= 0; d-- {
			ifs, ok := path[d].owner.(*ast.IfStmt)
			if !ok {
				continue
			}

			e.Guard = c17Src(fset, ifs.Cond)

			var prev ast.Stmt
			if d > 0 && path[d-1].idx > 0 {
				prev = path[d-1].stmts[path[d-1].idx-1]
			}

			switch {
			case ifs.Init != nil && c17CallIn(ifs.Init, "db", "Commit"):
				e.Site = "commiterr"
			case prev != nil && c17HeaderCall(prev, "db", "Commit") && strings.Contains(e.Guard, "!= nil"):
				e.Site = "commiterr"
			case prev != nil && c17HeaderCall(prev, "db", "Begin") && strings.Contains(e.Guard, "!= nil"):
				e.Site = "begin"
			case ifs.Init != nil && c17CallIn(ifs.Init, "db", "Begin"):
				e.Site = "begin"
			case prev != nil && c17HeaderCall(prev, "parsing", "FormCondition") && strings.Contains(e.Guard, "!= nil"):
				e.Site = "formcond"
			case prev != nil && c17HeaderCall(prev, "", "Eval") && strings.Contains(e.Guard, "!= nil"):
				e.Site = "eval"
			case c17CallIn(ifs.Cond, "data", "BoolOrFalse"):
				e.Site = "condtrue"
			case e.Guard == "operationErr != nil":
				e.Site = "operr"
			}

			break
		}

		if e.Site == "other" && e.AfterCmt {
			e.Site = "success"
		}

		shape.Exits = append(shape.Exits, e)
	}

	walk = func(stmts []ast.Stmt, start int, owner ast.Stmt, path []frame) {
		for i := start; i < len(stmts); i++ {
			p := append(append([]frame{}, path...), frame{stmts, i, owner})

			var sub func(s ast.Stmt)

			sub = func(s ast.Stmt) {
				switch v := s.(type) {
				case *ast.ReturnStmt:
					classify(v, p)
				case *ast.BlockStmt:
					walk(v.List, 0, s, p)
				case *ast.IfStmt:
					walk(v.Body.List, 0, v, p)

					if v.Else != nil {
						switch e := v.Else.(type) {
						case *ast.BlockStmt:
							walk(e.List, 0, v, p)
						default:
							sub(e)
						}
					}
				case *ast.ForStmt:
					walk(v.Body.List, 0, v, p)
				case *ast.RangeStmt:
					walk(v.Body.List, 0, v, p)
				case *ast.SwitchStmt:
					for _, c := range v.Body.List {
						walk(c.(*ast.CaseClause).Body, 0, v, p)
					}
				case *ast.TypeSwitchStmt:
					for _, c := range v.Body.List {
						walk(c.(*ast.CaseClause).Body, 0, v, p)
					}
				case *ast.SelectStmt:
					for _, c := range v.Body.List {
						walk(c.(*ast.CommClause).Body, 0, v, p)
					}
				case *ast.LabeledStmt:
					sub(v.Stmt)
				}
			}

			sub(stmts[i])
		}
	}

	// the Begin statement itself may be `if err = db.Begin(); err != nil { return }`
	walk(region.List, beginIdx, nil, nil)

	// ---- Database.Commit / Rollback / Close
	for _, fn := range []string{"transaction.go", "open.go"} {
		g, err := parser.ParseFile(fset, filepath.Join(src, "internal/server/tables/database", fn), nil, 0)
		if err != nil {
			t.Fatal(err)
		}

		for _, d := range g.Decls {
			fd, ok := d.(*ast.FuncDecl)
			if !ok || fd.Recv == nil || fd.Body == nil {
				continue
			}

			switch fd.Name.Name {
			case "Commit", "Rollback":
				// order of: the driver call, `d.Transaction = nil`, and `if err != nil { return err }`
				call, clear, errret := -1, -1, -1

				for i, s := range fd.Body.List {
					txt := c17Src(fset, s)

					switch {
					case strings.Contains(txt, "d.Transaction."+fd.Name.Name+"()") && call < 0:
						call = i

						if _, isIf := s.(*ast.IfStmt); isIf {
							errret = i
						}

						if _, isRet := s.(*ast.ReturnStmt); isRet {
							errret = i
						}
					case txt == "d.Transaction = nil" && clear < 0:
						clear = i
					case call >= 0 && errret < 0 && strings.HasPrefix(txt, "if err != nil") && strings.Contains(txt, "return"):
						errret = i
					}
				}

				if call < 0 {
					t.Fatalf("anchor not found: d.Transaction.%s() in Database.%s", fd.Name.Name, fd.Name.Name)
				}

				ok := clear >= 0 && (errret < 0 || clear < errret)
				if fd.Name.Name == "Commit" {
					shape.CommitClearsOnErr = ok
				} else {
					shape.RollbackClearsErr = ok
				}
			case "Close":
				for _, s := range fd.Body.List {
					txt := c17Src(fset, s)
					if ifs, ok := s.(*ast.IfStmt); ok && c17Src(fset, ifs.Cond) == "d.Transaction != nil" && !shape.CloseClosesHandle {
						ends := false
						for _, b := range ifs.Body.List {
							if _, ok := b.(*ast.ReturnStmt); ok {
								ends = true
							}
						}

						if ends && !strings.Contains(c17Src(fset, ifs.Body), "Rollback") {
							shape.CloseSkipsOpenTx = true
						}
					}

					if strings.Contains(txt, "d.Handle.Close()") {
						shape.CloseClosesHandle = true
					}
				}
			}
		}
	}

	// ---- every statement of an operation goes through the Database shim, and the shim uses the transaction
	shim := 0

	for _, fn := range []string{"exec.go", "query.go"} {
		g, err := parser.ParseFile(fset, filepath.Join(src, "internal/server/tables/database", fn), nil, 0)
		if err != nil {
			t.Fatal(err)
		}

		for _, d := range g.Decls {
			fd, ok := d.(*ast.FuncDecl)
			if !ok || fd.Recv == nil || fd.Body == nil || (fd.Name.Name != "Exec" && fd.Name.Name != "Query") {
				continue
			}

			for _, st := range fd.Body.List {
				ifs, ok := st.(*ast.IfStmt)
				if !ok || c17Src(fset, ifs.Cond) != "d.Transaction != nil" || len(ifs.Body.List) != 1 {
					continue
				}

				if r, ok := ifs.Body.List[0].(*ast.ReturnStmt); ok && len(r.Results) == 1 &&
					strings.HasPrefix(c17Src(fset, r.Results[0]), "d.Transaction."+fd.Name.Name+"(sqlText") {
					shim++
				}
			}
		}
	}

	shape.ShimUsesTx = shim == 2
	shape.Bypass = []string{}

	files, _ := filepath.Glob(filepath.Join(src, "internal/server/tables/scripting/*.go"))
	sort.Strings(files)

	for _, fn := range files {
		if strings.HasSuffix(fn, "_test.go") {
			continue
		}

		g, err := parser.ParseFile(fset, fn, nil, 0)
		if err != nil {
			t.Fatal(err)
		}

		ast.Inspect(g, func(x ast.Node) bool {
			if sel, ok := x.(*ast.SelectorExpr); ok && (sel.Sel.Name == "Handle" || sel.Sel.Name == "Transaction") {
				shape.Bypass = append(shape.Bypass, fmt.Sprintf("%s:%d %s", filepath.Base(fn), fset.Position(sel.Pos()).Line, c17Src(fset, sel)))
			}

			return true
		})
	}

	sort.SliceStable(shape.Exits, func(i, j int) bool { return shape.Exits[i].Line < shape.Exits[j].Line })

	b, _ := json.MarshalIndent(shape, "", " ")
	if err := os.WriteFile(os.Getenv("VERIF_OUT"), b, 0o644); err != nil {
		t.Fatal(err)
	}
}
