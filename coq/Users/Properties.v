(* Users/Properties.v — property theorems of C31 only; proofs live in Proofs.v. *)
From Users Require Import Model Proofs.
From Common Require Import Base.
From Coq Require Import String.
Open Scope list_scope.
Open Scope N_scope.

(* The property as stated: for EVERY history both stores answer like one user map (restarts do nothing). *)
Definition C31_statement (admin : user) : Prop :=
  forall cap h, file_answers admin false h = spec_answers admin h /\ db_answers admin false cap h = spec_answers admin h.

(* For every default user, every capacity of the AuthCache (0 included) and every history of write / delete / read / list / permissions / has-permission /
   set-permission / flush / restart / cache purge that never deletes the default user, the file store and the
   database store (tree with fix c4473c50) both give exactly the answers of the abstract user map. *)
Theorem C31_both_refine_spec_partial :
  forall admin cap h, guard admin h = true ->
    file_answers admin false h = spec_answers admin h /\ db_answers admin false cap h = spec_answers admin h.
Proof. intros admin cap h Hg. split; [apply file_refines | apply db_refines]; exact Hg. Qed.

Theorem C31_stores_agree_partial :
  forall admin cap h, guard admin h = true -> file_answers admin false h = db_answers admin false cap h.
Proof. intros admin cap h Hg. rewrite file_refines, (db_refines admin cap) by exact Hg. reflexivity. Qed.

(* a flush + close + reopen (fresh cache) inserted at any point changes no later (or earlier) answer, on either store *)
Theorem C31_reopen_partial :
  forall admin cap h1 h2, guard admin (h1 ++ h2) = true ->
    exists l1 l2, List.length l1 = List.length h1 /\
      file_answers admin false (h1 ++ h2) = l1 ++ l2 /\
      file_answers admin false (h1 ++ OReopen :: h2) = l1 ++ AOk :: l2 /\
      db_answers admin false cap (h1 ++ h2) = l1 ++ l2 /\
      db_answers admin false cap (h1 ++ OReopen :: h2) = l1 ++ AOk :: l2.
Proof.
  intros admin cap h1 h2 Hg.
  assert (Hg' : guard admin (h1 ++ OReopen :: h2) = true).
  { rewrite guard_app in *. apply andb_true_iff in Hg as [G1 G2]. rewrite G1. cbn. exact G2. }
  destruct (spec_reopen admin h1 h2) as (l1 & l2 & HL & HA & HB).
  exists l1, l2. rewrite !file_refines, !(db_refines admin cap) by assumption. repeat split; assumption.
Qed.

(* without the guard the statement fails: the database store re-creates a deleted default user on every start,
   the file store only when no user is left (known finding default-user-recreated-on-reopen) *)
Theorem C31_default_user_refuted :
  exists h, file_answers demo_admin false h <> db_answers demo_admin false 1000 h.
Proof. exists witness_default. exact default_user_refuted. Qed.

(* the pinned setPermission (u.Permissions == nil) is refuted inside the guard *)
Theorem C31_old_refuted :
  exists h h', guard demo_admin h = true /\
    file_answers demo_admin true h <> db_answers demo_admin true 1000 h /\
    last (file_answers demo_admin true h) AOk <> last (file_answers demo_admin true h') AOk.
Proof. exists witness_old, witness_old_noreopen. exact old_refuted. Qed.

Example C31_nonvacuous :
  let h := [OWrite (bob (Some [L "logon"])); OSetPerm (L "bob") (L "LOGON") false; OPerms (L "bob"); OReopen;
            OSetPerm (L "bob") (L "X") true; OCacheDrop; OPerms (L "bob"); ODelete (L "bob"); ORead (L "bob"); OList] in
  guard demo_admin h = true /\
  file_answers demo_admin false h =
    [AOk; AOk; APerms []; AOk; AOk; AOk; APerms [L "logon"; L "x"]; AOk; AUser None; AUsers [demo_admin]] /\
  db_answers demo_admin false 1 h = file_answers demo_admin false h /\
  db_answers demo_admin false 1000 h = file_answers demo_admin false h.
Proof. vm_compute. repeat split; reflexivity. Qed.
