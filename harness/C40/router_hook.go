//go:build verif

package router

// Overlaid into /repo/internal/router by /verif/check C40 together with an instrumented copy of
// serve.go whose reportRequestPanic calls verifC40Record first: the last-resort recovery becomes
// observable (a panic is reported, not masked as a 500).

import (
	"fmt"
	"net/http"
	"runtime/debug"
	"strings"
	"sync"
)

var (
	verifC40Mu     sync.Mutex
	verifC40Panics []string
)

func verifC40Record(r *http.Request, panicValue any) {
	frames := []string{}

	for _, l := range strings.Split(string(debug.Stack()), "\n") {
		l = strings.TrimSpace(l)
		if !strings.HasPrefix(l, "github.com/tucats/ego/") || strings.Contains(l, "verifC40") ||
			strings.Contains(l, "reportRequestPanic") || strings.Contains(l, "ServeHTTP") {
			continue
		}

		if k := strings.LastIndex(l, "("); k > 0 {
			l = l[:k]
		}

		frames = append(frames, strings.TrimPrefix(l, "github.com/tucats/ego/internal/"))
		if len(frames) >= 4 {
			break
		}
	}

	verifC40Mu.Lock()
	verifC40Panics = append(verifC40Panics, fmt.Sprintf("%v @ %s", panicValue, strings.Join(frames, " < ")))
	verifC40Mu.Unlock()
}

// VerifC40Take returns and clears the panics seen by the router's recovery since the last call.
func VerifC40Take() []string {
	verifC40Mu.Lock()
	defer verifC40Mu.Unlock()

	p := verifC40Panics
	verifC40Panics = nil

	return p
}
